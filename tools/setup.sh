#!/bin/sh
# Warm the Go build cache for the harness (offline). Every check rebuilds against /repo's current tree anyway.
set -e
cd "$(dirname "$0")/../harness"
export GOFLAGS=-mod=mod GOPROXY=off
cp /repo/go.sum go.sum 2>/dev/null || true
go build -tags verif -o /dev/null ./cmd/... 
echo "setup ok"
