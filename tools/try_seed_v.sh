#!/bin/bash
# try_seed_v.sh <property> <seed-dir> [tier]  -- like try_seed.sh but also shows divergence notes (which signatures other checks would count)
PID=$1; SEED=$(realpath $2); TIER=${3:-quick}
WT=$(mktemp -d /tmp/wt.try.XXXX); rmdir $WT
git -C /repo worktree add -q $WT HEAD || exit 2
( cd $WT && git apply $SEED/patch.diff ) || { echo "patch does not apply"; git -C /repo worktree remove --force $WT; exit 2; }
cd /verif && VERIF_REPO=$WT timeout 1500 ./vcheck $PID --tier $TIER > /tmp/try_v.$$.log 2>&1
grep "RESULT\|VIOLATION\|FAILURE\|INFRA" /tmp/try_v.$$.log | cut -c1-300 | head -6
echo "-- divergence notes by signature:"
grep "^DIVERGENCE" /tmp/try_v.$$.log | awk '{print $2}' | sort | uniq -c | sort -rn | head
grep "^DIVERGENCE" /tmp/try_v.$$.log | head -3 | cut -c1-400
rm -f /tmp/try_v.$$.log
git -C /repo worktree remove --force $WT
