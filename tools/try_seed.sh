#!/bin/bash
# try_seed.sh <property> <seed-dir> [tier]  -- run a check against a seeded change in a scratch worktree
PID=$1; SEED=$(realpath $2); TIER=${3:-quick}
WT=$(mktemp -d /tmp/wt.try.XXXX); rmdir $WT
git -C /repo worktree add -q $WT HEAD || exit 2
( cd $WT && git apply $SEED/patch.diff ) || { echo "patch does not apply"; git -C /repo worktree remove --force $WT; exit 2; }
cd /verif && VERIF_REPO=$WT timeout 900 ./vcheck $PID --tier $TIER 2>&1 | grep "RESULT\|VIOLATION\|FAILURE\|INFRA\|KNOWN" | cut -c1-300 | head -8
git -C /repo worktree remove --force $WT
