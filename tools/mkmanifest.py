#!/usr/bin/env python3
"""Regenerates /verif/MANIFEST.json from the table below (one entry per claimed property)."""
import json
import os
import subprocess

HERE = os.path.dirname(os.path.dirname(os.path.abspath(__file__)))
ALL = ["C%02d" % i for i in range(1, 21)]

CLAIMED = {
    "C05": dict(
        text="TLC exhaustively checks spec/TaskQueue (slice operations as the code performs them next to an ordinary list, "
             "worker loop at gate granularity, public operations interleaved between pick and result application) for "
             "NoEmptySlot/ListFaithful/HeadFirst/FailKeepsPosition; TLC-generated behaviours are replayed step by step on the real "
             "queue.TaskQueue with Iterate/Length/GetFirst/GetLast/Get compared after every step; free-running concurrent runs are "
             "recorded under the queue lock and validated by TLC against TaskQueueTrace.tla.",
        note="Trusts TLC, the gate hooks (add-only, tag verif) and the Go runtime. Bounds: 3+2 ids, queue length <= 4-5, <= 12 public operations "
             "per behaviour. 'Insert next to a missing id' is specified as 'no change' (container/list semantics); other policies without an "
             "empty slot are reported as divergence, not violation.",
        technique="TLA+ spec + TLC exhaustive check; behaviour replay into the real queue; TLC trace validation of recorded runs",
        design="5/C05"),
    "C17": dict(
        text="TLC checks NoLateStart (invariant) on spec/TaskQueue with Stop enabled at every worker position and Go's select modelled as a "
             "nondeterministic choice, and TerminatesAfterStop under weak fairness (thorough); behaviours with Stop at every gate are replayed "
             "on the real worker goroutine (gate hooks), with ticker and cancelled context both ready at the wait-loop select.",
        note="Queue level (task_queue.go). 'Picked' is linearised at the last context check before waitForTask returns. The select race is "
             "probabilistic in Go: each behaviour exercises it once, hundreds of behaviours per run.",
        technique="TLA+ spec + TLC exhaustive check incl. liveness; gate-scheduled schedule replay on the real worker goroutine",
        design="5/C17"),
}

NA_REASON = "check not built yet (work in progress; see DESIGN.md section 5 for the planned specification and binding)"


def main():
    commits = subprocess.run(["git", "-C", "/repo", "log", "--format=%h %s", "--grep=^verif:"], stdout=subprocess.PIPE).stdout.decode().split("\n")
    commits = [c.split()[0] for c in commits if c.strip()]
    checks = []
    for pid in ALL:
        if pid not in CLAIMED:
            continue
        c = CLAIMED[pid]
        checks.append({
            "property_id": pid,
            "quick_cmd": "./vcheck %s --tier quick" % pid,
            "thorough_cmd": "./vcheck %s --tier thorough" % pid,
            "evidence_file": "/verif/evidence/%s.json" % pid,
            "replay_cmd_template": "./vcheck %s --replay {path}" % pid,
            "engine": "tlc+go-harness",
            "level_claimed": {"category": c.get("category", "model_checking"), "text": c["text"], "design_ref": "DESIGN.md section " + c["design"]},
            "level_note": c["note"],
            "technique": c["technique"],
        })
    m = {
        "version": 1,
        "setup_cmd": "./tools/setup.sh",
        "hooks": {
            "guard": "verif",
            "enable": "go build -tags verif (harness module /verif/harness with `replace github.com/flant/shell-operator => /repo`)",
            "baseline_off_cmd": "cd /repo && go test -vet=off -count=1 -timeout 25m ./...",
            "source_commits": commits,
            "add_only": True,
        },
        "engines": [
            {"name": "tlc+go-harness", "path": "/verif/vcheck", "serves_properties": sorted(CLAIMED.keys()),
             "kind_free_text": "explicit TLA+ specifications under /verif/spec checked with TLC; bound to the code by behaviour/case replay, "
                               "gate-scheduled schedule replay and TLC trace validation through the Go harness in /verif/harness"},
        ],
        "checks": checks,
        "notes": "Exit codes: 0 held, 1 VIOLATION, 2 infrastructure failure. Known findings: /verif/known_findings.json.",
        "not_applicable": [{"property_id": p, "reason": NA.get(p, NA_REASON)} for p in ALL if p not in CLAIMED],
    }
    with open(os.path.join(HERE, "MANIFEST.json"), "w") as f:
        json.dump(m, f, indent=1)
    print("MANIFEST.json: %d checks, %d not_applicable" % (len(checks), len(m["not_applicable"])))


NA = {}

if __name__ == "__main__":
    main()
