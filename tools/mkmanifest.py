#!/usr/bin/env python3
"""Regenerates /verif/MANIFEST.json from the table below (one entry per claimed property)."""
import json
import os
import subprocess
import sys

HERE = os.path.dirname(os.path.dirname(os.path.abspath(__file__)))
ALL = ["C%02d" % i for i in range(1, 21)]

sys.path.insert(0, os.path.join(HERE, "lib"))
sys.path.insert(0, os.path.join(HERE, "checks"))
import registry  # noqa: E402

ENABLED = set(open(os.path.join(HERE, "checks", "enabled.txt")).read().split())
CLAIMED = {k: v for k, v in registry.MANIFEST.items() if k in ENABLED}  # checks the lead has reviewed and released

NA_REASON = "check not built yet (work in progress; see DESIGN.md section 5 for the planned specification and binding)"


def main():
    commits = subprocess.run(["git", "-C", "/repo", "log", "--format=%h %s", "--grep=^verif:"], stdout=subprocess.PIPE).stdout.decode().split("\n")
    commits = [c.split()[0] for c in commits if c.strip()]
    checks = []
    for pid in ALL:
        if pid not in CLAIMED:
            continue
        c = CLAIMED[pid]
        checks.append({
            "property_id": pid,
            "quick_cmd": "./vcheck %s --tier quick" % pid,
            "thorough_cmd": "./vcheck %s --tier thorough" % pid,
            "evidence_file": "/verif/evidence/%s.json" % pid,
            "replay_cmd_template": "./vcheck %s --replay {path}" % pid,
            "engine": "tlc+go-harness",
            "level_claimed": {"category": c.get("category", "model_checking"), "text": c["text"], "design_ref": "DESIGN.md section " + c["design"]},
            "level_note": c["note"],
            "technique": c["technique"],
        })
    m = {
        "version": 1,
        "setup_cmd": "./tools/setup.sh",
        "hooks": {
            "guard": "verif",
            "enable": "go build -tags verif (harness module /verif/harness with `replace github.com/flant/shell-operator => /repo`)",
            "baseline_off_cmd": "cd /repo && go test -vet=off -count=1 -timeout 25m ./...",
            "source_commits": commits,
            "add_only": True,
        },
        "engines": [
            {"name": "tlc+go-harness", "path": "/verif/vcheck", "serves_properties": sorted(CLAIMED.keys()),
             "kind_free_text": "explicit TLA+ specifications under /verif/spec checked with TLC; bound to the code by behaviour/case replay, "
                               "gate-scheduled schedule replay and TLC trace validation through the Go harness in /verif/harness"},
        ],
        "checks": checks,
        "notes": "Exit codes: 0 held, 1 VIOLATION, 2 infrastructure failure. Known findings: /verif/known_findings.json.",
        "not_applicable": [{"property_id": p, "reason": NA.get(p, NA_REASON)} for p in ALL if p not in CLAIMED],
    }
    with open(os.path.join(HERE, "MANIFEST.json"), "w") as f:
        json.dump(m, f, indent=1)
    print("MANIFEST.json: %d checks, %d not_applicable" % (len(checks), len(m["not_applicable"])))


NA = {}

if __name__ == "__main__":
    main()
