#!/bin/bash
# soak.sh <tier> <seeds...>  -- run every released check on the unchanged tree; one line per run (development aid)
TIER=$1; shift
cd /verif
for seed in "$@"; do
  for p in $(cat checks/enabled.txt); do
    s=$(date +%s)
    timeout 7200 ./vcheck $p --tier $TIER --seed $seed > /tmp/soak_${TIER}_${p}_$seed.log 2>&1
    rc=$?
    echo "$p tier=$TIER seed=$seed rc=$rc $(( $(date +%s) - s ))s $(grep -c '^DIVERGENCE' /tmp/soak_${TIER}_${p}_$seed.log) divergences; $(grep 'RESULT\|INFRASTRUCTURE' /tmp/soak_${TIER}_${p}_$seed.log | cut -c1-160)"
  done
done
