#!/bin/bash
# confirm_seed.sh <seed-dir> <demo-package-dir-relative-to-repo> [test-run-regex]
# Confirms a seeded change: with the patch the repository builds and its tests pass while the demo fails;
# without the patch the demo passes. Works in a scratch worktree that is removed afterwards.
set -u
SEED=$(realpath "$1"); PKG="$2"; RUN="${3:-.}"; TAGS="${TAGS:-}"   # TAGS="-tags verif" for demos that use the verif shims
export GOFLAGS=-mod=mod GOPROXY=off
WT=$(mktemp -d /tmp/wt.confirm.XXXX); rmdir "$WT"
git -C /repo worktree add -q "$WT" HEAD || exit 2
cleanup() { git -C /repo worktree remove --force "$WT" >/dev/null 2>&1; }
trap cleanup EXIT
cd "$WT"
DEMO=$(ls "$SEED"/demo*_test.go "$SEED"/demo*.go 2>/dev/null | head -1)
cp "$DEMO" "$PKG/zz_demo_seed_test.go"
go test $TAGS -count=1 -run "$RUN" "./$PKG/" >/tmp/confirm.$$.clean 2>&1; clean_rc=$?
rm -f "$PKG/zz_demo_seed_test.go"
git apply "$SEED/patch.diff" || { echo "RESULT patch does not apply"; exit 2; }
go build ./... >/tmp/confirm.$$.build 2>&1; build_rc=$?
go test -vet=off -count=1 ./pkg/... ./test/... >/tmp/confirm.$$.tests 2>&1; tests_rc=$?
cp "$DEMO" "$PKG/zz_demo_seed_test.go"
go test $TAGS -count=1 -run "$RUN" "./$PKG/" >/tmp/confirm.$$.mut 2>&1; mut_rc=$?
echo "RESULT seed=$SEED demo_clean_rc=$clean_rc build_rc=$build_rc tests_rc=$tests_rc demo_with_patch_rc=$mut_rc"
if [ $clean_rc -eq 0 ] && [ $build_rc -eq 0 ] && [ $tests_rc -eq 0 ] && [ $mut_rc -ne 0 ]; then echo CONFIRMED; else echo NOT-CONFIRMED; grep -h "FAIL\|panic" /tmp/confirm.$$.tests | head -5; fi
rm -f /tmp/confirm.$$.*
