\* C08: per-object histories of <= 4 changes + 2 redeliveries over {absent, p1r1, p1r2, p2r1}; fire decisions and cache
SPECIFICATION Spec
CONSTANTS
  Objs = {"o1"}
  Vals = {"p1r1", "p1r2", "p2r1"}
  NONE = "none"
  PMChoices = {"p", "whole", "const"}
  ETChoices = {{"A", "M", "D"}, {"A", "M"}, {"A", "D"}, {"M", "D"}, {"A"}, {"M"}, {"D"}, {}}
  MaxChanges = 3
  MaxResync = 2
  MaxOtherReads = 0
  MaxSyncFail = 0
  Others = {}
  FixF1 = TRUE
  FixF2 = TRUE
  FixF3 = TRUE
VIEW View
INVARIANTS NoEarlyEvent NoLoss Ordered Reconstruct CacheFollows FireOnlyIf FireIf
CHECK_DEADLOCK FALSE
