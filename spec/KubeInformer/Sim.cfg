SPECIFICATION SimSpec
CONSTANTS
  Objs = {"o1", "o2"}
  Vals = {"p1r1", "p1r2", "p2r1"}
  NONE = "none"
  PMChoices = {"p"}
  ETChoices = {{"A", "M", "D"}, {"A", "M", "D"}, {"A", "D"}, {"M"}}
  MaxChanges = 5
  MaxResync = 1
  MaxOtherReads = 2
  MaxSyncFail = 1
  Others = {"r2"}
  FixF1 = TRUE
  FixF2 = TRUE
  FixF3 = TRUE
CHECK_DEADLOCK FALSE
