---------------------------- MODULE KubeDelivery ----------------------------
(* Trace validation at manager level (C01): cluster mutations issued against the fake cluster and the events the
   real KubeEventsManager handed to its consumer (through client-go informers, the monitor's event callback and the
   capacity-1 channel), recorded in real-time order.  Every mutation changes the object, the binding has no filter and
   lists all three event types, events are unlocked: so per object the delivered events must be exactly the
   mutations, in order, each once, with the right watch-event type; at the end of a run nothing may be missing. *)
EXTENDS Integers, Sequences, FiniteSets, TLC, Json

CONSTANT TraceFile
VARIABLES l, pending, present, ok, why

Trace == ndJsonDeserialize(TraceFile)
Objs == {"o1", "o2", "o3"}

Init == l = 1 /\ pending = [o \in Objs |-> <<>>] /\ present = [o \in Objs |-> FALSE] /\ ok = TRUE /\ why = "ok"

ExpectedType(o, v) == IF v = "none" THEN "Deleted" ELSE IF present[o] THEN "Modified" ELSE "Added"

Step(e) ==
  CASE e.e = "reset" -> /\ pending' = [o \in Objs |-> <<>>] /\ present' = [o \in Objs |-> FALSE] /\ UNCHANGED <<ok, why>>
    [] e.e = "mut"   -> /\ pending' = [pending EXCEPT ![e.o] = Append(@, e.v)] /\ UNCHANGED <<present, ok, why>>
    [] e.e = "dlv"   -> IF pending[e.o] # <<>> /\ Head(pending[e.o]) = e.v /\ e.t = ExpectedType(e.o, e.v)
                          THEN /\ pending' = [pending EXCEPT ![e.o] = Tail(@)]
                               /\ present' = [present EXCEPT ![e.o] = (e.v # "none")] /\ UNCHANGED <<ok, why>>
                          ELSE /\ ok' = FALSE
                               /\ why' = (IF pending[e.o] = <<>> THEN "unexpected-event"
                                          ELSE IF Head(pending[e.o]) # e.v THEN "out-of-order-or-lost" ELSE "wrong-type")
                               /\ UNCHANGED <<pending, present>>
    [] e.e = "end"   -> /\ ok' = (ok /\ \A o \in Objs : pending[o] = <<>>)
                        /\ why' = (IF \A o \in Objs : pending[o] = <<>> THEN why ELSE "lost")
                        /\ UNCHANGED <<pending, present>>
    [] OTHER -> /\ ok' = FALSE /\ why' = "unknown-record" /\ UNCHANGED <<pending, present>>

Next == l <= Len(Trace) /\ ok /\ Step(Trace[l]) /\ l' = l + 1
Spec == Init /\ [][Next]_<<l, pending, present, ok, why>>
Conforms == ok
=============================================================================
