\* code after the fixes: the second-reader reset (F3, known finding) still loses events - TLC must find it
SPECIFICATION Spec
CONSTANTS
  Objs = {"o1"}
  Vals = {"p1r1", "p1r2", "p2r1"}
  NONE = "none"
  PMChoices = {"p"}
  ETChoices = {{"A", "M", "D"}}
  MaxChanges = 3
  MaxResync = 1
  MaxOtherReads = 2
  MaxSyncFail = 1
  Others = {"r2"}
  FixF1 = TRUE
  FixF2 = TRUE
  FixF3 = FALSE
VIEW View
INVARIANTS NoLoss
CHECK_DEADLOCK FALSE
