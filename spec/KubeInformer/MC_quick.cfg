\* exhaustive; code after the fix commits; 1 object x 2 projections (+1 rest variant), 3 changes, 1 resync, sync reader + 1 other reader (2 reads), <= 1 failed Synchronization
SPECIFICATION Spec
CONSTANTS
  Objs = {"o1"}
  Vals = {"p1r1", "p1r2", "p2r1"}
  NONE = "none"
  PMChoices = {"p"}
  ETChoices = {{"A", "M", "D"}}
  MaxChanges = 3
  MaxResync = 1
  MaxOtherReads = 2
  MaxSyncFail = 1
  Others = {"r2"}
  FixF1 = TRUE
  FixF2 = TRUE
  FixF3 = TRUE
VIEW View
INVARIANTS NoEarlyEvent NoLoss NoStrandedEvent Ordered Reconstruct CacheFollows
CHECK_DEADLOCK FALSE
