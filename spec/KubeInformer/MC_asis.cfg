\* the pinned commit (separate copy/reset and flag/append sections): TLC must find a loss that is not the second-reader reset (F1 or F2)
SPECIFICATION Spec
CONSTANTS
  Objs = {"o1"}
  Vals = {"p1r1", "p1r2", "p2r1"}
  NONE = "none"
  PMChoices = {"p"}
  ETChoices = {{"A", "M", "D"}}
  MaxChanges = 3
  MaxResync = 1
  MaxOtherReads = 2
  MaxSyncFail = 1
  Others = {"r2"}
  FixF1 = FALSE
  FixF2 = FALSE
  FixF3 = FALSE
VIEW View
INVARIANTS NoLossExceptSecondReader
CHECK_DEADLOCK FALSE
