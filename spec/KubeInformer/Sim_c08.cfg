SPECIFICATION SimSpec
CONSTANTS
  Objs = {"o1", "o2"}
  Vals = {"p1r1", "p1r2", "p2r1"}
  NONE = "none"
  PMChoices = {"p", "whole", "const"}
  ETChoices = {{"A", "M", "D"}, {"A", "M"}, {"A", "D"}, {"M", "D"}, {"A"}, {"M"}, {"D"}, {}}
  MaxChanges = 6
  MaxResync = 2
  MaxOtherReads = 0
  MaxSyncFail = 0
  Others = {}
  FixF1 = TRUE
  FixF2 = TRUE
  FixF3 = TRUE
CHECK_DEADLOCK FALSE
