SPECIFICATION Spec
CONSTANTS
  TraceFile = "delivery.ndjson"
INVARIANTS Conforms
CHECK_DEADLOCK FALSE
