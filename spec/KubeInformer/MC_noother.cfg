\* exhaustive; no reader besides the Synchronization run: NoLoss holds without exception
SPECIFICATION Spec
CONSTANTS
  Objs = {"o1"}
  Vals = {"p1r1", "p1r2", "p2r1"}
  NONE = "none"
  PMChoices = {"p"}
  ETChoices = {{"A", "M", "D"}}
  MaxChanges = 3
  MaxResync = 1
  MaxOtherReads = 2
  MaxSyncFail = 1
  Others = {}
  FixF1 = TRUE
  FixF2 = TRUE
  FixF3 = TRUE
VIEW View
INVARIANTS NoEarlyEvent NoLoss NoStrandedEvent Ordered Reconstruct CacheFollows
CHECK_DEADLOCK FALSE
