---------------------------- MODULE KubeInformer ----------------------------
(***************************************************************************)
(* One resourceInformer of a kubernetes binding together with the          *)
(* Synchronization protocol around it, at lock granularity:                *)
(*                                                                         *)
(*   client-go delivery goroutine  -> handleWatchEvent                     *)
(*        HW_UpdateCache   [cacheLock]   cache update + skip decision      *)
(*        HW_Decide        [eventBufLock] read eventCbEnabled; buffer the  *)
(*                         event or go on to deliver it (FixF2 = TRUE),    *)
(*        HW_ReadFlag / HW_Append  the two separate critical sections of   *)
(*                         the pinned commit (FixF2 = FALSE)               *)
(*        HW_Put           blocking send to the event channel (cap 1)      *)
(*   snapshot readers              -> getCachedObjects                     *)
(*        GC_CopyReset     copy + buffer reset in one critical section     *)
(*                         (FixF1 = TRUE), GC_Copy / GC_Reset otherwise    *)
(*   Synchronization run (main queue worker): SYNC_Start (its reader),     *)
(*        SYNC_HookRuns, SYNC_HookDone(ok|fail), then the unlock:          *)
(*        EN_Begin [eventBufLock taken, flag set], EN_Put*, (EN_End)       *)
(*   other readers of the same binding at any time (another binding's      *)
(*        includeSnapshotsFrom in another queue, admission hook, debug)    *)
(*   Consume: the single consumer of the event channel                     *)
(*   cluster changes and client-go redelivery (resync) feed watchQ         *)
(*                                                                         *)
(* Objects carry an abstract state "pXrY": pX is the binding's projection  *)
(* (jqFilter result or whole object), rY the rest.                         *)
(***************************************************************************)
EXTENDS Integers, Sequences, FiniteSets, TLC

CONSTANTS Objs, Vals, NONE,
          PMChoices,        \* set of projection modes the binding may have ("p", "whole", "const")
          ETChoices,        \* set of executeHookOnEvent values (subsets of {"A","M","D"})
          MaxChanges, MaxResync, MaxOtherReads, MaxSyncFail,
          Others,           \* ids of the other readers
          FixF1, FixF2,     \* TRUE: the code after the fix commits
          FixF3             \* TRUE: readers only read; the Synchronization run drops the saved events BEFORE it reads

VARIABLES cluster, nchg, nres, watchQ,
          cache, buf, enabled, ch,
          hpc, hev, hflag,
          rpc, rcopy, nreads,
          syncSt, syncView, syncFails,
          epc, eidx,
          delivered, decided, ndec, copyAt, cause, early,
          cfgv,      \* the binding's configuration, chosen in Init: [pm |-> projection mode, et |-> event types]
          act

ProjMode == cfgv.pm
EventTypes == cfgv.et

vars == <<cluster, nchg, nres, watchQ, cache, buf, enabled, ch, hpc, hev, hflag, rpc, rcopy, nreads,
          syncSt, syncView, syncFails, epc, eidx, delivered, decided, ndec, copyAt, cause, early, cfgv, act>>
\* history / observation variables are not part of the view
View == <<cluster, nchg, nres, watchQ, cache, buf, enabled, ch, hpc, hev, hflag, rpc, rcopy, nreads,
          syncSt, syncView, syncFails, epc, eidx, copyAt, cause, early,
          delivered, ndec, cfgv>>

SyncReader == "sync"
Readers == {SyncReader} \cup Others
\* the binding's projection: "p" = jqFilter selecting the p part, "whole" = no jqFilter (the whole object),
\* "const" = a jqFilter whose result does not depend on the object
Proj(v) == IF v = NONE THEN NONE
           ELSE CASE ProjMode = "p" -> SubSeq(v, 1, 2) [] ProjMode = "whole" -> v [] OTHER -> "c"
Fires(t) == t \in EventTypes

Init ==
  /\ cluster = [o \in Objs |-> NONE] /\ nchg = 0 /\ nres = 0 /\ watchQ = <<>>
  /\ cache = [o \in Objs |-> NONE] /\ buf = <<>> /\ enabled = FALSE /\ ch = <<>>
  /\ hpc = "idle" /\ hev = NONE /\ hflag = FALSE
  /\ rpc = [r \in Readers |-> "idle"] /\ rcopy = [r \in Readers |-> NONE] /\ nreads = 0
  /\ syncSt = "init" /\ syncView = NONE /\ syncFails = 0
  /\ epc = "idle" /\ eidx = 0
  /\ delivered = <<>> /\ decided = <<>> /\ ndec = 0 /\ copyAt = 0 /\ cause = {} /\ early = FALSE
  /\ act = <<"Init">>
  /\ cfgv \in [pm : PMChoices, et : ETChoices]

(* ---------------- cluster and client-go ---------------- *)
Change(o, v) ==
  /\ nchg < MaxChanges /\ cluster[o] # v
  /\ LET t == IF v = NONE THEN "D" ELSE IF cluster[o] = NONE THEN "A" ELSE "M" IN
       watchQ' = Append(watchQ, [t |-> t, o |-> o, v |-> v])
  /\ cluster' = [cluster EXCEPT ![o] = v] /\ nchg' = nchg + 1
  /\ act' = <<"Change", o, v>>
  /\ UNCHANGED <<nres, cache, buf, enabled, ch, hpc, hev, hflag, rpc, rcopy, nreads, syncSt, syncView, syncFails, epc, eidx,
                 delivered, decided, ndec, copyAt, cause, early>>

\* resync / relist: the unchanged object is delivered again as an update
Resync(o) ==
  /\ nres < MaxResync /\ cluster[o] # NONE
  /\ watchQ' = Append(watchQ, [t |-> "M", o |-> o, v |-> cluster[o]])
  /\ nres' = nres + 1 /\ act' = <<"Resync", o>>
  /\ UNCHANGED <<cluster, nchg, cache, buf, enabled, ch, hpc, hev, hflag, rpc, rcopy, nreads, syncSt, syncView, syncFails, epc, eidx,
                 delivered, decided, ndec, copyAt, cause, early>>

(* ---------------- handleWatchEvent ---------------- *)
BufFree == epc = "idle"        \* eventBufLock is held by the enabler during its whole replay

\* cache critical section: the cache always follows; the event is skipped when the projection is unchanged
HW_UpdateCache ==
  /\ hpc = "idle" /\ watchQ # <<>>
  /\ LET e == Head(watchQ)
         skip == e.t # "D" /\ cache[e.o] # NONE /\ Proj(cache[e.o]) = Proj(e.v)
         fire == ~skip /\ Fires(e.t)
     IN
     /\ watchQ' = Tail(watchQ)
     /\ cache' = [cache EXCEPT ![e.o] = e.v]
     /\ act' = <<"HW_UpdateCache", e.t, e.o, e.v, IF skip THEN "skip" ELSE IF fire THEN "fire" ELSE "filtered">>
     /\ decided' = Append(decided, [t |-> e.t, o |-> e.o, v |-> e.v, prev |-> cache[e.o], n |-> IF fire THEN ndec + 1 ELSE 0])
     /\ ndec' = IF fire THEN ndec + 1 ELSE ndec
     /\ IF skip
          THEN /\ hpc' = "idle" /\ hev' = NONE
          ELSE IF fire
            THEN /\ hpc' = "decide" /\ hev' = [t |-> e.t, o |-> e.o, v |-> e.v, n |-> ndec + 1]
            ELSE /\ hpc' = "nofire" /\ hev' = NONE
  /\ UNCHANGED <<cluster, nchg, nres, buf, enabled, ch, hflag, rpc, rcopy, nreads, syncSt, syncView, syncFails, epc, eidx,
                 delivered, copyAt, cause, early>>

\* event type not listed in executeHookOnEvent: the call returns
HW_NoFire ==
  /\ hpc = "nofire" /\ hpc' = "idle" /\ act' = <<"HW_NoFire">>
  /\ UNCHANGED <<cluster, nchg, nres, watchQ, cache, buf, enabled, ch, hev, hflag, rpc, rcopy, nreads, syncSt, syncView, syncFails,
                 epc, eidx, delivered, decided, ndec, copyAt, cause, early>>

\* FixF2: flag read and buffering in ONE critical section
HW_Decide ==
  /\ FixF2 /\ hpc = "decide" /\ BufFree
  /\ IF enabled
       THEN /\ hpc' = "put" /\ UNCHANGED <<buf, hev>>
       ELSE /\ buf' = Append(buf, hev) /\ hpc' = "idle" /\ hev' = NONE
  /\ act' = <<"HW_Decide", enabled>>
  /\ UNCHANGED <<cluster, nchg, nres, watchQ, cache, enabled, ch, hflag, rpc, rcopy, nreads, syncSt, syncView, syncFails,
                 epc, eidx, delivered, decided, ndec, copyAt, cause, early>>

\* pinned commit: the flag is read in one critical section ...
HW_ReadFlag ==
  /\ ~FixF2 /\ hpc = "decide" /\ BufFree
  /\ hflag' = enabled /\ hpc' = IF enabled THEN "put" ELSE "append"
  /\ act' = <<"HW_ReadFlag", enabled>>
  /\ UNCHANGED <<cluster, nchg, nres, watchQ, cache, buf, enabled, ch, hev, rpc, rcopy, nreads, syncSt, syncView, syncFails,
                 epc, eidx, delivered, decided, ndec, copyAt, cause, early>>

\* ... and the event is buffered in another one
HW_Append ==
  /\ ~FixF2 /\ hpc = "append" /\ BufFree
  /\ buf' = Append(buf, hev) /\ hpc' = "idle" /\ hev' = NONE
  /\ cause' = IF enabled THEN cause \cup {<<hev.n, "stale-flag-append">>} ELSE cause
  /\ act' = <<"HW_Append">>
  /\ UNCHANGED <<cluster, nchg, nres, watchQ, cache, enabled, ch, hflag, rpc, rcopy, nreads, syncSt, syncView, syncFails,
                 epc, eidx, delivered, decided, ndec, copyAt, early>>

HW_Put ==
  /\ hpc = "put" /\ Len(ch) < 1
  /\ ch' = Append(ch, hev) /\ hpc' = "idle" /\ hev' = NONE
  /\ act' = <<"HW_Put">>
  /\ UNCHANGED <<cluster, nchg, nres, watchQ, cache, buf, enabled, hflag, rpc, rcopy, nreads, syncSt, syncView, syncFails,
                 epc, eidx, delivered, decided, ndec, copyAt, cause, early>>

(* ---------------- getCachedObjects by reader r ---------------- *)
ResetCauses(r, at) ==
  {<<buf[i].n, IF r = SyncReader THEN "reset-after-late-append" ELSE "second-reader-reset">> :
       i \in {j \in 1..Len(buf) : r # SyncReader \/ buf[j].n > at}}

\* FixF1: copy and reset under eventBufLock
GC_CopyReset(r) ==
  /\ FixF1 /\ ~FixF3 /\ rpc[r] = "want" /\ BufFree
  /\ rcopy' = [rcopy EXCEPT ![r] = [c |-> cache, at |-> ndec]]
  /\ IF enabled THEN UNCHANGED <<buf, cause>>
     ELSE /\ buf' = <<>> /\ cause' = cause \cup ResetCauses(r, ndec)
  /\ rpc' = [rpc EXCEPT ![r] = "done"]
  /\ act' = <<"GC_CopyReset", r>>
  /\ UNCHANGED <<cluster, nchg, nres, watchQ, cache, enabled, ch, hpc, hev, hflag, nreads, syncSt, syncView, syncFails,
                 epc, eidx, delivered, decided, ndec, copyAt, early>>

\* FixF3 (taskHandleHookRun + dropSavedEvents / getCachedObjects): the Synchronization run drops what was saved so far under
\* eventBufLock and reads the cache afterwards; an event saved in between is in the view AND is replayed later (told twice,
\* never lost). Every other reader only reads the cache (cacheLock only).
GC_Drop(r) ==
  /\ FixF3 /\ r = SyncReader /\ rpc[r] = "want" /\ BufFree
  /\ buf' = IF enabled THEN buf ELSE <<>>
  /\ rpc' = [rpc EXCEPT ![r] = "copy"]
  /\ act' = <<"GC_Drop", r>>
  /\ UNCHANGED <<cluster, nchg, nres, watchQ, cache, enabled, ch, hpc, hev, hflag, rcopy, nreads, syncSt, syncView, syncFails,
                 epc, eidx, delivered, decided, ndec, copyAt, cause, early>>

GC_CopyOnly(r) ==
  /\ FixF3 /\ rpc[r] = (IF r = SyncReader THEN "copy" ELSE "want")
  /\ rcopy' = [rcopy EXCEPT ![r] = [c |-> cache, at |-> ndec]]
  /\ rpc' = [rpc EXCEPT ![r] = "done"]
  /\ act' = <<"GC_CopyOnly", r>>
  /\ UNCHANGED <<cluster, nchg, nres, watchQ, cache, buf, enabled, ch, hpc, hev, hflag, nreads, syncSt, syncView, syncFails,
                 epc, eidx, delivered, decided, ndec, copyAt, cause, early>>

GC_Copy(r) ==
  /\ ~FixF1 /\ rpc[r] = "want"
  /\ rcopy' = [rcopy EXCEPT ![r] = [c |-> cache, at |-> ndec]]
  /\ rpc' = [rpc EXCEPT ![r] = "reset"]
  /\ act' = <<"GC_Copy", r>>
  /\ UNCHANGED <<cluster, nchg, nres, watchQ, cache, buf, enabled, ch, hpc, hev, hflag, nreads, syncSt, syncView, syncFails,
                 epc, eidx, delivered, decided, ndec, copyAt, cause, early>>

GC_Reset(r) ==
  /\ ~FixF1 /\ rpc[r] = "reset" /\ BufFree
  /\ IF enabled THEN UNCHANGED <<buf, cause>>
     ELSE /\ buf' = <<>> /\ cause' = cause \cup ResetCauses(r, rcopy[r].at)
  /\ rpc' = [rpc EXCEPT ![r] = "done"]
  /\ act' = <<"GC_Reset", r>>
  /\ UNCHANGED <<cluster, nchg, nres, watchQ, cache, enabled, ch, hpc, hev, hflag, rcopy, nreads, syncSt, syncView, syncFails,
                 epc, eidx, delivered, decided, ndec, copyAt, early>>

(* ---------------- Synchronization run ---------------- *)
SYNC_Start ==
  /\ syncSt = "init" /\ rpc[SyncReader] = "idle"
  /\ rpc' = [rpc EXCEPT ![SyncReader] = "want"] /\ syncSt' = "reading"
  /\ act' = <<"SYNC_Start">>
  /\ UNCHANGED <<cluster, nchg, nres, watchQ, cache, buf, enabled, ch, hpc, hev, hflag, rcopy, nreads, syncView, syncFails,
                 epc, eidx, delivered, decided, ndec, copyAt, cause, early>>

SYNC_HookRuns ==
  /\ syncSt = "reading" /\ rpc[SyncReader] = "done"
  /\ syncSt' = "hook" /\ rpc' = [rpc EXCEPT ![SyncReader] = "idle"]
  /\ act' = <<"SYNC_HookRuns">>
  /\ UNCHANGED <<cluster, nchg, nres, watchQ, cache, buf, enabled, ch, hpc, hev, hflag, rcopy, nreads, syncView, syncFails,
                 epc, eidx, delivered, decided, ndec, copyAt, cause, early>>

SYNC_HookDone(ok) ==
  /\ syncSt = "hook"
  /\ IF ok THEN /\ syncSt' = "unlocking" /\ syncView' = rcopy[SyncReader].c /\ copyAt' = rcopy[SyncReader].at
                /\ UNCHANGED syncFails
           ELSE /\ syncFails < MaxSyncFail /\ syncFails' = syncFails + 1 /\ syncSt' = "init"
                /\ UNCHANGED <<syncView, copyAt>>
  /\ act' = <<"SYNC_HookDone", ok>>
  /\ UNCHANGED <<cluster, nchg, nres, watchQ, cache, buf, enabled, ch, hpc, hev, hflag, rpc, rcopy, nreads, epc, eidx,
                 delivered, decided, ndec, cause, early>>

OtherRead(r) ==
  /\ r \in Others /\ rpc[r] \in {"idle", "done"} /\ nreads < MaxOtherReads
  /\ rpc' = [rpc EXCEPT ![r] = "want"] /\ nreads' = nreads + 1
  /\ act' = <<"OtherRead", r>>
  /\ UNCHANGED <<cluster, nchg, nres, watchQ, cache, buf, enabled, ch, hpc, hev, hflag, rcopy, syncSt, syncView, syncFails,
                 epc, eidx, delivered, decided, ndec, copyAt, cause, early>>

(* ---------------- enableKubeEventCb ---------------- *)
\* takes eventBufLock (no reader or handler inside it), sets the flag; with an empty buffer it is done at once
EN_Begin ==
  /\ syncSt = "unlocking" /\ epc = "idle"
  /\ enabled' = TRUE
  /\ IF buf = <<>> THEN /\ epc' = "idle" /\ eidx' = 0 /\ syncSt' = "done"
                   ELSE /\ epc' = "replay" /\ eidx' = 1 /\ UNCHANGED syncSt
  /\ act' = <<"EN_Begin">>
  /\ UNCHANGED <<cluster, nchg, nres, watchQ, cache, buf, ch, hpc, hev, hflag, rpc, rcopy, nreads, syncView, syncFails,
                 delivered, decided, ndec, copyAt, cause, early>>

\* one blocking send of the replay; after the last one the buffer is dropped and the lock released
EN_Put ==
  /\ epc = "replay" /\ eidx <= Len(buf) /\ Len(ch) < 1
  /\ ch' = Append(ch, buf[eidx])
  /\ IF eidx = Len(buf) THEN /\ buf' = <<>> /\ epc' = "idle" /\ eidx' = 0 /\ syncSt' = "done"
                        ELSE /\ eidx' = eidx + 1 /\ UNCHANGED <<buf, epc, syncSt>>
  /\ act' = <<"EN_Put">>
  /\ UNCHANGED <<cluster, nchg, nres, watchQ, cache, enabled, hpc, hev, hflag, rpc, rcopy, nreads, syncView, syncFails,
                 delivered, decided, ndec, copyAt, cause, early>>

Consume ==
  /\ ch # <<>>
  /\ delivered' = Append(delivered, Head(ch)) /\ ch' = Tail(ch)
  /\ early' = (early \/ syncSt \notin {"unlocking", "done"})
  /\ act' = <<"Consume">>
  /\ UNCHANGED <<cluster, nchg, nres, watchQ, cache, buf, enabled, hpc, hev, hflag, rpc, rcopy, nreads, syncSt, syncView, syncFails,
                 epc, eidx, decided, ndec, copyAt, cause>>

CoreNext ==
  \/ \E o \in Objs, v \in Vals \cup {NONE} : Change(o, v)
  \/ \E o \in Objs : Resync(o)
  \/ HW_UpdateCache \/ HW_NoFire \/ HW_Decide \/ HW_ReadFlag \/ HW_Append \/ HW_Put
  \/ \E r \in Readers : GC_CopyReset(r) \/ GC_Copy(r) \/ GC_Reset(r) \/ OtherRead(r) \/ GC_Drop(r) \/ GC_CopyOnly(r)
  \/ SYNC_Start \/ SYNC_HookRuns \/ \E ok \in BOOLEAN : SYNC_HookDone(ok)
  \/ EN_Begin \/ EN_Put \/ Consume

Next == CoreNext /\ UNCHANGED cfgv
Spec == Init /\ [][Next]_vars
FairSpec == Spec /\ WF_vars(HW_UpdateCache \/ HW_NoFire \/ HW_Decide \/ HW_ReadFlag \/ HW_Append \/ HW_Put)
                 /\ WF_vars(\E r \in Readers : GC_CopyReset(r) \/ GC_Copy(r) \/ GC_Reset(r) \/ GC_Drop(r) \/ GC_CopyOnly(r))
                 /\ WF_vars(SYNC_Start \/ SYNC_HookRuns \/ SYNC_HookDone(TRUE)) /\ WF_vars(EN_Begin \/ EN_Put) /\ WF_vars(Consume)

(* simulation: one action per kind, so that the simulator's uniform choice among actions is not drowned by Change *)
S(x) == IF nchg >= 0 THEN x ELSE {}
SimCore ==
  \/ \E o \in S(Objs), v \in S(Vals \cup {NONE}) : Change(o, v)
  \/ \E o \in S(Objs) : Resync(o)
  \/ HW_UpdateCache \/ HW_NoFire \/ HW_Decide \/ HW_ReadFlag \/ HW_Append \/ HW_Put
  \/ \E r \in S(Readers) : GC_CopyReset(r) \/ GC_Copy(r) \/ GC_Reset(r) \/ GC_Drop(r) \/ GC_CopyOnly(r)
  \/ \E r \in S(Others) : OtherRead(r)
  \/ SYNC_Start \/ SYNC_HookRuns \/ \E ok \in S(BOOLEAN) : SYNC_HookDone(ok)
  \/ EN_Begin \/ EN_Put \/ Consume
SimNext == SimCore /\ UNCHANGED cfgv
SimSpec == Init /\ [][SimNext]_vars

(* ---------------- properties (C01; fire decisions are C08) ---------------- *)
Quiet == /\ watchQ = <<>> /\ hpc = "idle" /\ ch = <<>> /\ syncSt = "done" /\ epc = "idle"
         /\ \A r \in Readers : rpc[r] \in {"idle", "done"}
DeliveredNs == {delivered[i].n : i \in 1..Len(delivered)}
\* no Event of the binding is handed on before its Synchronization step completed successfully
NoEarlyEvent == ~early /\ (syncSt \notin {"unlocking", "done"} => ch = <<>>)
\* every fire decision taken after the successful run's snapshot reaches the consumer
\* (`decided` records every handled watch event; n > 0 numbers the decisions to fire)
Lost == {decided[i].n : i \in {j \in 1..Len(decided) : decided[j].n > 0 /\ decided[j].n > copyAt /\ decided[j].n \notin DeliveredNs}}
NoLoss == Quiet => Lost = {}
NoUnknownLoss(K) == Quiet => \A n \in Lost : \E c \in cause : c[1] = n /\ c[2] \in K
NoLossExceptSecondReader == NoUnknownLoss({"second-reader-reset"})
NoLossExceptKnown == NoUnknownLoss({"stale-flag-append", "reset-after-late-append", "second-reader-reset"})
\* nothing is left behind in the buffer of an enabled informer
NoStrandedEvent == (enabled /\ epc = "idle" /\ hpc = "idle") => buf = <<>>
\* per object the events arrive in the order the changes happened, each at most once
Ordered == \A i, j \in 1..Len(delivered) : (i < j /\ delivered[i].o = delivered[j].o) => delivered[i].n < delivered[j].n
\* applying the delivered events on top of the Synchronization view reproduces the cluster (all three event types listed)
RECURSIVE ApplyFrom(_, _)
ApplyFrom(m, i) == IF i > Len(delivered) THEN m ELSE ApplyFrom([m EXCEPT ![delivered[i].o] = delivered[i].v], i + 1)
Reconstruct == (Quiet /\ EventTypes = {"A", "M", "D"} /\ Lost = {}) =>
                  \A o \in Objs : Proj(ApplyFrom(syncView, 1)[o]) = Proj(cluster[o])
\* C08: an Added/Modified change fires only if its type is listed and the projection differs from the last one known for
\* that object (prev = the cached state before the event); Deleted fires whenever it is listed ...
Qualifies(d) == d.t \in EventTypes /\ (d.t = "D" \/ d.prev = NONE \/ Proj(d.prev) # Proj(d.v))
FireOnlyIf == \A i \in 1..Len(decided) : decided[i].n > 0 => Qualifies(decided[i])
\* ... and every such change does fire; re-delivery of an unchanged object fires nothing (it never qualifies)
FireIf     == \A i \in 1..Len(decided) : Qualifies(decided[i]) => decided[i].n > 0
\* the cache follows the cluster also for suppressed changes (C08 / C02)
CacheFollows == (watchQ = <<>> /\ hpc = "idle") => cache = cluster
=============================================================================
