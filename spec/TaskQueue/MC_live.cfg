\* liveness: after Stop the worker goroutine terminates (weak fairness of the worker, handler returns)
SPECIFICATION FairSpec
CONSTANTS
  Ids = {"a"}
  Fresh = {"x"}
  NIL = "NIL"
  MaxLen = 3
  MaxOps = 2
  MaxPicks = 1
  MaxFail = 1
  FixNil = TRUE
  FixStop = TRUE
  WithStop = TRUE
  BoundPicks = FALSE
  StopAfterPicks = 3
  StopAfterOps = 6
  StopPcs = {"notstarted", "top", "shortcut", "select", "get", "handling", "handled", "apply", "exit", "stopped"}
  ElapsedAlways = FALSE
  WithCancel = TRUE
  CancelPcs = {"notstarted", "top", "shortcut", "select", "get", "handling", "handled", "apply", "exit", "stopped"}
PROPERTIES TerminatesAfterStop
CHECK_DEADLOCK FALSE
