SPECIFICATION Spec
CONSTANTS
  NIL = "NIL"
  FixNil = TRUE
  TraceFile = "trace.ndjson"
INVARIANTS Conforms NoEmptySlot
POSTCONDITION Accepted
CHECK_DEADLOCK FALSE
