\* exhaustive, code after the fixes; 3 ids + 2 fresh ids: ~31 M generated / 3.2 M distinct states, ~3.5 min
SPECIFICATION Spec
CONSTANTS
  Ids = {"a", "b", "c"}
  Fresh = {"x", "y"}
  NIL = "NIL"
  MaxLen = 4
  MaxOps = 3
  MaxPicks = 2
  MaxFail = 2
  FixNil = TRUE
  FixStop = TRUE
  WithStop = TRUE
  BoundPicks = TRUE
  StopAfterPicks = 3
  StopAfterOps = 6
  StopPcs = {"notstarted", "top", "shortcut", "select", "get", "handling", "handled", "apply", "exit", "stopped"}
  ElapsedAlways = FALSE
  WithCancel = TRUE
  CancelPcs = {"notstarted", "top", "shortcut", "select", "get", "handling", "handled", "apply", "exit", "stopped"}
VIEW View
INVARIANTS TypeOK NoEmptySlot ListFaithful NoLateStart CancelScoped
PROPERTIES HeadFirst FailKeepsPosition DelayRespected CancelWakes
CHECK_DEADLOCK FALSE
