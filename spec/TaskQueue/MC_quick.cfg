\* exhaustive, code after the fixes; 2 ids + 1 fresh id: ~1.8 M generated / 230 k distinct states, ~12 s
SPECIFICATION Spec
CONSTANTS
  Ids = {"a", "b"}
  Fresh = {"x"}
  NIL = "NIL"
  MaxLen = 4
  MaxOps = 3
  MaxPicks = 2
  MaxFail = 2
  FixNil = TRUE
  FixStop = TRUE
  WithStop = TRUE
  BoundPicks = TRUE
  StopAfterPicks = 3
  StopAfterOps = 6
  StopPcs = {"notstarted", "top", "shortcut", "select", "get", "handling", "handled", "apply", "exit", "stopped"}
  ElapsedAlways = FALSE
  WithCancel = TRUE
  CancelPcs = {"notstarted", "top", "shortcut", "select", "get", "handling", "handled", "apply", "exit", "stopped"}
VIEW View
INVARIANTS TypeOK NoEmptySlot ListFaithful NoLateStart CancelScoped
PROPERTIES HeadFirst FailKeepsPosition DelayRespected CancelWakes
CHECK_DEADLOCK FALSE
