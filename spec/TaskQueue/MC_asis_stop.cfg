\* the wait loop as it was at the pinned commit (FixStop = FALSE): TLC must find the late start (F20)
SPECIFICATION Spec
CONSTANTS
  Ids = {"a", "b"}
  Fresh = {"x"}
  NIL = "NIL"
  MaxLen = 4
  MaxOps = 3
  MaxPicks = 2
  MaxFail = 2
  FixNil = TRUE
  FixStop = FALSE
  WithStop = TRUE
  BoundPicks = TRUE
  StopAfterPicks = 3
  StopAfterOps = 6
  StopPcs = {"notstarted", "top", "shortcut", "select", "get", "handling", "handled", "apply", "exit", "stopped"}
  ElapsedAlways = FALSE
  WithCancel = TRUE
  CancelPcs = {"notstarted", "top", "shortcut", "select", "get", "handling", "handled", "apply", "exit", "stopped"}
VIEW View
INVARIANTS NoLateStart

CHECK_DEADLOCK FALSE
