--------------------------- MODULE TaskQueueTrace ---------------------------
(* Trace validation: every write critical section of a real queue.TaskQueue, recorded under the queue's
   lock by the q.write hook (operation, arguments, resulting id list), must be explained by the reference
   list semantics.  Runs are concatenated; a "Reset" record starts a new queue. *)
EXTENDS ListOps, Integers, Sequences, SequencesExt, TLC, Json
CONSTANT TraceFile
VARIABLES l, q

Trace == ndJsonDeserialize(TraceFile)

Expected(s, e) ==
  CASE e.op = "Reset"       -> <<>>
    [] e.op = "AddFirst"    -> <<e.t>> \o s
    [] e.op = "AddLast"     -> Append(s, e.t)
    [] e.op = "AddAfter"    -> RefAddAfter(s, e.id, e.t)
    [] e.op = "AddBefore"   -> RefAddBefore(s, e.id, e.t)
    [] e.op = "Remove"      -> RefRemove(s, e.id)
    [] e.op = "RemoveFirst" -> IF s = <<>> THEN s ELSE Tail(s)
    [] e.op = "RemoveLast"  -> IF s = <<>> THEN s ELSE Front(s)
    [] e.op = "Filter"      -> SelectSeq(s, LAMBDA x : x \in ToSet(e.keep))
    [] e.op = "Apply"       -> ApplyTo(FALSE, s, [st |-> e.st, after |-> e.after, head |-> e.head, tail |-> e.tail], e.cur)
    [] OTHER                -> <<"UNEXPLAINED-WRITE">>

\* An insertion next to an id that is not in the queue: the statement only demands "no empty slot, length =
\* number of tasks"; besides "no change" (what the code does) the task at either end is admitted.
Admissible(s, e) ==
  {Expected(s, e)} \cup
  (IF e.op \in {"AddAfter", "AddBefore"} /\ Pos(s, e.id) = 0 THEN {Append(s, e.t), <<e.t>> \o s} ELSE {})

\* ok = every recorded write so far was admissible; the trace itself is followed so that one unexplained
\* write does not hide the rest
VARIABLE ok
Init == l = 1 /\ q = <<>> /\ ok = TRUE
Next == /\ l <= Len(Trace)
        /\ q' = Trace[l].items
        /\ ok' = (Trace[l].items \in Admissible(q, Trace[l]))
        /\ l' = l + 1
Spec == Init /\ [][Next]_<<l, q, ok>>

\* the logged post-state of every write is what an ordinary list holds
Conforms    == ok
NoEmptySlot == \A i \in 1..Len(q) : q[i] # NIL
Accepted    == TLCGet("stats").diameter - 1 = Len(Trace)
=============================================================================
