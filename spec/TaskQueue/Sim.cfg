SPECIFICATION SimSpec
CONSTANTS
  Ids = {"a", "b", "c"}
  Fresh = {"x", "y"}
  NIL = "NIL"
  MaxLen = 5
  MaxOps = 12
  MaxPicks = 6
  MaxFail = 3
  FixNil = TRUE
  FixStop = TRUE
  WithStop = TRUE
  BoundPicks = TRUE
  StopAfterPicks = 3
  StopAfterOps = 6
  StopPcs = {"notstarted", "top", "shortcut", "select", "get", "handling", "handled", "apply", "exit", "stopped"}
  ElapsedAlways = TRUE
  WithCancel = TRUE
  CancelPcs = {"notstarted", "top", "shortcut", "select", "get", "handling", "handled", "apply", "exit", "stopped"}

CHECK_DEADLOCK FALSE
