------------------------------ MODULE TaskQueue ------------------------------
(***************************************************************************)
(* pkg/task/queue/task_queue.go as a state machine.                        *)
(*                                                                         *)
(*  - `items` is the slice the code holds (it may contain NIL, the empty   *)
(*    slot addAfter/addBefore leave behind when FixNil = FALSE);           *)
(*    `ref` is what an ordinary list holds after the same operations.      *)
(*  - The worker goroutine is modelled at the granularity of the gates     *)
(*    placed in the code (verifhook.At("q.top") ... "q.exit"): one action  *)
(*    per stretch of code between two gates.  Every stretch touches the    *)
(*    shared state inside at most one critical section.                    *)
(*  - Go's `select` among ready cases is a nondeterministic choice.        *)
(*  - Public operations (Q_xxx) and Stop may interleave anywhere.          *)
(*                                                                         *)
(* FixNil / FixStop = FALSE is the code as it was at the pinned commit,    *)
(* TRUE is the code after the two "fix:" commits.                          *)
(***************************************************************************)
EXTENDS ListOps, Integers, Sequences, FiniteSets, TLC, Json

CONSTANTS Ids,        \* task ids used by public operations
          Fresh,      \* ids a handler may return in After/Head/Tail lists
          MaxLen, MaxOps, MaxPicks, MaxFail,
          FixStop,    \* (NIL and FixNil are declared in ListOps)
          WithStop,   \* Stop is part of the behaviours
          BoundPicks, \* TRUE: at most MaxPicks picks (bounds the safety search); FALSE: the counter saturates
          StopAfterPicks, StopAfterOps, StopPcs,  \* simulation only: earliest point / worker positions of Stop
          CancelPcs,  \* simulation only: worker positions at which CancelTaskDelay is called
          WithCancel, \* CancelTaskDelay is part of the behaviours
          ElapsedAlways  \* the wait loop's "elapsed >= waitUntil" is always true (replay fixtures use 1ns delays)

VARIABLES items,      \* the code's slice
          ref,        \* reference list (history variable)
          nops,       \* public operations so far (bound)
          wpc,        \* worker program counter (= gate the goroutine is parked at)
          cur,        \* task id the worker picked
          res,        \* handler result waiting to be applied
          sleep,      \* delay class for the next waitForTask: none | fail | repeat | delay
          ctxDone,    \* Stop was called
          pickLate,   \* the deciding context check of the pick in progress saw ... a cancelled ctx was ready
          npicks,     \* picks so far (bound)
          fails,      \* failure counter per id
          backoffArg, \* argument of the last ExponentialBackoffFn call (or -1)
          cancel,     \* cancelDelay flag: CancelTaskDelay was called during the wait in progress
          lateStart,  \* TRUE iff some task was handed to the handler although Stop had been
                      \* requested before the last context check preceding the pick
          act         \* label of the last action (observation only, hidden by VIEW)

vars == <<items, ref, nops, wpc, cur, res, sleep, ctxDone, pickLate, npicks, fails, backoffArg, lateStart, cancel, act>>
View == <<items, ref, nops, wpc, cur, res, sleep, ctxDone, pickLate, npicks, fails, backoffArg, lateStart, cancel>>

AllIds == Ids \cup Fresh
NoRes  == [st |-> "none", after |-> <<>>, head |-> <<>>, tail |-> <<>>, delay |-> FALSE]

(* ---------- public operations ---------- *)
CanOp  == nops < MaxOps
CanAdd == nops < MaxOps /\ Len(items) < MaxLen
Op(newItems, newRef, label) ==
  /\ items' = newItems /\ ref' = newRef /\ nops' = nops + 1 /\ act' = label
  /\ UNCHANGED <<wpc, cur, res, sleep, ctxDone, pickLate, npicks, fails, backoffArg, lateStart, cancel>>

RetHead(s) == IF s = <<>> THEN "nil" ELSE Head(s)
RetLast(s) == IF s = <<>> THEN "nil" ELSE s[Len(s)]
RetGet(s, id) == IF Pos(s, id) = 0 THEN "nil" ELSE id

Q_AddFirst(t)      == CanAdd /\ Op(<<t>> \o items, <<t>> \o ref, <<"AddFirst", t>>)
Q_AddLast(t)       == CanAdd /\ Op(Append(items, t), Append(ref, t), <<"AddLast", t>>)
Q_AddAfter(id, t)  == CanAdd /\ Op(CodeAddAfter(items, id, t), RefAddAfter(ref, id, t), <<"AddAfter", id, t>>)
Q_AddBefore(id, t) == CanAdd /\ Op(CodeAddBefore(items, id, t), RefAddBefore(ref, id, t), <<"AddBefore", id, t>>)
Q_Remove(id)       == CanOp /\ Op(CodeRemove(items, id), RefRemove(ref, id), <<"Remove", id, RetGet(ref, id)>>)
Q_RemoveFirst      == CanOp /\ Op(IF items = <<>> THEN items ELSE Tail(items),
                                  IF ref = <<>> THEN ref ELSE Tail(ref), <<"RemoveFirst", RetHead(ref)>>)
Q_RemoveLast       == CanOp /\ Op(IF items = <<>> THEN items ELSE Front(items),
                                  IF ref = <<>> THEN ref ELSE Front(ref), <<"RemoveLast", RetLast(ref)>>)
Q_Filter(keep)     == CanOp /\ Op(SelectSeq(items, LAMBDA x : x \in keep),
                                  SelectSeq(ref, LAMBDA x : x \in keep), <<"Filter", keep>>)

Stop == /\ WithStop /\ ~ctxDone /\ ctxDone' = TRUE /\ act' = <<"Stop">>
        /\ UNCHANGED <<items, ref, nops, wpc, cur, res, sleep, pickLate, npicks, fails, backoffArg, lateStart, cancel>>

\* CancelTaskDelay: sets the cancelDelay flag only while a wait is in progress (the worker is inside the wait loop);
\* the flag makes every following tick check the head at once and is dropped when waitForTask returns.
\* Called at any other time it changes nothing.
Q_CancelDelay == /\ WithCancel /\ cancel' = (cancel \/ wpc = "select") /\ act' = <<"CancelDelay">>
                 /\ UNCHANGED <<items, ref, nops, wpc, cur, res, sleep, ctxDone, pickLate, npicks, fails, backoffArg, lateStart>>

(* ---------- worker goroutine ---------- *)
\* the flag lives from the entry into the wait loop (reset there) to the return of waitForTask (reset by the defer)
W(pc2, label) == /\ wpc' = pc2 /\ act' = label /\ cancel' = (cancel /\ wpc = "select" /\ pc2 = "select")
WU == <<items, ref, nops, ctxDone>>    \* never changed by pure control steps

W_Start == /\ wpc = "notstarted" /\ W("top", <<"W_Start">>)
           /\ UNCHANGED <<WU, cur, res, sleep, pickLate, npicks, fails, backoffArg, lateStart>>

\* waitForTask: first select on ctx.Done()
W_Top == /\ wpc = "top"
         /\ W(IF ctxDone THEN "exit" ELSE "shortcut", <<"W_Top">>)
         /\ UNCHANGED <<WU, cur, res, sleep, pickLate, npicks, fails, backoffArg, lateStart>>

\* shortcut: `!q.IsEmpty() && sleepDelay == 0`; otherwise a new ticker is made and the wait loop entered
W_Shortcut == /\ wpc = "shortcut"
              /\ IF items # <<>> /\ sleep = "none"
                   THEN W("get", <<"W_Shortcut">>) /\ pickLate' = FALSE
                   ELSE W("select", <<"W_Shortcut">>) /\ UNCHANGED pickLate
              /\ UNCHANGED <<WU, cur, res, sleep, npicks, fails, backoffArg, lateStart>>

\* wait loop `select`: the ctx.Done() case ...
W_SelectCtx == /\ wpc = "select" /\ ctxDone
               /\ W("exit", <<"W_SelectCtx">>)
               /\ UNCHANGED <<WU, cur, res, sleep, pickLate, npicks, fails, backoffArg, lateStart>>

\* ... or the ticker case (the ticker always becomes ready eventually, so this case is always
\* possible; with ctxDone both are ready and Go picks either).  `elapsed` = elapsed >= waitUntil.
W_SelectTick(elapsed) ==
  /\ wpc = "select"
  /\ IF FixStop /\ ctxDone
       THEN W("exit", <<"W_SelectTick", elapsed>>) /\ UNCHANGED pickLate
       ELSE IF (elapsed \/ cancel) /\ items # <<>>
              THEN W("get", <<"W_SelectTick", elapsed>>) /\ pickLate' = ctxDone
              ELSE W("select", <<"W_SelectTick", elapsed>>) /\ UNCHANGED pickLate
  /\ UNCHANGED <<WU, cur, res, sleep, npicks, fails, backoffArg, lateStart>>

\* GetFirst (a second lock acquisition after IsEmpty): nil when the queue became empty or holds an
\* empty slot at the head - the caller takes nil for "context cancelled" and the worker exits.
W_Get == /\ wpc = "get"
         /\ IF items = <<>> \/ Head(items) = NIL
              THEN /\ W("exit", <<"W_Get", "nil">>)
                   /\ UNCHANGED <<cur, npicks, lateStart>>
              ELSE /\ (BoundPicks => npicks < MaxPicks)
                   /\ W("handling", <<"W_Get", Head(items)>>)
                   /\ cur' = Head(items) /\ npicks' = IF npicks < MaxPicks THEN npicks + 1 ELSE npicks
                   /\ lateStart' = (lateStart \/ pickLate)
         /\ UNCHANGED <<WU, res, sleep, pickLate, fails, backoffArg>>

Statuses == {"Success", "Fail", "Keep", "Repeat"}

W_Handler(st, after, head, tail, delay) ==
  /\ wpc = "handling"
  /\ (Len(after) + Len(head) + Len(tail) = 0 \/ Len(items) + Len(after) + Len(head) + Len(tail) <= MaxLen)
  /\ res' = [st |-> st, after |-> after, head |-> head, tail |-> tail, delay |-> delay]
  /\ W("handled", <<"W_Handler", st, after, head, tail, delay>>)
  /\ UNCHANGED <<WU, cur, sleep, pickLate, npicks, fails, backoffArg, lateStart>>

\* context check after the handler
W_Handled == /\ wpc = "handled"
             /\ W(IF ctxDone THEN "exit" ELSE "apply", <<"W_Handled">>)
             /\ UNCHANGED <<WU, cur, res, sleep, pickLate, npicks, fails, backoffArg, lateStart>>

W_Apply ==
  /\ wpc = "apply"
  /\ W("top", <<"W_Apply", res.st>>)
  /\ CASE res.st = "Fail" ->
            /\ backoffArg' = fails[cur]
            /\ fails' = [fails EXCEPT ![cur] = IF @ < MaxFail THEN @ + 1 ELSE @]
            /\ sleep' = IF res.delay THEN "delay" ELSE "fail"
            /\ UNCHANGED <<items, ref>>
       [] res.st = "Repeat" ->
            /\ sleep' = IF res.delay THEN "delay" ELSE "repeat"
            /\ UNCHANGED <<items, ref, fails, backoffArg>>
       [] OTHER ->
            /\ items' = ApplyTo(TRUE, items, res, cur)
            /\ ref'   = ApplyTo(FALSE, ref, res, cur)
            /\ sleep' = IF res.delay THEN "delay" ELSE "none"
            /\ UNCHANGED <<fails, backoffArg>>
  /\ res' = NoRes
  /\ UNCHANGED <<nops, cur, ctxDone, pickLate, npicks, lateStart>>

W_Exit == /\ wpc = "exit" /\ W("stopped", <<"W_Exit">>)
          /\ UNCHANGED <<WU, cur, res, sleep, pickLate, npicks, fails, backoffArg, lateStart>>

FreshLists == {<<>>} \cup {<<f>> : f \in Fresh} \cup {<<f, g>> : f \in Fresh, g \in Fresh}

Env ==
  \/ \E t \in Ids : Q_AddFirst(t) \/ Q_AddLast(t)
  \/ \E id \in Ids, t \in Ids : Q_AddAfter(id, t) \/ Q_AddBefore(id, t)
  \/ \E id \in AllIds : Q_Remove(id)
  \/ Q_RemoveFirst \/ Q_RemoveLast
  \/ \E keep \in SUBSET Ids : Q_Filter(keep \cup Fresh) \/ Q_Filter(keep)
  \/ Stop \/ (~cancel /\ wpc = "select" /\ Q_CancelDelay)

Worker ==
  \/ W_Start \/ W_Top \/ W_Shortcut \/ W_SelectCtx
  \/ \E e \in (IF ElapsedAlways THEN {TRUE} ELSE BOOLEAN) : W_SelectTick(e)
  \/ W_Get \/ W_Handled \/ W_Apply \/ W_Exit
  \/ \E st \in Statuses, a \in FreshLists, h \in FreshLists, tl \in FreshLists, d \in BOOLEAN :
        /\ Len(a) + Len(h) + Len(tl) <= 2
        /\ (st \in {"Fail", "Repeat"} => a = <<>> /\ h = <<>> /\ tl = <<>>)  \* lists are ignored for these
        /\ W_Handler(st, a, h, tl, d)

Next == Env \/ Worker

Init == /\ items = <<>> /\ ref = <<>> /\ nops = 0 /\ wpc = "notstarted" /\ cur = NIL /\ res = NoRes
        /\ sleep = "none" /\ ctxDone = FALSE /\ pickLate = FALSE /\ npicks = 0
        /\ fails = [i \in AllIds |-> 0] /\ backoffArg = -1 /\ lateStart = FALSE /\ cancel = FALSE /\ act = <<"Init">>

Spec == Init /\ [][Next]_vars
FairSpec == Spec /\ WF_vars(Worker)

(* ---------- next-state relation for behaviour generation (simulation only) ---------- *)
\* TLC's simulator first draws one top-level action (disjunct, after splitting \E over constant sets) and
\* then one of its successors.  With Next as written the 48 instantiated public operations drown the worker
\* steps; SimNext hides the quantifier bounds behind a state-dependent operator so that every operation
\* kind and every worker step is one action.
S(x) == IF nops >= 0 THEN x ELSE {}
SimNext ==
  \/ \E t \in S(Ids) : Q_AddFirst(t)
  \/ \E t \in S(Ids) : Q_AddLast(t)
  \/ \E id \in S(Ids), t \in S(Ids) : Q_AddAfter(id, t)
  \/ \E id \in S(Ids), t \in S(Ids) : Q_AddBefore(id, t)
  \/ \E id \in S(AllIds) : Q_Remove(id)
  \/ Q_RemoveFirst \/ Q_RemoveLast
  \/ \E keep \in S(SUBSET Ids) : Q_Filter(keep \cup Fresh) \/ Q_Filter(keep)
  \/ (npicks >= StopAfterPicks /\ nops >= StopAfterOps /\ wpc \in StopPcs /\ Stop)
  \/ (~cancel /\ wpc \in CancelPcs /\ Q_CancelDelay)
  \/ W_Start \/ W_Top \/ W_Shortcut \/ W_SelectCtx
  \/ \E e \in S(IF ElapsedAlways THEN {TRUE} ELSE BOOLEAN) : W_SelectTick(e)
  \/ W_Get \/ W_Handled \/ W_Apply \/ W_Exit
  \/ \E st \in S(Statuses), a \in S(FreshLists), h \in S(FreshLists), tl \in S(FreshLists), d \in S(BOOLEAN) :
        /\ Len(a) + Len(h) + Len(tl) <= 2
        /\ (st \in {"Fail", "Repeat"} => a = <<>> /\ h = <<>> /\ tl = <<>>)
        /\ W_Handler(st, a, h, tl, d)
SimSpec == Init /\ [][SimNext]_vars

(* ---------- behaviour export for replay (simulation mode, -workers 1) ---------- *)
Emit == PrintT("@@" \o ToJson([lvl |-> TLCGet("level"), act |-> act, items |-> items, wpc |-> wpc, cur |-> cur,
                                sleep |-> sleep, ctxDone |-> ctxDone, lateStart |-> lateStart, backoffArg |-> backoffArg]))

(* ---------- properties ---------- *)
\* C05
NoEmptySlot   == \A i \in 1..Len(items) : items[i] # NIL
ListFaithful  == items = ref
\* C17
NoLateStart   == ~lateStart
TerminatesAfterStop == (ctxDone /\ wpc # "notstarted") ~> (wpc = "stopped")
\* C03 (queue level): the task handed to the handler is the head at the time of the pick
HeadFirst     == [][(wpc = "get" /\ wpc' = "handling") => (cur' = Head(items))]_vars
\* C04 (queue level): Fail / Repeat / Keep leave the task where it is; no pick without the delay
FailKeepsPosition == [][(wpc = "apply" /\ wpc' = "top" /\ res.st \in {"Fail", "Repeat"}) => (items' = items)]_vars
DelayRespected == [][(wpc = "shortcut" /\ wpc' # wpc /\ sleep # "none") => (wpc' = "select")]_vars
\* beyond the listed properties: a cancelled delay ends at the next tick (the head is picked although the delay has not
\* elapsed), and the flag never survives the wait it was set in
CancelWakes   == [][(wpc = "select" /\ cancel /\ items # <<>> /\ ~ctxDone /\ act'[1] = "W_SelectTick") => (wpc' = "get")]_vars
CancelScoped  == cancel => wpc = "select"
\* beyond the listed properties: the worker goroutine only ends because of Stop
WorkerDiesOnlyOnStop == (wpc \in {"exit", "stopped"}) => ctxDone
TypeOK == /\ wpc \in {"notstarted", "top", "shortcut", "select", "get", "handling", "handled", "apply", "exit", "stopped"}
          /\ sleep \in {"none", "fail", "repeat", "delay"}
          /\ Len(items) <= MaxLen + 3
=============================================================================
