------------------------------ MODULE ListOps ------------------------------
(* List operations of the task queue: reference semantics (an ordinary list) and the code's semantics. *)
EXTENDS Integers, Sequences
CONSTANTS NIL,      \* the empty slot addAfter/addBefore leave behind when the id is not found
          FixNil    \* TRUE: the code after "fix: AddAfter/AddBefore with an unknown id"

(* first position of id in s, 0 if absent *)
Pos(s, id) == IF \E i \in 1..Len(s) : s[i] = id
                THEN CHOOSE i \in 1..Len(s) : s[i] = id /\ \A j \in 1..(i-1) : s[j] # id
                ELSE 0
InsertAt(s, i, x)  == SubSeq(s, 1, i-1) \o <<x>> \o SubSeq(s, i, Len(s))   \* x becomes element i
RemoveAtPos(s, i)  == SubSeq(s, 1, i-1) \o SubSeq(s, i+1, Len(s))
Front(s)           == SubSeq(s, 1, Len(s)-1)

(* ---------- reference semantics: an ordinary list ---------- *)
RefAddAfter(s, id, x)  == IF Pos(s, id) = 0 THEN s ELSE InsertAt(s, Pos(s, id) + 1, x)
RefAddBefore(s, id, x) == IF Pos(s, id) = 0 THEN s ELSE InsertAt(s, Pos(s, id), x)
RefRemove(s, id)       == IF Pos(s, id) = 0 THEN s ELSE RemoveAtPos(s, Pos(s, id))

(* ---------- the code's semantics ---------- *)
\* addAfter/addBefore: newItems := make([]Task, len+1); the last slot is only filled when the id was found
CodeAddAfter(s, id, x)  == IF Pos(s, id) = 0 THEN (IF FixNil THEN s ELSE s \o <<NIL>>) ELSE InsertAt(s, Pos(s, id) + 1, x)
CodeAddBefore(s, id, x) == IF Pos(s, id) = 0 THEN (IF FixNil THEN s ELSE s \o <<NIL>>) ELSE InsertAt(s, Pos(s, id), x)
CodeRemove(s, id)       == RefRemove(s, id)      \* (panics on a NIL slot before the id; not modelled)

AddAfterSem(code, s, id, x) == IF code THEN CodeAddAfter(s, id, x) ELSE RefAddAfter(s, id, x)
RemoveSem(code, s, id)      == IF code THEN CodeRemove(s, id) ELSE RefRemove(s, id)

RECURSIVE FoldAfter(_, _, _, _)
\* insert after[n], after[n-1], ... after[1] each directly after id: the result keeps the order of `after`
FoldAfter(code, s, id, after) ==
  IF after = <<>> THEN s ELSE FoldAfter(code, AddAfterSem(code, s, id, after[Len(after)]), id, Front(after))

\* result application of the worker loop (Success / Keep)
ApplyTo(code, s, r, id) ==
  LET s1 == FoldAfter(code, s, id, r.after)
      s2 == IF r.st = "Success" THEN RemoveSem(code, s1, id) ELSE s1
  IN  r.head \o s2 \o r.tail

=============================================================================
