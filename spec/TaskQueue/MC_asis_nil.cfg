\* addAfter/addBefore as they were at the pinned commit (FixNil = FALSE): TLC must find the empty slot (F9)
SPECIFICATION Spec
CONSTANTS
  Ids = {"a", "b"}
  Fresh = {"x"}
  NIL = "NIL"
  MaxLen = 4
  MaxOps = 3
  MaxPicks = 2
  MaxFail = 2
  FixNil = FALSE
  FixStop = TRUE
  WithStop = TRUE
  BoundPicks = TRUE
  StopAfterPicks = 3
  StopAfterOps = 6
  StopPcs = {"notstarted", "top", "shortcut", "select", "get", "handling", "handled", "apply", "exit", "stopped"}
  ElapsedAlways = FALSE
  WithCancel = TRUE
  CancelPcs = {"notstarted", "top", "shortcut", "select", "get", "handling", "handled", "apply", "exit", "stopped"}
VIEW View
INVARIANTS NoEmptySlot

CHECK_DEADLOCK FALSE
