\* quick, wide: every tree of <= 3 entries, depth <= 3, 12 file names x {no x bit, 0755}, 4 directory names, 3 names of the hooks directory, <= 1 bad hook x 2 kinds: ~55 k states, ~47 k cases
SPECIFICATION Spec
CONSTANTS
  DirNames <- DirNamesWide
  FileNames <- FileNamesWide
  XChoices <- XChoicesTwo
  RootNames <- RootNamesAll
  BadKinds = {"exitcfg", "schema"}
  MaxEntries = 3
  MaxDepth = 3
  MaxFiles = 3
  RootRule = FALSE
  EmitCases = TRUE
INVARIANTS TypeOK HooksExact OrderSorted NamesUnique ConfigRound RootNameIrrelevant Emit
PROPERTIES AddIsLocal
CHECK_DEADLOCK FALSE
