\* thorough, deep: every tree of <= 5 entries (<= 4 files), depth <= 3, 5 core file names x {no x bit, 0755}, 3 directory names (a, .g, lib), hooks directory named hooks, <= 1 bad hook x 2 kinds: ~185 k states
SPECIFICATION Spec
CONSTANTS
  DirNames <- DirNamesCore
  FileNames <- FileNamesCore
  XChoices <- XChoicesTwo
  RootNames <- RootNamesPlain
  BadKinds = {"exitcfg", "garbage"}
  MaxEntries = 5
  MaxDepth = 3
  MaxFiles = 4
  RootRule = FALSE
  EmitCases = TRUE
  EmitMod = 1
  EmitRem = 0
INVARIANTS TypeOK HooksExact OrderSorted NamesUnique ConfigRound RootNameIrrelevant Emit
PROPERTIES AddIsLocal
CHECK_DEADLOCK FALSE
