\* thorough, deep with every name of the hooks directory: every tree of <= 4 entries, depth <= 3, core names, 3 names of the hooks directory, <= 1 bad hook x 2 kinds: ~51 k states
SPECIFICATION Spec
CONSTANTS
  DirNames <- DirNamesCore
  FileNames <- FileNamesCore
  XChoices <- XChoicesTwo
  RootNames <- RootNamesAll
  BadKinds = {"exit", "schema"}
  MaxEntries = 4
  MaxDepth = 3
  MaxFiles = 4
  RootRule = FALSE
  EmitCases = TRUE
  EmitMod = 1
  EmitRem = 0
INVARIANTS TypeOK HooksExact OrderSorted NamesUnique ConfigRound RootNameIrrelevant Emit
PROPERTIES AddIsLocal
CHECK_DEADLOCK FALSE
