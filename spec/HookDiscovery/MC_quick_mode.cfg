\* quick, mode bits: every tree of <= 2 entries, 5 core file names x 4 execute-bit sets ({}, ugo, u, o), 3 names of the hooks directory, <= 1 bad hook x 2 kinds
SPECIFICATION Spec
CONSTANTS
  DirNames <- DirNamesCore
  FileNames <- FileNamesCore
  XChoices <- XChoicesFour
  RootNames <- RootNamesAll
  BadKinds = {"exitcfg", "schema"}
  MaxEntries = 2
  MaxDepth = 3
  MaxFiles = 2
  RootRule = FALSE
  EmitCases = TRUE
  EmitMod = 1
  EmitRem = 0
INVARIANTS TypeOK HooksExact OrderSorted NamesUnique ConfigRound RootNameIrrelevant Emit
PROPERTIES AddIsLocal
CHECK_DEADLOCK FALSE
