\* thorough, wide: every tree of <= 3 entries, depth <= 3, 12 file names x {no x bit, 0755}, 4 directory names, 3 names of the hooks directory, <= 1 bad hook x 4 kinds: ~80 k states
SPECIFICATION Spec
CONSTANTS
  DirNames <- DirNamesWide
  FileNames <- FileNamesWide
  XChoices <- XChoicesTwo
  RootNames <- RootNamesAll
  BadKinds = {"exit", "exitcfg", "schema", "garbage"}
  MaxEntries = 3
  MaxDepth = 3
  MaxFiles = 3
  RootRule = FALSE
  EmitCases = TRUE
  EmitMod = 1
  EmitRem = 0
INVARIANTS TypeOK HooksExact OrderSorted NamesUnique ConfigRound RootNameIrrelevant Emit
PROPERTIES AddIsLocal
CHECK_DEADLOCK FALSE
