--------------------------- MODULE HookDiscovery ---------------------------
(* Reference semantics of hook discovery and of the --config round at start (property C20), written from
   the property statement, not from pkg/utils/file/file.go:

     "At start the set of hooks is exactly the files under the hooks directory that carry an execute bit,
      whose name neither starts with a dot nor ends in .yaml, .json, .md or .txt, and that do not lie below a
      sub-directory named `lib` or a hidden sub-directory; each hook is named by its path relative to the
      hooks directory and hooks are loaded in lexical order of their paths. Every discovered file is asked
      for --config exactly once, and a hook whose --config run fails or prints an invalid configuration makes
      initialization fail with an error that names the hook."

   A file name is a non-empty sequence of one-character strings, so "starts with a dot", "ends in .yaml" and
   the lexical order are real predicates on characters and not table look-ups. A tree is a prefix-closed set
   of entries below the hooks directory; the hooks directory itself has a name too (RootNames) which the
   statement does not constrain: it excludes only SUB-directories.

   The state machine only enumerates the bounded input domain: AddEntry grows the tree, Finish picks the
   name of the hooks directory and at most one bad hook. Every state with phase = "done" is one case; the
   invariant Emit prints it together with the result the real hook.Manager.Init must show.

   RootRule = FALSE is the statement (and the code after tools/proposed_fixes/C20-root-dir-name.diff).
   RootRule = TRUE is the as-it-was model: the walk applies the hidden/`lib` test to the hooks directory's
   own name as well (MC_asis.cfg shows TLC refuting RootNameIrrelevant there).                              *)
EXTENDS Integers, Sequences, FiniteSets, TLC, Json

CONSTANTS
  DirNames,     \* names a sub-directory may have
  FileNames,    \* names a file may have
  XChoices,     \* execute-bit sets a file may carry, each a subset of {"u", "g", "o"}
  RootNames,    \* names of the hooks directory itself
  BadKinds,     \* how the bad hook misbehaves: "exit" | "exitcfg" (run fails), "schema" | "garbage" (invalid config)
  MaxEntries,   \* entries in the tree
  MaxDepth,     \* longest relative path, in components; directories are only created above that depth
  MaxFiles,     \* at most that many files (directories are what makes shapes interesting)
  RootRule,     \* see above
  EmitCases,    \* print one JSON line per case
  EmitMod,      \* ... but only for trees whose hash is EmitRem modulo EmitMod (1 = all)
  EmitRem

VARIABLES tree, root, bad, kind, phase
vars == <<tree, root, bad, kind, phase>>

(* ------------------------------------------------------------------------------------------------------ *)
(* Names                                                                                                  *)
(* ------------------------------------------------------------------------------------------------------ *)
n_a      == <<"a">>
n_b      == <<"b">>
n_ash    == <<"a", ".", "s", "h">>                  \* sorts before "a/..." as a string, after it component-wise
n_a_b    == <<"a", "-", "b">>                       \* same
n_hid    == <<".", "h">>
n_hidg   == <<".", "g">>
n_yaml   == <<"x", ".", "y", "a", "m", "l">>
n_json   == <<"x", ".", "j", "s", "o", "n">>
n_md     == <<"x", ".", "m", "d">>
n_txt    == <<"x", ".", "t", "x", "t">>
n_lib    == <<"l", "i", "b">>
n_libs   == <<"l", "i", "b", "s">>                  \* near miss of `lib`
n_YAML   == <<"X", ".", "Y", "A", "M", "L">>        \* upper-case extension: does not end in ".yaml"
n_yamlsh == <<"x", ".", "y", "a", "m", "l", ".", "s", "h">>   \* contains but does not end in ".yaml"
n_hooks  == <<"h", "o", "o", "k", "s">>
n_dhooks == <<".", "h", "o", "o", "k", "s">>

NoName == <<>>

\* name sets the configuration files choose from (CONSTANT X <- ...)
DirNamesCore   == {n_a, n_hidg, n_lib}
DirNamesWide   == {n_a, n_hidg, n_lib, n_libs}
FileNamesCore  == {n_a, n_ash, n_hid, n_yaml, n_lib}
FileNamesWide  == {n_a, n_b, n_ash, n_a_b, n_hid, n_yaml, n_json, n_md, n_txt, n_lib, n_YAML, n_yamlsh}
XChoicesTwo    == { {}, {"u", "g", "o"} }
XChoicesFour   == { {}, {"u", "g", "o"}, {"u"}, {"o"} }
RootNamesAll   == {n_hooks, n_lib, n_dhooks}
RootNamesPlain == {n_hooks}

\* byte values of the characters used (the order Go's string comparison and `LC_ALL=C sort` use)
Code == [c \in {"-", ".", "/", "A", "L", "M", "X", "Y", "a", "b", "d", "g", "h", "i", "j", "k", "l", "m", "n", "o", "s", "t", "x", "y"} |->
           CASE c = "-" -> 45 [] c = "." -> 46 [] c = "/" -> 47
             [] c = "A" -> 65 [] c = "L" -> 76 [] c = "M" -> 77 [] c = "X" -> 88 [] c = "Y" -> 89
             [] c = "a" -> 97 [] c = "b" -> 98 [] c = "d" -> 100 [] c = "g" -> 103 [] c = "h" -> 104 [] c = "i" -> 105
             [] c = "j" -> 106 [] c = "k" -> 107 [] c = "l" -> 108 [] c = "m" -> 109 [] c = "n" -> 110 [] c = "o" -> 111
             [] c = "s" -> 115 [] c = "t" -> 116 [] c = "x" -> 120 [] c = "y" -> 121]

RECURSIVE Str(_)
Str(cs) == IF cs = <<>> THEN "" ELSE Head(cs) \o Str(Tail(cs))

\* characters of a relative path: components joined with "/"
RECURSIVE PathChars(_)
PathChars(p) == IF Len(p) = 1 THEN p[1] ELSE p[1] \o <<"/">> \o PathChars(Tail(p))

PathStr(p) == Str(PathChars(p))

\* strict lexical (byte-wise) order on character sequences; a proper prefix sorts first
RECURSIVE LexLess(_, _)
LexLess(s, t) ==
  IF t = <<>> THEN FALSE
  ELSE IF s = <<>> THEN TRUE
  ELSE IF Head(s) # Head(t) THEN Code[Head(s)] < Code[Head(t)]
  ELSE LexLess(Tail(s), Tail(t))

PathLess(p, q) == LexLess(PathChars(p), PathChars(q))

RECURSIVE SortPaths(_)
SortPaths(S) ==
  IF S = {} THEN <<>>
  ELSE LET m == CHOOSE p \in S : \A q \in S \ {p} : PathLess(p, q)
       IN <<m>> \o SortPaths(S \ {m})

(* ------------------------------------------------------------------------------------------------------ *)
(* The statement                                                                                          *)
(* ------------------------------------------------------------------------------------------------------ *)
StartsWithDot(n) == n[1] = "."

EndsWith(n, s) == Len(n) >= Len(s) /\ SubSeq(n, Len(n) - Len(s) + 1, Len(n)) = s

ExcludedEndings == { <<".", "y", "a", "m", "l">>, <<".", "j", "s", "o", "n">>, <<".", "m", "d">>, <<".", "t", "x", "t">> }

\* "whose name neither starts with a dot nor ends in .yaml, .json, .md or .txt"
NameAllowed(n) == ~StartsWithDot(n) /\ \A e \in ExcludedEndings : ~EndsWith(n, e)

\* "a sub-directory named `lib` or a hidden sub-directory"
DirExcluded(n) == n = n_lib \/ StartsWithDot(n)

\* the directories a file lies below are the components of its relative path except the last one
BelowExcluded(p) == \E i \in 1..(Len(p) - 1) : DirExcluded(p[i])

\* "carry an execute bit": any of the three
HasExecBit(x) == x # {}

IsHook(e) == /\ e.kind = "file"
             /\ HasExecBit(e.x)
             /\ NameAllowed(e.path[Len(e.path)])
             /\ ~BelowExcluded(e.path)

StatementHooks(t) == { e.path : e \in { f \in t : IsHook(f) } }

\* the name r of the hooks directory itself plays no role in the statement (RootRule = FALSE)
HookPaths(r, t) == IF RootRule /\ DirExcluded(r) THEN {} ELSE StatementHooks(t)

\* load order = lexical order of the paths; hook name = the relative path
LoadOrder(r, t) == SortPaths(HookPaths(r, t))

IndexOf(seq, v) == CHOOSE i \in 1..Len(seq) : seq[i] = v

NoBad == <<>>

(* What initialization must show for the tree t in a hooks directory named r when the hook with path b is bad
   (b = NoBad: none).
     ok     initialization succeeds
     names  (ok only) the hook names in load order = GetHookNames()
     once   files whose --config must have been run exactly once. Without a bad hook these are all hooks.
            With a bad hook: the bad hook and every hook that loads before it.
     atmost hooks behind the bad one: the statement does not say whether initialization stops at the first
            bad hook or goes on, so zero or one --config run is admissible for them.
     every other file must not have been run at all.
     errname (not ok) the error text must contain this hook name                                           *)
InitResult(r, t, b) ==
  LET order == LoadOrder(r, t)
      nm    == [i \in 1..Len(order) |-> PathStr(order[i])]
  IN IF b = NoBad \/ b \notin HookPaths(r, t)
     THEN [ok |-> TRUE, names |-> nm, once |-> nm, atmost |-> <<>>, errname |-> ""]
     ELSE LET k == IndexOf(order, b)
          IN [ok |-> FALSE, names |-> <<>>, once |-> SubSeq(nm, 1, k), atmost |-> SubSeq(nm, k + 1, Len(nm)),
              errname |-> nm[k]]

(* ------------------------------------------------------------------------------------------------------ *)
(* Enumeration of the input domain                                                                        *)
(* ------------------------------------------------------------------------------------------------------ *)
DirPaths(t) == { <<>> } \cup { e.path : e \in { f \in t : f.kind = "dir" } }
Paths(t) == { e.path : e \in t }
Files(t) == { e \in t : e.kind = "file" }

Init == tree = {} /\ root = NoName /\ bad = NoBad /\ kind = "" /\ phase = "build"

AddDir(parent, n) ==
  /\ Len(parent) + 1 < MaxDepth
  /\ (parent \o <<n>>) \notin Paths(tree)
  /\ tree' = tree \cup { [path |-> parent \o <<n>>, kind |-> "dir", x |-> {"u", "g", "o"}] }

AddFile(parent, n, x) ==
  /\ Len(parent) + 1 <= MaxDepth
  /\ (parent \o <<n>>) \notin Paths(tree)
  /\ Cardinality(Files(tree)) < MaxFiles
  /\ tree' = tree \cup { [path |-> parent \o <<n>>, kind |-> "file", x |-> x] }

AddEntry ==
  /\ phase = "build"
  /\ Cardinality(tree) < MaxEntries
  /\ \E parent \in DirPaths(tree) :
       \/ \E n \in DirNames : AddDir(parent, n)
       \/ \E n \in FileNames, x \in XChoices : AddFile(parent, n, x)
  /\ UNCHANGED <<root, bad, kind, phase>>

Finish ==
  /\ phase = "build"
  /\ \E r \in RootNames :
       /\ root' = r
       /\ \/ bad' = NoBad /\ kind' = ""
          \/ \E b \in StatementHooks(tree), k \in BadKinds : bad' = b /\ kind' = k
  /\ phase' = "done"
  /\ UNCHANGED tree

Next == AddEntry \/ Finish

Spec == Init /\ [][Next]_vars

(* ------------------------------------------------------------------------------------------------------ *)
(* Properties of the reference (checked by TLC on every case)                                             *)
(* ------------------------------------------------------------------------------------------------------ *)
Res == InitResult(root, tree, bad)

TypeOK ==
  /\ phase \in {"build", "done"}
  /\ \A e \in tree : /\ e.kind \in {"dir", "file"}
                     /\ Len(e.path) \in 1..MaxDepth
                     /\ e.x \subseteq {"u", "g", "o"}
                     \* prefix closed: every proper prefix is a directory of the tree
                     /\ \A i \in 1..(Len(e.path) - 1) : SubSeq(e.path, 1, i) \in DirPaths(tree)
  /\ \A e, f \in tree : e.path = f.path => e = f
  /\ Cardinality(tree) <= MaxEntries

Range(s) == { s[i] : i \in 1..Len(s) }

\* The discovered set, characterised a second time through the ancestor ENTRIES of the tree instead of the
\* components of the path: a file is a hook iff it is executable, its own name is allowed and no directory
\* entry of the tree that is a proper ancestor of it is hidden or named lib.
IsProperPrefix(p, q) == Len(p) < Len(q) /\ SubSeq(q, 1, Len(p)) = p
Base(p) == p[Len(p)]
HooksExact ==
  phase = "done" /\ ~(RootRule /\ DirExcluded(root)) =>
    LET H == HookPaths(root, tree) IN
    /\ H \subseteq Paths(tree)
    /\ \A e \in tree :
         e.path \in H <=>
           /\ e.kind = "file"
           /\ \E w \in {"u", "g", "o"} : w \in e.x
           /\ Base(e.path)[1] # "."
           /\ \A s \in ExcludedEndings : ~EndsWith(Base(e.path), s)
           /\ \A d \in tree : (d.kind = "dir" /\ IsProperPrefix(d.path, e.path)) =>
                                (Base(d.path) # n_lib /\ Base(d.path)[1] # ".")

\* load order is strictly increasing, i.e. sorted and free of duplicates, and covers every hook once
OrderSorted ==
  phase = "done" =>
    LET o == LoadOrder(root, tree) IN
    /\ Len(o) = Cardinality(HookPaths(root, tree))
    /\ Range(o) = HookPaths(root, tree)
    /\ \A i \in 1..(Len(o) - 1) : PathLess(o[i], o[i + 1])

\* names are unique although basenames repeat across directories
NamesUnique ==
  phase = "done" => \A i, j \in 1..Len(Res.names) : Res.names[i] = Res.names[j] => i = j

\* the --config round: once-set and atmost-set partition the hooks; the bad hook is the last one that must run
ConfigRound ==
  phase = "done" =>
    LET all == [i \in 1..Len(LoadOrder(root, tree)) |-> PathStr(LoadOrder(root, tree)[i])] IN
    /\ Res.once \o Res.atmost = all
    /\ Res.ok => (Res.once = all /\ Res.names = all /\ Res.errname = "")
    /\ ~Res.ok => (Res.errname = PathStr(bad) /\ Res.once[Len(Res.once)] = Res.errname)

\* the name of the hooks directory itself does not matter (refuted when RootRule = TRUE: MC_asis.cfg)
RootNameIrrelevant ==
  phase = "done" => \A r \in RootNames : InitResult(r, tree, bad) = InitResult(root, tree, bad)

\* adding something that is not a hook never changes the discovered set; adding a hook adds exactly it
AddIsLocal ==
  [][phase' = "build" /\ tree' # tree =>
       LET e == CHOOSE f \in tree' : f \notin tree IN
       HookPaths(n_hooks, tree') = HookPaths(n_hooks, tree) \cup (IF IsHook(e) THEN {e.path} ELSE {})]_vars

(* ------------------------------------------------------------------------------------------------------ *)
(* Case export                                                                                            *)
(* ------------------------------------------------------------------------------------------------------ *)
RECURSIVE SetToSeq(_)
SetToSeq(S) == IF S = {} THEN <<>> ELSE LET m == CHOOSE p \in S : \A q \in S \ {p} : PathLess(p, q)
                                        IN <<m>> \o SetToSeq(S \ {m})

XStr(x) == (IF "u" \in x THEN "u" ELSE "") \o (IF "g" \in x THEN "g" ELSE "") \o (IF "o" \in x THEN "o" ELSE "")

EntryOf(p) == CHOOSE e \in tree : e.path = p

CaseRecord ==
  LET ps == SetToSeq(Paths(tree)) IN
  [ root    |-> Str(root),
    entries |-> [i \in 1..Len(ps) |-> [path |-> PathStr(ps[i]), kind |-> EntryOf(ps[i]).kind, x |-> XStr(EntryOf(ps[i]).x)]],
    bad     |-> IF bad = NoBad THEN "" ELSE PathStr(bad),
    kind    |-> kind,
    ok      |-> Res.ok,
    names   |-> Res.names,
    once    |-> Res.once,
    atmost  |-> Res.atmost,
    errname |-> Res.errname ]

(* The quick tier exports the cases of one residue class of trees only (all names of the hooks directory and
   all bad hooks of a selected tree are exported): EmitMod = 1 exports everything. The hash only has to spread
   trees over the classes; the orchestrator derives EmitRem from the seed.                                   *)
RECURSIVE CharSum(_, _)
CharSum(cs, k) == IF cs = <<>> THEN 0 ELSE Code[Head(cs)] * k + CharSum(Tail(cs), k + 1)

EntryHash(e) == CharSum(PathChars(e.path), 1) + (IF e.kind = "dir" THEN 7 ELSE 0) + 131 * Cardinality(e.x)

RECURSIVE TreeHash(_)
TreeHash(S) == IF S = {} THEN 0 ELSE LET e == CHOOSE f \in S : TRUE IN EntryHash(e) + TreeHash(S \ {e})

Selected == EmitMod = 1 \/ TreeHash(tree) % EmitMod = EmitRem

Emit == (EmitCases /\ phase = "done" /\ Selected) => PrintT("@@" \o ToJson(CaseRecord))

=============================================================================
