\* quick, deep: every tree of <= 4 entries, depth <= 3, 5 core file names x {no x bit, 0755}, 3 directory names (a, .g, lib), 3 names of the hooks directory, <= 1 bad hook x 2 kinds: ~51 k states; cases exported for 1 of 7 residue classes of trees (chosen by the seed)
SPECIFICATION Spec
CONSTANTS
  DirNames <- DirNamesCore
  FileNames <- FileNamesCore
  XChoices <- XChoicesTwo
  RootNames <- RootNamesAll
  BadKinds = {"exit", "garbage"}
  MaxEntries = 4
  MaxDepth = 3
  MaxFiles = 4
  RootRule = FALSE
  EmitCases = TRUE
  EmitMod = 7
  EmitRem = 0
INVARIANTS TypeOK HooksExact OrderSorted NamesUnique ConfigRound RootNameIrrelevant Emit
PROPERTIES AddIsLocal
CHECK_DEADLOCK FALSE
