\* as-it-was model (RootRule = TRUE: the hidden/lib test is applied to the hooks directory's own name too): TLC must refute RootNameIrrelevant; <= 1 entry, core names
SPECIFICATION Spec
CONSTANTS
  DirNames <- DirNamesCore
  FileNames <- FileNamesCore
  XChoices <- XChoicesTwo
  RootNames <- RootNamesAll
  BadKinds = {"exit"}
  MaxEntries = 1
  MaxDepth = 3
  MaxFiles = 1
  RootRule = TRUE
  EmitCases = FALSE
  EmitMod = 1
  EmitRem = 0
INVARIANTS TypeOK HooksExact OrderSorted NamesUnique ConfigRound RootNameIrrelevant Emit
PROPERTIES AddIsLocal
CHECK_DEADLOCK FALSE
