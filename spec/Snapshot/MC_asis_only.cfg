\* the code as it is: the ghost of a preloaded-then-deleted object is the only deviation
SPECIFICATION Spec
CONSTANTS
  Namespaces = {"n1", "n2"}
  Names = {"a", "b"}
  Vals = {"v1", "v2"}
  NONE = "none"
  MaxOps = 4
  MaxRestarts = 1
  FixGhost = FALSE
INVARIANTS OnlyGhosts
CHECK_DEADLOCK FALSE
