\* the code as it is (FixStaleNs = FALSE): TLC finds the namespace that stopped matching between AddMonitor and StartMonitor
SPECIFICATION Spec
CONSTANTS
  StaticNs = {}
  DynNs = {"n1"}
  Names = {"a"}
  Vals = {"v1"}
  NONE = "none"
  MaxOps = 2
  MaxNsOps = 2
  MaxRestarts = 0
  FixStaleNs = FALSE
INVARIANTS TypeOK CacheScoped KnownFollowsLabel
CHECK_DEADLOCK FALSE
