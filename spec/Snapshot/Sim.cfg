\* exhaustive: 2 namespaces x 2 names x 2 values, <= 4 cluster operations, 1 restart; reference behaviour (FixGhost = TRUE)
SPECIFICATION SimSpec
CONSTANTS
  Namespaces = {"n1", "n2"}
  Names = {"a", "b"}
  Vals = {"v1", "v2"}
  NONE = "none"
  MaxOps = 8
  MaxRestarts = 2
  FixGhost = TRUE

CHECK_DEADLOCK FALSE
