SPECIFICATION SimSpec
CONSTANTS
  StaticNs = {}
  DynNs = {"n1", "n2", "n3"}
  Names = {"a", "b"}
  Vals = {"v1", "v2"}
  NONE = "none"
  MaxOps = 8
  MaxNsOps = 5
  MaxRestarts = 1
  FixStaleNs = TRUE
CHECK_DEADLOCK FALSE
