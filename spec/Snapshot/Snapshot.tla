------------------------------ MODULE Snapshot ------------------------------
(***************************************************************************)
(* C02: what a binding's snapshot (Synchronization `objects`, `snapshots`) *)
(* shows versus the cluster.  One monitor over a static set of namespaces  *)
(* (one resourceInformer per namespace, as monitor.go creates them):       *)
(*                                                                         *)
(*   AddMonitor    loadExistedObjects: a LIST of every namespace fills the *)
(*                 caches                                                  *)
(*   StartMonitor  the client-go informer of every namespace does its own  *)
(*                 LIST and delivers Added for what it finds, then follows *)
(*                 the watch (cache updated per event)                     *)
(*   Create / Modify / Delete of objects at any point                      *)
(*   Restart       the operator process starts again (all state dropped)   *)
(*                                                                         *)
(* FixGhost = FALSE is the code as it is: an object listed by AddMonitor   *)
(* and deleted before StartMonitor is never removed from the cache.        *)
(***************************************************************************)
EXTENDS Integers, Sequences, FiniteSets, TLC, Json

CONSTANTS Namespaces, Names, Vals, NONE, MaxOps, MaxRestarts, FixGhost

VARIABLES cluster,   \* [ns, name] -> value | NONE
          cache,     \* what the monitor's informers hold
          phase,     \* "none" | "added" | "started"
          pending,   \* watch events not yet handled (sequence, in order)
          nops, nrestarts, act

vars == <<cluster, cache, phase, pending, nops, nrestarts, act>>
Keys == Namespaces \X Names
Empty == [k \in Keys |-> NONE]

Init == /\ cluster \in [Keys -> Vals \cup {NONE}] /\ cache = Empty /\ phase = "none" /\ pending = <<>>
        /\ nops = 0 /\ nrestarts = 0 /\ act = <<"Init">>

Mutate(k, v) ==
  /\ nops < MaxOps /\ cluster[k] # v
  /\ cluster' = [cluster EXCEPT ![k] = v] /\ nops' = nops + 1
  /\ pending' = IF phase = "started" THEN Append(pending, <<k, v>>) ELSE pending
  /\ act' = <<"Mutate", k[1], k[2], v>>
  /\ UNCHANGED <<cache, phase, nrestarts>>

AddMonitor ==
  /\ phase = "none" /\ phase' = "added" /\ cache' = cluster
  /\ act' = <<"AddMonitor">> /\ UNCHANGED <<cluster, pending, nops, nrestarts>>

\* the informer's own list: Added for every object it finds; nothing tells the handler about objects that are gone
StartMonitor ==
  /\ phase = "added" /\ phase' = "started"
  /\ cache' = [k \in Keys |-> IF cluster[k] # NONE THEN cluster[k] ELSE IF FixGhost THEN NONE ELSE cache[k]]
  /\ act' = <<"StartMonitor">> /\ UNCHANGED <<cluster, pending, nops, nrestarts>>

Handle ==
  /\ pending # <<>>
  /\ cache' = [cache EXCEPT ![Head(pending)[1]] = Head(pending)[2]] /\ pending' = Tail(pending)
  /\ act' = <<"Handle">> /\ UNCHANGED <<cluster, phase, nops, nrestarts>>

Restart ==
  /\ nrestarts < MaxRestarts /\ phase = "started"
  /\ phase' = "none" /\ cache' = Empty /\ pending' = <<>> /\ nrestarts' = nrestarts + 1
  /\ act' = <<"Restart">> /\ UNCHANGED <<cluster, nops>>

Next == (\E k \in Keys, v \in Vals \cup {NONE} : Mutate(k, v)) \/ AddMonitor \/ StartMonitor \/ Handle \/ Restart
Spec == Init /\ [][Next]_vars

S(x) == IF nops >= 0 THEN x ELSE {}
SimNext == (\E k \in S(Keys), v \in S(Vals \cup {NONE}) : Mutate(k, v)) \/ (\E k \in S(Keys), v \in S(Vals \cup {NONE}) : Mutate(k, v))
           \/ AddMonitor \/ StartMonitor \/ Handle \/ Restart
SimSpec == Init /\ [][SimNext]_vars

(* the snapshot handed to a hook: the cached objects, each once, ordered by namespace then name *)
Quiet == phase = "started" /\ pending = <<>>
\* once the cluster is quiet the snapshot equals the real cluster state (also after a restart)
QuietConverges == Quiet => cache = cluster
\* a stale object is only ever one that the preload listed and that was deleted before the informers started
OnlyGhosts == Quiet => \A k \in Keys : cache[k] # cluster[k] => (cluster[k] = NONE /\ cache[k] # NONE)
TypeOK == phase \in {"none", "added", "started"}
=============================================================================
