\* the code as it is: a preloaded object deleted before StartMonitor stays in the cache (F6) - TLC must find it
SPECIFICATION Spec
CONSTANTS
  Namespaces = {"n1", "n2"}
  Names = {"a", "b"}
  Vals = {"v1", "v2"}
  NONE = "none"
  MaxOps = 4
  MaxRestarts = 1
  FixGhost = FALSE
INVARIANTS QuietConverges
CHECK_DEADLOCK FALSE
