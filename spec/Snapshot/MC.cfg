\* exhaustive: 2 namespaces x 2 names x 2 values, <= 4 cluster operations, 1 restart; reference behaviour (FixGhost = TRUE)
SPECIFICATION Spec
CONSTANTS
  Namespaces = {"n1", "n2"}
  Names = {"a", "b"}
  Vals = {"v1", "v2"}
  NONE = "none"
  MaxOps = 4
  MaxRestarts = 1
  FixGhost = TRUE
INVARIANTS TypeOK QuietConverges
CHECK_DEADLOCK FALSE
