\* exhaustive: 2 label-selected namespaces (the code ignores namespace.nameSelector when labelSelector is given) x 1 name x 2 values, <= 3 object operations, <= 3 namespace operations, 1 restart
SPECIFICATION Spec
CONSTANTS
  StaticNs = {}
  DynNs = {"n1", "n2"}
  Names = {"a"}
  Vals = {"v1", "v2"}
  NONE = "none"
  MaxOps = 3
  MaxNsOps = 3
  MaxRestarts = 1
  FixStaleNs = TRUE
INVARIANTS TypeOK CacheScoped QuietConverges KnownFollowsLabel
CHECK_DEADLOCK FALSE
