\* all 2^3 x 4^3 = 512 topologies
SPECIFICATION Spec
INVARIANTS SelfInGroup OnlyKube Emit
CHECK_DEADLOCK FALSE
