----------------------------- MODULE SnapshotNs -----------------------------
(***************************************************************************)
(* C02 for a binding with namespace.labelSelector (monitor.go): one set of *)
(* informers per namespace that currently carries the label ("varying      *)
(* informers"), created and cancelled by the callbacks of the namespace    *)
(* informer.  The specification also carries a static namespace list, but  *)
(* MonitorConfig.namespaces() ignores namespace.nameSelector as soon as a  *)
(* labelSelector is given, so every configuration checked has StaticNs={}. *)
(*                                                                         *)
(*   AddMonitor    CreateInformers: informers of the static namespaces and *)
(*                 of every namespace the label selector lists now; each   *)
(*                 preloads its namespace (LIST)                           *)
(*   StartMonitor  every informer created so far starts (own LIST + watch);*)
(*                 the namespace informer starts: it lists the namespaces  *)
(*                 that match NOW and reports each as added                *)
(*   NsOn / NsOff  a namespace starts / stops matching (created with the   *)
(*                 label, label added; deleted with everything in it, or   *)
(*                 label removed): an event for the namespace informer     *)
(*   HandleNs      the callback: add = create, preload, forget, start the  *)
(*                 informers of the namespace (synchronously: the callback *)
(*                 returns when they are synced); delete = cancel and drop *)
(*                 them; events for static or already known namespaces are *)
(*                 ignored                                                 *)
(*   Mutate / HandleObj  object changes and their watch events, per        *)
(*                 namespace in order                                      *)
(*   Restart       the operator process starts again                       *)
(*                                                                         *)
(* FixStaleNs = FALSE is the code as it is: a namespace listed by          *)
(* AddMonitor that stops matching before StartMonitor keeps its informers  *)
(* for ever (the namespace informer never knew it, so it never reports it  *)
(* as deleted).                                                            *)
(***************************************************************************)
EXTENDS Integers, Sequences, FiniteSets, TLC

CONSTANTS StaticNs, DynNs, Names, Vals, NONE, MaxOps, MaxNsOps, MaxRestarts, FixStaleNs

Namespaces == StaticNs \cup DynNs
Keys == Namespaces \X Names

VARIABLES cluster,    \* [ns, name] -> value | NONE
          nsMatch,    \* namespace -> it exists and carries the label (cluster side; static namespaces may carry it too)
          known,      \* namespaces that have varying informers (monitor side)
          running,    \* namespaces whose informers have been started
          cache,      \* what the informers hold
          phase,      \* "none" | "added" | "started"
          pendingNs,  \* namespace events not yet handled, in order
          pendingObj, \* namespace -> watch events of its objects not yet handled, in order
          stale,      \* history: namespaces whose informers were started although they did not match any more
          nops, nnsops, nrestarts, act

vars == <<cluster, nsMatch, known, running, cache, phase, pendingNs, pendingObj, stale, nops, nnsops, nrestarts, act>>
Empty == [k \in Keys |-> NONE]
NoPending == [n \in Namespaces |-> <<>>]
InNs(n) == {k \in Keys : k[1] = n}
\* f with the entries of namespace set S taken from g
Over(f, S, g) == [k \in Keys |-> IF k[1] \in S THEN g[k] ELSE f[k]]
SeqOf(S) == CHOOSE s \in [1..Cardinality(S) -> S] : \A i, j \in 1..Cardinality(S) : i # j => s[i] # s[j]

Init == /\ cluster \in [Keys -> Vals \cup {NONE}] /\ nsMatch \in [Namespaces -> BOOLEAN]
        /\ known = {} /\ running = {} /\ cache = Empty /\ phase = "none" /\ pendingNs = <<>> /\ pendingObj = NoPending
        /\ stale = {} /\ nops = 0 /\ nnsops = 0 /\ nrestarts = 0 /\ act = <<"Init">>

Mutate(k, v) ==
  /\ nops < MaxOps /\ cluster[k] # v
  /\ cluster' = [cluster EXCEPT ![k] = v] /\ nops' = nops + 1
  /\ pendingObj' = IF k[1] \in running THEN [pendingObj EXCEPT ![k[1]] = Append(@, <<k, v>>)] ELSE pendingObj
  /\ act' = <<"Mutate", k[1], k[2], v>>
  /\ UNCHANGED <<nsMatch, known, running, cache, phase, pendingNs, stale, nnsops, nrestarts>>

NsEvent(kind, n) == IF phase = "started" THEN Append(pendingNs, <<kind, n>>) ELSE pendingNs

NsOn(n) ==
  /\ nnsops < MaxNsOps /\ ~nsMatch[n]
  /\ nsMatch' = [nsMatch EXCEPT ![n] = TRUE] /\ nnsops' = nnsops + 1
  /\ pendingNs' = NsEvent("add", n)
  /\ act' = <<"NsOn", n>>
  /\ UNCHANGED <<cluster, known, running, cache, phase, pendingObj, stale, nops, nrestarts>>

\* wipe = TRUE: the namespace is deleted with everything in it (the objects' Deleted events come first);
\* wipe = FALSE: the label is removed, the objects stay
NsOff(n, wipe) ==
  /\ nnsops < MaxNsOps /\ nsMatch[n]
  /\ nsMatch' = [nsMatch EXCEPT ![n] = FALSE] /\ nnsops' = nnsops + 1
  /\ IF wipe
       THEN /\ cluster' = Over(cluster, {n}, Empty)
            /\ pendingObj' = IF n \in running
                               THEN [pendingObj EXCEPT ![n] = @ \o SeqOf({<<k, NONE>> : k \in {kk \in InNs(n) : cluster[kk] # NONE}})]
                               ELSE pendingObj
       ELSE UNCHANGED <<cluster, pendingObj>>
  /\ pendingNs' = NsEvent("del", n)
  /\ act' = <<"NsOff", n, wipe>>
  /\ UNCHANGED <<known, running, cache, phase, stale, nops, nrestarts>>

AddMonitor ==
  /\ phase = "none" /\ phase' = "added"
  /\ known' = {n \in DynNs : nsMatch[n]}
  /\ cache' = Over(Empty, StaticNs \cup known', cluster)
  /\ act' = <<"AddMonitor">>
  /\ UNCHANGED <<cluster, nsMatch, running, pendingNs, pendingObj, stale, nops, nnsops, nrestarts>>

StartMonitor ==
  /\ phase = "added" /\ phase' = "started"
  /\ LET keep == IF FixStaleNs THEN {n \in known : nsMatch[n]} ELSE known IN
       /\ known' = keep
       /\ stale' = {n \in keep : ~nsMatch[n]}
       /\ running' = StaticNs \cup keep
       /\ cache' = Over(Empty, StaticNs \cup keep, cluster)
  \* the namespace informer's own list: every namespace matching now is reported as added
  /\ pendingNs' = SeqOf({<<"add", n>> : n \in {m \in Namespaces : nsMatch[m]}})
  /\ act' = <<"StartMonitor">>
  /\ UNCHANGED <<cluster, nsMatch, pendingObj, nops, nnsops, nrestarts>>

HandleNs ==
  /\ pendingNs # <<>> /\ pendingNs' = Tail(pendingNs)
  /\ LET kind == Head(pendingNs)[1]
         n == Head(pendingNs)[2] IN
       /\ act' = <<"HandleNs", kind, n>>
       /\ IF n \in StaticNs \/ (kind = "add" /\ n \in known) \/ (kind = "del" /\ n \notin known)
            THEN UNCHANGED <<known, running, cache, pendingObj, stale>>
            ELSE IF kind = "add"
                   THEN /\ known' = known \cup {n} /\ running' = running \cup {n}
                        /\ cache' = Over(cache, {n}, cluster)
                        /\ pendingObj' = [pendingObj EXCEPT ![n] = <<>>]
                        /\ UNCHANGED stale
                   ELSE /\ known' = known \ {n} /\ running' = running \ {n}
                        /\ cache' = Over(cache, {n}, Empty)
                        /\ pendingObj' = [pendingObj EXCEPT ![n] = <<>>]
                        /\ stale' = stale \ {n}
  /\ UNCHANGED <<cluster, nsMatch, phase, nops, nnsops, nrestarts>>

HandleObj(n) ==
  /\ pendingObj[n] # <<>>
  /\ pendingObj' = [pendingObj EXCEPT ![n] = Tail(@)]
  /\ cache' = IF n \in running THEN [cache EXCEPT ![Head(pendingObj[n])[1]] = Head(pendingObj[n])[2]] ELSE cache
  /\ act' = <<"HandleObj", n>>
  /\ UNCHANGED <<cluster, nsMatch, known, running, phase, pendingNs, stale, nops, nnsops, nrestarts>>

Restart ==
  /\ nrestarts < MaxRestarts /\ phase = "started"
  /\ phase' = "none" /\ cache' = Empty /\ known' = {} /\ running' = {} /\ pendingNs' = <<>> /\ pendingObj' = NoPending
  /\ stale' = {} /\ nrestarts' = nrestarts + 1
  /\ act' = <<"Restart">> /\ UNCHANGED <<cluster, nsMatch, nops, nnsops>>

Next == \/ \E k \in Keys, v \in Vals \cup {NONE} : Mutate(k, v)
        \/ \E n \in Namespaces : NsOn(n) \/ NsOff(n, TRUE) \/ NsOff(n, FALSE)
        \/ AddMonitor \/ StartMonitor \/ HandleNs \/ Restart
        \/ \E n \in Namespaces : HandleObj(n)
Spec == Init /\ [][Next]_vars

S(x) == IF nops >= 0 THEN x ELSE {}
SimNext == \/ \E k \in S(Keys), v \in S(Vals \cup {NONE}) : Mutate(k, v)
           \/ \E k \in S(Keys), v \in S(Vals \cup {NONE}) : Mutate(k, v)
           \/ \E n \in S(Namespaces) : NsOn(n)
           \/ \E n \in S(Namespaces), w \in S(BOOLEAN) : NsOff(n, w)
           \/ AddMonitor \/ StartMonitor \/ HandleNs \/ HandleNs \/ Restart
           \/ \E n \in S(Namespaces) : HandleObj(n)
SimSpec == Init /\ [][SimNext]_vars

(* the snapshot handed to a hook: the cached objects of the static and the known namespaces, ordered by namespace, name *)
Watched(n) == n \in StaticNs \/ nsMatch[n]
Quiet == phase = "started" /\ pendingNs = <<>> /\ \A n \in Namespaces : pendingObj[n] = <<>>
\* once everything is quiet the snapshot holds exactly the objects of the namespaces that match the binding now
QuietConverges == Quiet => \A k \in Keys : cache[k] = (IF Watched(k[1]) THEN cluster[k] ELSE NONE)
\* the varying informers follow the label: known = the dynamic namespaces that match now
KnownFollowsLabel == Quiet => known = {n \in DynNs : nsMatch[n]}
\* the code as it is deviates only by the namespaces that stopped matching between AddMonitor and StartMonitor
QuietConvergesButStale == Quiet => \A k \in Keys : cache[k] = (IF Watched(k[1]) \/ k[1] \in stale THEN cluster[k] ELSE NONE)
KnownFollowsLabelButStale == Quiet => known = {n \in DynNs : nsMatch[n]} \cup stale
\* nothing is ever cached for a namespace without informers
CacheScoped == \A k \in Keys : cache[k] # NONE => (k[1] \in StaticNs \/ k[1] \in known)
TypeOK == /\ phase \in {"none", "added", "started"} /\ known \subseteq DynNs /\ running \subseteq Namespaces
=============================================================================
