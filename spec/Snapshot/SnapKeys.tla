------------------------------ MODULE SnapKeys ------------------------------
(* C02, keys of `snapshots`: every topology of two kubernetes bindings and one schedule binding with optional group
   and includeSnapshotsFrom is one state; the keys a binding's contexts must carry are the bindings named in
   includeSnapshotsFrom plus the kubernetes bindings sharing its group. *)
EXTENDS Integers, Sequences, FiniteSets, TLC, Json
VARIABLES topo, done
Kube == {"k1", "k2"}
All == Kube \cup {"s1"}
Groups == {"", "g"}
Topos == [grp : [All -> Groups], inc : [All -> SUBSET Kube]]
SetToSeq(S) == CHOOSE s \in [1..Cardinality(S) -> S] : \A i, j \in 1..Cardinality(S) : i # j => s[i] # s[j]
Keys(t, b) == t.inc[b] \cup (IF t.grp[b] = "" THEN {} ELSE {k \in Kube : t.grp[k] = t.grp[b]})
Init == topo \in Topos /\ done = FALSE
Next == ~done /\ done' = TRUE /\ UNCHANGED topo
Spec == Init /\ [][Next]_<<topo, done>>
\* sanity of the reference: a grouped kubernetes binding always sees itself; keys only name kubernetes bindings
SelfInGroup == \A b \in Kube : topo.grp[b] # "" => b \in Keys(topo, b)
OnlyKube == \A b \in All : Keys(topo, b) \subseteq Kube
Emit == done \/ PrintT("@@" \o ToJson([grp |-> topo.grp, inc |-> [b \in All |-> SetToSeq(topo.inc[b])], keys |-> [b \in All |-> SetToSeq(Keys(topo, b))]]))
=============================================================================
