\* the code as it is (FixStaleNs = FALSE) deviates from the property only by namespaces that stopped matching between AddMonitor and StartMonitor
SPECIFICATION Spec
CONSTANTS
  StaticNs = {}
  DynNs = {"n1", "n2"}
  Names = {"a"}
  Vals = {"v1", "v2"}
  NONE = "none"
  MaxOps = 3
  MaxNsOps = 3
  MaxRestarts = 1
  FixStaleNs = FALSE
INVARIANTS TypeOK CacheScoped QuietConvergesButStale KnownFollowsLabelButStale
CHECK_DEADLOCK FALSE
