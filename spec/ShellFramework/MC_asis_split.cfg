\* the pinned hook.sh (candidate list split at white space): TLC must find StopsAtFirstFailure violated (a run ends non-zero although __main__ is defined and nothing failed); arrays of 1 context
SPECIFICATION Spec
CONSTANTS
  Names1 = {"b1"}
  Names2 = {"b1"}
  Kinds2 = {}
  Extra2Names = {}
  Extra2Kinds = {}
  Names3 = {"b1"}
  Kinds3 = {}
  SpacedNames = {"Monitor pods in cache tier", "every minute"}
  CommandWords = {"Monitor pods in cache tier"}
  StartupKinds = {}
  ConvGroups1 = {""}
  ConvGroups2 = {""}
  MaxDefArr = 2
  WithEmpty = TRUE
  WithConfig = TRUE
  AsIs = TRUE
INVARIANTS TypeOK ExactlyOnePerContext MostSpecificFirst StopsAtFirstFailure ConfigOnly NoConfigOutput MachineIsRun
CHECK_DEADLOCK FALSE
