\* the pinned hook.sh (binding name tested before the type): TLC must find MostSpecificFirst violated (__on_startup invoked for a typed context of a binding named onStartup); arrays of 1 context
SPECIFICATION Spec
CONSTANTS
  Names1 = {"b1"}
  Names2 = {"b1"}
  Kinds2 = {}
  Extra2Names = {}
  Extra2Kinds = {}
  Names3 = {"b1"}
  Kinds3 = {}
  SpacedNames = {}
  CommandWords = {}
  StartupKinds = {"Synchronization", "Added", "Group", "Schedule"}
  ConvGroups1 = {""}
  ConvGroups2 = {""}
  MaxDefArr = 2
  WithEmpty = TRUE
  WithConfig = TRUE
  AsIs = TRUE
INVARIANTS TypeOK ExactlyOnePerContext MostSpecificFirst StopsAtFirstFailure ConfigOnly NoConfigOutput MachineIsRun
CHECK_DEADLOCK FALSE
