\* exhaustive: arrays of 1 context: every kind x names {b1} (+2 names with spaces, +4 typed kinds with a binding NAMED onStartup) x every subset of (candidates + __main__ + distractors) x failing {none, all} x {run, --config}; Conversion with fromVersion and toVersion each plain or group-qualified (4 variants) in arrays of 1, both group-qualified in arrays of 2; arrays of 2: 12 contexts (10 kinds on b1, Added and Schedule on a second binding monitor-pods.v2) ; arrays of 3: onStartup, Added, Schedule on b1; arrays >= 2: <= 2 handlers defined, failing none or one
SPECIFICATION Spec
CONSTANTS
  Names1 = {"b1"}
  Names2 = {"b1"}
  Kinds2 = {"onStartup", "Synchronization", "Added", "Modified", "Deleted", "Group", "Schedule", "Validating", "Mutating", "Conversion"}
  Extra2Names = {"monitor-pods.v2"}
  Extra2Kinds = {"Added", "Schedule"}
  Names3 = {"b1"}
  Kinds3 = {"onStartup", "Added", "Schedule"}
  SpacedNames = {"Monitor pods in cache tier", "every minute"}
  CommandWords = {"Monitor pods in cache tier"}
  StartupKinds = {"Synchronization", "Added", "Group", "Schedule"}
  ConvGroups1 = {"", "stable.example.com"}
  ConvGroups2 = {"stable.example.com"}
  MaxDefArr = 2
  WithEmpty = TRUE
  WithConfig = TRUE
  AsIs = FALSE
INVARIANTS TypeOK ExactlyOnePerContext MostSpecificFirst StopsAtFirstFailure ConfigOnly NoConfigOutput MachineIsRun Emit
CHECK_DEADLOCK FALSE
