\* exhaustive, smaller: as MC_thorough but arrays of 2 over the 10 kinds on b1 only, arrays of 3 over {Added, Schedule} on b1; Conversion versions group-qualified (none, from, to, both) in arrays of 1 only
SPECIFICATION Spec
CONSTANTS
  Names1 = {"b1"}
  Names2 = {"b1"}
  Kinds2 = {"onStartup", "Synchronization", "Added", "Modified", "Deleted", "Group", "Schedule", "Validating", "Mutating", "Conversion"}
  Extra2Names = {}
  Extra2Kinds = {}
  Names3 = {"b1"}
  Kinds3 = {"Added", "Schedule"}
  SpacedNames = {"Monitor pods in cache tier", "every minute"}
  CommandWords = {"Monitor pods in cache tier"}
  StartupKinds = {"Synchronization", "Added", "Group", "Schedule"}
  ConvGroups1 = {"", "stable.example.com"}
  ConvGroups2 = {""}
  MaxDefArr = 2
  WithEmpty = TRUE
  WithConfig = TRUE
  AsIs = FALSE
INVARIANTS TypeOK ExactlyOnePerContext MostSpecificFirst StopsAtFirstFailure ConfigOnly NoConfigOutput MachineIsRun Emit
CHECK_DEADLOCK FALSE
