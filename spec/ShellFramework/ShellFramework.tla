--------------------------- MODULE ShellFramework ---------------------------
(***************************************************************************)
(* The bundled shell framework (shell_lib.sh + frameworks/shell/hook.sh,   *)
(* context.sh): what `hook::run "$@"` does with the array of binding        *)
(* contexts in $BINDING_CONTEXT_PATH, as a reference function and as a     *)
(* small state machine with one action per step the framework takes        *)
(* (FW_Config for `--config`, FW_Dispatch once per binding context,        *)
(* FW_Finish after the last one).                                          *)
(*                                                                         *)
(* Written from the property statement (C19), DESIGN.md section 5/C19 and  *)
(* the binding-context contract in docs/src/HOOKS.md,                      *)
(* BINDING_VALIDATING.md, BINDING_CONVERSION.md - the repository has no    *)
(* separate documentation of the handler names, so the table below IS the  *)
(* reference:                                                              *)
(*                                                                         *)
(*   context (as the operator renders it)          handler names, in order *)
(*   {binding:"onStartup"} (no type)               __on_startup            *)
(*   type Synchronization, binding B               __on_kubernetes::B::synchronization, __on_kubernetes::B *)
(*   type Event, watchEvent Added                  ...::B::added, ...::B::added_or_modified, __on_kubernetes::B *)
(*   type Event, watchEvent Modified               ...::B::modified, ...::B::added_or_modified, __on_kubernetes::B *)
(*   type Event, watchEvent Deleted                ...::B::deleted, __on_kubernetes::B *)
(*   type Group, groupName G                       __on_group::G           *)
(*   type Schedule                                 __on_schedule::B        *)
(*   type Validating / Mutating                    __on_validating::B / __on_mutating::B *)
(*   type Conversion, fromVersion F, toVersion T   __on_conversion::B::F::T, __on_conversion::B *)
(*     (ASSUMPTION: a group-qualified version "group/version" is written   *)
(*      "group.version" inside the handler name, F and T each on its own:  *)
(*      that is the framework's own convention and the only way such a     *)
(*      handler can be named; the statement itself does not spell it out)  *)
(*   every context: finally                        __main__                *)
(*                                                                         *)
(* A context is identified by its *type* (and event); the binding name is  *)
(* only a parameter of the handler name.  Binding names are arbitrary      *)
(* strings of the hook configuration (the documentation uses               *)
(* "Monitor pods in cache tier", "every minute"); a name that contains     *)
(* white space cannot be part of a bash function name, so for such a       *)
(* binding only `__main__` (and `__on_startup`) can be defined.            *)
(*                                                                         *)
(* AsIs = TRUE models two things the pinned hook.sh does differently       *)
(* (MC_asis.cfg shows TLC finding both):                                   *)
(*  - it looks at the binding NAME first: any context whose binding is     *)
(*    called "onStartup" gets the onStartup candidates;                    *)
(*  - the candidate list is a white-space separated string: a binding name *)
(*    with spaces is split into words and a word the shell can resolve     *)
(*    (keyword, builtin, program: `in`, `for`, `time`, `test` ...) is      *)
(*    taken for a handler and executed.                                    *)
(***************************************************************************)
EXTENDS Integers, Sequences, FiniteSets, TLC, Json

CONSTANTS
  Names1,        \* binding names for arrays of one context (every type)
  Names2,        \* binding names for arrays of two contexts
  Kinds2,        \* context kinds for arrays of two contexts
  Extra2Names, Extra2Kinds, \* further contexts for arrays of two (a second binding name for a few kinds)
  Names3, Kinds3,\* same for arrays of three contexts
  SpacedNames,   \* binding names with white space (arrays of one context; only __main__ is definable)
  CommandWords,  \* subset of SpacedNames: one of the words is something the shell resolves (AsIs only)
  StartupKinds,  \* typed kinds that are also generated with a binding that is NAMED "onStartup"
  ConvGroups1,   \* API groups ("" = none) of fromVersion / toVersion of Conversion contexts, arrays of one context
  ConvGroups2,   \* same for arrays of two contexts (arrays of three use unqualified versions)
  MaxDefArr,     \* arrays of >= 2 contexts: at most this many handlers defined
  WithEmpty,     \* include the empty array
  WithConfig,    \* include `hook::run --config` runs
  AsIs           \* model hook.sh as it is at the pinned commit (see above)

VARIABLES ctxs,     \* the array of binding contexts (input)
          defined,  \* handler functions the hook script defines (input)
          failing,  \* handlers that return non-zero (input)
          arg,      \* "" or "--config" (input)
          i,        \* 1-based position of the context handled next; BINDING_CONTEXT_CURRENT_INDEX = i - 1
          log,      \* invocations so far: <<[h, idx, binding]>>
          out,      \* what was printed on stdout by the framework itself: "" or "CONFIG" (= output of __config__)
          status    \* "running" | "zero" | "nonzero"

vars == <<ctxs, defined, failing, arg, i, log, out, status>>

MAIN    == "__main__"
STARTUP == "__on_startup"
NONE    == "<none>"
FOREIGN == "<foreign command>"

KubeKinds  == {"Synchronization", "Added", "Modified", "Deleted"}
TypedKinds == KubeKinds \cup {"Group", "Schedule", "Validating", "Mutating", "Conversion"}
(* API versions: [g |-> group or "", v |-> version]; "group/version" in the document, "group.version" in a name *)
FROM  == "v1beta1"
TO    == "v1"
NoVer == [g |-> "", v |-> ""]
VDoc(x)  == IF x.g = "" THEN x.v ELSE x.g \o "/" \o x.v
VName(x) == IF x.g = "" THEN x.v ELSE x.g \o "." \o x.v

(* ------------------------------- contexts ------------------------------ *)
OnStartupCtx == [kind |-> "onStartup", binding |-> "onStartup", group |-> "", from |-> NoVer, to |-> NoVer]
Typed(k, n)  == [kind |-> k, binding |-> n,
                 group |-> IF k = "Group" THEN "g-" \o n ELSE "",
                 from  |-> NoVer, to |-> NoVer]
Conv(n, gf, gt) == [kind |-> "Conversion", binding |-> n, group |-> "",
                    from |-> [g |-> gf, v |-> FROM], to |-> [g |-> gt, v |-> TO]]

(* The JSON document of a context as the operator renders it (docs/src/HOOKS.md "Binding context"). *)
Doc(c) ==
  CASE c.kind = "onStartup"       -> [binding |-> c.binding]
    [] c.kind = "Synchronization" -> [binding |-> c.binding, type |-> "Synchronization", objects |-> <<>>]
    [] c.kind \in {"Added", "Modified", "Deleted"} ->
         [binding |-> c.binding, type |-> "Event", watchEvent |-> c.kind,
          object |-> [kind |-> "Pod", metadata |-> [name |-> "p", namespace |-> "default"]]]
    [] c.kind = "Group"           -> [binding |-> c.binding, type |-> "Group", groupName |-> c.group,
                                      snapshots |-> [pods |-> <<>>]]
    [] c.kind = "Schedule"        -> [binding |-> c.binding, type |-> "Schedule"]
    [] c.kind \in {"Validating", "Mutating"} ->
         [binding |-> c.binding, type |-> c.kind, review |-> [request |-> [uid |-> "u1"]]]
    [] c.kind = "Conversion"      -> [binding |-> c.binding, type |-> "Conversion", fromVersion |-> VDoc(c.from),
                                      toVersion |-> VDoc(c.to), review |-> [request |-> [uid |-> "u1"]]]

(* --------------------------- reference semantics ------------------------ *)
K(b) == "__on_kubernetes::" \o b

Specific(c) ==    \* the documented names for the context, most specific first, without __main__
  CASE c.kind = "onStartup"       -> <<STARTUP>>
    [] c.kind = "Synchronization" -> <<K(c.binding) \o "::synchronization", K(c.binding)>>
    [] c.kind = "Added"           -> <<K(c.binding) \o "::added", K(c.binding) \o "::added_or_modified", K(c.binding)>>
    [] c.kind = "Modified"        -> <<K(c.binding) \o "::modified", K(c.binding) \o "::added_or_modified", K(c.binding)>>
    [] c.kind = "Deleted"         -> <<K(c.binding) \o "::deleted", K(c.binding)>>
    [] c.kind = "Group"           -> <<"__on_group::" \o c.group>>
    [] c.kind = "Schedule"        -> <<"__on_schedule::" \o c.binding>>
    [] c.kind = "Validating"      -> <<"__on_validating::" \o c.binding>>
    [] c.kind = "Mutating"        -> <<"__on_mutating::" \o c.binding>>
    [] c.kind = "Conversion"      -> <<"__on_conversion::" \o c.binding \o "::" \o VName(c.from) \o "::" \o VName(c.to),
                                       "__on_conversion::" \o c.binding>>

Candidates(c) == Specific(c) \o <<MAIN>>

Range(s) == {s[k] : k \in 1..Len(s)}

FirstDefined(H, D) ==
  IF \E k \in 1..Len(H) : H[k] \in D
  THEN H[CHOOSE k \in 1..Len(H) : H[k] \in D /\ \A m \in 1..(k - 1) : H[m] \notin D]
  ELSE NONE

Entry(cs, k, h) == [h |-> h, idx |-> k - 1, binding |-> cs[k].binding]

RECURSIVE RunFrom(_, _, _, _)
RunFrom(cs, k, D, F) ==
  IF k > Len(cs) THEN [log |-> <<>>, exit |-> "zero"]
  ELSE LET h == FirstDefined(Candidates(cs[k]), D) IN
       IF h = NONE THEN [log |-> <<>>, exit |-> "nonzero"]
       ELSE IF h \in F THEN [log |-> <<Entry(cs, k, h)>>, exit |-> "nonzero"]
       ELSE LET r == RunFrom(cs, k + 1, D, F) IN [log |-> <<Entry(cs, k, h)>> \o r.log, exit |-> r.exit]

(* Run: the invocation log and the exit class of `hook::run` (no argument). *)
Run(cs, D, F) == RunFrom(cs, 1, D, F)
(* RunConfig: `hook::run --config`: prints what __config__ prints, no handler, success. *)
RunConfig == [log |-> <<>>, exit |-> "zero", out |-> "CONFIG"]

(* ------------------------- the code as it is (AsIs) -------------------- *)
CodeCandidates(c) ==
  IF AsIs /\ c.binding = "onStartup" THEN <<STARTUP, MAIN>> ELSE Candidates(c)
CodeDispatch(c, D) ==
  IF AsIs /\ c.binding \in CommandWords
  THEN FOREIGN ELSE FirstDefined(CodeCandidates(c), D)

(* ------------------------------ input domain --------------------------- *)
Spaced(c) == c.binding \in SpacedNames
NamedStartup(c) == c.kind # "onStartup" /\ c.binding = "onStartup"

(* Handlers of other contexts that a wrong dispatch could pick up (arrays of one context only; in longer
   arrays the candidates of the other contexts play this role). *)
Distractors(c) ==
  LET b == c.binding IN
  CASE NamedStartup(c)      -> {STARTUP}
    [] c.kind = "onStartup" -> {K(b), "__on_schedule::" \o b}
    [] c.kind \in KubeKinds -> {K(b) \o "::synchronization", K(b) \o "::added", K(b) \o "::modified",
                                K(b) \o "::deleted", K(b) \o "::added_or_modified"}
    [] c.kind = "Group"     -> {K(b), "__on_schedule::" \o b}
    [] c.kind = "Schedule"  -> {K(b), "__on_schedule::" \o b \o "x"}
    [] c.kind = "Validating"-> {"__on_mutating::" \o b}
    [] c.kind = "Mutating"  -> {"__on_validating::" \o b}
    [] c.kind = "Conversion"-> {"__on_conversion::" \o b \o "::" \o VName(c.to) \o "::" \o VName(c.from)}

Universe(cs) ==
  IF Len(cs) = 1
  THEN IF Spaced(cs[1]) THEN {MAIN, STARTUP}
       ELSE Range(Candidates(cs[1])) \cup Distractors(cs[1])
  ELSE UNION {Range(Candidates(cs[k])) : k \in 1..Len(cs)}

Ctxs(kinds, names, cg) ==
     (IF "onStartup" \in kinds THEN {OnStartupCtx} ELSE {})
     \cup {Typed(k, n) : k \in kinds \ {"onStartup", "Conversion"}, n \in names}
     \cup (IF "Conversion" \in kinds THEN {Conv(n, gf, gt) : n \in names, gf \in cg, gt \in cg} ELSE {})
AllKinds == TypedKinds \cup {"onStartup"}
C1 == Ctxs(AllKinds, Names1, ConvGroups1) \cup Ctxs(AllKinds, SpacedNames, {""})
      \cup Ctxs(StartupKinds, {"onStartup"}, {""})
C2 == Ctxs(Kinds2, Names2, ConvGroups2) \cup Ctxs(Extra2Kinds, Extra2Names, {""})
C3 == Ctxs(Kinds3, Names3, {""})

Arrays == (IF WithEmpty THEN {<<>>} ELSE {})
          \cup {<<c>> : c \in C1} \cup {<<c, d>> : c \in C2, d \in C2}
          \cup {<<c, d, e>> : c \in C3, d \in C3, e \in C3}

DefinedSets(cs) ==
  IF Len(cs) <= 1 THEN SUBSET Universe(cs)
  ELSE {D \in SUBSET Universe(cs) : Cardinality(D) <= MaxDefArr}

FailingSets(cs, D) ==
  IF Len(cs) <= 1 THEN {{}, D} ELSE {{}} \cup {{h} : h \in D}

Args(cs, F) == IF WithConfig /\ Len(cs) <= 1 /\ F = {} THEN {"", "--config"} ELSE {""}

(* -------------------------------- machine ------------------------------ *)
Init ==
  /\ ctxs \in Arrays
  /\ defined \in DefinedSets(ctxs)
  /\ failing \in FailingSets(ctxs, defined)
  /\ arg \in Args(ctxs, failing)
  /\ i = 1 /\ log = <<>> /\ out = "" /\ status = "running"

FW_Config ==
  /\ status = "running" /\ arg = "--config"
  /\ out' = "CONFIG" /\ status' = "zero"
  /\ UNCHANGED <<ctxs, defined, failing, arg, i, log>>

FW_Dispatch ==
  /\ status = "running" /\ arg = "" /\ i <= Len(ctxs)
  /\ LET h == CodeDispatch(ctxs[i], defined) IN
       IF h \in {NONE, FOREIGN}
       THEN status' = "nonzero" /\ UNCHANGED <<i, log>>
       ELSE /\ log' = Append(log, Entry(ctxs, i, h))
            /\ IF h \in failing THEN status' = "nonzero" /\ i' = i
                                ELSE status' = "running" /\ i' = i + 1
  /\ UNCHANGED <<ctxs, defined, failing, arg, out>>

FW_Finish ==
  /\ status = "running" /\ arg = "" /\ i > Len(ctxs)
  /\ status' = "zero"
  /\ UNCHANGED <<ctxs, defined, failing, arg, i, log, out>>

Next == FW_Config \/ FW_Dispatch \/ FW_Finish
Spec == Init /\ [][Next]_vars

(* ------------------------------- properties ---------------------------- *)
Done == status # "running"

TypeOK ==
  /\ status \in {"running", "zero", "nonzero"} /\ arg \in {"", "--config"} /\ out \in {"", "CONFIG"}
  /\ failing \subseteq defined /\ i \in 1..(Len(ctxs) + 1) /\ Len(log) <= Len(ctxs)

(* the k-th invocation is for the k-th context (selected as current), nothing is skipped, repeated or
   reordered; a successful run has handled every context *)
ExactlyOnePerContext ==
  /\ \A k \in 1..Len(log) : log[k].idx = k - 1 /\ log[k].binding = ctxs[k].binding
  /\ (status = "running" /\ arg = "") => Len(log) = i - 1
  /\ (status = "zero" /\ arg = "") => Len(log) = Len(ctxs)

(* every invoked handler is a documented name of its context, is defined, and no more specific documented
   name of that context is defined *)
MostSpecificFirst ==
  \A k \in 1..Len(log) :
    LET H == Candidates(ctxs[k]) IN
    \E j \in 1..Len(H) : /\ H[j] = log[k].h /\ H[j] \in defined
                         /\ \A m \in 1..(j - 1) : H[m] \notin defined

(* nothing runs after a failing handler; the run ends non-zero exactly when the last handler invoked fails
   or the next context has no defined candidate *)
StopsAtFirstFailure ==
  /\ \A k \in 1..(Len(log) - 1) : log[k].h \notin failing
  /\ (status = "nonzero") =>
        \/ Len(log) > 0 /\ log[Len(log)].h \in failing
        \/ Len(log) < Len(ctxs) /\ FirstDefined(Candidates(ctxs[Len(log) + 1]), defined) = NONE
  /\ (status = "zero") => \A k \in 1..Len(log) : log[k].h \notin failing

ConfigOnly == (arg = "--config" /\ Done) => (log = <<>> /\ out = "CONFIG" /\ status = "zero")
NoConfigOutput == arg = "" => out = ""

(* the machine and the reference function agree *)
MachineIsRun ==
  Done => IF arg = "--config"
          THEN [log |-> log, exit |-> status, out |-> out] = RunConfig
          ELSE [log |-> log, exit |-> status] = Run(ctxs, defined, failing)

(* ------------------------------ case export ---------------------------- *)
Class ==
  IF \E k \in 1..Len(ctxs) : Spaced(ctxs[k]) THEN "spaced-name"
  ELSE IF \E k \in 1..Len(ctxs) : NamedStartup(ctxs[k]) THEN "typed-binding-named-onStartup"
  ELSE IF \E k \in 1..Len(ctxs) : ctxs[k].from.g # "" \/ ctxs[k].to.g # "" THEN "group-version"
  ELSE "plain"

Emit ==
  Done => PrintT("@@" \o ToJson(
    [ctxs    |-> [k \in 1..Len(ctxs) |-> Doc(ctxs[k])],
     kinds   |-> [k \in 1..Len(ctxs) |-> ctxs[k].kind],
     n       |-> Len(ctxs),
     defined |-> defined,
     failing |-> failing,
     arg     |-> arg,
     log     |-> log,
     exit    |-> status,
     out     |-> out,
     class   |-> Class]))
=============================================================================
