\* all layouts of length <= 4 over 2 hooks, groups {"", g1, g2}, one context per task
SPECIFICATION Spec
CONSTANTS
  MaxLen = 4
  HookNames = {"a", "b"}
  Groups = {"", "g1", "g2"}
  TwoCtx = FALSE
INVARIANTS KeepsOrder OnlySameHookAndType NoGroupRun Emit
CHECK_DEADLOCK FALSE
