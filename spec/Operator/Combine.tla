------------------------------- MODULE Combine -------------------------------
(* C07 at function level: every queue layout is one initial state; the expected result of combining at the head
   is computed from CombineOps (reference semantics) and exported as a replay case. *)
EXTENDS CombineOps, Integers, Sequences, FiniteSets, TLC, Json

CONSTANTS MaxLen,      \* layouts of length 1..MaxLen
          HookNames, Groups,
          TwoCtx,      \* tasks may carry two contexts
          WithStop     \* tasks may be ones the caller's stopCombineFn rejects (they end the run and stay in the queue)

VARIABLES layout, done

C(b, g) == [b |-> b, g |-> g]
CtxLists == {<<C("b1", g)>> : g \in Groups} \cup
            (IF TwoCtx THEN {<<C("b1", g1), C("b2", g2)>> : g1 \in Groups, g2 \in Groups} ELSE {})
\* task kinds: HookRun with contexts (and 0/1 monitor id), a task of another type for a hook, a task without metadata
Stops == IF WithStop THEN BOOLEAN ELSE {FALSE}
Tasks == {[type |-> "HookRun", hook |-> h, meta |-> TRUE, ctxs |-> cs, mon |-> m, stop |-> st] : h \in HookNames, cs \in CtxLists, m \in {0, 1}, st \in Stops}
         \cup {[type |-> "Other", hook |-> h, meta |-> TRUE, ctxs |-> <<>>, mon |-> 0, stop |-> FALSE] : h \in HookNames}
         \cup {[type |-> "HookRun", hook |-> "", meta |-> FALSE, ctxs |-> <<>>, mon |-> 0, stop |-> FALSE]}
Layouts == UNION {[1..n -> Tasks] : n \in 1..MaxLen}

\* the run of tasks merged into the head: same hook, same type, and not rejected by the caller (stopCombineFn is asked
\* for same-hook same-type tasks only; the first rejected one ends the run)
Same(head, t) == t.meta /\ t.hook = head.hook /\ t.type = head.type /\ ~t.stop
Result(s) ==
  LET head == s[1]
      n == IF head.meta THEN RunLenBy(Same, head, s, 2) ELSE 0
      all == SubSeq(s, 1, 1 + n)
  IN [combined |-> n > 0,
      \* contexts tagged with their origin: task position t, context position j
      ctxs |-> IF n = 0 THEN <<>>
               ELSE CompactCtxs(Concat([i \in 1..Len(all) |-> [j \in 1..Len(all[i].ctxs) |-> [t |-> i, j |-> j, g |-> all[i].ctxs[j].g]]])),
      \* monitor ids as positions of the tasks that carry one, in queue order
      mons |-> IF n = 0 THEN <<>> ELSE SelectSeq([i \in 1..Len(all) |-> IF all[i].mon = 1 THEN i ELSE 0], LAMBDA x : x > 0),
      \* positions (in the original layout) of the tasks that stay in the queue
      rest |-> <<1>> \o [i \in 1..(Len(s) - 1 - n) |-> i + 1 + n]]

Init == layout \in Layouts /\ done = FALSE
Next == ~done /\ done' = TRUE /\ UNCHANGED layout
Spec == Init /\ [][Next]_<<layout, done>>

(* properties of the reference itself (sanity of the specification) *)
KeepsOrder == LET r == Result(layout) IN \A i \in 1..(Len(r.rest) - 1) : r.rest[i] < r.rest[i + 1]
OnlySameHookAndType == LET r == Result(layout) IN
   \A i \in 2..Len(layout) : (i \notin {r.rest[k] : k \in 1..Len(r.rest)}) => Same(layout[1], layout[i])
\* a task the caller rejects is never merged, and nothing behind it is
StopEndsTheRun == LET r == Result(layout) IN
   \A i \in 2..Len(layout) : (layout[i].stop /\ layout[i].meta /\ layout[i].hook = layout[1].hook /\ layout[i].type = layout[1].type)
        => \A j \in i..Len(layout) : j \in {r.rest[k] : k \in 1..Len(r.rest)}
NoGroupRun == LET c == Result(layout).ctxs IN \A i \in 1..(Len(c) - 1) : ~(c[i].g # "" /\ c[i].g = c[i + 1].g)

Emit == done \/ PrintT("@@" \o ToJson([layout |-> layout, res |-> Result(layout)]))
=============================================================================
