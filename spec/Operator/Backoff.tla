------------------------------- MODULE Backoff -------------------------------
(* C04, the delay before a failed task is retried: for every failure count the delay lies between the initial delay
   and the maximum (and grows monotonically in its deterministic part).  Every (initial delay, failure count) pair is
   one state; the replayer samples the real CalculateDelay and the queue's ExponentialBackoffFn against these bounds. *)
EXTENDS Integers, Sequences, TLC, Json
CONSTANTS Initials,   \* initial delays in milliseconds
          MaxCount, MaxDelayMs
VARIABLES c, done
Init == c \in [initial : Initials, n : 0..MaxCount] /\ done = FALSE
Next == ~done /\ done' = TRUE /\ UNCHANGED c
Spec == Init /\ [][Next]_<<c, done>>
\* documented: retry 0 waits exactly the initial delay; later retries never wait less than it and never more than the maximum
Lo(x) == x.initial
Hi(x) == IF x.n = 0 THEN x.initial ELSE IF x.initial > MaxDelayMs THEN x.initial ELSE MaxDelayMs
Sane == Lo(c) <= Hi(c)
Emit == done \/ PrintT("@@" \o ToJson([initial |-> c.initial, n |-> c.n, lo |-> Lo(c), hi |-> Hi(c)]))
=============================================================================
