----------------------------- MODULE OperatorLog -----------------------------
(* Trace validation of free-running executions of the real operator (no gates): objects are created in bursts on the
   fake cluster for bindings in several queues while hook processes succeed or fail at random. The log holds, in
   real-time order, one record per created object ("ev"), per hook process start ("start": hook, queue, the Event
   contexts it received as <<binding, object name>>) and per process end ("end": exit code).

   Checked on every record (properties C01, C03, C04, C07 at operator level, ungrouped bindings):
     NoOverlap   no two hook processes of one queue at the same time
     InOrder     the Event contexts of an execution are, per binding, the oldest not yet successfully delivered objects,
                 in creation order (nothing skipped, nothing invented, nothing delivered twice after a success)
     RetrySame   after a failed execution the next execution of that queue is of the same hook and starts with the same contexts
     NoLoss      at the end of a run every created object was part of a successful execution *)
EXTENDS FiniteSets, Integers, Sequences, FiniteSets, TLC, Json

CONSTANT TraceFile
VARIABLES l, pending, running, lastFailed, ok, why

Trace == ndJsonDeserialize(TraceFile)
Queues == {"main", "q1", "q2", "q3"}
Keys == {"a/k1", "a/k2", "b/k1", "c/k1", "c/k2"}

Init == /\ l = 1 /\ pending = [k \in Keys |-> <<>>] /\ running = [q \in Queues |-> "none"]
        /\ lastFailed = [q \in Queues |-> [hook |-> "", ctxs |-> <<>>]] /\ ok = TRUE /\ why = "ok"

\* the contexts of binding key k in an execution record, in order
Of(e, k) == SelectSeq(e.ctxs, LAMBDA c : e.hook \o "/" \o c.b = k)
Names(s) == [i \in 1..Len(s) |-> s[i].name]
IsPrefixOf(s, t) == Len(s) <= Len(t) /\ \A i \in 1..Len(s) : s[i] = t[i]
SetOf(s) == {s[i] : i \in 1..Len(s)}
Min2(a, b) == IF a < b THEN a ELSE b
SameSet(s, t) == Len(s) = Len(t) /\ SetOf(s) = SetOf(t) /\ Cardinality(SetOf(s)) = Len(s)
Bad(reason) == /\ ok' = FALSE /\ why' = reason /\ UNCHANGED <<pending, running, lastFailed>>

Step(e) ==
  CASE e.e = "reset" ->
         /\ pending' = [k \in Keys |-> <<>>] /\ running' = [q \in Queues |-> "none"]
         /\ lastFailed' = [q \in Queues |-> [hook |-> "", ctxs |-> <<>>]] /\ UNCHANGED <<ok, why>>
    [] e.e = "ev" ->
         /\ pending' = [pending EXCEPT ![e.k] = Append(@, e.name)] /\ UNCHANGED <<running, lastFailed, ok, why>>
    [] e.e = "start" ->
         IF running[e.q] # "none" THEN Bad("overlap")
         ELSE IF \E k \in Keys : ~IsPrefixOf(Names(Of(e, k)), pending[k])
                THEN \* the same objects as the oldest pending ones, in another order: the tasks were queued out of order
                     IF \A k \in Keys : SameSet(Names(Of(e, k)), SubSeq(pending[k], 1, Min2(Len(Of(e, k)), Len(pending[k]))))
                       THEN Bad("out-of-order") ELSE Bad("out-of-order-lost-or-duplicated")
         ELSE IF lastFailed[e.q].hook # "" /\ ~(lastFailed[e.q].hook = e.hook /\ IsPrefixOf(lastFailed[e.q].ctxs, e.ctxs)) THEN Bad("retry-different")
         ELSE /\ running' = [running EXCEPT ![e.q] = e.id] /\ UNCHANGED <<pending, lastFailed, ok, why>>
    [] e.e = "end" ->
         IF running[e.q] # e.id THEN Bad("end-without-start")
         ELSE /\ running' = [running EXCEPT ![e.q] = "none"]
              /\ IF e.exit = 0
                   THEN /\ pending' = [k \in Keys |-> SubSeq(pending[k], Len(Of(e, k)) + 1, Len(pending[k]))]
                        /\ lastFailed' = [lastFailed EXCEPT ![e.q] = [hook |-> "", ctxs |-> <<>>]]
                   ELSE /\ lastFailed' = [lastFailed EXCEPT ![e.q] = [hook |-> e.hook, ctxs |-> e.ctxs]]
                        /\ UNCHANGED pending
              /\ UNCHANGED <<ok, why>>
    [] e.e = "endrun" ->
         IF \E k \in Keys : pending[k] # <<>> THEN Bad("lost")
         ELSE IF \E q \in Queues : running[q] # "none" THEN Bad("still-running")
         ELSE UNCHANGED <<pending, running, lastFailed, ok, why>>
    [] OTHER -> Bad("unknown-record")

Next == l <= Len(Trace) /\ ok /\ Step(Trace[l]) /\ l' = l + 1
Spec == Init /\ [][Next]_<<l, pending, running, lastFailed, ok, why>>
Conforms == ok
=============================================================================
