SPECIFICATION Spec
CONSTANTS
  TraceFile = "oplog.ndjson"
INVARIANTS Conforms
CHECK_DEADLOCK FALSE
