\* layouts of length <= 3 in which every HookRun task may be one the caller's stopCombineFn rejects: 27 task kinds
SPECIFICATION Spec
CONSTANTS
  MaxLen = 3
  HookNames = {"a", "b"}
  Groups = {"", "g1", "g2"}
  TwoCtx = FALSE
  WithStop = TRUE
INVARIANTS KeepsOrder OnlySameHookAndType NoGroupRun StopEndsTheRun Emit
CHECK_DEADLOCK FALSE
