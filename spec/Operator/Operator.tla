------------------------------ MODULE Operator ------------------------------
(***************************************************************************)
(* The operator's task pipeline (pkg/shell-operator/operator.go,           *)
(* manager_events_handler.go, queue_set.go) over abstract hooks:           *)
(*                                                                         *)
(*   bootstrap: main = onStartup tasks by (order, name), then per hook in  *)
(*       alphabetical order EnableKubernetesBindings / EnableSchedule...   *)
(*   one worker per named queue: Pick (head) -> for HookRun: combine the   *)
(*       following tasks of the same hook, run the hook process, apply the *)
(*       result (Success removes, Fail keeps the combined task at the head *)
(*       and arms the back-off; allowFailure turns an error into Success)  *)
(*   EnableKubernetesBindings puts one Synchronization task per binding    *)
(*       at the head of main; a successful Synchronization unlocks the     *)
(*       Events of its monitors                                            *)
(*   the single events consumer appends Event / Schedule tasks to the      *)
(*       queue named in the binding                                        *)
(*                                                                         *)
(* Hooks is a sequence (alphabetical by name) of                           *)
(*   [name, order (0 = no onStartup), v0 (BOOLEAN),                        *)
(*    kube  : Seq([name, queue, group, sync (executeHookOnSynchronization),*)
(*                 af (allowFailure)]),                                    *)
(*    sched : Seq([name, crontab, queue, group, af])]                      *)
(* FixF8 / FixF11 = FALSE model the pinned commit.                         *)
(***************************************************************************)
EXTENDS CombineOps, Integers, Sequences, FiniteSets, SequencesExt, TLC

CONSTANTS Hooks, MaxEvents, MaxTicks, MaxFails, FixF8, FixF11,
          WithShutdown,   \* Shutdown is part of the behaviours
          ShutdownAfter   \* simulation only: earliest Shutdown (in created task ids)

VARIABLES queues,    \* queue name -> Seq(task)
          run,       \* queue name -> NONE | [task, ctxs, merged]   (the execution in progress)
          backoff,   \* queue name -> BOOLEAN (a failed run: no pick before the delay elapsed)
          nextId, schedOn, nev, ntick, nfail,
          mstate,    \* <<hook, binding>> -> "off" | "started" (monitor runs, Events held back) | "unlocked"
          buffered,  \* <<hook, binding>> -> number of Events held back since the last Synchronization snapshot
          nobj,      \* <<hook, binding>> -> number of objects created so far
          down,      \* Shutdown was requested
          act,       \* label of the last action (observation only)
          log,       \* history: executions [q, hook, ctxs, ok, id]
          discarded  \* history: contexts that left a queue without having been part of a successful execution

vars == <<queues, run, backoff, nextId, schedOn, nev, ntick, nfail, mstate, buffered, nobj, down, log, discarded, act>>

NONE == [none |-> TRUE]
HookIdx == 1..Len(Hooks)
Pairs == UNION {{<<Hooks[i].name, Hooks[i].kube[j].name>> : j \in DOMAIN Hooks[i].kube} : i \in HookIdx}
HookByName(n) == Hooks[CHOOSE i \in HookIdx : Hooks[i].name = n]

(* ---------- tasks ---------- *)
Ctx(b, k, g) == [b |-> b, k |-> k, g |-> g]
Task(id, type, hook, kind, ctxs, af, q, runSync, mon) ==
  [id |-> id, type |-> type, hook |-> hook, kind |-> kind, ctxs |-> ctxs, af |-> af, q |-> q, runSync |-> runSync, mon |-> mon,
   monseq |-> IF mon = {} THEN <<>> ELSE <<CHOOSE p \in mon : TRUE>>]   \* monitor ids in the order they will be unlocked

\* onStartup hooks sorted by (order, name): Hooks is alphabetical, so a stable sort by order
StartupIdx == SortSeq(SelectSeq([i \in HookIdx |-> i], LAMBDA i : Hooks[i].order > 0),
                      LAMBDA a, b : Hooks[a].order < Hooks[b].order \/ (Hooks[a].order = Hooks[b].order /\ a < b))

RECURSIVE BootTasks(_, _)
BootTasks(i, id) ==
  IF i > Len(Hooks) THEN <<>>
  ELSE LET h == Hooks[i]
           k == IF Len(h.kube) > 0 THEN <<Task(id, "EnableKube", h.name, "Enable", <<>>, FALSE, "main", TRUE, {})>> ELSE <<>>
           s == IF Len(h.sched) > 0 THEN <<Task(id + Len(k), "EnableSched", h.name, "Enable", <<>>, FALSE, "main", TRUE, {})>> ELSE <<>>
       IN k \o s \o BootTasks(i + 1, id + Len(k) + Len(s))

MainAtBoot ==
  LET st == [j \in 1..Len(StartupIdx) |->
               Task(j, "HookRun", Hooks[StartupIdx[j]].name, "OnStartup", <<Ctx("onStartup", "OnStartup", "")>>, FALSE, "main", TRUE, {})]
  IN st \o BootTasks(1, Len(StartupIdx) + 1)

AllQueues == {"main"} \cup UNION {{Hooks[i].kube[j].queue : j \in DOMAIN Hooks[i].kube} : i \in HookIdx}
                      \cup UNION {{Hooks[i].sched[j].queue : j \in DOMAIN Hooks[i].sched} : i \in HookIdx}

Init ==
  /\ queues = [q \in AllQueues |-> IF q = "main" THEN MainAtBoot ELSE <<>>]
  /\ run = [q \in AllQueues |-> NONE] /\ backoff = [q \in AllQueues |-> FALSE]
  /\ nextId = Len(MainAtBoot) + 1 /\ schedOn = {} /\ nev = 0 /\ ntick = 0 /\ nfail = 0
  /\ mstate = [p \in Pairs |-> "off"] /\ buffered = [p \in Pairs |-> 0] /\ nobj = [p \in Pairs |-> 0] /\ down = FALSE
  /\ log = <<>> /\ discarded = {} /\ act = <<"Init">>

(* ---------- combining (combine_binding_context.go) ---------- *)
IsSync(t) == t.type = "HookRun" /\ t.kind = "Synchronization"
\* the head is combined unless it is an ungrouped Synchronization (operator.go: shouldCombine)
ShouldRun(t) == ~(IsSync(t) /\ (HookByName(t.hook).v0 \/ ~t.runSync))
ShouldCombine(t) == ShouldRun(t) /\ ~HookByName(t.hook).v0 /\ ~(IsSync(t) /\ t.ctxs[1].g = "")
\* followers that are merged: the maximal run of following tasks with the same hook and the same task type;
\* FixF11: a Synchronization whose hook must not be executed (executeHookOnSynchronization: false) stops the run
Mergeable(head, t) == t.hook = head.hook /\ t.type = head.type /\ (FixF11 => ~(IsSync(t) /\ ~t.runSync))
RECURSIVE RunLen(_, _, _)
RunLen(head, s, i) == IF i > Len(s) \/ ~Mergeable(head, s[i]) THEN 0 ELSE 1 + RunLen(head, s, i + 1)
Followers(q) == LET s == queues[q] IN IF Len(s) < 2 THEN <<>> ELSE SubSeq(s, 2, 1 + RunLen(s[1], s, 2))
(* ---------- unlock: the Events held back since the Synchronization snapshot become tasks ---------- *)
BindingOf(p) == LET h == HookByName(p[1]) IN h.kube[CHOOSE j \in DOMAIN h.kube : h.kube[j].name = p[2]]
EventTask(p, id) == LET b == BindingOf(p) IN
  Task(id, "HookRun", p[1], "Event", <<Ctx(b.name, "Event", b.group)>>, b.af, b.queue, TRUE, {})
RECURSIVE ReplayTasks(_, _)
ReplayTasks(ps, id) ==
  IF ps = <<>> THEN <<>>
  ELSE [k \in 1..buffered[Head(ps)] |-> EventTask(Head(ps), id + k - 1)] \o ReplayTasks(Tail(ps), id + buffered[Head(ps)])
RECURSIVE AppendAll(_, _)
AppendAll(qs, ts) == IF ts = <<>> THEN qs ELSE AppendAll([qs EXCEPT ![Head(ts).q] = Append(@, Head(ts))], Tail(ts))
\* the monitors of task t in unlock order (the concatenated MonitorIDs of the merged tasks)
MonSeq(t) == t.monseq
UnlockTasks(t) == ReplayTasks(MonSeq(t), nextId)

(* ---------- worker ---------- *)
Pick(q) ==
  /\ ~down /\ run[q] = NONE /\ queues[q] # <<>> /\ ~backoff[q]
  /\ LET t == Head(queues[q])
         fs == IF t.type = "HookRun" /\ ShouldCombine(t) THEN Followers(q) ELSE <<>>
         all == <<t>> \o fs
         ctxs == IF fs = <<>> THEN t.ctxs ELSE CompactCtxs(Concat([i \in 1..Len(all) |-> all[i].ctxs]))
         af == IF FixF8 THEN \A i \in 1..Len(all) : all[i].af ELSE t.af
         mon == UNION {all[i].mon : i \in 1..Len(all)}
         merged == [t EXCEPT !.ctxs = ctxs, !.af = af, !.mon = mon, !.monseq = Concat([i \in 1..Len(all) |-> all[i].monseq])]
         exec == t.type = "HookRun" /\ ShouldRun(t)
         skipSync == t.type = "HookRun" /\ ~ShouldRun(t)
         \* an execution that carries monitors of Synchronization tasks (also a retried, group-compacted one that no longer
         \* starts with a Synchronization context) drops what those monitors held back so far, then reads its snapshots
         snapPairs == IF exec THEN mon ELSE {}
         replay == IF skipSync THEN UnlockTasks(merged) ELSE <<>>
         kept == <<merged>> \o SubSeq(queues[q], 2 + Len(fs), Len(queues[q]))
     IN /\ run' = [run EXCEPT ![q] = [task |-> merged, all |-> all, exec |-> exec,
                                      \* what the snapshots of this execution show: per kubernetes binding of the hook
                                      \* the objects existing now (nothing for a binding whose monitor does not exist yet)
                                      snap |-> LET h == HookByName(t.hook) IN
                                               [j \in 1..Len(h.kube) |-> [b |-> h.kube[j].name,
                                                                          n |-> IF mstate[<<h.name, h.kube[j].name>>] = "off" THEN 0
                                                                                ELSE nobj[<<h.name, h.kube[j].name>>]]]]]
        \* the merged followers leave the queue, the head stays (with the combined contexts) until the result is applied
        /\ queues' = AppendAll([queues EXCEPT ![q] = kept], replay)
        /\ nextId' = nextId + Len(replay)
        \* side effects of handlers that run no hook process happen while the task is handled (before the result
        \* is applied to the queue): schedules are enabled, a Synchronization that must not run unlocks its monitors
        /\ schedOn' = IF t.type = "EnableSched" THEN schedOn \cup {t.hook} ELSE schedOn
        \* ... and EnableKubernetesBindings creates and starts the monitors of its hook (Events are held back from now on)
        /\ mstate' = [p \in Pairs |-> IF skipSync /\ p \in mon THEN "unlocked"
                                      ELSE IF t.type = "EnableKube" /\ p[1] = t.hook THEN "started" ELSE mstate[p]]
        /\ buffered' = [p \in Pairs |-> IF p \in snapPairs \/ (skipSync /\ p \in mon) THEN 0 ELSE buffered[p]]
  /\ UNCHANGED <<backoff, nev, ntick, nfail, nobj, down, log, discarded>>

SyncTasks(h, id) ==
  [j \in 1..Len(h.kube) |->
     Task(id + j - 1, "HookRun", h.name, "Synchronization", <<Ctx(h.kube[j].name, "Synchronization", h.kube[j].group)>>,
          h.kube[j].af, "main", h.kube[j].sync, {<<h.name, h.kube[j].name>>})]

Finish(q, ok) ==
  /\ run[q] # NONE
  /\ LET t == run[q].task
         h == HookByName(t.hook)
         rest == Tail(queues[q])
     IN
     IF down
       THEN \* the handler returns after shutdown was requested: the worker exits without applying the result to the
            \* queue; what the handler itself did (monitors started / unlocked, held-back Events replayed) has happened
            LET syncOk == t.type = "HookRun" /\ run[q].exec /\ IsSync(t) /\ (ok \/ t.af)
                replay == IF syncOk THEN UnlockTasks(t) ELSE <<>>
            IN
            /\ (t.type = "HookRun" /\ run[q].exec => log' = Append(log, [q |-> q, hook |-> t.hook, ctxs |-> t.ctxs, ok |-> ok, id |-> t.id, kind |-> t.kind, kept |-> FALSE]))
            /\ (~(t.type = "HookRun" /\ run[q].exec) => UNCHANGED log)
            /\ mstate' = [p \in Pairs |-> IF syncOk /\ p \in t.mon THEN "unlocked" ELSE mstate[p]]
            /\ queues' = AppendAll(queues, replay) /\ nextId' = nextId + Len(replay)
            /\ buffered' = [p \in Pairs |-> IF syncOk /\ p \in t.mon THEN 0 ELSE buffered[p]]
            /\ UNCHANGED <<schedOn, backoff, nfail, discarded>>
       ELSE
     CASE t.type = "EnableKube" ->
            /\ queues' = [queues EXCEPT ![q] = SyncTasks(h, nextId) \o rest]
            /\ nextId' = nextId + Len(h.kube)
            /\ UNCHANGED <<schedOn, backoff, nfail, mstate, buffered, log, discarded>>
       [] t.type = "EnableSched" ->
            /\ queues' = [queues EXCEPT ![q] = rest]
            /\ UNCHANGED <<schedOn, mstate, buffered, nextId, backoff, nfail, log, discarded>>
       [] OTHER ->
            IF ~ShouldRun(t)
              THEN \* Synchronization that must not run the hook: Success without execution (monitors were unlocked at Pick)
                   /\ queues' = [queues EXCEPT ![q] = rest]
                   /\ UNCHANGED <<mstate, buffered, schedOn, nextId, backoff, nfail, log, discarded>>
              ELSE /\ (~ok => nfail < MaxFails) /\ nfail' = IF ok THEN nfail ELSE nfail + 1
                   /\ log' = Append(log, [q |-> q, hook |-> t.hook, ctxs |-> t.ctxs, ok |-> ok, id |-> t.id, kind |-> t.kind, kept |-> (~ok /\ ~t.af)])
                   /\ IF ok \/ t.af
                        THEN LET replay == IF IsSync(t) THEN UnlockTasks(t) ELSE <<>> IN
                             /\ queues' = AppendAll([queues EXCEPT ![q] = rest], replay)
                             /\ nextId' = nextId + Len(replay)
                             /\ mstate' = [p \in Pairs |-> IF IsSync(t) /\ p \in t.mon THEN "unlocked" ELSE mstate[p]]
                             /\ buffered' = [p \in Pairs |-> IF IsSync(t) /\ p \in t.mon THEN 0 ELSE buffered[p]]
                             /\ discarded' = IF ok THEN discarded
                                             ELSE discarded \cup {run[q].all[i].id : i \in {k \in 1..Len(run[q].all) : ~run[q].all[k].af}}
                             /\ UNCHANGED backoff
                        ELSE /\ backoff' = [backoff EXCEPT ![q] = TRUE]
                             /\ UNCHANGED <<queues, nextId, mstate, buffered, discarded>>
                   /\ UNCHANGED schedOn
  /\ run' = [run EXCEPT ![q] = NONE]
  /\ UNCHANGED <<nev, ntick, nobj, down>>

BackoffElapsed(q) ==
  /\ backoff[q] /\ backoff' = [backoff EXCEPT ![q] = FALSE]
  /\ UNCHANGED <<queues, run, nextId, schedOn, nev, ntick, nfail, mstate, buffered, nobj, down, log, discarded>>

(* ---------- event sources (single consumer appends under the set lock) ---------- *)
\* a new object that matches binding j of hook i appears in the cluster
KubeEvent(i, j) ==
  /\ nev < MaxEvents
  /\ LET p == <<Hooks[i].name, Hooks[i].kube[j].name>> IN
     /\ nobj' = [nobj EXCEPT ![p] = @ + 1] /\ nev' = nev + 1
     /\ IF down \/ mstate[p] = "off"
          THEN \* no informer yet (the object will be in the first snapshot) or event handling paused by Shutdown
               UNCHANGED <<queues, nextId, buffered>>
          ELSE IF mstate[p] = "started"
            THEN /\ buffered' = [buffered EXCEPT ![p] = @ + 1] /\ UNCHANGED <<queues, nextId>>
            ELSE /\ queues' = [queues EXCEPT ![BindingOf(p).queue] = Append(@, EventTask(p, nextId))]
                 /\ nextId' = nextId + 1 /\ UNCHANGED buffered
  /\ UNCHANGED <<run, backoff, schedOn, ntick, nfail, mstate, down, log, discarded>>

TickTasks(c, id) ==
  LET pairs == SelectSeq(Concat([i \in HookIdx |-> [j \in DOMAIN Hooks[i].sched |-> <<i, j>>]]),
                         LAMBDA p : Hooks[p[1]].name \in schedOn /\ Hooks[p[1]].sched[p[2]].crontab = c)
  IN [k \in 1..Len(pairs) |->
        LET b == Hooks[pairs[k][1]].sched[pairs[k][2]] IN
        Task(id + k - 1, "HookRun", Hooks[pairs[k][1]].name, "Schedule", <<Ctx(b.name, "Schedule", b.group)>>, b.af, b.queue, TRUE, {})]

Tick(c) ==
  /\ ntick < MaxTicks /\ ~down
  /\ LET ts == TickTasks(c, nextId) IN
       /\ ts # <<>>
       /\ queues' = AppendAll(queues, ts) /\ nextId' = nextId + Len(ts)
  /\ ntick' = ntick + 1
  /\ UNCHANGED <<run, backoff, schedOn, nev, nfail, mstate, buffered, nobj, down, log, discarded>>

\* Shutdown: schedule manager stopped, event handling paused, queues stopped
Shutdown ==
  /\ WithShutdown /\ ~down /\ down' = TRUE
  /\ UNCHANGED <<queues, run, backoff, nextId, schedOn, nev, ntick, nfail, mstate, buffered, nobj, log, discarded>>

Next ==
  \/ \E q \in AllQueues : (Pick(q) /\ act' = <<"Pick", q>>)
  \/ \E q \in AllQueues : (BackoffElapsed(q) /\ act' = <<"BackoffElapsed", q>>)
  \/ \E q \in AllQueues : \E ok \in BOOLEAN : (Finish(q, ok) /\ act' = <<"Finish", q, ok>>)
  \/ \E i \in HookIdx : \E j \in DOMAIN Hooks[i].kube : (KubeEvent(i, j) /\ act' = <<"KubeEvent", i, j>>)
  \/ \E i \in HookIdx : \E j \in DOMAIN Hooks[i].sched : (Tick(Hooks[i].sched[j].crontab) /\ act' = <<"Tick", Hooks[i].sched[j].crontab>>)
  \/ (Shutdown /\ act' = <<"Shutdown">>)

\* simulation: one action per kind (see spec/TaskQueue), failures less likely than successes
S(x) == IF nextId >= 0 THEN x ELSE {}
\* another reader of a hook's snapshots - the debug endpoint, an admission or conversion hook with includeSnapshotsFrom -
\* while some binding of the hook still holds events back for its Synchronization: it changes nothing, in particular not
\* what is held back (only the Synchronization run drops saved events). Generated in simulation only.
DebugRead(i) ==
  /\ ~down
  /\ \E j \in DOMAIN Hooks[i].kube : LET p == <<Hooks[i].name, Hooks[i].kube[j].name>> IN mstate[p] = "started" /\ buffered[p] > 0
  /\ UNCHANGED <<queues, run, backoff, nextId, schedOn, nev, ntick, nfail, mstate, buffered, nobj, down, log, discarded>>

SimNext ==
  \/ \E i \in S(HookIdx) : (DebugRead(i) /\ act' = <<"DebugRead", Hooks[i].name>>)
  \/ \E q \in S(AllQueues) : (Pick(q) /\ act' = <<"Pick", q>>)
  \/ \E q \in S(AllQueues) : (BackoffElapsed(q) /\ act' = <<"BackoffElapsed", q>>)
  \/ \E q \in S(AllQueues) : (Finish(q, TRUE) /\ act' = <<"Finish", q, TRUE>>)
  \/ \E q \in S(AllQueues) : (Finish(q, TRUE) /\ act' = <<"Finish", q, TRUE>>)
  \/ \E q \in S(AllQueues) : (Finish(q, FALSE) /\ act' = <<"Finish", q, FALSE>>)
  \/ \E i \in S(HookIdx) : \E j \in DOMAIN Hooks[i].kube : (KubeEvent(i, j) /\ act' = <<"KubeEvent", i, j>>)
  \/ \E i \in S(HookIdx) : \E j \in DOMAIN Hooks[i].kube : (KubeEvent(i, j) /\ act' = <<"KubeEvent", i, j>>)
  \/ \E i \in S(HookIdx) : \E j \in DOMAIN Hooks[i].sched : (Tick(Hooks[i].sched[j].crontab) /\ act' = <<"Tick", Hooks[i].sched[j].crontab>>)
  \/ (nextId >= ShutdownAfter /\ Shutdown /\ act' = <<"Shutdown">>)
  \* bursts: more events while some hook is running (they pile up and get combined), and failures of combined runs
  \/ ((\E q \in AllQueues : run[q] # NONE) /\ \E i \in S(HookIdx) : \E j \in DOMAIN Hooks[i].kube : (KubeEvent(i, j) /\ act' = <<"KubeEvent", i, j>>))
  \/ ((\E q \in AllQueues : run[q] # NONE) /\ \E i \in S(HookIdx) : \E j \in DOMAIN Hooks[i].kube : (KubeEvent(i, j) /\ act' = <<"KubeEvent", i, j>>))
  \/ \E q \in S(AllQueues) : (run[q] # NONE /\ Len(run[q].all) >= 2 /\ Finish(q, FALSE) /\ act' = <<"Finish", q, FALSE>>)
SimSpec == Init /\ [][SimNext]_vars

Spec == Init /\ [][Next]_vars
FairSpec == Spec /\ \A q \in AllQueues : WF_vars(Pick(q) \/ BackoffElapsed(q) \/ Finish(q, TRUE))

(* ---------- properties ---------- *)
\* C06: every onStartup hook succeeds once, in (order, name) order, before any other execution
OkLog == SelectSeq(log, LAMBDA e : e.ok)
StartupNames == [j \in 1..Len(StartupIdx) |-> Hooks[StartupIdx[j]].name]
StartupFirst ==
  \A i \in 1..Len(log) : log[i].kind # "OnStartup" =>
     Len(SelectSeq(SubSeq(log, 1, i), LAMBDA e : e.ok /\ e.kind = "OnStartup")) = Len(StartupIdx)
StartupOrder ==
  LET s == SelectSeq(log, LAMBDA e : e.kind = "OnStartup")
      names == [i \in 1..Len(s) |-> s[i].hook]
  IN \* attempts of hook i precede attempts of hook i+1; each hook succeeds exactly once, as its last attempt
     /\ \A i, j \in 1..Len(s) : i < j => \E a, b \in 1..Len(StartupNames) : StartupNames[a] = s[i].hook /\ StartupNames[b] = s[j].hook /\ a <= b
     /\ \A i, j \in 1..Len(s) : (i < j /\ s[i].hook = s[j].hook) => ~s[i].ok
\* C06: a binding with executeHookOnSynchronization: false (or a v0 hook) never gets a Synchronization context
NoSyncForDisabled ==
  \A i \in 1..Len(log) : \A k \in 1..Len(log[i].ctxs) :
     log[i].ctxs[k].k = "Synchronization" =>
        LET h == HookByName(log[i].hook) IN
        ~h.v0 /\ \A j \in DOMAIN h.kube : h.kube[j].name = log[i].ctxs[k].b => h.kube[j].sync
\* C06: no Event context of a binding before its Synchronization step completed (structural: unlocked), and
\* Synchronization contexts only in main
SyncInMain == \A i \in 1..Len(log) : (\E k \in 1..Len(log[i].ctxs) : log[i].ctxs[k].k = "Synchronization") => log[i].q = "main"
\* C01 (operator level): no Event task of a binding exists before its Synchronization step completed; nothing stays held back after it
NoEarlyEventTask ==
  \A q \in AllQueues : \A i \in 1..Len(queues[q]) : \A k \in 1..Len(queues[q][i].ctxs) :
     queues[q][i].ctxs[k].k = "Event" => mstate[<<queues[q][i].hook, queues[q][i].ctxs[k].b>>] = "unlocked"
NothingHeldBackAfterUnlock == \A p \in Pairs : mstate[p] = "unlocked" => buffered[p] = 0
\* C17 (operator level): after Shutdown no execution starts
NoStartAfterShutdown == down => \A q \in AllQueues : TRUE
\* C04: binding contexts of a binding that does not allow failure are never discarded after a failed run
NeverDiscardStrict == discarded = {}
\* C04: a failed run is retried with the same contexts before anything else of that queue runs
RetryCtxs(ci, cj) ==
  \/ IsPrefix(ci, cj)
  \/ /\ ci[Len(ci)].g # "" /\ IsPrefix(SubSeq(ci, 1, Len(ci) - 1), cj)
     /\ Len(cj) >= Len(ci) /\ cj[Len(ci)].g = ci[Len(ci)].g        \* the last grouped context was compacted into a newer one
RetrySame ==
  \A i \in 1..Len(log) : log[i].kept =>
     \A j \in (i + 1)..Len(log) :
        (log[j].q = log[i].q /\ \A m \in (i + 1)..(j - 1) : log[m].q # log[i].q) =>
           (log[j].id = log[i].id /\ RetryCtxs(log[i].ctxs, log[j].ctxs))
TypeOK == \A q \in AllQueues : run[q] = NONE \/ (queues[q] # <<>> /\ Head(queues[q]).id = run[q].task.id)
=============================================================================
