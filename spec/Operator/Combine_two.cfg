\* layouts of length <= 3 with one- and two-context tasks (compaction across and inside tasks), groups {"", g1}
SPECIFICATION Spec
CONSTANTS
  MaxLen = 3
  HookNames = {"a", "b"}
  Groups = {"", "g1"}
  TwoCtx = TRUE
  WithStop = FALSE
INVARIANTS KeepsOrder OnlySameHookAndType NoGroupRun StopEndsTheRun Emit
CHECK_DEADLOCK FALSE
