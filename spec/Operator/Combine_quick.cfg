\* all layouts of length <= 3 over 2 hooks, groups {"", g1, g2}, one context per task: 1 + 15 + 15^2 + 15^3 layouts
SPECIFICATION Spec
CONSTANTS
  MaxLen = 3
  HookNames = {"a", "b"}
  Groups = {"", "g1", "g2"}
  TwoCtx = FALSE
  WithStop = FALSE
INVARIANTS KeepsOrder OnlySameHookAndType NoGroupRun StopEndsTheRun Emit
CHECK_DEADLOCK FALSE
