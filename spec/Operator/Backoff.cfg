SPECIFICATION Spec
CONSTANTS
  Initials = {20, 1000, 5000, 12000}
  MaxCount = 9
  MaxDelayMs = 32000
INVARIANTS Sane Emit
CHECK_DEADLOCK FALSE
