----------------------------- MODULE CombineOps -----------------------------
(* Pure operators of binding-context combination (combine_binding_context.go), written from the documented rule:
   the tasks immediately following the head for the same hook and of the same task type are merged, the hook
   receives the concatenation of their binding contexts in queue order; a context with a non-empty group is left
   out when the next context has the same group (the last of each run survives). *)
EXTENDS Integers, Sequences

RECURSIVE Concat(_)
Concat(ss) == IF ss = <<>> THEN <<>> ELSE Head(ss) \o Concat(Tail(ss))
\* group compaction: a context is dropped when the next one has the same non-empty group
Compact(cs) == SelectSeq([i \in 1..Len(cs) |-> [c |-> cs[i], keep |-> ~(cs[i].g # "" /\ i < Len(cs) /\ cs[i + 1].g = cs[i].g)]],
                         LAMBDA x : x.keep)
CompactCtxs(cs) == [i \in 1..Len(Compact(cs)) |-> Compact(cs)[i].c]


\* maximal run of followers of head in s (s[1] = head) satisfying Same
RECURSIVE RunLenBy(_, _, _, _)
RunLenBy(Same(_, _), head, s, i) == IF i > Len(s) \/ ~Same(head, s[i]) THEN 0 ELSE 1 + RunLenBy(Same, head, s, i + 1)
=============================================================================
