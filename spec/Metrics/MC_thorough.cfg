\* exhaustive, reference semantics: <= 2 batches x <= 2 ops, <= 3 ops per history, 2 names, 2 label shapes, 2 groups, 2 hooks (first batch from h1: hooks are interchangeable), values {0.5, 1.0}, 3 invalid ops (VIEW hides the history); ~405 k generated / 55 k distinct states
SPECIFICATION Spec
CONSTANTS
  Names = {"m1", "m2"}
  LabelSets <- LS2
  Groups = {"g1", "g2"}
  Hooks = {"h1", "h2"}
  Values = {1, 2}
  InvalidSel <- InvFew
  MaxBatches = 2
  MaxOps = 2
  SymHooks = TRUE
  MinOps = 0
  MaxTotalOps = 3
  MaxInvalid = 2
  AvoidOpen = FALSE
  AsIs = {}
  KeepHistory = FALSE
VIEW View
INVARIANTS TypeOK
PROPERTIES AtomicValidation GroupReplaced OthersUntouched ValueRules GroupOrderIrrelevant
CHECK_DEADLOCK FALSE
