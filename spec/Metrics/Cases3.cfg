\* exhaustive case export + property check (quick): every admissible single batch of exactly 3 operations on one name, 3 label sets of 3 shapes, 2 groups, 1 hook, value {0.5}, 3 invalid ops; aimed at label-shape changes inside one batch
SPECIFICATION Spec
CONSTANTS
  Names = {"m1"}
  LabelSets <- LS3s
  Groups = {"g1", "g2"}
  Hooks = {"h1"}
  Values = {1}
  InvalidSel <- InvFew
  MaxBatches = 1
  MaxOps = 3
  SymHooks = TRUE
  MinOps = 3
  MaxTotalOps = 3
  MaxInvalid = 1
  AvoidOpen = FALSE
  AsIs = {}
  KeepHistory = TRUE
INVARIANTS TypeOK EmitCases
PROPERTIES AtomicValidation GroupReplaced OthersUntouched ValueRules GroupOrderIrrelevant
CHECK_DEADLOCK FALSE
