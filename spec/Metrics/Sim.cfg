\* behaviour generation (simulation, depth 17): 4 batches x <= 3 ops, 2 names, 4 label sets (3 shapes), 2 groups, 2 hooks, values {0.5, 1.0, 1.5}, 14 invalid ops + 3 truncations of the last operation, <= 1 rejected batch; AvoidOpen is set per run (full / clean family)
SPECIFICATION SimSpec
CONSTANTS
  Names = {"m1", "m2"}
  LabelSets <- LS4
  Groups = {"g1", "g2"}
  Hooks = {"h1", "h2"}
  Values = {1, 2, 3}
  InvalidSel <- InvAll
  MaxBatches = 4
  MaxOps = 3
  SymHooks = FALSE
  MinOps = 0
  MaxTotalOps = 12
  MaxInvalid = 1
  AvoidOpen = FALSE
  AsIs = {}
  KeepHistory = TRUE
INVARIANTS TypeOK
PROPERTIES AtomicValidation GroupReplaced OthersUntouched ValueRules GroupOrderIrrelevant
CHECK_DEADLOCK FALSE
