\* exhaustive case export + property check (thorough): every admissible history with exactly 2 operations ([op,op] or [op][op]), 2 names, 3 label sets (2 shapes), 2 groups, 2 hooks (first batch from h1: hooks are interchangeable), values {0.5, 1.0}, all 14 invalid ops + 3 truncations of the last operation; no VIEW, every history is one state
SPECIFICATION Spec
CONSTANTS
  Names = {"m1", "m2"}
  LabelSets <- LS3
  Groups = {"g1", "g2"}
  Hooks = {"h1", "h2"}
  Values = {1, 2}
  InvalidSel <- InvAll
  MaxBatches = 2
  MaxOps = 2
  SymHooks = TRUE
  MinOps = 1
  MaxTotalOps = 2
  MaxInvalid = 2
  AvoidOpen = FALSE
  AsIs = {}
  KeepHistory = TRUE
INVARIANTS TypeOK EmitCases
PROPERTIES AtomicValidation GroupReplaced OthersUntouched ValueRules GroupOrderIrrelevant
CHECK_DEADLOCK FALSE
