\* exhaustive, reference semantics: <= 2 batches x <= 2 ops, all <= 4 ops per history, 2 names, 2 label shapes, 2 groups, 1 hook, values {0.5, 1.0}, 3 invalid ops (VIEW hides the history)
SPECIFICATION Spec
CONSTANTS
  Names = {"m1", "m2"}
  LabelSets <- LS2
  Groups = {"g1", "g2"}
  Hooks = {"h1"}
  Values = {1, 2}
  InvalidSel <- InvFew
  MaxBatches = 2
  MaxOps = 2
  SymHooks = TRUE
  MinOps = 0
  MaxTotalOps = 4
  MaxInvalid = 2
  AvoidOpen = FALSE
  AsIs = {}
  KeepHistory = FALSE
VIEW View
INVARIANTS TypeOK
PROPERTIES AtomicValidation GroupReplaced OthersUntouched ValueRules GroupOrderIrrelevant
CHECK_DEADLOCK FALSE
