\* exhaustive case export + property check (quick): every admissible history with exactly 2 operations ([op,op] or [op][op]), 2 names, 2 label shapes, 2 groups, 2 hooks (first batch from h1: hooks are interchangeable), values {0.5, 1.0}, 3 invalid ops + the last operation of the file cut off at 3 positions; no VIEW, every history is one state
SPECIFICATION Spec
CONSTANTS
  Names = {"m1", "m2"}
  LabelSets <- LS2
  Groups = {"g1", "g2"}
  Hooks = {"h1", "h2"}
  Values = {1, 2}
  InvalidSel <- InvFewCut
  MaxBatches = 2
  MaxOps = 2
  SymHooks = TRUE
  MinOps = 1
  MaxTotalOps = 2
  MaxInvalid = 2
  AvoidOpen = FALSE
  AsIs = {}
  KeepHistory = TRUE
INVARIANTS TypeOK EmitCases
PROPERTIES AtomicValidation GroupReplaced OthersUntouched ValueRules GroupOrderIrrelevant
CHECK_DEADLOCK FALSE
