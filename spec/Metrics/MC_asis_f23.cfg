\* as-it-was model, defect F23 (ungrouped op with other label names dropped): TLC must report a violation of ValueRules; <= 2 batch(es) x <= 1 ops, 2 names, 2 label shapes, 2 groups, 2 hooks, values {0.5, 1.0}
SPECIFICATION Spec
CONSTANTS
  Names = {"m1", "m2"}
  LabelSets <- LS2
  Groups = {"g1", "g2"}
  Hooks = {"h1", "h2"}
  Values = {1, 2}
  InvalidSel <- InvFew
  MaxBatches = 2
  MaxOps = 1
  SymHooks = TRUE
  MinOps = 0
  MaxTotalOps = 2
  MaxInvalid = 0
  AvoidOpen = FALSE
  AsIs = {"F23"}
  KeepHistory = FALSE
VIEW View
INVARIANTS TypeOK
PROPERTIES AtomicValidation GroupReplaced OthersUntouched ValueRules
CHECK_DEADLOCK FALSE
