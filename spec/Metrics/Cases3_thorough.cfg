\* exhaustive case export + property check (thorough): every admissible single batch of exactly 3 operations on one name, 4 label sets (3 shapes), 2 groups, 1 hook, values {0.5, 1.0}, 3 invalid ops; aimed at label-shape changes inside one batch
SPECIFICATION Spec
CONSTANTS
  Names = {"m1"}
  LabelSets <- LS4
  Groups = {"g1", "g2"}
  Hooks = {"h1"}
  Values = {1, 2}
  InvalidSel <- InvFew
  MaxBatches = 1
  MaxOps = 3
  SymHooks = TRUE
  MinOps = 3
  MaxTotalOps = 3
  MaxInvalid = 1
  AvoidOpen = FALSE
  AsIs = {}
  KeepHistory = TRUE
INVARIANTS TypeOK EmitCases
PROPERTIES AtomicValidation GroupReplaced OthersUntouched ValueRules GroupOrderIrrelevant
CHECK_DEADLOCK FALSE
