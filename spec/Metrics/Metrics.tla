------------------------------ MODULE Metrics ------------------------------
(***************************************************************************)
(* Hook metrics (property C16): what a sequence of metric batches written  *)
(* by hooks must leave in the one Prometheus registry served under         *)
(* /metrics/hooks.  Reference semantics written from the property          *)
(* statement and docs/src/metrics/METRICS_FROM_HOOKS.md, structured like   *)
(* MetricStorage.SendBatch in pkg/metric_storage/metric_storage.go:        *)
(*   validate every op -> split by group -> per group: expire, apply the   *)
(*   group's ops in order (an explicit expire op wipes again) -> apply     *)
(*   the ungrouped ops in order.                                           *)
(*                                                                         *)
(* reg: (name, labelset) -> [kind, val, cnt, group]                        *)
(*   labelset = set of <<label, value>> pairs, always with <<"hook", h>>   *)
(*   val  = counter / gauge value, histogram sum, in units of 0.5          *)
(*   cnt  = histogram sample count (0 for the other kinds)                 *)
(*   group = "" for ungrouped series                                       *)
(*                                                                         *)
(* Domain restrictions (Admissible): excluded is what no implementation    *)
(* that exposes one Prometheus registry can satisfy, because a registry    *)
(* holds one value per (name, labelset) and one type per name:             *)
(*   - two groups, or a group and an ungrouped operation, claiming the     *)
(*     same (name, labelset): the statement asks for the series to stay    *)
(*     (owner untouched) and to be replaced (other claimant) at once;      *)
(*   - one metric name used with two kinds (counter/gauge/histogram),      *)
(*     anywhere in the history.                                            *)
(* Not generated because the statement is silent: negative values, an      *)
(* operation carrying its own "hook" label, labels with empty values,      *)
(* "expire" with a name.                                                   *)
(*                                                                         *)
(* `cut` # "" marks an operation of the metrics FILE that is cut off in    *)
(* the middle (the file ends inside the JSON document: hook killed, disk   *)
(* full, a missing closing brace): "string" inside a string, "colon" right *)
(* after a colon, "labels" inside the labels object.  It can only be the   *)
(* LAST operation of a batch, it is an invalid operation whatever its      *)
(* fields say, and the batch is refused as a whole like any other invalid  *)
(* batch.  (It exists in the file syntax only; the harness writes such a   *)
(* batch as a file in every rendering.)                                    *)
(*                                                                         *)
(* AsIs selects the behaviour of the code at the pinned commit for the     *)
(* defects found (MC_asis_*.cfg show TLC finding each of them):            *)
(*   "F18" a grouped add written with the `add` shortcut is applied twice  *)
(*   "F19" grouped counters store uint64(value)                            *)
(*   "F23" an ungrouped op whose label names differ from the first         *)
(*         ungrouped use of the name is dropped                            *)
(*   "F24" a name used both inside and outside groups: only the path that  *)
(*         registered the name first is applied, the other one is dropped  *)
(* AsIs = {} is the reference semantics (the code after the proposed       *)
(* fixes for F18/F19; F23/F24 are open findings).                          *)
(***************************************************************************)
EXTENDS Integers, Sequences, FiniteSets, TLC, Json

CONSTANTS Names,        \* metric names
          LabelSets,    \* label sets a hook may write, each a set of <<label, value>> pairs
          Groups,       \* group names
          Hooks,        \* hook names (value of the added `hook` label)
          Values,       \* positive integers, unit 0.5 (1 = 0.5, 2 = 1.0, 3 = 1.5)
          InvalidSel,   \* which invalid operations are in the domain (see InvalidOps)
          MaxBatches, MaxOps,
          MinOps,       \* smallest batch (exhaustive case generation uses 1)
          SymHooks,     \* TRUE: the first batch comes from one fixed hook (hooks are interchangeable: halves the histories)
          MaxTotalOps,  \* bound on the number of operations in a history
          MaxInvalid,   \* at most this many rejected batches per history
          AvoidOpen,    \* TRUE: histories stay clear of the input classes of the open findings F23/F24
          AsIs,         \* see above
          KeepHistory   \* TRUE: h records every batch with the registry expected after it (replay)

VARIABLES reg,          \* the registry
          kinds,        \* name -> "none" | "counter" | "gauge" | "histogram"  (first use decides)
          firstShape,   \* name -> label names of the first ungrouped use (or NoShape)
          usedG, usedU, \* names used inside groups / outside groups so far
          owner,        \* name -> "none" | "g" | "u": path that used the name first (AsIs "F24" only)
          nb, nops, ninv,
          last,         \* the batch just sent: [hook, ops, err]
          h,            \* history for replay
          pending, hook \* simulation only: batch being composed and the hook that will send it

vars == <<reg, kinds, firstShape, usedG, usedU, owner, nb, nops, ninv, last, h, pending, hook>>
\* the counters matter only where their bound can bind; the input-class bookkeeping only where it is used
Bounds == <<nb, IF MaxTotalOps < MaxBatches * MaxOps THEN nops ELSE 0, IF MaxInvalid < MaxBatches THEN ninv ELSE 0>>
View == IF AvoidOpen \/ AsIs # {}
        THEN <<reg, kinds, Bounds, firstShape, usedG, usedU, owner>>
        ELSE <<reg, kinds, Bounds>>

\* label sets for the cfgs (a cfg cannot write tuples): two shapes / four sets over three shapes
LS2 == {{}, {<<"a", "x">>}}
LS3 == {{}, {<<"a", "x">>}, {<<"a", "y">>}}
LS3s == {{}, {<<"a", "x">>}, {<<"a", "x">>, <<"b", "y">>}}
LS4 == {{}, {<<"a", "x">>}, {<<"a", "y">>}, {<<"a", "x">>, <<"b", "y">>}}
InvFew == {"bogus_u", "novalue_setg", "observe_g"}
InvCut == {"cut_str", "cut_colon", "cut_labels"}
InvFewCut == InvFew \cup InvCut
InvAll == {"noaction_u", "noaction_g", "bogus_u", "bogus_g", "expire_u", "observe_g", "novalue_add", "novalue_setg",
           "novalue_obs", "nobuckets", "noname_u", "noname_g", "both_u", "both_g"} \cup InvCut

NoGroup == ""
NoValue == 0 - 1
NoShape == {"-"}
Frac(v) == v % 2 = 1

(* ---------- operations ---------- *)
UOps(a)   == [group : {NoGroup}, name : Names, action : {a}, labels : LabelSets, value : Values, buckets : {a = "observe"}, cut : {""}]
GOps(a)   == [group : Groups, name : Names, action : {a}, labels : LabelSets, value : Values, buckets : {FALSE}, cut : {""}]
ExpireOps == [group : Groups, name : {""}, action : {"expire"}, labels : {{}}, value : {NoValue}, buckets : {FALSE}, cut : {""}]
ValidOps  == UOps("add") \cup UOps("set") \cup UOps("observe") \cup GOps("add") \cup GOps("set") \cup ExpireOps

N1 == CHOOSE n \in Names : TRUE
G1 == CHOOSE g \in Groups : TRUE
V1 == CHOOSE v \in Values : TRUE
L1 == CHOOSE ls \in LabelSets : ls # {}
Base(g, a) == [group |-> g, name |-> N1, action |-> a, labels |-> {}, value |-> V1, buckets |-> (a = "observe"), cut |-> ""]
\* one representative per rule of the file format; the key is only a selector for the cfg
InvalidTable ==
  [ noaction_u   |-> Base(NoGroup, ""),
    noaction_g   |-> Base(G1, ""),
    bogus_u      |-> Base(NoGroup, "bogus"),
    bogus_g      |-> Base(G1, "bogus"),
    expire_u     |-> [Base(NoGroup, "expire") EXCEPT !.value = NoValue],
    observe_g    |-> Base(G1, "observe"),
    novalue_add  |-> [Base(NoGroup, "add") EXCEPT !.value = NoValue],
    novalue_setg |-> [Base(G1, "set") EXCEPT !.value = NoValue],
    novalue_obs  |-> [Base(NoGroup, "observe") EXCEPT !.value = NoValue],
    nobuckets    |-> [Base(NoGroup, "observe") EXCEPT !.buckets = FALSE],
    noname_u     |-> [Base(NoGroup, "set") EXCEPT !.name = ""],
    noname_g     |-> [Base(G1, "add") EXCEPT !.name = ""],
    both_u       |-> Base(NoGroup, "both"),      \* `set` and `add` shortcuts given together
    both_g       |-> Base(G1, "both"),
    \* the last operation of the file is cut off in the middle; what is left of it would be a valid operation
    cut_str      |-> [Base(G1, "set") EXCEPT !.cut = "string"],
    cut_colon    |-> [Base(NoGroup, "add") EXCEPT !.cut = "colon"],
    cut_labels   |-> [Base(G1, "add") EXCEPT !.labels = L1, !.cut = "labels"] ]
InvalidOps == {InvalidTable[k] : k \in InvalidSel}
Ops == ValidOps \cup InvalidOps

\* The rules of the file format (docs: name/action/value; observe needs buckets and is not supported in groups;
\* expire only with a group).
Valid(op) ==
  /\ op.cut = ""
  /\ op.action \in (IF op.group = NoGroup THEN {"add", "set", "observe"} ELSE {"add", "set", "expire"})
  /\ (op.action # "expire" => op.name # "")
  /\ (op.action \in {"add", "set", "observe"} => op.value # NoValue)
  /\ (op.action = "observe" => op.buckets)

KindOf(a) == CASE a = "add" -> "counter" [] a = "set" -> "gauge" [] a = "observe" -> "histogram" [] OTHER -> "none"
Key(op, k) == [name |-> op.name, labels |-> op.labels \cup {<<"hook", k>>}]
Shape(ls)  == {p[1] : p \in ls}
IsMetric(op) == Valid(op) /\ op.action # "expire"
BatchValid(ops) == \A i \in DOMAIN ops : Valid(ops[i])

\* label names of the first ungrouped use of name n, this batch included
EffShape(ops, k, n) ==
  IF firstShape[n] # NoShape THEN firstShape[n]
  ELSE LET I == {i \in DOMAIN ops : IsMetric(ops[i]) /\ ops[i].group = NoGroup /\ ops[i].name = n}
       IN IF I = {} THEN NoShape ELSE Shape(Key(ops[CHOOSE i \in I : \A j \in I : i <= j], k).labels)
\* the path that used name n first, this batch included (the code applies grouped operations first)
EffOwner(ops, n) ==
  IF owner[n] # "none" THEN owner[n]
  ELSE IF \E i \in DOMAIN ops : IsMetric(ops[i]) /\ ops[i].name = n /\ ops[i].group # NoGroup THEN "g"
  ELSE IF \E i \in DOMAIN ops : IsMetric(ops[i]) /\ ops[i].name = n THEN "u" ELSE "none"

(* ---------- the generated domain ---------- *)
Admissible(ops, k) ==
  LET M == {i \in DOMAIN ops : IsMetric(ops[i])} IN
  /\ Cardinality({i \in DOMAIN ops : ~Valid(ops[i])}) <= 1
  /\ \A i \in DOMAIN ops : ops[i].cut # "" => \A j \in DOMAIN ops : j <= i    \* a file can only be cut at its end
  /\ \A i \in M :
       LET o == ops[i]  key == Key(o, k) IN
       \* one kind per name
       /\ kinds[o.name] \in {"none", KindOf(o.action)}
       /\ \A j \in M : ops[j].name = o.name => ops[j].action = o.action
       \* one claimant per series
       /\ (key \in DOMAIN reg => reg[key].group = o.group)
       /\ \A j \in M : Key(ops[j], k) = key => ops[j].group = o.group
       \* optional: stay clear of the open findings
       /\ AvoidOpen =>
            /\ \A j \in M : ops[j].name = o.name => (ops[j].group = NoGroup) = (o.group = NoGroup)
            /\ IF o.group = NoGroup
               THEN o.name \notin usedG /\ EffShape(ops, k, o.name) = Shape(key.labels)
               ELSE o.name \notin usedU

(* ---------- SendBatch ---------- *)
Put(r, key, s) == [x \in DOMAIN r \cup {key} |-> IF x = key THEN s ELSE r[x]]
Expire(r, g)   == [x \in {y \in DOMAIN r : r[y].group # g} |-> r[x]]
Zero == [kind |-> "none", val |-> 0, cnt |-> 0, group |-> NoGroup]
Old(r, key) == IF key \in DOMAIN r THEN r[key] ELSE Zero

Trunc(v) == (v \div 2) * 2
Dropped(ops, op, k) ==
  \/ "F23" \in AsIs /\ op.group = NoGroup /\ EffShape(ops, k, op.name) # Shape(Key(op, k).labels)
  \/ "F24" \in AsIs /\ EffOwner(ops, op.name) # (IF op.group = NoGroup THEN "u" ELSE "g")

ApplyOp(r, ops, op, k) ==
  LET key == Key(op, k)  old == Old(r, key) IN
  IF op.action = "expire" THEN Expire(r, op.group)
  ELSE IF Dropped(ops, op, k) THEN r
  ELSE IF op.action = "add" THEN
         LET v1 == IF "F18" \in AsIs /\ op.group # NoGroup THEN 2 * op.value ELSE op.value
             nv == IF "F19" \in AsIs /\ op.group # NoGroup THEN old.val + Trunc(v1) ELSE old.val + v1
         IN Put(r, key, [kind |-> "counter", val |-> nv, cnt |-> 0, group |-> op.group])
  ELSE IF op.action = "set" THEN Put(r, key, [kind |-> "gauge", val |-> op.value, cnt |-> 0, group |-> op.group])
  ELSE Put(r, key, [kind |-> "histogram", val |-> old.val + op.value, cnt |-> old.cnt + 1, group |-> op.group])

RECURSIVE ApplySeq(_, _, _, _)
ApplySeq(r, ops, s, k) == IF s = <<>> THEN r ELSE ApplySeq(ApplyOp(r, ops, Head(s), k), ops, Tail(s), k)

OfGroup(ops, g) == SelectSeq(ops, LAMBDA o : o.group = g)
GroupsIn(ops) == {ops[i].group : i \in DOMAIN ops} \ {NoGroup}

\* applyGroupOperations: implicit expire, then the group's operations one by one
ApplyGroup(r, ops, g, k) == ApplySeq(Expire(r, g), ops, OfGroup(ops, g), k)

RECURSIVE ApplyGroups(_, _, _, _)
ApplyGroups(r, ops, gs, k) ==
  IF gs = <<>> THEN r ELSE ApplyGroups(ApplyGroup(r, ops, Head(gs), k), ops, Tail(gs), k)

RECURSIVE SeqOfSet(_)
SeqOfSet(S) == IF S = {} THEN <<>> ELSE LET x == CHOOSE x \in S : TRUE IN <<x>> \o SeqOfSet(S \ {x})
Reverse(s) == [i \in 1..Len(s) |-> s[Len(s) + 1 - i]]

ApplyBatchOrdered(r, ops, gs, k) == ApplySeq(ApplyGroups(r, ops, gs, k), ops, OfGroup(ops, NoGroup), k)

ApplyBatch(ops, k) ==
  IF ~BatchValid(ops) THEN [err |-> TRUE, reg |-> reg]                       \* ValidateOperations
  ELSE [err |-> FALSE, reg |-> ApplyBatchOrdered(reg, ops, SeqOfSet(GroupsIn(ops)), k)]

SeriesOf(r) == {[name |-> key.name, labels |-> key.labels, kind |-> r[key].kind, val |-> r[key].val,
                 cnt |-> r[key].cnt, group |-> r[key].group] : key \in DOMAIN r}

\* input classes of the open findings, per batch (carried to the replay as the signature of a failure)
ShapeChanged(ops, k) ==
  {Key(ops[i], k) : i \in {j \in DOMAIN ops : IsMetric(ops[j]) /\ ops[j].group = NoGroup
                                              /\ EffShape(ops, k, ops[j].name) # Shape(Key(ops[j], k).labels)}}
NamesG(ops) == {ops[i].name : i \in {j \in DOMAIN ops : IsMetric(ops[j]) /\ ops[j].group # NoGroup}}
NamesU(ops) == {ops[i].name : i \in {j \in DOMAIN ops : IsMetric(ops[j]) /\ ops[j].group = NoGroup}}
FracNames(ops) == {ops[i].name : i \in {j \in DOMAIN ops : IsMetric(ops[j]) /\ ops[j].group # NoGroup
                                                          /\ ops[j].action = "add" /\ Frac(ops[j].value)}}

Send(ops, k) ==
  LET res == ApplyBatch(ops, k)
      ok  == ~res.err
      ng  == IF ok THEN usedG \cup NamesG(ops) ELSE usedG
      nu  == IF ok THEN usedU \cup NamesU(ops) ELSE usedU
  IN
  /\ nb < MaxBatches
  /\ Len(ops) >= MinOps
  /\ nops + Len(ops) <= MaxTotalOps
  /\ Admissible(ops, k)
  /\ (res.err => ninv < MaxInvalid)
  /\ reg' = res.reg
  /\ kinds' = IF ok THEN [n \in Names |-> IF \E i \in DOMAIN ops : IsMetric(ops[i]) /\ ops[i].name = n
                                          THEN KindOf(ops[CHOOSE i \in DOMAIN ops : IsMetric(ops[i]) /\ ops[i].name = n].action)
                                          ELSE kinds[n]]
              ELSE kinds
  /\ firstShape' = IF ok THEN [n \in Names |-> EffShape(ops, k, n)] ELSE firstShape
  /\ usedG' = ng /\ usedU' = nu
  /\ owner' = IF ok /\ "F24" \in AsIs THEN [n \in Names |-> EffOwner(ops, n)] ELSE owner
  /\ nb' = nb + 1 /\ nops' = nops + Len(ops) /\ ninv' = IF res.err THEN ninv + 1 ELSE ninv
  /\ last' = [hook |-> k, ops |-> ops, err |-> res.err]
  /\ h' = IF KeepHistory
          THEN Append(h, [hook |-> k, ops |-> ops, err |-> res.err, post |-> SeriesOf(res.reg),
                          shape |-> IF ok THEN ShapeChanged(ops, k) ELSE {},
                          mixed |-> IF ok THEN (ng \cap nu) ELSE {},
                          frac  |-> IF ok THEN FracNames(ops) ELSE {}])
          ELSE h

(* ---------- exhaustive exploration: one action per batch ---------- *)
\* (nested quantifiers over the constant set Ops with early pruning: Admissible is prefix-closed)
Room(n) == n <= MaxOps /\ nops + n <= MaxTotalOps
SendAny(k) ==
  \/ Send(<<>>, k)
  \/ Room(1) /\ \E o1 \in Ops : Admissible(<<o1>>, k) /\
        \/ Send(<<o1>>, k)
        \/ Room(2) /\ \E o2 \in Ops : Admissible(<<o1, o2>>, k) /\
              \/ Send(<<o1, o2>>, k)
              \/ Room(3) /\ \E o3 \in Ops : Send(<<o1, o2, o3>>, k)

Init ==
  /\ reg = <<>> /\ kinds = [n \in Names |-> "none"] /\ firstShape = [n \in Names |-> NoShape]
  /\ usedG = {} /\ usedU = {} /\ owner = [n \in Names |-> "none"]
  /\ nb = 0 /\ nops = 0 /\ ninv = 0
  /\ last = [hook |-> "", ops |-> <<>>, err |-> FALSE] /\ h = <<>>
  /\ pending = <<>> /\ hook = ""

H1 == CHOOSE k \in Hooks : TRUE
Next == nb < MaxBatches /\ \E k \in (IF SymHooks /\ nb = 0 THEN {H1} ELSE Hooks) : SendAny(k) /\ UNCHANGED <<pending, hook>>
Spec == Init /\ [][Next]_vars

(* ---------- behaviour generation (simulation): a batch is composed operation by operation ---------- *)
\* TLC's simulator draws one top-level action, then one of its successors; S hides the constant bounds so that
\* each disjunct below is one action (this fixes the mix of operation kinds and the batch length distribution).
S(x) == IF nb >= 0 THEN x ELSE {}
AddOp(op) ==
  /\ nb < MaxBatches /\ Len(pending) < MaxOps /\ nops + Len(pending) < MaxTotalOps
  /\ (~Valid(op) => ninv < MaxInvalid)
  /\ Admissible(Append(pending, op), hook)
  /\ pending' = Append(pending, op)
  /\ UNCHANGED <<reg, kinds, firstShape, usedG, usedU, owner, nb, nops, ninv, last, h, hook>>
SimSend == \E nh \in S(Hooks) : Send(pending, hook) /\ pending' = <<>> /\ hook' = nh
SimNext ==
  \/ \E op \in S(UOps("add")) : AddOp(op)
  \/ \E op \in S(UOps("set")) : AddOp(op)
  \/ \E op \in S(UOps("observe")) : AddOp(op)
  \/ \E op \in S(GOps("add")) : AddOp(op)
  \/ \E op \in S(GOps("set")) : AddOp(op)
  \/ \E op \in S(GOps("add") \cup GOps("set")) : AddOp(op)      \* (a second draw: grouped operations weigh 3 of 9)
  \/ \E op \in S(ExpireOps) : AddOp(op)
  \/ \E op \in S(InvalidOps) : AddOp(op)
  \/ SimSend
SimInit ==
  /\ reg = <<>> /\ kinds = [n \in Names |-> "none"] /\ firstShape = [n \in Names |-> NoShape]
  /\ usedG = {} /\ usedU = {} /\ owner = [n \in Names |-> "none"]
  /\ nb = 0 /\ nops = 0 /\ ninv = 0
  /\ last = [hook |-> "", ops |-> <<>>, err |-> FALSE] /\ h = <<>>
  /\ pending = <<>> /\ hook \in Hooks
SimSpec == SimInit /\ [][SimNext]_vars

(* ---------- exhaustive case export (Cases.cfg; no VIEW: every history is a state) ---------- *)
EmitCases == (nops = MaxTotalOps \/ nb = MaxBatches) => PrintT("@@" \o ToJson(h))

(* ---------- properties (C16), stated over one step reg -> reg' with the batch last' ---------- *)
\* indices of the operations of group g (NoGroup: the ungrouped ones) that count: metric operations that are
\* not followed by an explicit expire of their group
EffIdx(ops, g) ==
  {i \in DOMAIN ops : /\ ops[i].group = g /\ ops[i].action # "expire"
                      /\ ~\E j \in DOMAIN ops : j > i /\ ops[j].group = g /\ ops[j].action = "expire" /\ g # NoGroup}
Targets(ops, k, g) == {Key(ops[i], k) : i \in EffIdx(ops, g)}
RECURSIVE SumAt(_, _)
SumAt(ops, I) == IF I = {} THEN 0 ELSE LET i == CHOOSE i \in I : TRUE IN ops[i].value + SumAt(ops, I \ {i})
MaxOf(I) == CHOOSE i \in I : \A j \in I : j <= i

Sent == nb' = nb + 1

TypeOK ==
  /\ \A key \in DOMAIN reg :
       /\ key.name \in Names
       /\ \E p \in key.labels : p[1] = "hook" /\ p[2] \in Hooks            \* the hook label is always added
       /\ Cardinality({p \in key.labels : p[1] = "hook"}) = 1
       /\ reg[key].kind \in {"counter", "gauge", "histogram"}
       /\ reg[key].group \in Groups \cup {NoGroup}
       /\ reg[key].kind = kinds[key.name]
  /\ nb \in 0..MaxBatches

\* an invalid operation anywhere in the batch: nothing is applied and the execution fails; otherwise no error
AtomicValidation ==
  [][Sent => IF BatchValid(last'.ops) THEN ~last'.err ELSE last'.err /\ reg' = reg]_vars

\* for every group mentioned: exactly the series of this batch remain under that group
GroupReplaced ==
  [][Sent /\ ~last'.err =>
       \A g \in GroupsIn(last'.ops) :
          {key \in DOMAIN reg' : reg'[key].group = g} = Targets(last'.ops, last'.hook, g)]_vars

\* series of other groups and ungrouped series the batch does not name stay as they are; nothing else appears
OthersUntouched ==
  [][Sent /\ ~last'.err =>
       LET ops == last'.ops
           touched == Targets(ops, last'.hook, NoGroup)
           gs == GroupsIn(ops) IN
       /\ \A key \in DOMAIN reg : (reg[key].group \notin gs /\ key \notin touched) => (key \in DOMAIN reg' /\ reg'[key] = reg[key])
       /\ \A key \in DOMAIN reg' \ DOMAIN reg : key \in touched \/ reg'[key].group \in gs]_vars

\* values: a counter accumulates (within the batch; for ungrouped series also across batches), a gauge keeps the
\* last value, a histogram counts and sums its observations; halves stay halves
ValueRules ==
  [][Sent /\ ~last'.err =>
       LET ops == last'.ops  k == last'.hook IN
       \A g \in GroupsIn(ops) \cup {NoGroup} : \A key \in Targets(ops, k, g) :
          LET I == {i \in EffIdx(ops, g) : Key(ops[i], k) = key}
              base == IF g = NoGroup THEN Old(reg, key) ELSE Zero
              a == ops[MaxOf(I)].action IN
          /\ key \in DOMAIN reg'
          /\ reg'[key].group = g
          /\ reg'[key].kind = KindOf(a)
          /\ CASE a = "add" -> reg'[key].val = base.val + SumAt(ops, I) /\ reg'[key].cnt = 0
               [] a = "set" -> reg'[key].val = ops[MaxOf(I)].value /\ reg'[key].cnt = 0
               [] OTHER     -> reg'[key].val = base.val + SumAt(ops, I) /\ reg'[key].cnt = base.cnt + Cardinality(I)]_vars

\* Go iterates the map of groups in random order: the result must not depend on it
GroupOrderIrrelevant ==
  [][Sent /\ ~last'.err =>
       LET gs == SeqOfSet(GroupsIn(last'.ops)) IN
       ApplyBatchOrdered(reg, last'.ops, gs, last'.hook) = ApplyBatchOrdered(reg, last'.ops, Reverse(gs), last'.hook)]_vars
=============================================================================
