------------------------------- MODULE RateOps -------------------------------
(* Arithmetic of the execution rate limit (property C18), shared by RateLimit.tla (the design, discrete time)
   and RateLimitTrace.tla (recorded start times of the real operator).

   A hook configured with executionMinInterval I and executionBurst B: the number of executions started within any
   window of length T never exceeds B + T/I rounded up.  `seq` is the non-decreasing sequence of start times of one
   hook, in ticks; I is the interval in ticks; S is a measurement slack in ticks (0 in the design). *)
EXTENDS Integers, Sequences

CeilDiv(a, b) == (a + b - 1) \div b

\* the property of the statement: every window [seq[i], seq[j]] holds at most B + ceil(T/I) starts
WindowOK(seq, I, B, S) ==
  \A i \in 1..Len(seq) : \A j \in i..Len(seq) :
     (j - i + 1) <= B + CeilDiv(seq[j] - seq[i] + S, I)

\* what a token bucket of capacity B refilled every I ticks can produce (conformance, stricter than the statement):
\* at most B tokens at the beginning of a window plus one per complete interval
BucketOK(seq, I, B, S) ==
  \A i \in 1..Len(seq) : \A j \in i..Len(seq) :
     (j - i + 1) <= B + ((seq[j] - seq[i] + S) \div I)

NonDecreasing(seq) == \A i \in 1..(Len(seq) - 1) : seq[i] <= seq[i + 1]
=============================================================================
