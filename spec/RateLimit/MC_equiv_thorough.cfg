\* exhaustive, horizon 12, <= 7 starts placed arbitrarily (no limiter): the window monitor rejects exactly the sequences the literal formula rejects
SPECIFICATION Spec
CONSTANTS
  Hooks = {"h1", "h2"}
  Queues = {"qa", "qb"}
  Configs <- CfgEquiv
  Sources = {"kube"}
  KeepHistory = TRUE
  HistFor = {"h1"}
  Horizon = 12
  MaxLen = 2
  MaxPerTick = 0
  MaxArrivals = 7
  MaxFails = 0
  ArriveWeight = 1
  Wiring = "nowait"
VIEW View
INVARIANTS MonitorExact
CHECK_DEADLOCK FALSE
