\* exhaustive, unbounded time (no clock; window monitor): 2 hooks, h1 in {2,3}x{1,2}, h2 none or (2,1), shared/separate/multi = 24 configurations; queues <= 2 tasks, <= 1 failed run
SPECIFICATION Spec
CONSTANTS
  Hooks = {"h1", "h2"}
  Queues = {"qa", "qb"}
  Configs <- CfgQuick3
  Sources = {"kube"}
  KeepHistory = FALSE
  HistFor = {}
  Horizon = 0
  MaxLen = 2
  MaxPerTick = 0
  MaxArrivals = 0
  MaxFails = 1
  ArriveWeight = 1
  Wiring = "ok"
VIEW View
INVARIANTS TypeOK WindowBoundMon MonAboveCredit Unthrottled NoNeedlessWait
CHECK_DEADLOCK FALSE
