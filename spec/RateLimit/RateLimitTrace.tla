--------------------------- MODULE RateLimitTrace ---------------------------
(* Trace validation for C18: the start times of the hook processes of a real ShellOperator, quantised to ticks,
   are read back by TLC and the window bound of RateOps (the formula RateLimit.tla is checked against) is
   evaluated after every recorded start.

   One ND-JSON record per line, all records with the same fields:
     [ev |-> "hook",  run, hook, I, B, S, t]   a new sequence: hook `hook` of scenario `run`, interval I ticks, burst B,
                                                measurement slack S ticks (quantisation + jitter allowance)
     [ev |-> "start", run, hook, t]            one execution of that hook started in tick t
   WindowBound is the property.  `conf` (the sequence so far is what a token bucket with the same slack can produce)
   is the stricter conformance relation with the design; ConformsNote never fails, it prints one "@@" record per
   step of a non-conforming sequence so that a divergence neither stops the validation nor hides the rest. *)
EXTENDS RateOps, Integers, Sequences, TLC, Json
CONSTANT TraceFile
VARIABLES l, par, seen, conf

Trace == ndJsonDeserialize(TraceFile)

Init == l = 1 /\ par = [I |-> 1, B |-> 1, S |-> 0, run |-> -1, hook |-> ""] /\ seen = <<>> /\ conf = TRUE
Next == /\ l <= Len(Trace)
        /\ LET e == Trace[l]
           IN IF e.ev = "hook"
                THEN /\ par' = [I |-> e.I, B |-> e.B, S |-> e.S, run |-> e.run, hook |-> e.hook]
                     /\ seen' = <<>>
                     /\ conf' = TRUE
                ELSE /\ par' = par
                     /\ seen' = Append(seen, e.t)
                     /\ conf' = BucketOK(Append(seen, e.t), par.I, par.B, par.S)
        /\ l' = l + 1
Spec == Init /\ [][Next]_<<l, par, seen, conf>>

WindowBound == WindowOK(seen, par.I, par.B, par.S)
Ordered     == NonDecreasing(seen)
ConformsNote == conf \/ PrintT("@@" \o ToJson([run |-> par.run, hook |-> par.hook, line |-> l - 1]))
Accepted    == TLCGet("stats").diameter - 1 = Len(Trace)
=============================================================================
