\* exhaustive, unbounded time: both hooks over {2,3}x{1,2} and "no settings", shared/separate/multi = 60 configurations; queues <= 3 tasks, <= 2 failed runs
SPECIFICATION Spec
CONSTANTS
  Hooks = {"h1", "h2"}
  Queues = {"qa", "qb"}
  Configs <- CfgThorough
  Sources = {"kube"}
  KeepHistory = FALSE
  HistFor = {}
  Horizon = 0
  MaxLen = 3
  MaxPerTick = 0
  MaxArrivals = 0
  MaxFails = 2
  ArriveWeight = 1
  Wiring = "ok"
VIEW View
INVARIANTS TypeOK WindowBoundMon MonAboveCredit Unthrottled NoNeedlessWait
CHECK_DEADLOCK FALSE
