------------------------------ MODULE RateLimit ------------------------------
(* C18 - the execution rate limit from `settings` is respected.

   Reference semantics written from docs/src/HOOKS.md ("settings": executionMinInterval, executionBurst are the
   parameters of a token bucket that throttles hook executions) and structured like the code:

     hook.go      LoadConfig -> CreateRateLimiter(cfg): one limiter per hook, limit = 1/I, burst = B; without
                  settings limit = Inf (never blocks)
     operator.go  taskHandleHookRun: RateLimitWait is the FIRST step of every HookRun task the queue worker hands
                  to the handler (first runs and retries alike), then the adjacent tasks of the same hook are
                  combined, then the hook process is started

   Discrete time.  Per hook a bucket `credit` in units of 1/I token (one tick = one unit, capacity B*I, a start
   costs I units; the bucket starts full as rate.NewLimiter does).  One worker per queue: Pick (handler entered),
   Acquire (RateLimitWait returns = the execution starts; its outcome is drawn in the same step: success removes
   the head, failure keeps it for a retry - for the limiter a running hook process and an idle worker are the
   same: time passes, tasks arrive).  A hook may have bindings in several queues (its runs then wait on the same
   bucket concurrently) and several hooks may share a queue (a waiting head blocks the others, as documented).
   Arrivals are arbitrary.  Time cannot pass while a waiting worker could acquire (RateLimitWait returns as soon
   as a token exists).

   The property "every window of length T holds at most B + ceil(T/I) starts" is evaluated in two ways:
     - WindowBound: literally, over the history `starts` (KeepHistory = TRUE, bounded horizon);
     - WindowBoundMon: by a monitor `mon` - a bucket of capacity B*I + I - 1 units that starts full - which rejects
       a start sequence exactly when some window violates the bound ((j-i+1) <= B + ceil(T/I) is the same as
       (j-i+1)*I <= B*I + I - 1 + T for integers).  MonitorExact states the equivalence and is checked by TLC on
       arbitrary start sequences (Wiring = "nowait").  The monitor needs no history and no clock, so with
       KeepHistory = FALSE the clock is dropped and TLC covers behaviours and windows of ANY length.

   `Wiring` # "ok" are seeded wiring errors, used only to show that the properties are not vacuous. *)
EXTENDS RateOps, Integers, Sequences, FiniteSets, TLC

CONSTANTS
  Hooks,        \* hook names
  Queues,       \* queue names
  Configs,      \* set of [I : [Hooks -> Nat], B : [Hooks -> Nat], QS : [Hooks -> SUBSET Queues]]; I[h] = 0: no settings
  Sources,      \* where a task comes from ("kube", "sched"); observation only
  KeepHistory,  \* TRUE: clock 0..Horizon and start times kept; FALSE: no clock, unbounded time
  HistFor,      \* the hooks whose start times are kept (KeepHistory = TRUE)
  Horizon,      \* ticks (KeepHistory = TRUE)
  MaxLen,       \* bound on the length of a queue (= largest burst)
  MaxPerTick,   \* arrivals per tick, 0 = bounded by MaxLen only
  MaxArrivals,  \* arrivals per behaviour, 0 = not bounded
  MaxFails,     \* failed runs per behaviour
  ArriveWeight, \* simulation only: relative frequency of arrivals (a configuration may override both with
                \* fields W and PT: "bursts" and "steady streams" come out of one simulation run)
  Wiring        \* "ok" | "nowait" | "skipretry" | "fresh" | "shared"

VARIABLES
  cfg,       \* the configuration (chosen in Init, constant afterwards)
  now,       \* clock (stays 0 when KeepHistory = FALSE)
  credit,    \* per hook: bucket content in 1/I tokens
  queue,     \* per queue: sequence of [hook, fc] (HookRun tasks, fc = failure count)
  wpc,       \* per queue: "idle" | "wait" (inside RateLimitWait)
  waited,    \* per queue: has a tick passed during the current RateLimitWait (0/1)
  starts,    \* per hook of HistFor with settings: start times so far (KeepHistory = TRUE)
  mon,       \* per hook with settings: the window monitor
  monOK,     \* per hook: the monitor has accepted every start so far
  arrivals, thisTick, fails,   \* bounds
  act        \* label of the last action (observation only, hidden by VIEW)

vars == <<cfg, now, credit, queue, wpc, waited, starts, mon, monOK, arrivals, thisTick, fails, act>>
View == <<cfg, now, credit, queue, wpc, waited, starts, mon, monOK, arrivals, thisTick, fails>>

Min(a, b) == IF a < b THEN a ELSE b
Max(a, b) == IF a > b THEN a ELSE b
I(h) == cfg.I[h]
B(h) == cfg.B[h]
Limited(h) == I(h) > 0
Cap(h) == B(h) * I(h)
ArrW   == IF "W" \in DOMAIN cfg THEN cfg.W ELSE ArriveWeight
PerTick == IF "PT" \in DOMAIN cfg THEN cfg.PT ELSE MaxPerTick
MonCap(h) == IF Limited(h) THEN B(h) * I(h) + I(h) - 1 ELSE 0

\* the limiter a run of hook h waits on
Eff(h) == IF Wiring = "shared" /\ \E g \in Hooks : Limited(g)
            THEN CHOOSE g \in Hooks : Limited(g) /\ \A k \in Hooks : Limited(k) => I(g) >= I(k)
            ELSE h

\* combination: the tasks of hook h directly behind the head are merged into the head's run
RunLen(s, h) == IF \E i \in 1..Len(s) : s[i].hook # h
                  THEN (CHOOSE i \in 1..Len(s) : s[i].hook # h /\ \A j \in 1..(i - 1) : s[j].hook = h) - 1
                  ELSE Len(s)
DropRun(s, h) == SubSeq(s, RunLen(s, h) + 1, Len(s))

Init ==
  /\ cfg \in Configs
  /\ now = 0
  /\ credit = [h \in Hooks |-> cfg.B[h] * cfg.I[h]]
  /\ queue = [q \in Queues |-> <<>>]
  /\ wpc = [q \in Queues |-> "idle"]
  /\ waited = [q \in Queues |-> 0]
  /\ starts = [h \in Hooks |-> <<>>]
  /\ mon = [h \in Hooks |-> IF cfg.I[h] > 0 THEN cfg.B[h] * cfg.I[h] + cfg.I[h] - 1 ELSE 0]
  /\ monOK = [h \in Hooks |-> TRUE]
  /\ arrivals = 0 /\ thisTick = 0 /\ fails = 0
  /\ act = <<"Init">>

(* ---------- the environment ---------- *)
Arrive(h, q, src) ==
  /\ q \in cfg.QS[h]
  /\ Len(queue[q]) < MaxLen
  /\ (PerTick = 0 \/ thisTick < PerTick) /\ (MaxArrivals = 0 \/ arrivals < MaxArrivals)
  /\ queue' = [queue EXCEPT ![q] = Append(@, [hook |-> h, fc |-> 0])]
  /\ arrivals' = IF MaxArrivals = 0 THEN 0 ELSE arrivals + 1
  /\ thisTick' = IF PerTick = 0 THEN 0 ELSE thisTick + 1
  /\ act' = <<"Arrive", h, q, src>>
  /\ UNCHANGED <<cfg, now, credit, wpc, waited, starts, mon, monOK, fails>>

(* ---------- the queue worker inside taskHandleHookRun ---------- *)
Pick(q) ==
  /\ wpc[q] = "idle" /\ queue[q] # <<>>
  /\ wpc' = [wpc EXCEPT ![q] = "wait"]
  /\ waited' = [waited EXCEPT ![q] = 0]
  /\ LET e == Eff(Head(queue[q]).hook)
     IN credit' = IF Wiring = "fresh" THEN [credit EXCEPT ![e] = Cap(e)] ELSE credit
  /\ act' = <<"Pick", q>>
  /\ UNCHANGED <<cfg, now, queue, starts, mon, monOK, arrivals, thisTick, fails>>

NoWait(t) == \/ Wiring = "nowait"
             \/ (Wiring = "skipretry" /\ t.fc > 0)
             \/ ~Limited(Eff(t.hook))
CanAcquire(q) == /\ wpc[q] = "wait"
                 /\ (NoWait(Head(queue[q])) \/ credit[Eff(Head(queue[q]).hook)] >= I(Eff(Head(queue[q]).hook)))

Acquire(q, ok) ==
  /\ CanAcquire(q)
  /\ (~ok => fails < MaxFails)
  /\ LET t == Head(queue[q])
         h == t.hook
         e == Eff(h)
         rest == DropRun(Tail(queue[q]), h)      \* combination happens after the wait
     IN /\ credit' = IF NoWait(t) THEN credit ELSE [credit EXCEPT ![e] = @ - I(e)]
        /\ queue' = [queue EXCEPT ![q] = IF ok THEN rest ELSE <<[t EXCEPT !.fc = @ + 1]>> \o rest]
        /\ starts' = IF Limited(h) /\ KeepHistory /\ h \in HistFor THEN [starts EXCEPT ![h] = Append(@, now)] ELSE starts
        /\ IF Limited(h)
             THEN /\ monOK' = [monOK EXCEPT ![h] = @ /\ mon[h] >= I(h)]
                  /\ mon' = [mon EXCEPT ![h] = Max(0, @ - I(h))]
             ELSE UNCHANGED <<mon, monOK>>
        /\ act' = <<"Start", q, h, ok>>
  /\ fails' = IF ok THEN fails ELSE fails + 1
  /\ wpc' = [wpc EXCEPT ![q] = "idle"]
  /\ UNCHANGED <<cfg, now, waited, arrivals, thisTick>>

(* ---------- time ---------- *)
Tick ==
  /\ (KeepHistory => now < Horizon)
  /\ \A q \in Queues : ~CanAcquire(q)
  /\ now' = IF KeepHistory THEN now + 1 ELSE now
  /\ credit' = [h \in Hooks |-> IF Limited(h) THEN Min(Cap(h), credit[h] + 1) ELSE credit[h]]
  /\ mon' = [h \in Hooks |-> IF Limited(h) THEN Min(MonCap(h), mon[h] + 1) ELSE mon[h]]
  /\ waited' = [q \in Queues |-> IF wpc[q] = "wait" THEN 1 ELSE waited[q]]
  /\ thisTick' = 0
  /\ act' = <<"Tick">>
  /\ UNCHANGED <<cfg, queue, wpc, starts, monOK, arrivals, fails>>

Worker(q) == Pick(q) \/ \E ok \in BOOLEAN : Acquire(q, ok)
Next == \/ \E h \in Hooks, q \in Queues, src \in Sources : Arrive(h, q, src)
        \/ \E q \in Queues : Worker(q)
        \/ Tick
Spec == Init /\ [][Next]_vars

(* ---------- behaviour generation (simulation only): one top-level action per kind, arrivals weighted ---------- *)
S(x) == IF now >= 0 THEN x ELSE {}
ArriveAny == \E h \in S(Hooks), q \in S(Queues), src \in S(Sources) : Arrive(h, q, src)
WorkAny   == \E q \in S(Queues) : Worker(q)
SimNext == \/ Tick \/ WorkAny \/ WorkAny
           \/ (ArrW >= 1 /\ ArriveAny) \/ (ArrW >= 2 /\ ArriveAny) \/ (ArrW >= 3 /\ ArriveAny)
           \/ (ArrW >= 4 /\ ArriveAny) \/ (ArrW >= 5 /\ ArriveAny) \/ (ArrW >= 6 /\ ArriveAny)
           \/ (ArrW >= 7 /\ ArriveAny) \/ (ArrW >= 8 /\ ArriveAny)
SimSpec == Init /\ [][SimNext]_vars

(* ---------- properties ---------- *)
TypeOK ==
  /\ now \in 0..Horizon
  /\ \A h \in Hooks : credit[h] \in 0..Cap(h) /\ mon[h] \in 0..MonCap(h)
  /\ \A q \in Queues : wpc[q] \in {"idle", "wait"} /\ Len(queue[q]) <= MaxLen
  /\ \A q \in Queues : wpc[q] # "idle" => queue[q] # <<>>

\* C18, first clause: any window of length T holds at most B + ceil(T/I) starts of the hook
WindowBound    == \A h \in HistFor : Limited(h) => WindowOK(starts[h], I(h), B(h), 0)
WindowBoundMon == \A h \in Hooks : monOK[h]
\* the monitor rejects exactly the start sequences with a violating window (checked with Wiring = "nowait")
MonitorExact   == \A h \in HistFor : Limited(h) => (monOK[h] <=> WindowOK(starts[h], I(h), B(h), 0))
\* the design is a token bucket (stricter; what the recorded traces are compared with as conformance)
BucketBound    == \A h \in HistFor : Limited(h) => BucketOK(starts[h], I(h), B(h), 0)
\* in the design the monitor never runs dry: it stays above the bucket
MonAboveCredit == \A h \in Hooks : Limited(h) => mon[h] >= credit[h]
\* C18, second clause: a run of a hook without settings spends no time in the limiter
Unthrottled == \A q \in Queues : (wpc[q] = "wait" /\ ~Limited(Head(queue[q]).hook)) => waited[q] = 0
\* a run of a hook with settings waits only while the bucket is short of a token
NoNeedlessWait == \A q \in Queues : (wpc[q] = "wait" /\ waited[q] > 0 /\ Limited(Head(queue[q]).hook))
                                     => credit[Head(queue[q]).hook] <= I(Head(queue[q]).hook)
=============================================================================
