------------------------------ MODULE RateLimit ------------------------------
(* C18 - the execution rate limit from `settings` is respected.

   Reference semantics written from docs/src/HOOKS.md ("settings": executionMinInterval, executionBurst are the
   parameters of a token bucket that throttles hook executions) and structured like the code:

     hook.go      LoadConfig -> CreateRateLimiter(cfg): one limiter per hook, limit = 1/I, burst = B; without
                  settings limit = Inf (never blocks)
     operator.go  taskHandleHookRun: RateLimitWait is the FIRST step of every HookRun task the queue worker hands
                  to the handler (first runs and retries alike), then the adjacent tasks of the same hook are
                  combined, then the hook process is started

   Discrete time.  Per hook a bucket `credit` in units of 1/I token (one tick = one unit, capacity B*I, a start
   costs I units; the bucket starts full as rate.NewLimiter does).  One worker per queue: Pick (handler entered),
   Acquire (RateLimitWait returns = the execution starts), Finish (success removes the head, failure keeps it for
   a retry).  A hook may have bindings in several queues (its runs then wait on the same bucket concurrently), and
   several hooks may share a queue (a waiting head blocks the others, as documented).  Arrivals are arbitrary.
   Time cannot pass while a waiting worker could acquire (RateLimitWait returns as soon as a token exists).

   `Wiring` # "ok" are seeded wiring errors, used only to show that the properties are not vacuous. *)
EXTENDS RateOps, Integers, Sequences, FiniteSets, TLC

CONSTANTS
  Hooks,        \* hook names
  Queues,       \* queue names
  Configs,      \* set of [I : [Hooks -> Nat], B : [Hooks -> Nat], QS : [Hooks -> SUBSET Queues]]; I[h] = 0: no settings
  Sources,      \* where a task comes from ("kube", "sched"); observation only
  Observed,     \* the hooks whose start times are kept as history (the property is evaluated for them)
  Horizon,      \* ticks
  MaxLen,       \* bound on the length of a queue (= largest burst)
  MaxPerTick,   \* arrivals per tick, 0 = bounded by MaxLen only
  MaxArrivals,  \* arrivals per behaviour, 0 = bounded by MaxLen and Horizon only
  MaxFails,     \* failed runs per behaviour
  ArriveWeight, \* simulation only: relative frequency of arrivals
  Wiring        \* "ok" | "nowait" | "skipretry" | "fresh" | "shared"

VARIABLES
  cfg,       \* the configuration (chosen in Init, constant afterwards)
  now,       \* clock
  credit,    \* per hook: bucket content in 1/I tokens
  queue,     \* per queue: sequence of [hook, fc] (HookRun tasks, fc = failure count)
  wpc,       \* per queue: "idle" | "wait" (inside RateLimitWait) | "run" (hook process running)
  waited,    \* per queue: has a tick passed during the current RateLimitWait (0/1)
  starts,    \* per observed hook with settings: start times so far (history)
  arrivals, thisTick, fails,   \* bounds
  act        \* label of the last action (observation only, hidden by VIEW)

vars == <<cfg, now, credit, queue, wpc, waited, starts, arrivals, thisTick, fails, act>>
View == <<cfg, now, credit, queue, wpc, waited, starts, arrivals, thisTick, fails>>

Min(a, b) == IF a < b THEN a ELSE b
I(h) == cfg.I[h]
B(h) == cfg.B[h]
Limited(h) == I(h) > 0
Cap(h) == B(h) * I(h)

\* the limiter a run of hook h waits on
Eff(h) == IF Wiring = "shared" /\ \E g \in Hooks : Limited(g)
            THEN CHOOSE g \in Hooks : Limited(g) /\ \A k \in Hooks : Limited(k) => I(g) >= I(k)
            ELSE h

\* combination: the tasks of hook h directly behind the head are merged into the head's run
RunLen(s, h) == IF \E i \in 1..Len(s) : s[i].hook # h
                  THEN (CHOOSE i \in 1..Len(s) : s[i].hook # h /\ \A j \in 1..(i - 1) : s[j].hook = h) - 1
                  ELSE Len(s)
DropRun(s, h) == SubSeq(s, RunLen(s, h) + 1, Len(s))

Init ==
  /\ cfg \in Configs
  /\ now = 0
  /\ credit = [h \in Hooks |-> cfg.B[h] * cfg.I[h]]
  /\ queue = [q \in Queues |-> <<>>]
  /\ wpc = [q \in Queues |-> "idle"]
  /\ waited = [q \in Queues |-> 0]
  /\ starts = [h \in Hooks |-> <<>>]
  /\ arrivals = 0 /\ thisTick = 0 /\ fails = 0
  /\ act = <<"Init">>

(* ---------- the environment ---------- *)
Arrive(h, q, src) ==
  /\ q \in cfg.QS[h]
  /\ Len(queue[q]) < MaxLen
  /\ (MaxPerTick = 0 \/ thisTick < MaxPerTick) /\ (MaxArrivals = 0 \/ arrivals < MaxArrivals)
  /\ queue' = [queue EXCEPT ![q] = Append(@, [hook |-> h, fc |-> 0])]
  /\ arrivals' = IF MaxArrivals = 0 THEN 0 ELSE arrivals + 1
  /\ thisTick' = IF MaxPerTick = 0 THEN 0 ELSE thisTick + 1
  /\ act' = <<"Arrive", h, q, src>>
  /\ UNCHANGED <<cfg, now, credit, wpc, waited, starts, fails>>

(* ---------- the queue worker inside taskHandleHookRun ---------- *)
Pick(q) ==
  /\ wpc[q] = "idle" /\ queue[q] # <<>>
  /\ wpc' = [wpc EXCEPT ![q] = "wait"]
  /\ waited' = [waited EXCEPT ![q] = 0]
  /\ LET e == Eff(Head(queue[q]).hook)
     IN credit' = IF Wiring = "fresh" THEN [credit EXCEPT ![e] = Cap(e)] ELSE credit
  /\ act' = <<"Pick", q>>
  /\ UNCHANGED <<cfg, now, queue, starts, arrivals, thisTick, fails>>

NoWait(t) == \/ Wiring = "nowait"
             \/ (Wiring = "skipretry" /\ t.fc > 0)
             \/ ~Limited(Eff(t.hook))
CanAcquire(q) == /\ wpc[q] = "wait"
                 /\ (NoWait(Head(queue[q])) \/ credit[Eff(Head(queue[q]).hook)] >= I(Eff(Head(queue[q]).hook)))

Acquire(q) ==
  /\ CanAcquire(q)
  /\ LET t == Head(queue[q])
         h == t.hook
         e == Eff(h)
     IN /\ credit' = IF NoWait(t) THEN credit ELSE [credit EXCEPT ![e] = @ - I(e)]
        /\ queue' = [queue EXCEPT ![q] = <<t>> \o DropRun(Tail(@), h)]
        /\ starts' = IF Limited(h) /\ h \in Observed THEN [starts EXCEPT ![h] = Append(@, now)] ELSE starts
        /\ act' = <<"Start", q, h>>
  /\ wpc' = [wpc EXCEPT ![q] = "run"]
  /\ UNCHANGED <<cfg, now, waited, arrivals, thisTick, fails>>

Finish(q, ok) ==
  /\ wpc[q] = "run"
  /\ (~ok => fails < MaxFails)
  /\ queue' = [queue EXCEPT ![q] = IF ok THEN Tail(@) ELSE <<[Head(@) EXCEPT !.fc = @ + 1]>> \o Tail(@)]
  /\ fails' = IF ok THEN fails ELSE fails + 1
  /\ wpc' = [wpc EXCEPT ![q] = "idle"]
  /\ act' = <<"Finish", q, Head(queue[q]).hook, ok>>
  /\ UNCHANGED <<cfg, now, credit, waited, starts, arrivals, thisTick>>

(* ---------- time ---------- *)
Tick ==
  /\ now < Horizon
  /\ \A q \in Queues : ~CanAcquire(q)
  /\ now' = now + 1
  /\ credit' = [h \in Hooks |-> IF Limited(h) THEN Min(Cap(h), credit[h] + 1) ELSE credit[h]]
  /\ waited' = [q \in Queues |-> IF wpc[q] = "wait" THEN 1 ELSE waited[q]]
  /\ thisTick' = 0
  /\ act' = <<"Tick">>
  /\ UNCHANGED <<cfg, queue, wpc, starts, arrivals, fails>>

Worker(q) == Pick(q) \/ Acquire(q) \/ \E ok \in BOOLEAN : Finish(q, ok)
Next == \/ \E h \in Hooks, q \in Queues, src \in Sources : Arrive(h, q, src)
        \/ \E q \in Queues : Worker(q)
        \/ Tick
Spec == Init /\ [][Next]_vars

(* ---------- behaviour generation (simulation only): one top-level action per kind, arrivals weighted ---------- *)
S(x) == IF now >= 0 THEN x ELSE {}
ArriveAny == \E h \in S(Hooks), q \in S(Queues), src \in S(Sources) : Arrive(h, q, src)
WorkAny   == \E q \in S(Queues) : Worker(q)
SimNext == \/ Tick \/ WorkAny \/ WorkAny
           \/ (ArriveWeight >= 1 /\ ArriveAny) \/ (ArriveWeight >= 2 /\ ArriveAny) \/ (ArriveWeight >= 3 /\ ArriveAny)
           \/ (ArriveWeight >= 4 /\ ArriveAny) \/ (ArriveWeight >= 5 /\ ArriveAny) \/ (ArriveWeight >= 6 /\ ArriveAny)
           \/ (ArriveWeight >= 7 /\ ArriveAny) \/ (ArriveWeight >= 8 /\ ArriveAny)
SimSpec == Init /\ [][SimNext]_vars

(* ---------- properties ---------- *)
TypeOK ==
  /\ now \in 0..Horizon
  /\ \A h \in Hooks : credit[h] \in 0..Cap(h)
  /\ \A q \in Queues : wpc[q] \in {"idle", "wait", "run"} /\ Len(queue[q]) <= MaxLen
  /\ \A q \in Queues : wpc[q] # "idle" => queue[q] # <<>>

\* C18, first clause: any window of length T holds at most B + ceil(T/I) starts of the hook
WindowBound == \A h \in Observed : Limited(h) => WindowOK(starts[h], I(h), B(h), 0)
\* the design is a token bucket (stricter; what the recorded traces are compared with as conformance)
BucketBound == \A h \in Observed : Limited(h) => BucketOK(starts[h], I(h), B(h), 0)
\* C18, second clause: a run of a hook without settings spends no time in the limiter
Unthrottled == \A q \in Queues : (wpc[q] = "wait" /\ ~Limited(Head(queue[q]).hook)) => waited[q] = 0
\* a run of a hook with settings waits only while the bucket is short of a token
NoNeedlessWait == \A q \in Queues : (wpc[q] = "wait" /\ waited[q] > 0 /\ Limited(Head(queue[q]).hook))
                                     => credit[Head(queue[q]).hook] <= I(Head(queue[q]).hook)
=============================================================================
