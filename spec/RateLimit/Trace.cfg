\* trace validation: recorded (quantised) start times of the real operator against WindowBound
SPECIFICATION Spec
CONSTANTS
  TraceFile = "trace.ndjson"
INVARIANTS WindowBound Ordered ConformsNote
POSTCONDITION Accepted
CHECK_DEADLOCK FALSE
