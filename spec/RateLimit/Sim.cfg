\* behaviour generation (simulation): arrival patterns and run outcomes for the real operator; horizon 12 ticks
SPECIFICATION SimSpec
CONSTANTS
  Hooks = {"h1", "h2"}
  Queues = {"qa", "qb"}
  Configs <- CfgSim
  Sources = {"kube", "sched"}
  KeepHistory = TRUE
  HistFor = {}
  Horizon = 12
  MaxLen = 12
  MaxPerTick = 0
  MaxArrivals = 40
  MaxFails = 6
  ArriveWeight = 1
  Wiring = "ok"
CHECK_DEADLOCK FALSE
