\* vacuity: seeded wiring errors (Wiring is replaced by the check) must violate WindowBoundMon / Unthrottled; h1 (2,1) or (3,2), h2 without settings
SPECIFICATION Spec
CONSTANTS
  Hooks = {"h1", "h2"}
  Queues = {"qa", "qb"}
  Configs <- CfgMut
  Sources = {"kube"}
  KeepHistory = FALSE
  HistFor = {}
  Horizon = 0
  MaxLen = 3
  MaxPerTick = 0
  MaxArrivals = 0
  MaxFails = 2
  ArriveWeight = 1
  Wiring = "nowait"
VIEW View
INVARIANTS TypeOK WindowBoundMon Unthrottled
CHECK_DEADLOCK FALSE
