----------------------------- MODULE MCRateLimit -----------------------------
(* Configuration sets for the exhaustive runs and for behaviour generation: two hooks h1, h2; topologies
   "shared" (both in queue qa), "separate" (h1 in qa, h2 in qb), "multi" (h1 has bindings in qa and qb, h2 in qa). *)
EXTENDS RateLimit

H2 == {"h1", "h2"}
Q2 == {"qa", "qb"}

Shared   == [h \in H2 |-> {"qa"}]
Separate == ("h1" :> {"qa"}) @@ ("h2" :> {"qb"})
Multi    == ("h1" :> {"qa", "qb"}) @@ ("h2" :> {"qa"})

OnlyH1   == ("h1" :> {"qa"}) @@ ("h2" :> {})

Fn(a, b) == ("h1" :> a) @@ ("h2" :> b)

\* a hook's settings: <<I, B>>, <<0, 1>> = no settings
Mk(s1, s2, qs) == [I |-> Fn(s1[1], s2[1]), B |-> Fn(s1[2], s2[2]), QS |-> qs]

AllSettings == {<<2, 1>>, <<2, 2>>, <<3, 1>>, <<3, 2>>}

\* quick: h1 over all four settings, h2 without settings or <<2,1>>, shared / separate
CfgQuick    == {Mk(s1, s2, qs) : s1 \in AllSettings, s2 \in {<<0, 1>>, <<2, 1>>}, qs \in {Shared, Separate}}
\* thorough: both hooks over all settings and "none", three topologies
CfgThorough == {Mk(s1, s2, qs) : s1 \in AllSettings, s2 \in AllSettings \cup {<<0, 1>>}, qs \in {Shared, Separate, Multi}}
\* one hook with settings next to one without (vacuity runs with seeded wiring errors)
CfgMut      == {Mk(<<2, 1>>, <<0, 1>>, Shared), Mk(<<3, 2>>, <<0, 1>>, Separate)}

\* history runs (clock, literal window formula): h1 observed, h2 the environment
CfgHistQuick == {Mk(s1, s2, Shared) : s1 \in {<<2, 1>>, <<3, 2>>}, s2 \in {<<0, 1>>}}
CfgHist      == {Mk(s1, <<0, 1>>, Shared) : s1 \in AllSettings}
               \cup {Mk(s1, <<2, 1>>, Shared) : s1 \in {<<2, 1>>, <<3, 1>>}}
               \cup {Mk(s1, <<0, 1>>, Multi) : s1 \in {<<2, 1>>, <<3, 2>>}}
\* monitor = window formula on arbitrary start sequences of one hook
CfgEquiv     == {Mk(s1, <<0, 1>>, OnlyH1) : s1 \in AllSettings}

\* quick: h1 over all four settings, h2 without settings or <<2,1>>, three topologies
CfgQuick3   == CfgQuick \cup {Mk(s1, s2, Multi) : s1 \in AllSettings, s2 \in {<<0, 1>>, <<2, 1>>}}

\* behaviour generation: the settings used on the real operator (B up to 3), bursts (W = 6 arrivals per other
\* step, any number per tick) and steady streams (at most one arrival per tick)
Shape(c, w, pt) == [I |-> c.I, B |-> c.B, QS |-> c.QS, W |-> w, PT |-> pt]
SimBase == {Mk(<<2, 1>>, <<3, 2>>, Shared), Mk(<<2, 3>>, <<0, 1>>, Shared), Mk(<<3, 2>>, <<2, 3>>, Shared),
            Mk(<<2, 1>>, <<3, 2>>, Separate), Mk(<<2, 2>>, <<0, 1>>, Separate),
            Mk(<<3, 1>>, <<2, 2>>, Multi), Mk(<<3, 2>>, <<0, 1>>, Multi)}
CfgSim  == {Shape(c, 6, 0) : c \in SimBase} \cup {Shape(c, 1, 1) : c \in SimBase} \cup {Shape(c, 3, 3) : c \in SimBase}
=============================================================================
