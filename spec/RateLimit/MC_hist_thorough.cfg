\* exhaustive, horizon 12 ticks, literal window formula over the start history of h1: all four (I,B) with h2 without settings (shared), (2,1),(3,1) with h2 (2,1) (shared), (2,1),(3,2) with h1 in two queues
SPECIFICATION Spec
CONSTANTS
  Hooks = {"h1", "h2"}
  Queues = {"qa", "qb"}
  Configs <- CfgHist
  Sources = {"kube"}
  KeepHistory = TRUE
  HistFor = {"h1"}
  Horizon = 12
  MaxLen = 2
  MaxPerTick = 0
  MaxArrivals = 0
  MaxFails = 1
  ArriveWeight = 1
  Wiring = "ok"
VIEW View
INVARIANTS TypeOK WindowBound WindowBoundMon MonitorExact BucketBound Unthrottled NoNeedlessWait
CHECK_DEADLOCK FALSE
