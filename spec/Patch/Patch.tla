------------------------------- MODULE Patch -------------------------------
(***************************************************************************)
(* Kubernetes patch file of a hook (property C13).                         *)
(*                                                                         *)
(* A hook writes a stream of JSON or YAML documents to                     *)
(* $KUBERNETES_PATCH_PATH (docs/src/KUBERNETES.md).  The statement: the    *)
(* documents are validated together - one invalid document => nothing is   *)
(* applied and the execution fails - otherwise every operation is applied  *)
(* once, in document order, with its documented effect; the same documents *)
(* written as JSON or as YAML give the same operations.                    *)
(*                                                                         *)
(* Two independent descriptions live in this module.                       *)
(*                                                                         *)
(*  REFERENCE (from the documentation / the statement): RefValid, RefApply,*)
(*  RefRun - a table "document -> effect on the object it names".          *)
(*                                                                         *)
(*  PIPELINE (structured like the code, one operator per step it takes):   *)
(*    Decode(syn, d)   helpers.go: unmarshalFromJson / unmarshalFromYaml   *)
(*                     into OperationSpec (unknown keys, Go number types)  *)
(*    SchemaOk(spec)   validation.go: schema "v0"                          *)
(*    Parse(syn, s)    operation.go ParseOperations: validate in order,    *)
(*                     stop at the first error, return ops so far + error  *)
(*    NewOp(spec)      operation.go NewFromOperationSpec (flags)           *)
(*    ExecOp(op, c)    patch.go execute{Create,Delete,Patch,Filter}        *)
(*                     Operation in terms of API calls                     *)
(*    ExecAll(ops, c)  patch.go ExecuteOperations: slice order, errors     *)
(*                     aggregated, later operations still run              *)
(*    RunHook(syn,s,c) operator.go handleRunHook: parse error => return    *)
(*                     before anything is executed                         *)
(*                                                                         *)
(* The properties compare the two.  Every state is one case (stream x      *)
(* initial cluster): Init chooses the cluster and the length, Build appends *)
(* one document (so that TLC workers share the enumeration); the           *)
(* properties are evaluated on the complete streams.                       *)
(*                                                                         *)
(* Abstract cluster: key -> object, object = <<v, w, n>> or Absent = <<>>. *)
(*   v, w  two string fields (labels v and w of a Deployment; "-" = label  *)
(*         not present); n = "num" if the object carries an integer field  *)
(*         (spec.replicas), "none" otherwise.                              *)
(* Templates (objects a Create* document carries):                         *)
(*   "1" = <<"1","1","none">>   "2" = <<"2","-","none">>  (no w: a         *)
(*   CreateOrUpdate that merged instead of replacing would keep the old w) *)
(*   "3" = <<"3","3","num">>    integer-bearing (only with WithNum)        *)
(* Patch variants: MergePatch "m" v:="m", "d" w:=null (label removed);     *)
(*   JSONPatch "j" replace v:="j"; JQPatch "q" v:="q", "c" w:=v,           *)
(*   "a" v:=v+"x" (not idempotent: a second application is visible).       *)
(* Payload form: "inline" (object/array in the document), "jsonstr",       *)
(*   "yamlstr" (stringified).                                              *)
(*                                                                         *)
(* Fault classes (single fault per document; all are invalid by the        *)
(* documented format and by the repository's own schema, which lists the   *)
(* keys and says additionalProperties: false):                             *)
(*   noOperation, unknownOp, unknownField, noPayload (object / mergePatch /*)
(*   jsonPatch / jqFilter missing), emptyPayload ({} / [] / ""),           *)
(*   badPayload (a number; jsonPatch: an object, or a first item without   *)
(*   "op"), noName, noKind.                                                *)
(* Not generated (statement silent or no implementation can decide it      *)
(* before execution): scalars of the wrong YAML type in string/bool fields *)
(* (yaml accepts `name: 5`, `ignoreMissingObject: yes`), jsonPatch whose   *)
(* 2nd+ item is malformed or lacks "value" ("remove"), jq programs that    *)
(* fail at run time, unknown kinds, subresource on create/delete.          *)
(*                                                                         *)
(* AsIs selects the behaviour at the pinned commit for the defects found:  *)
(*   "yamlint"  YAML decoding leaves Go `int` in inline payloads; the      *)
(*              CreateOrUpdate-on-existing path deep-copies the object     *)
(*              (`cannot deep copy int` panic)                    (F22)    *)
(*   "unknown"  unknown keys are dropped by the struct decoders before the *)
(*              schema (additionalProperties: false) can see them          *)
(*   "more"     not a defect of the pinned commit: the seeded change C13-m6 *)
(*              (JSON decode loop `for dec.More()`), kept so that TLC shows *)
(*              which property it breaks (MC_asis_more.cfg)                 *)
(* AsIs = {} is the code after the proposed fixes.                         *)
(***************************************************************************)
EXTENDS Integers, Sequences, FiniteSets, TLC, Json

CONSTANTS Keys,      \* object names
          InitObjs,  \* templates an object of the initial cluster may have been created from
          L1, L2, L3, \* document-set level for streams of length 1, 2, 3: "rich" | "medium" | "order" | "orderq" | "num" | "none"
          AsIs,      \* see above
          Emit,      \* TRUE: print JSON cases
          SampleMod, Seed \* streams of length >= 2 are printed when Hash % SampleMod = Seed % SampleMod (1 = all)

VARIABLES init,      \* cluster before the hook ran
          stream,    \* the documents, in file order
          len        \* length of the stream being built (a state with Len(stream) = len is one complete case)

vars == <<init, stream, len>>
Levels == <<L1, L2, L3>>

Absent == <<>>
Tpl(t) == CASE t = "1" -> <<"1", "1", "none">>
            [] t = "2" -> <<"2", "-", "none">>
            [] t = "3" -> <<"3", "3", "num">>

CreateOps == {"Create", "CreateIfNotExists", "CreateOrUpdate"}
DeleteOps == {"Delete", "DeleteInBackground", "DeleteNonCascading"}
PatchOps  == {"MergePatch", "JSONPatch", "JQPatch"}

Doc(op, key, var, form, sub, ign, fault) ==
  [op |-> op, key |-> key, var |-> var, form |-> form, sub |-> sub, ign |-> ign, fault |-> fault]

(***************************************************************************)
(* Document sets.                                                          *)
(***************************************************************************)
Forms(level) == IF level = "rich" THEN {"inline", "jsonstr", "yamlstr"} ELSE {"inline"}
CreateForms(level) == IF level = "medium" THEN {"inline", "yamlstr"} ELSE Forms(level)
Subs(level)  == IF level \in {"rich", "medium"} THEN {"", "status"} ELSE {""}
MergeVars(level) == IF level \in {"rich", "medium"} THEN {"m", "d"} ELSE {"m"}
JqVars(level)    == IF level = "rich" THEN {"q", "c", "a"} ELSE IF level = "medium" THEN {"c", "a"} ELSE {"a"}
OrderLevels == {"order", "orderq"}      \* "orderq": the quick-tier subset (one delete mode)
Tpls(level)  == IF level = "num" THEN {"3"} ELSE IF level \in OrderLevels THEN {"2"} ELSE {"1", "2"}
Igns(level, op) == IF level \in OrderLevels /\ op # "MergePatch" THEN {FALSE} ELSE BOOLEAN
DelOps(level) == IF level = "orderq" THEN {"DeleteInBackground"} ELSE DeleteOps

ValidDocs(level) ==
  IF level = "num"
  THEN \* the integer-bearing family: every create variant and form, one patch of each kind
       {Doc(op, k, "3", f, "", FALSE, "none") : op \in CreateOps, k \in Keys, f \in {"inline", "jsonstr", "yamlstr"}}
       \cup {Doc("DeleteInBackground", k, "-", "inline", "", FALSE, "none") : k \in Keys}
       \cup {Doc("MergePatch", k, "m", "inline", "", FALSE, "none") : k \in Keys}
       \cup {Doc("JQPatch", k, "a", "inline", "", FALSE, "none") : k \in Keys}
  ELSE
       {Doc(op, k, t, f, "", FALSE, "none") : op \in CreateOps, k \in Keys, t \in Tpls(level), f \in CreateForms(level)}
       \cup {Doc(op, k, "-", "inline", "", FALSE, "none") : op \in DelOps(level), k \in Keys}
       \cup {Doc("MergePatch", k, v, f, s, i, "none") : k \in Keys, v \in MergeVars(level), f \in Forms(level), s \in Subs(level), i \in Igns(level, "MergePatch")}
       \cup {Doc("JSONPatch", k, "j", f, s, i, "none") : k \in Keys, f \in Forms(level), s \in Subs(level), i \in Igns(level, "JSONPatch")}
       \cup {Doc("JQPatch", k, v, "inline", s, i, "none") : k \in Keys, v \in JqVars(level), s \in Subs(level), i \in Igns(level, "JQPatch")}

FaultsFor(op) ==
  {"noOperation", "unknownOp", "unknownField"} \cup
  (IF op \in CreateOps THEN {"noPayload", "emptyPayload", "badPayload"}
   ELSE IF op \in DeleteOps THEN {"noName", "noKind"}
   ELSE IF op = "JQPatch" THEN {"noPayload", "emptyPayload", "noName", "noKind"}
   ELSE {"noPayload", "emptyPayload", "badPayload", "noName", "noKind"})

DefaultVar(op) == CASE op \in CreateOps -> "1" [] op \in DeleteOps -> "-" [] op = "MergePatch" -> "m"
                    [] op = "JSONPatch" -> "j" [] op = "JQPatch" -> "a"

FaultBases(level) == IF level = "rich" THEN CreateOps \cup DeleteOps \cup PatchOps
                     ELSE IF level = "medium" THEN {"Create", "DeleteInBackground", "JSONPatch"}
                     ELSE IF level = "num" THEN {}
                     ELSE {"CreateOrUpdate", "DeleteNonCascading", "JSONPatch"}

\* a stray closing bracket between the documents (op "Stray": not a document)
StrayVars(level) == IF level \in {"rich", "medium"} THEN {"]", "}"} ELSE IF level \in OrderLevels THEN {"}"} ELSE {}
StrayDocs(level) == LET k0 == CHOOSE k \in Keys : TRUE IN {Doc("Stray", k0, v, "inline", "", FALSE, "strayClose") : v \in StrayVars(level)}

FaultDocs(level) ==
  LET k0  == CHOOSE k \in Keys : TRUE
      all == UNION {{Doc(op, k0, DefaultVar(op), "inline", "", FALSE, f) : f \in FaultsFor(op)} : op \in FaultBases(level)}
  IN StrayDocs(level) \cup
     IF level \in {"rich", "medium"} THEN all
     ELSE {d \in all : \/ d.op = "CreateOrUpdate" /\ d.fault = "unknownField"
                       \/ d.op = "DeleteNonCascading" /\ d.fault = "noName" /\ level = "order"
                       \/ d.op = "JSONPatch" /\ d.fault \in {"badPayload", "unknownOp"}}

Docs(level) == IF level = "none" THEN {} ELSE ValidDocs(level) \cup FaultDocs(level)

Lens == {n \in 1..3 : Levels[n] # "none"}
\* constant-level, evaluated once by TLC
DocsL1 == Docs(L1)
DocsL2 == Docs(L2)
DocsL3 == Docs(L3)
DocsAt(n) == CASE n = 1 -> DocsL1 [] n = 2 -> DocsL2 [] n = 3 -> DocsL3
Clusters == [Keys -> {Absent} \cup {Tpl(t) : t \in InitObjs}]

(***************************************************************************)
(* REFERENCE semantics (documentation).                                    *)
(***************************************************************************)
RefValid(d) == d.fault = "none"

PatchEffect(op, var, o) ==      \* documented effect of a patch on an existing object
  CASE op = "MergePatch" /\ var = "m" -> <<"m", o[2], o[3]>>
    [] op = "MergePatch" /\ var = "d" -> <<o[1], "-", o[3]>>
    [] op = "JSONPatch"               -> <<"j", o[2], o[3]>>
    [] op = "JQPatch" /\ var = "q"    -> <<"q", o[2], o[3]>>
    [] op = "JQPatch" /\ var = "c"    -> <<o[1], o[1], o[3]>>
    [] op = "JQPatch" /\ var = "a"    -> <<o[1] \o "x", o[2], o[3]>>

\* result: [c |-> cluster, err |-> did this operation fail]
RefApply(d, c) ==
  LET o == c[d.key] IN
  CASE d.op = "Create" ->
         IF o = Absent THEN [c |-> [c EXCEPT ![d.key] = Tpl(d.var)], err |-> FALSE]
         ELSE [c |-> c, err |-> TRUE]                                   \* "will fail if an object already exists"
    [] d.op = "CreateIfNotExists" ->
         IF o = Absent THEN [c |-> [c EXCEPT ![d.key] = Tpl(d.var)], err |-> FALSE]
         ELSE [c |-> c, err |-> FALSE]
    [] d.op = "CreateOrUpdate" -> [c |-> [c EXCEPT ![d.key] = Tpl(d.var)], err |-> FALSE]
    [] d.op \in DeleteOps -> [c |-> [c EXCEPT ![d.key] = Absent], err |-> FALSE]   \* a missing object is not an error
    [] d.op \in PatchOps ->
         IF o = Absent THEN [c |-> c, err |-> ~d.ign]                   \* ignoreMissingObject
         ELSE [c |-> [c EXCEPT ![d.key] = PatchEffect(d.op, d.var, o)], err |-> FALSE]

RECURSIVE RefFold(_, _, _)
RefFold(s, i, acc) ==          \* acc = [c, nerr]
  IF i > Len(s) THEN acc
  ELSE LET r == RefApply(s[i], acc.c)
       IN RefFold(s, i + 1, [c |-> r.c, nerr |-> acc.nerr + (IF r.err THEN 1 ELSE 0)])

AllValid(s) == \A i \in 1..Len(s) : RefValid(s[i])

RefRun(s, c) ==
  IF ~AllValid(s) THEN [c |-> c, ok |-> FALSE, nerr |-> 0]
  ELSE LET r == RefFold(s, 1, [c |-> c, nerr |-> 0]) IN [c |-> r.c, ok |-> r.nerr = 0, nerr |-> r.nerr]

(***************************************************************************)
(* PIPELINE (code structure).                                              *)
(***************************************************************************)
Syntaxes == {"json", "yaml"}

\* Go number type of integers inside an *inline* payload after decoding. Stringified payloads are decoded
\* later by sigs.k8s.io/yaml (through JSON) in both syntaxes.
NumType(syn, d) ==
  IF d.op \in CreateOps /\ d.fault = "none" /\ Tpl(d.var)[3] = "num"
  THEN (IF d.form # "inline" THEN "json"
        ELSE IF syn = "yaml" /\ "yamlint" \in AsIs THEN "int" ELSE "json")
  ELSE "none"

\* helpers.go: decoding one document into OperationSpec. decodeErr: the decoder itself refuses the document.
Decode(syn, d) ==
  [operation |-> IF d.fault \in {"noOperation", "strayClose"} THEN "" ELSE IF d.fault = "unknownOp" THEN "Apply" ELSE d.op,
   hasName   |-> d.op \notin CreateOps /\ d.fault # "noName",
   hasKind   |-> d.op \notin CreateOps /\ d.fault # "noKind",
   payload   |-> IF d.op \in DeleteOps THEN "absent"
                 ELSE IF d.fault = "noPayload" THEN "absent"
                 ELSE IF d.fault = "emptyPayload" THEN "empty"
                 ELSE IF d.fault = "badPayload" THEN "bad"
                 ELSE d.form,
   key |-> d.key, var |-> d.var, sub |-> d.sub, ign |-> d.ign,
   num |-> NumType(syn, d),
   \* an unknown key: dropped silently by both struct decoders (as is); refused by strict decoders (fixed)
   decodeErr |-> \/ d.fault = "unknownField" /\ "unknown" \notin AsIs
                 \* a closing bracket without an opening one is a syntax error for both stream decoders;
                 \* as "more": a JSON decode loop `for dec.More()` takes it for the end of the stream (seeded change C13-m6)
                 \/ d.fault = "strayClose" /\ ~(syn = "json" /\ "more" \in AsIs),
   endsStream |-> d.fault = "strayClose" /\ syn = "json" /\ "more" \in AsIs]

\* validation.go, schema v0, on the decoded struct (the string fields are omitempty: "" = missing)
SchemaOk(sp) ==
  \/ /\ sp.operation \in CreateOps
     /\ sp.payload \in {"inline", "jsonstr", "yamlstr"}          \* required object: non-empty map or string
  \/ /\ sp.operation \in DeleteOps
     /\ sp.hasKind /\ sp.hasName
  \/ /\ sp.operation \in PatchOps
     /\ sp.hasKind /\ sp.hasName
     /\ sp.payload \in {"inline", "jsonstr", "yamlstr"}

\* operation.go NewFromOperationSpec
NewOp(sp) ==
  IF sp.operation \in CreateOps
  THEN [t |-> "create", key |-> sp.key, var |-> sp.var, num |-> sp.num, form |-> sp.payload,
        ignoreIfExists |-> sp.operation = "CreateIfNotExists", updateIfExists |-> sp.operation = "CreateOrUpdate",
        propagation |-> "", ptype |-> "", sub |-> "", ign |-> FALSE]
  ELSE IF sp.operation \in DeleteOps
  THEN [t |-> "delete", key |-> sp.key, var |-> "-", num |-> "none", form |-> "",
        ignoreIfExists |-> FALSE, updateIfExists |-> FALSE,
        propagation |-> CASE sp.operation = "Delete" -> "Foreground" [] sp.operation = "DeleteInBackground" -> "Background"
                          [] OTHER -> "Orphan",
        ptype |-> "", sub |-> "", ign |-> FALSE]
  ELSE [t |-> IF sp.operation = "JQPatch" THEN "filter" ELSE "patch", key |-> sp.key, var |-> sp.var, num |-> "none",
        form |-> sp.payload, ignoreIfExists |-> FALSE, updateIfExists |-> FALSE, propagation |-> "",
        ptype |-> CASE sp.operation = "MergePatch" -> "merge" [] sp.operation = "JSONPatch" -> "json" [] OTHER -> "",
        sub |-> sp.sub, ign |-> sp.ign]

\* operation.go ParseOperations: [ops, err]
RECURSIVE ParseFrom(_, _, _, _)
ParseFrom(syn, s, i, ops) ==
  IF i > Len(s) THEN [ops |-> ops, err |-> FALSE]
  ELSE LET sp == Decode(syn, s[i]) IN
       IF ~SchemaOk(sp) THEN [ops |-> ops, err |-> TRUE]           \* break: later documents are not looked at
       ELSE ParseFrom(syn, s, i + 1, Append(ops, NewOp(sp)))

\* the part of the stream the decoder reads (all of it, unless something makes it stop silently)
Read(syn, s) ==
  LET ends == {i \in 1..Len(s) : Decode(syn, s[i]).endsStream}
  IN IF ends = {} THEN s ELSE SubSeq(s, 1, (CHOOSE i \in ends : \A j \in ends : i <= j) - 1)

Parse(syn, s) ==
  LET rd == Read(syn, s) IN
  IF \E i \in 1..Len(rd) : Decode(syn, rd[i]).decodeErr
  THEN [ops |-> <<>>, err |-> TRUE]                                \* the stream decoder fails as a whole
  ELSE ParseFrom(syn, rd, 1, <<>>)

\* what a patch / filter does to the object the API server holds
Patched(op, o) ==
  CASE op.t = "patch" /\ op.ptype = "merge" /\ op.var = "m" -> <<"m", o[2], o[3]>>
    [] op.t = "patch" /\ op.ptype = "merge" /\ op.var = "d" -> <<o[1], "-", o[3]>>
    [] op.t = "patch" /\ op.ptype = "json"                  -> <<"j", o[2], o[3]>>
    [] op.t = "filter" /\ op.var = "q"                      -> <<"q", o[2], o[3]>>
    [] op.t = "filter" /\ op.var = "c"                      -> <<o[1], o[1], o[3]>>
    [] op.t = "filter" /\ op.var = "a"                      -> <<o[1] \o "x", o[2], o[3]>>

\* patch.go: one operation in terms of API calls. Result [c, err, panic, calls]; calls = mutating API calls
\* <<verb, key, subresource, propagationPolicy>> in the order they are issued.
ExecOp(op, c) ==
  LET o == c[op.key] IN
  CASE op.t = "create" ->
         IF o = Absent                                              \* Create call succeeds
         THEN [c |-> [c EXCEPT ![op.key] = Tpl(op.var)], err |-> FALSE, panic |-> FALSE, calls |-> <<<<"create", op.key, "", "">>>>]
         ELSE IF op.ignoreIfExists                                  \* AlreadyExists
         THEN [c |-> c, err |-> FALSE, panic |-> FALSE, calls |-> <<<<"create", op.key, "", "">>>>]
         ELSE IF op.updateIfExists                                  \* Get, object.DeepCopy(), Update
         THEN IF op.num = "int"
              THEN [c |-> c, err |-> TRUE, panic |-> TRUE, calls |-> <<<<"create", op.key, "", "">>>>]
              ELSE [c |-> [c EXCEPT ![op.key] = Tpl(op.var)], err |-> FALSE, panic |-> FALSE,
                    calls |-> <<<<"create", op.key, "", "">>, <<"update", op.key, "", "">>>>]
         ELSE [c |-> c, err |-> TRUE, panic |-> FALSE, calls |-> <<<<"create", op.key, "", "">>>>]
    [] op.t = "delete" ->                                           \* Delete call; NotFound is swallowed; Foreground polls
         [c |-> [c EXCEPT ![op.key] = Absent], err |-> FALSE, panic |-> FALSE, calls |-> <<<<"delete", op.key, "", op.propagation>>>>]
    [] op.t = "patch" ->                                            \* Patch call
         IF o = Absent THEN [c |-> c, err |-> ~op.ign, panic |-> FALSE, calls |-> <<<<"patch", op.key, op.sub, "">>>>]
         ELSE [c |-> [c EXCEPT ![op.key] = Patched(op, o)], err |-> FALSE, panic |-> FALSE, calls |-> <<<<"patch", op.key, op.sub, "">>>>]
    [] op.t = "filter" ->                                           \* Get, filter, Update unless equal
         IF o = Absent THEN [c |-> c, err |-> ~op.ign, panic |-> FALSE, calls |-> <<>>]
         ELSE IF Patched(op, o) = o THEN [c |-> c, err |-> FALSE, panic |-> FALSE, calls |-> <<>>]
         ELSE [c |-> [c EXCEPT ![op.key] = Patched(op, o)], err |-> FALSE, panic |-> FALSE, calls |-> <<<<"update", op.key, op.sub, "">>>>]

\* patch.go ExecuteOperations: [c, nerr, panic, done, calls]; done = indexes executed, in order. A panic ends the process.
RECURSIVE ExecFrom(_, _, _)
ExecFrom(ops, i, acc) ==
  IF i > Len(ops) \/ acc.panic THEN acc
  ELSE LET r == ExecOp(ops[i], acc.c)
       IN ExecFrom(ops, i + 1, [c |-> r.c, nerr |-> acc.nerr + (IF r.err /\ ~r.panic THEN 1 ELSE 0), panic |-> r.panic,
                                done |-> Append(acc.done, i), calls |-> acc.calls \o r.calls])

ExecAll(ops, c) == ExecFrom(ops, 1, [c |-> c, nerr |-> 0, panic |-> FALSE, done |-> <<>>, calls |-> <<>>])

\* operator.go handleRunHook
RunHook(syn, s, c) ==
  LET p == Parse(syn, s) IN
  IF p.err THEN [c |-> c, ok |-> FALSE, nerr |-> 0, panic |-> FALSE, done |-> <<>>, calls |-> <<>>, parseErr |-> TRUE]
  ELSE LET r == ExecAll(p.ops, c)
       IN [c |-> r.c, ok |-> r.nerr = 0 /\ ~r.panic, nerr |-> r.nerr, panic |-> r.panic, done |-> r.done, calls |-> r.calls,
           parseErr |-> FALSE]

(***************************************************************************)
(* Properties.                                                             *)
(***************************************************************************)
Complete == Len(stream) = len
TypeOK == init \in Clusters /\ len \in Lens /\ Len(stream) <= len /\ \A i \in 1..Len(stream) : stream[i] \in DocsAt(len)

\* some document invalid => nothing applied, the execution fails - whichever syntax the hook used
AllOrNothingValidation ==
  Complete /\ ~AllValid(stream) => \A syn \in Syntaxes : LET r == RunHook(syn, stream, init) IN r.c = init /\ ~r.ok /\ r.done = <<>>

\* all valid => each operation executed exactly once, in document order, final cluster and success as documented
InOrderOnce ==
  Complete /\ AllValid(stream) => \A syn \in Syntaxes :
     LET r == RunHook(syn, stream, init)  ref == RefRun(stream, init) IN
       /\ ~r.parseErr
       /\ r.done = [i \in 1..Len(stream) |-> i]
       /\ r.c = ref.c
       /\ r.ok = ref.ok
       /\ r.nerr = ref.nerr

\* the same documents as JSON and as YAML: same operations, same outcome
SyntaxAgnostic ==
  Complete =>
  /\ Parse("json", stream) = Parse("yaml", stream)
  /\ RunHook("json", stream, init) = RunHook("yaml", stream, init)

\* a legal stream never takes the operator down
NoCrash == Complete => \A syn \in Syntaxes : ~RunHook(syn, stream, init).panic

(***************************************************************************)
(* Case export: the expectation the real code is held to (computed from    *)
(* the REFERENCE, plus what the pipeline predicts for the API calls).      *)
(***************************************************************************)
Touch(s) == [i \in 1..Len(s) |-> LET r == RefFold(SubSeq(s, 1, i), 1, [c |-> init, nerr |-> 0])
                                      p == RefFold(SubSeq(s, 1, i - 1), 1, [c |-> init, nerr |-> 0])
                                  IN r.c # p.c]

Case ==
  LET ref == RefRun(stream, init)
      run == RunHook("json", stream, init)
  IN [init   |-> [k \in Keys |-> init[k]],
      stream |-> stream,
      valid  |-> AllValid(stream),
      final  |-> [k \in Keys |-> ref.c[k]],
      ok     |-> ref.ok,
      nerr   |-> ref.nerr,
      changes |-> IF AllValid(stream) THEN Touch(stream) ELSE [i \in 1..Len(stream) |-> FALSE],
      fgdel  |-> Cardinality({i \in 1..Len(stream) : AllValid(stream) /\ stream[i].op = "Delete"
                                 /\ RefFold(SubSeq(stream, 1, i - 1), 1, [c |-> init, nerr |-> 0]).c[stream[i].key] # Absent}),
      trace  |-> IF AllValid(stream) THEN [i \in 1..Len(stream) |-> RefFold(SubSeq(stream, 1, i), 1, [c |-> init, nerr |-> 0]).c]
                 ELSE <<>>,
      errs   |-> IF AllValid(stream)
                 THEN [i \in 1..Len(stream) |-> RefApply(stream[i], RefFold(SubSeq(stream, 1, i - 1), 1, [c |-> init, nerr |-> 0]).c).err]
                 ELSE <<>>,
      calls  |-> run.calls]

\* deterministic pseudo-random selection of the cases that are printed (all of them are model-checked)
OpN(op) == CASE op = "Create" -> 1 [] op = "CreateIfNotExists" -> 2 [] op = "CreateOrUpdate" -> 3 [] op = "Delete" -> 4
             [] op = "DeleteInBackground" -> 5 [] op = "DeleteNonCascading" -> 6 [] op = "MergePatch" -> 7
             [] op = "JSONPatch" -> 8 [] op = "JQPatch" -> 9 [] op = "Stray" -> 10
FaultN(f) == CASE f = "none" -> 0 [] f = "noOperation" -> 1 [] f = "unknownOp" -> 2 [] f = "unknownField" -> 3
               [] f = "noPayload" -> 4 [] f = "emptyPayload" -> 5 [] f = "badPayload" -> 6 [] f = "noName" -> 7 [] f = "noKind" -> 8 [] f = "strayClose" -> 9
DocN(d) == OpN(d.op) * 7 + (IF d.key = CHOOSE k \in Keys : TRUE THEN 0 ELSE 3) + FaultN(d.fault) * 19
           + (IF d.form = "inline" THEN 0 ELSE IF d.form = "jsonstr" THEN 5 ELSE 10) + (IF d.sub = "" THEN 0 ELSE 11)
           + (IF d.ign THEN 13 ELSE 0) + (IF d.var \in {"1", "m", "q", "j", "-"} THEN 0 ELSE IF d.var \in {"2", "d", "c"} THEN 17 ELSE 29)
RECURSIVE StreamN(_, _)
StreamN(s, i) == IF i > Len(s) THEN 0 ELSE (i * 31 + 1) * DocN(s[i]) + StreamN(s, i + 1)
Hash == StreamN(stream, 1) + 23 * Cardinality({k \in Keys : init[k] = Absent}) + (IF init[CHOOSE k \in Keys : TRUE] = Absent THEN 41 ELSE 0)
Selected == len = 1 \/ Hash % SampleMod = Seed % SampleMod

EmitCase == (Emit /\ Complete /\ Selected) => PrintT("@@" \o ToJson(Case))

Init == init \in Clusters /\ len \in Lens /\ stream = <<>>
Build == /\ Len(stream) < len
         /\ \E d \in DocsAt(len) : stream' = Append(stream, d)
         /\ UNCHANGED <<init, len>>
Next == Build
Spec == Init /\ [][Next]_vars
=============================================================================
