\* exhaustive: 2 keys, initial objects absent|T1; streams len 1 rich (all forms/modifiers/faults), len 2 medium, len 3 quick order-level documents (20, one of them a stray closing bracket); stray `]` / `}` stream elements at len 1 and 2; ~68 k states, ~8 s
SPECIFICATION Spec
CONSTANTS
  Keys = {"a", "b"}
  InitObjs = {"1"}
  L1 = "rich"
  L2 = "medium"
  L3 = "orderq"
  AsIs = {}
  Emit = TRUE
  SampleMod = 1
  Seed = 1
INVARIANTS TypeOK AllOrNothingValidation InOrderOnce SyntaxAgnostic NoCrash EmitCase
CHECK_DEADLOCK FALSE
