\* exhaustive: the integer-bearing family (F22). Objects with spec.replicas, every create variant x payload form, one delete / merge / jq; streams len <= 2; initial objects absent|T1|T3; ~5.4 k cases
SPECIFICATION Spec
CONSTANTS
  Keys = {"a", "b"}
  InitObjs = {"1", "3"}
  L1 = "num"
  L2 = "num"
  L3 = "none"
  AsIs = {}
  Emit = TRUE
  SampleMod = 1
  Seed = 1
INVARIANTS TypeOK AllOrNothingValidation InOrderOnce SyntaxAgnostic NoCrash EmitCase
CHECK_DEADLOCK FALSE
