\* as-it-was model of the struct decoders (unknown keys dropped before the schema sees them): TLC must find AllOrNothingValidation violated
SPECIFICATION Spec
CONSTANTS
  Keys = {"a", "b"}
  InitObjs = {"1"}
  L1 = "rich"
  L2 = "none"
  L3 = "none"
  AsIs = {"unknown"}
  Emit = FALSE
  SampleMod = 1
  Seed = 1
INVARIANTS TypeOK AllOrNothingValidation
CHECK_DEADLOCK FALSE
