\* exhaustive: 2 keys, initial objects absent|T1; streams len 1 rich, len 2 rich (all forms/modifiers/faults pairwise), len 3 order-level documents; stray closing brackets (`]`, `}` at len 1 and 2, `}` at len 3) as stream elements; ~220 k states
SPECIFICATION Spec
CONSTANTS
  Keys = {"a", "b"}
  InitObjs = {"1"}
  L1 = "rich"
  L2 = "rich"
  L3 = "order"
  AsIs = {}
  Emit = TRUE
  SampleMod = 1
  Seed = 1
INVARIANTS TypeOK AllOrNothingValidation InOrderOnce SyntaxAgnostic NoCrash EmitCase
CHECK_DEADLOCK FALSE
