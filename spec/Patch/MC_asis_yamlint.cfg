\* as-it-was model of the YAML decoder (Go int in inline payloads, F22): TLC must find the crash / the JSON-YAML difference
SPECIFICATION Spec
CONSTANTS
  Keys = {"a", "b"}
  InitObjs = {"1", "3"}
  L1 = "num"
  L2 = "num"
  L3 = "none"
  AsIs = {"yamlint"}
  Emit = FALSE
  SampleMod = 1
  Seed = 1
INVARIANTS TypeOK NoCrash
CHECK_DEADLOCK FALSE
