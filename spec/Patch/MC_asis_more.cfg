\* model of the seeded change C13-m6 (JSON decode loop `for dec.More()`: a stray closing bracket ends the stream silently): TLC must find AllOrNothingValidation violated
SPECIFICATION Spec
CONSTANTS
  Keys = {"a", "b"}
  InitObjs = {"1"}
  L1 = "rich"
  L2 = "none"
  L3 = "none"
  AsIs = {"more"}
  Emit = FALSE
  SampleMod = 1
  Seed = 1
INVARIANTS TypeOK AllOrNothingValidation
CHECK_DEADLOCK FALSE
