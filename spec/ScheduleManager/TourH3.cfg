\* export: one behaviour per configuration of 3 hooks (NCfg = 0: all 9261; n: a random subset), a fixed tour through all 8 sets of enabled hooks
SPECIFICATION Spec
CONSTANTS
  HookNames <- HN3
  Crontabs = {"c1", "c2"}
  QueueNames = {"main", "q1"}
  MaxB = 2
  MaxOps = 100
  Variant = "code"
  HVariant = "code"
  Mode = "tour"
  Tour <- Tour3
  Hist = TRUE
  Seed = 1
  NWalks = 1
  NCfg = 600
INVARIANTS Emit RefCount
CHECK_DEADLOCK FALSE
