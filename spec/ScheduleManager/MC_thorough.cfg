\* exhaustive, manager level: 3 crontabs x 3 ids, Add/Remove/Tick histories of ANY length (VIEW NView: cron entry ids up to renaming, no counters)
SPECIFICATION Spec
CONSTANTS
  Crontabs = {"c1", "c2", "c3"}
  Ids = {"a", "b", "c"}
  MaxOps = 1000000
  Mode = "free"
  WithTick = TRUE
  Hist = FALSE
  EmitDepth = 0
  Seed = 1
  NWalks = 0
  Variant = "code"
VIEW NView
INVARIANTS TypeOK RefCount EntriesFaithful FiresWhileReferenced StopsAfterLast NoDuplicateFiring
CHECK_DEADLOCK FALSE
