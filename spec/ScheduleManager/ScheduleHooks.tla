------------------------------ MODULE ScheduleHooks ------------------------------
(***************************************************************************)
(* C11, hook level: schedule_bindings_controller.go, hook_controller.go,   *)
(* hook_manager.go HandleScheduleEvent and the schedule handler of         *)
(* operator.go / manager_events_handler.go on top of the schedule manager  *)
(* of SchedOps.                                                            *)
(*                                                                         *)
(* A configuration `cfg` gives every hook a sequence of at most MaxB       *)
(* schedule bindings; the structural part of a binding (crontab, queue) is *)
(* enumerated, the payload (name, group, allowFailure, snapshot list) is   *)
(* fixed per position by PayTable (names repeat inside a hook and across   *)
(* hooks on purpose: unnamed bindings are all called "schedule").  Every   *)
(* binding has a unique id (the uuid of config.ScheduleID()).              *)
(*                                                                         *)
(* Enable(h)/Disable(h) = EnableScheduleBindings/DisableScheduleBindings   *)
(* of the hook's controller: one Add/Remove per binding plus the link map. *)
(* Tick(c): the cron library runs the job of every registration of c; for  *)
(* every event the operator asks every hook that can handle c and creates  *)
(* one task per link with that crontab.                                    *)
(*                                                                         *)
(* `enabled` is the reference: the hooks whose bindings are enabled        *)
(* according to the history.                                               *)
(***************************************************************************)
EXTENDS SchedOps, Json, Randomization

CONSTANTS HookNames,    \* sequence of hook names, in the hook manager's order (sorted by path)
          Crontabs, QueueNames,
          MaxB,         \* bindings per hook: 0..MaxB (at most 2, see PayTable)
          MaxOps,
          HVariant,     \* "code" | "first_link" | "stale_links"  (design mutations, see SchedOps)
          Mode,         \* "free": any Enable/Disable/Tick history;  "tour": the operations of Tour, in order;
                        \* "walk": one pseudo-random history of MaxOps operations per configuration and w in 1..NWalks
          Tour,         \* sequence of <<"E"|"D", hook index>>
          Hist,         \* TRUE: record the history h (export configurations); FALSE: h stays empty (model checking)
          Seed, NWalks,
          NCfg          \* 0: every configuration is an initial state; n > 0: a random subset of n configurations

VARIABLES cfg,                     \* the configuration (constant along a behaviour)
          entries, cron, nextId,   \* the schedule manager
          links,                   \* per hook: indexes of the bindings that have a link (ScheduleLinks)
          enabled,                 \* reference: hooks enabled by the history
          nops,
          lastTick,                \* [c, n, tasks, en]: the last Tick of c delivered n events, each produced `tasks`
          rng,                     \* walk mode: state of the pseudo-random generator
          h                        \* history for replay

vars == <<cfg, entries, cron, nextId, links, enabled, nops, lastTick, rng, h>>
View == <<cfg, entries, cron, nextId, links, enabled, nops, lastTick>>

NH   == Len(HookNames)
HIdx == 1..NH

PayTable == <<
  << [name |-> "schedule", group |-> "",   af |-> FALSE, snap |-> <<>>],
     [name |-> "schedule", group |-> "g1", af |-> TRUE,  snap |-> <<"k1">>] >>,
  << [name |-> "b1",       group |-> "g1", af |-> TRUE,  snap |-> <<"k2", "k1">>],
     [name |-> "b2",       group |-> "g2", af |-> FALSE, snap |-> <<"k2">>] >>,
  << [name |-> "b1",       group |-> "",   af |-> TRUE,  snap |-> <<>>],
     [name |-> "schedule", group |-> "g2", af |-> FALSE, snap |-> <<"k1", "k2">>] >> >>

Structs  == [crontab : Crontabs, queue : QueueNames]
HookCfgs == UNION {[1..n -> Structs] : n \in 0..MaxB}
Configs  == [HIdx -> HookCfgs]

BId(hi, i) == HookNames[hi] \o "/" \o ToString(i)
Binding(c, hi, i) == PayTable[hi][i] @@ [crontab |-> c[hi][i].crontab, queue |-> c[hi][i].queue, id |-> BId(hi, i)]
Bindings(c, hi)   == [i \in 1..Len(c[hi]) |-> Binding(c, hi, i)]
HooksOf(c)        == [hi \in HIdx |-> [name |-> HookNames[hi], bindings |-> Bindings(c, hi)]]

S == [entries |-> entries, cron |-> cron, next |-> nextId]
SetSM(s) == entries' = s.entries /\ cron' = s.cron /\ nextId' = s.next
\* histories of any length: entry ids up to renaming, no counters (see SchedOps!Norm)
NView == <<cfg, Norm(S), links, enabled, lastTick>>

(* ---------- the code ---------- *)
RECURSIVE AddAll(_, _, _)
AddAll(s, bs, i) == IF i > Len(bs) THEN s ELSE AddAll(DoAdd(s, bs[i].crontab, bs[i].id), bs, i + 1)
RECURSIVE RemoveAll(_, _, _)
RemoveAll(s, bs, i) == IF i > Len(bs) THEN s ELSE RemoveAll(DoRemove(s, bs[i].crontab, bs[i].id), bs, i + 1)

\* the task created for one link (operator.go: HookRun task with the binding's name, group, allowFailure, the
\* binding context carrying the snapshot list, WithQueueName(queue)); `bid` is not part of the real task
TaskOf(hi, i) == LET b == Binding(cfg, hi, i) IN
  [hook |-> HookNames[hi], binding |-> b.name, group |-> b.group, af |-> b.af, snap |-> b.snap, queue |-> b.queue, bid |-> b.id]

LinkIdx(lk, hi, c) == {i \in lk[hi] : cfg[hi][i].crontab = c}
\* HandleEvent: one BindingExecutionInfo per link with that crontab (the code ranges over a Go map: any order;
\* the export lists them by index and the replay compares multisets)
HookTasks(lk, hi, c) ==
  LET idx == IF HVariant = "first_link" /\ LinkIdx(lk, hi, c) # {}
             THEN {CHOOSE i \in LinkIdx(lk, hi, c) : \A j \in LinkIdx(lk, hi, c) : i <= j}
             ELSE LinkIdx(lk, hi, c)
      all == [i \in 1..Len(cfg[hi]) |-> i]
  IN [k \in 1..Len(SelectSeq(all, LAMBDA i : i \in idx)) |-> TaskOf(hi, SelectSeq(all, LAMBDA i : i \in idx)[k])]
\* hook_manager.go HandleScheduleEvent: hooks with schedule bindings, in order, that CanHandleScheduleEvent(c)
RECURSIVE TasksFrom(_, _, _)
TasksFrom(lk, hi, c) == IF hi > NH THEN <<>> ELSE HookTasks(lk, hi, c) \o TasksFrom(lk, hi + 1, c)
Tasks(lk, c) == TasksFrom(lk, 1, c)

\* what the replay compares after every step
Obs(s, lk) == [keys  |-> DOMAIN s.entries,
               ent   |-> [c \in Crontabs |-> IdsOf(s, c)],
               cron  |-> [c \in Crontabs |-> Count(s, c)],       \* registrations = events per tick of c
               ticks |-> [c \in Crontabs |-> Tasks(lk, c)]]      \* tasks created for EACH event of c
Rec(op, s, lk) == [op |-> op] @@ Obs(s, lk)
Log(op, s, lk) == h' = IF Hist THEN Append(h, Rec(op, s, lk)) ELSE h

Enable(hi) ==
  /\ nops < MaxOps
  /\ LET s  == AddAll(S, Bindings(cfg, hi), 1)
         lk == [links EXCEPT ![hi] = 1..Len(cfg[hi])]
     IN SetSM(s) /\ links' = lk /\ Log(<<"Enable", HookNames[hi]>>, s, lk)
  /\ enabled' = enabled \cup {hi}
  /\ nops' = nops + 1 /\ UNCHANGED <<cfg, lastTick>>

Disable(hi) ==
  /\ nops < MaxOps
  /\ LET s  == RemoveAll(S, Bindings(cfg, hi), 1)
         lk == IF HVariant = "stale_links" THEN links ELSE [links EXCEPT ![hi] = {}]
     IN SetSM(s) /\ links' = lk /\ Log(<<"Disable", HookNames[hi]>>, s, lk)
  /\ enabled' = enabled \ {hi}
  /\ nops' = nops + 1 /\ UNCHANGED <<cfg, lastTick>>

TickEnabled(c) == Count(S, c) > 0
Tick(c) ==
  /\ nops < MaxOps
  /\ TickEnabled(c)
  /\ lastTick' = [c |-> c, n |-> Count(S, c), tasks |-> Tasks(links, c), en |-> enabled]
  /\ Log(<<"Tick", c>>, S, links)
  /\ nops' = nops + 1 /\ UNCHANGED <<cfg, entries, cron, nextId, links, enabled>>

TourStep ==
  /\ nops < Len(Tour)
  /\ LET op == Tour[nops + 1] IN IF op[1] = "E" THEN Enable(op[2]) ELSE Disable(op[2])

\* walk mode: the generator chooses the operation (a Tick of an unregistered crontab becomes an Enable)
CrSeq == SeqOf(Crontabs)
WalkStep ==
  LET nc == Len(CrSeq)
      k  == Pick(rng, 2 * NH + 2 * nc)      \* ticks are as likely as the other operations together when NH = nc
      hi == (k % NH) + 1
      c  == CrSeq[(k % nc) + 1]
  IN /\ rng' = LcgNext(rng)
     /\ IF k >= 2 * NH /\ TickEnabled(c) THEN Tick(c)
        ELSE IF k < NH \/ k >= 2 * NH THEN Enable(hi)
        ELSE Disable(hi)

Next == IF Mode = "tour" THEN TourStep /\ UNCHANGED rng
        ELSE IF Mode = "walk" THEN WalkStep
        ELSE /\ UNCHANGED rng
             /\ \/ \E hi \in HIdx : Enable(hi) \/ Disable(hi)
                \/ \E c \in Crontabs : Tick(c)

\* a number that differs between most configurations: decorrelates the walks of different configurations
RECURSIVE HashFrom(_, _, _)
HashFrom(c, hi, i) == IF hi > NH THEN 0
                      ELSE IF i > Len(c[hi]) THEN 31 * hi + HashFrom(c, hi + 1, 1)
                      ELSE ((IF c[hi][i].crontab = CrSeq[1] THEN 3 ELSE 5) + (IF c[hi][i].queue = "main" THEN 7 ELSE 11)) * (4 * hi + i)
                           + 3 * HashFrom(c, hi, i + 1)

NoLinks == [hi \in HIdx |-> {}]
Init == /\ cfg \in (IF NCfg = 0 THEN Configs ELSE RandomSubset(NCfg, Configs))
        /\ entries = <<>> /\ cron = {} /\ nextId = 0
        /\ links = NoLinks /\ enabled = {} /\ nops = 0
        /\ lastTick = [c |-> "", n |-> 0, tasks |-> <<>>, en |-> {}]
        /\ rng \in (IF Mode = "walk" THEN {(Seed * 101 + w * 7 + HashFrom(cfg, 1, 1)) % 65537 : w \in 1..NWalks} ELSE {0})
        /\ h = IF Hist THEN << [op |-> <<"Init">>, hooks |-> HooksOf(cfg)] @@ Obs(EmptySM, NoLinks) >> ELSE <<>>

Spec == Init /\ [][Next]_vars

(* ---------- properties (C11, hook level) ---------- *)
\* bindings (hook index, binding index) with crontab c of the hooks in en
Wanted(c, en) == {w \in HIdx \X (1..MaxB) : w[1] \in en /\ w[2] <= Len(cfg[w[1]]) /\ cfg[w[1]][w[2]].crontab = c}

\* every event of a tick produced exactly one task for every enabled binding with that crontab, carrying that
\* binding's name, group, allowFailure, snapshot list and queue, and no other task
OneTaskPerBinding ==
  lastTick.c # "" =>
    LET W == Wanted(lastTick.c, lastTick.en) IN
    /\ Len(lastTick.tasks) = Cardinality(W)
    /\ \A w \in W : \E k \in 1..Len(lastTick.tasks) : lastTick.tasks[k] = TaskOf(w[1], w[2])
RefCount             == \A c \in Crontabs : Count(S, c) = (IF Wanted(c, enabled) # {} THEN 1 ELSE 0)
EntriesFaithful      == /\ DOMAIN entries = {c \in Crontabs : Wanted(c, enabled) # {}}
                        /\ \A c \in DOMAIN entries : entries[c].ids = {BId(w[1], w[2]) : w \in Wanted(c, enabled)}
FiresWhileReferenced == \A c \in Crontabs : Wanted(c, enabled) # {} => TickEnabled(c)
StopsAfterLast       == \A c \in Crontabs : Wanted(c, enabled) = {} => ~TickEnabled(c)
NoDuplicateFiring    == lastTick.n <= 1 /\ \A c \in Crontabs : Count(S, c) <= 1

(* ---------- constants for the configuration files (a cfg file cannot contain tuples) ---------- *)
HN2 == <<"h1", "h2">>
HN3 == <<"h1", "h2", "h3">>
NoTour == <<>>
\* through all 4 sets of enabled hooks, with a repeated Enable and Disables of a hook that is not enabled
Tour2 == << <<"E", 1>>, <<"E", 1>>, <<"E", 2>>, <<"D", 1>>, <<"D", 1>>, <<"E", 1>>, <<"D", 2>>, <<"D", 2>>, <<"D", 1>>,
            <<"E", 2>>, <<"D", 2>> >>
\* through all 8 sets of enabled hooks (Gray code order)
Tour3 == << <<"E", 1>>, <<"E", 1>>, <<"E", 2>>, <<"D", 1>>, <<"D", 1>>, <<"E", 3>>, <<"E", 1>>, <<"D", 2>>, <<"D", 3>>,
            <<"E", 2>>, <<"E", 3>>, <<"D", 1>>, <<"D", 2>>, <<"D", 3>> >>

(* ---------- export ---------- *)
\* tour mode, exhaustive: one behaviour per configuration; the last state carries the whole history
\* walk mode: every walk is printed when it has MaxOps operations
Emit == ((Mode = "tour" /\ nops = Len(Tour)) \/ (Mode = "walk" /\ nops = MaxOps)) => PrintT("@@" \o ToJson([h |-> h]))
=============================================================================
