------------------------------ MODULE ScheduleManager ------------------------------
(***************************************************************************)
(* C11, manager level: pkg/schedule_manager/schedule_manager.go.           *)
(*                                                                         *)
(* Any history of Add(c,id) / Remove(c,id) over Crontabs x Ids (repeated   *)
(* adds, removals of unknown pairs included) and Tick(c).  Tick(c) is what *)
(* the cron goroutine does when the time of crontab c comes: it runs the   *)
(* job of EVERY registration of c (one channel event per registration).    *)
(* It is enabled iff c is registered in the cron library.                  *)
(*                                                                         *)
(* `ref` is the reference semantics the property statement talks about:    *)
(* the set of (crontab, id) pairs registered by the history so far.        *)
(***************************************************************************)
EXTENDS SchedOps, Json

CONSTANTS Crontabs, Ids,
          MaxOps,     \* bound on the number of operations of a history
          Mode,       \* "free": any history; "walk": NWalks pseudo-random histories of MaxOps operations (export)
          WithTick,   \* Tick is part of the free histories (FALSE for the exhaustive export: the replay fires
                      \* every registered job after every step anyway)
          Hist,       \* record the history h
          EmitDepth,  \* export: print the histories of exactly this length (0 = never)
          Seed, NWalks

VARIABLES entries, cron, nextId,   \* the manager (see SchedOps)
          ref,                     \* reference: registered (crontab, id) pairs
          nops,
          fired,                   \* the last Tick: [c, n] = n events carrying c were put on the channel
          rng,                     \* walk mode: state of the pseudo-random generator
          h                        \* history for replay: the operations with the expected observation after each

vars == <<entries, cron, nextId, ref, nops, fired, rng, h>>
View == <<entries, cron, nextId, ref, nops, fired>>

S == [entries |-> entries, cron |-> cron, next |-> nextId]
SetSM(s) == entries' = s.entries /\ cron' = s.cron /\ nextId' = s.next
\* histories of any length: entry ids up to renaming, no counters (see SchedOps!Norm)
NView == <<Norm(S), ref, fired>>

\* what the replay compares after every step (all of it computed here, nothing recomputed by the harness)
Obs(s) == [keys |-> DOMAIN s.entries,                          \* keys of the Entries map
           ent  |-> [c \in Crontabs |-> IdsOf(s, c)],          \* ids per crontab
           cron |-> [c \in Crontabs |-> Count(s, c)]]          \* registrations per crontab = events per tick of c
Log(op, s) == h' = IF Hist THEN Append(h, [op |-> op] @@ Obs(s)) ELSE h

Add(c, id) ==
  /\ nops < MaxOps
  /\ LET s == DoAdd(S, c, id) IN SetSM(s) /\ Log(<<"Add", c, id>>, s)
  /\ ref' = ref \cup {<<c, id>>}
  /\ nops' = nops + 1 /\ UNCHANGED fired

Remove(c, id) ==
  /\ nops < MaxOps
  /\ LET s == DoRemove(S, c, id) IN SetSM(s) /\ Log(<<"Remove", c, id>>, s)
  /\ ref' = ref \ {<<c, id>>}
  /\ nops' = nops + 1 /\ UNCHANGED fired

TickEnabled(c) == Count(S, c) > 0
Tick(c) ==
  /\ nops < MaxOps
  /\ TickEnabled(c)
  /\ fired' = [c |-> c, n |-> Count(S, c)]
  /\ Log(<<"Tick", c, "">>, S)
  /\ nops' = nops + 1 /\ UNCHANGED <<entries, cron, nextId, ref>>

\* walk mode: the generator chooses the operation (a Tick of an unregistered crontab becomes an Add)
CrSeq == SeqOf(Crontabs)
IdSeq == SeqOf(Ids)
WalkStep ==
  LET nc == Len(CrSeq)
      ni == Len(IdSeq)
      k  == Pick(rng, 2 * nc * ni + nc)
      c  == CrSeq[(k % nc) + 1]
      id == IdSeq[((k \div nc) % ni) + 1]
  IN /\ rng' = LcgNext(rng)
     /\ IF k >= 2 * nc * ni /\ TickEnabled(c) THEN Tick(c)
        ELSE IF k < nc * ni \/ k >= 2 * nc * ni THEN Add(c, id)
        ELSE Remove(c, id)

Next == IF Mode = "walk" THEN WalkStep
        ELSE /\ UNCHANGED rng
             /\ \/ \E c \in Crontabs, id \in Ids : Add(c, id) \/ Remove(c, id)
                \/ \E c \in Crontabs : WithTick /\ Tick(c)

Init == /\ entries = <<>> /\ cron = {} /\ nextId = 0 /\ ref = {} /\ nops = 0
        /\ fired = [c |-> "", n |-> 0] /\ h = <<>>
        /\ rng \in (IF Mode = "walk" THEN {(Seed * 101 + w * 7) % 65537 : w \in 1..NWalks} ELSE {0})

Spec == Init /\ [][Next]_vars

(* ---------- properties (C11, manager level) ---------- *)
Referenced(c) == \E id \in Ids : <<c, id>> \in ref

\* the cron library holds exactly one registration for every referenced crontab, none for the others
RefCount == \A c \in Crontabs : Count(S, c) = (IF Referenced(c) THEN 1 ELSE 0)
\* the Entries map is the reference relation: a key iff referenced, with exactly the registered ids,
\* and its entry id is the id of a live registration of that crontab
EntriesFaithful ==
  /\ DOMAIN entries = {c \in Crontabs : Referenced(c)}
  /\ \A c \in DOMAIN entries : /\ entries[c].ids = {id \in Ids : <<c, id>> \in ref}
                               /\ [eid |-> entries[c].eid, c |-> c] \in cron
\* a crontab keeps firing while at least one id is registered for it ...
FiresWhileReferenced == \A c \in Crontabs : Referenced(c) => TickEnabled(c)
\* ... and stops when the last one is removed
StopsAfterLast == \A c \in Crontabs : ~Referenced(c) => ~TickEnabled(c)
\* registering a crontab any number of times never produces duplicate firings
NoDuplicateFiring == /\ \A c \in Crontabs : Count(S, c) <= 1
                     /\ fired.n <= 1
TypeOK == /\ DOMAIN entries \subseteq Crontabs
          /\ \A c \in DOMAIN entries : entries[c].ids \subseteq Ids /\ entries[c].ids # {}
          /\ \A e \in cron : e.c \in Crontabs /\ e.eid \in 1..nextId
          /\ \A e1, e2 \in cron : e1.eid = e2.eid => e1 = e2

(* ---------- export of histories for replay ---------- *)
\* free mode: every history of length EmitDepth is one state (h is part of the state), printed once;
\* walk mode: every walk is printed when it has MaxOps operations
Emit == ((EmitDepth > 0 /\ nops = EmitDepth) \/ (Mode = "walk" /\ nops = MaxOps)) => PrintT("@@" \o ToJson([h |-> h]))
=============================================================================
