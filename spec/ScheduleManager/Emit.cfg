\* export: ALL Add/Remove histories of length EmitDepth over 2 crontabs x 3 ids (12^EmitDepth histories, one printed line each)
SPECIFICATION Spec
CONSTANTS
  Crontabs = {"c1", "c2"}
  Ids = {"a", "b", "c"}
  MaxOps = 4
  Mode = "free"
  WithTick = FALSE
  Hist = TRUE
  EmitDepth = 4
  Seed = 1
  NWalks = 0
  Variant = "code"
INVARIANTS Emit RefCount
CHECK_DEADLOCK FALSE
