\* export: NWalks pseudo-random Add/Remove/Tick histories of MaxOps operations over 3 crontabs x 3 ids (Seed is set per run)
SPECIFICATION Spec
CONSTANTS
  Crontabs = {"c1", "c2", "c3"}
  Ids = {"a", "b", "c"}
  MaxOps = 40
  Mode = "walk"
  WithTick = TRUE
  Hist = TRUE
  EmitDepth = 0
  Seed = 1
  NWalks = 300
  Variant = "code"
INVARIANTS Emit RefCount
CHECK_DEADLOCK FALSE
