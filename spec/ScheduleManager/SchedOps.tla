------------------------------ MODULE SchedOps ------------------------------
(***************************************************************************)
(* pkg/schedule_manager/schedule_manager.go: Add and Remove as functions   *)
(* on the manager's state, structured like the code.                       *)
(*                                                                         *)
(* A manager state is a record                                             *)
(*   entries : the code's map  crontab -> [eid, ids]   (a partial function;*)
(*             a key is present iff the code's map has the key)            *)
(*   cron    : the entry list of the cron library, a set of [eid, c]       *)
(*             records.  Entry ids are unique, so this is a BAG of         *)
(*             crontabs: two registrations of one crontab are two elements *)
(*   next    : the library's entry id counter (ids are never reused)       *)
(*                                                                         *)
(* Variant = "code" is the code as it is.  The other values are deliberate *)
(* design mutations used to show that the properties are not vacuous (TLC  *)
(* must report a violation for each of them, see MC_mut_*.cfg).            *)
(***************************************************************************)
EXTENDS Integers, FiniteSets, Sequences, TLC

CONSTANTS Variant   \* "code" | "add_always" | "remove_early" | "remove_keeps_cron"

EmptySM == [entries |-> <<>>, cron |-> {}, next |-> 0]

Has(s, c)   == c \in DOMAIN s.entries
IdsOf(s, c) == IF Has(s, c) THEN s.entries[c].ids ELSE {}
\* multiplicity of crontab c in the bag of registrations
Count(s, c) == Cardinality({e \in s.cron : e.c = c})

\* Add: `if !hasCronEntry { id := cron.AddFunc(...); Entries[c] = {id, {newId}} }` then `Ids[newId] = true`
DoAdd(s, c, id) ==
  IF ~Has(s, c) \/ Variant = "add_always"
  THEN LET eid == s.next + 1
       IN [entries |-> [x \in DOMAIN s.entries \cup {c} |->
                          IF x = c THEN [eid |-> eid, ids |-> IdsOf(s, c) \cup {id}] ELSE s.entries[x]],
           cron    |-> s.cron \cup {[eid |-> eid, c |-> c]},
           next    |-> eid]
  ELSE [s EXCEPT !.entries[c].ids = @ \cup {id}]

\* Remove: unknown crontab or unknown id: nothing; else delete the id, and when no id is left
\* `cron.Remove(EntryID); delete(Entries, c)`
DoRemove(s, c, id) ==
  IF ~Has(s, c) \/ id \notin s.entries[c].ids
  THEN s
  ELSE LET rest == s.entries[c].ids \ {id}
       IN IF rest = {} \/ Variant = "remove_early"
          THEN [entries |-> [x \in DOMAIN s.entries \ {c} |-> s.entries[x]],
                cron    |-> IF Variant = "remove_keeps_cron" THEN s.cron
                            ELSE {e \in s.cron : e.eid # s.entries[c].eid},
                next    |-> s.next]
          ELSE [s EXCEPT !.entries[c].ids = rest]

\* The state up to an order-preserving renaming of the cron entry ids (they are only compared for equality and
\* a fresh one is larger than all live ones) and without the id counter: used as VIEW so that histories of
\* unbounded length are explored on a finite state space.
Norm(s) ==
  LET live == {e.eid : e \in s.cron}
      Rank(x) == IF x \in live THEN Cardinality({y \in live : y < x}) + 1 ELSE 0
  IN [entries |-> [c \in DOMAIN s.entries |-> [eid |-> Rank(s.entries[c].eid), ids |-> s.entries[c].ids]],
      cron    |-> {[eid |-> Rank(e.eid), c |-> e.c] : e \in s.cron}]

(* ---------- pseudo-random walks (export of long histories in exhaustive mode: every walk is one ---------- *)
(* ---------- deterministic chain of states, so TLC prints each history exactly once)            ---------- *)
LcgNext(x) == (x * 75 + 74) % 65537
Pick(x, n) == (x \div 8) % n
RECURSIVE SeqOf(_)
SeqOf(T) == IF T = {} THEN <<>> ELSE LET x == CHOOSE y \in T : TRUE IN <<x>> \o SeqOf(T \ {x})
=============================================================================
