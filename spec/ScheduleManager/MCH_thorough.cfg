\* exhaustive, hook level: 3 hooks x <=2 bindings x 2 crontabs x 2 queues = all 9261 configurations, Enable/Disable/Tick histories of ANY length (VIEW NView: cron entry ids up to renaming, no counters)
SPECIFICATION Spec
CONSTANTS
  HookNames <- HN3
  Crontabs = {"c1", "c2"}
  QueueNames = {"main", "q1"}
  MaxB = 2
  MaxOps = 1000000
  Variant = "code"
  HVariant = "code"
  Mode = "free"
  Tour <- NoTour
  Hist = FALSE
  Seed = 1
  NWalks = 1
  NCfg = 0
VIEW NView
INVARIANTS OneTaskPerBinding RefCount EntriesFaithful FiresWhileReferenced StopsAfterLast NoDuplicateFiring
CHECK_DEADLOCK FALSE
