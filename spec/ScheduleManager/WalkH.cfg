\* export: one pseudo-random Enable/Disable/Tick history of MaxOps operations for each of NCfg random configurations of 3 hooks (Seed is set per run)
SPECIFICATION Spec
CONSTANTS
  HookNames <- HN3
  Crontabs = {"c1", "c2"}
  QueueNames = {"main", "q1"}
  MaxB = 2
  MaxOps = 30
  Variant = "code"
  HVariant = "code"
  Mode = "walk"
  Tour <- NoTour
  Hist = TRUE
  Seed = 1
  NWalks = 1
  NCfg = 300
INVARIANTS Emit RefCount
CHECK_DEADLOCK FALSE
