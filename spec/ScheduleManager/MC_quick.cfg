\* exhaustive, manager level: 2 crontabs x 3 ids, every Add/Remove/Tick history up to 8 operations (history not recorded, counters in the state)
SPECIFICATION Spec
CONSTANTS
  Crontabs = {"c1", "c2"}
  Ids = {"a", "b", "c"}
  MaxOps = 8
  Mode = "free"
  WithTick = TRUE
  Hist = FALSE
  EmitDepth = 0
  Seed = 1
  NWalks = 0
  Variant = "code"
VIEW View
INVARIANTS TypeOK RefCount EntriesFaithful FiresWhileReferenced StopsAfterLast NoDuplicateFiring
CHECK_DEADLOCK FALSE
