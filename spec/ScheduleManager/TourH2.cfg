\* export: one behaviour per configuration (all 441 configurations of 2 hooks), a fixed tour through all 4 sets of enabled hooks incl. repeated Enable and Disable of a disabled hook
SPECIFICATION Spec
CONSTANTS
  HookNames <- HN2
  Crontabs = {"c1", "c2"}
  QueueNames = {"main", "q1"}
  MaxB = 2
  MaxOps = 100
  Variant = "code"
  HVariant = "code"
  Mode = "tour"
  Tour <- Tour2
  Hist = TRUE
  Seed = 1
  NWalks = 1
  NCfg = 0
INVARIANTS Emit RefCount
CHECK_DEADLOCK FALSE
