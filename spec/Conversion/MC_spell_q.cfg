\* exhaustive: as MC_spell (<= 3 declared rules) but requests in all 4 spellings, one request per case: ~58 k states
SPECIFICATION Spec
CONSTANTS
  Grp <- G3
  Name <- N3
  CanShort <- S3
  Edges <- E3
  RuleSpell <- AllSpell
  QuerySpell <- AllSpell
  QueryFrom <- V3
  MaxRules = 3
  QLen = 1
  DoEmit = TRUE
INVARIANTS TypeOK AdmissibleSound AdmissibleIffReachable AdmissibleAccepted Emit
CHECK_DEADLOCK FALSE
