------------------------------ MODULE ConvAlgoMC ------------------------------
(* Constant definitions for the configurations of ConvAlgo. *)
EXTENDS ConvAlgo

FullSpell == {<<"f", "f">>}
SameSpell == {<<"f", "f">>, <<"s", "s">>}
AllSpell  == {"f", "s"} \X {"f", "s"}
AllEdges(n) == {e \in (1..n) \X (1..n) : e[1] # e[2]}
Refl(n) == {<<i, i>> : i \in 1..n}

(* three versions, plain names, every spelling *)
G3  == <<"stable.example.com", "stable.example.com", "stable.example.com">>
N3  == <<"v1", "v2", "v3">>
S3  == <<TRUE, TRUE, TRUE>>
In3 == Refl(3)

(* v1alpha1, v1, v1beta1, v2: "v1" occurs in "v1alpha1" and "v1beta1" *)
G4  == [i \in 1..4 |-> "stable.example.com"]
N4k == <<"v1alpha1", "v1", "v1beta1", "v2">>
S4  == <<TRUE, TRUE, TRUE, TRUE>>
In4k == Refl(4) \cup {<<2, 1>>, <<2, 3>>}

(* the docs example: v1beta1 in two groups, v1beta2, v1 ("v1" occurs in all the others) *)
G4g == <<"unstable.crontab.io", "stable.example.com", "stable.example.com", "stable.example.com">>
N4g == <<"v1beta1", "v1beta1", "v1beta2", "v1">>
S4g == <<FALSE, FALSE, TRUE, TRUE>>
In4g == Refl(4) \cup {<<1, 2>>, <<2, 1>>, <<4, 1>>, <<4, 2>>, <<4, 3>>}

(* chain 1-2-3-4, fork 4-5 / 4-6, cycle 3-1 *)
G6  == [i \in 1..6 |-> "stable.example.com"]
N6  == <<"v1", "v2", "v3", "v4", "v5", "v6">>
S6  == [i \in 1..6 |-> TRUE]
In6 == Refl(6)
E6  == {<<1, 2>>, <<2, 3>>, <<3, 4>>, <<4, 5>>, <<4, 6>>, <<3, 1>>}
F1  == {1}
AllEdges4 == AllEdges(4)
AllEdges3 == AllEdges(3)
V4 == 1..4
V3 == 1..3
=============================================================================
