\* exhaustive: as MC_names (Kubernetes-style names, <= 3 declared rules, 2325 graphs) with sequences of 2 requests: ~365 k states
SPECIFICATION Spec
CONSTANTS
  Grp <- G4
  Name <- N4k
  CanShort <- S4
  Edges <- E4
  RuleSpell <- SameSpell
  QuerySpell <- FullSpell
  QueryFrom <- V4
  MaxRules = 3
  QLen = 2
  DoEmit = TRUE
INVARIANTS TypeOK AdmissibleSound AdmissibleIffReachable AdmissibleAccepted Emit
CHECK_DEADLOCK FALSE
