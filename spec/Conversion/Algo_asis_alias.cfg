\* the search as it was (F15): append on a cached path with spare capacity; TLC must report CacheValid
SPECIFICATION Spec
CONSTANTS
  Grp <- G6
  Name <- N6
  CanShort <- S6
  Edges <- E6
  RuleSpell <- FullSpell
  QuerySpell <- FullSpell
  QueryFrom <- F1
  NameIn <- In6
  MaxRules = 5
  QLen = 1
  FixSubstr = TRUE
  FixAlias = FALSE
  FixLoopGuard = TRUE
INVARIANTS CacheValid
PROPERTIES Terminates
CHECK_DEADLOCK FALSE
