\* exhaustive: chains of 1..4 steps, 1..3 requested objects, 8 hook outcomes per step (<= 1 count-changing step), 5 rule-declaration variants, 2 hook layouts: 226530 states, 95990 cases
SPECIFICATION Spec
CONSTANTS
  MaxLen = 4
  Counts = {1, 2, 3}
  Kinds = {"exit1", "empty", "malformed", "failmsg", "failobj", "ok", "drop", "extra"}
  Variants = {"ff", "ss", "mixed", "ff+d", "mixed+d"}
  Layouts = {"perhook", "split"}
  Reach = {TRUE, FALSE}
  FixFailMsg = TRUE
  FixCount = TRUE
  DoEmit = TRUE
INVARIANTS TypeOK InChainOrder StopsAtFirstFailure FailedCarriesHookMessage SuccessOnlyIfAllOkAndCountMatches ServedWhenAllOk FailsWithoutChain Emit
CHECK_DEADLOCK FALSE
