\* algorithm model, code after the fixes: names v1alpha1/v1/v1beta1/v2, 12 conversions x 2 spellings, <= 2 declared rules, 2 requests, every map iteration order
SPECIFICATION Spec
CONSTANTS
  Grp <- G4
  Name <- N4k
  CanShort <- S4
  Edges <- AllEdges4
  RuleSpell <- SameSpell
  QuerySpell <- FullSpell
  QueryFrom <- V4
  NameIn <- In4k
  MaxRules = 2
  QLen = 2
  FixSubstr = TRUE
  FixAlias = TRUE
  FixLoopGuard = TRUE
INVARIANTS AnswerSound AnswerComplete CacheValid
PROPERTIES Terminates
CHECK_DEADLOCK FALSE
