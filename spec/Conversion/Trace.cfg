\* evaluates Sound/Complete on recorded answers of the real code, one state per answer
SPECIFICATION Spec
CONSTANTS
  TraceFile = "answers.ndjson"
INVARIANTS Judge
CHECK_DEADLOCK FALSE
