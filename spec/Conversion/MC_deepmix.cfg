\* exhaustive: 6 versions, chain 1-2-3-4 and fork 4-5/4-6 with 3 spellings of every rule (15 candidate rules), <= 5 declared rules (4944 graphs), sequences of 2 requests from version 1
SPECIFICATION Spec
CONSTANTS
  Grp <- G7
  Name <- N7
  CanShort <- S7
  Edges <- E6f
  RuleSpell <- MixSpell
  QuerySpell <- FullSpell
  QueryFrom <- F7
  MaxRules = 5
  QLen = 2
  DoEmit = TRUE
INVARIANTS TypeOK AdmissibleSound AdmissibleIffReachable AdmissibleAccepted Emit
CHECK_DEADLOCK FALSE
