\* exhaustive: the docs example - v1beta1 in two API groups (always written with the group), v1beta2 and v1 (written either way); all 12 conversions, <= 3 declared rules, all full-spelled requests
SPECIFICATION Spec
CONSTANTS
  Grp <- G4g
  Name <- N4g
  CanShort <- S4g
  Edges <- E4
  RuleSpell <- SameSpell
  QuerySpell <- FullSpell
  QueryFrom <- V4
  MaxRules = 3
  QLen = 1
  DoEmit = TRUE
INVARIANTS TypeOK AdmissibleSound AdmissibleIffReachable AdmissibleAccepted Emit
CHECK_DEADLOCK FALSE
