------------------------------- MODULE ConvRef -------------------------------
(***************************************************************************)
(* C15, reference notions shared by ConvSearch (case generation) and        *)
(* ConvSearchTrace (evaluation of answers given by the real code).          *)
(*                                                                         *)
(* A *version* is an abstract identity (a natural number).  How it is       *)
(* written - "v1" or "stable.example.com/v1" - is surface syntax that the   *)
(* property statement declares irrelevant ("a version written with or       *)
(* without its group counting as the same version"), so the notions below   *)
(* only speak about identities.  A *rule* is a record with fields f and t   *)
(* (plus spelling fields that are ignored here).                            *)
(***************************************************************************)
EXTENDS Integers, Sequences, FiniteSets

(* Versions reachable from the set S by one or more declared rules of R. *)
RECURSIVE Closure(_, _)
Closure(R, S) ==
  LET N == S \cup {r.t : r \in {x \in R : x.f \in S}}
  IN  IF N = S THEN S ELSE Closure(R, N)

(* Specification-level reachability: some non-empty sequence of declared rules leads from a to b. *)
Reachable(R, a, b) == b \in Closure(R, {r.t : r \in {x \in R : x.f = a}})

(* A sequence of rules c serves the request a -> b over the declared rules R. *)
StartsAt(c, a)   == c[1].f = a
EndsAt(c, b)     == c[Len(c)].t = b
Connected(c)     == \A i \in 1..(Len(c) - 1) : c[i].t = c[i + 1].f
AllDeclared(R,c) == \A i \in 1..Len(c) : \E r \in R : r.f = c[i].f /\ r.t = c[i].t
IsChain(R, c, a, b) ==
  /\ Len(c) >= 1
  /\ AllDeclared(R, c)
  /\ StartsAt(c, a)
  /\ EndsAt(c, b)
  /\ Connected(c)

(* The properties of an answer `ans` (a sequence of rules, <<>> = "no chain") to the request a -> b. *)
Sound(R, ans, a, b)    == ans # <<>> => IsChain(R, ans, a, b)
Complete(R, ans, a, b) == Reachable(R, a, b) => ans # <<>>
(* Cache independence is the shape of the acceptance criterion: it mentions the declared rules and the   *)
(* request only, never the requests served before.                                                        *)
Accept(R, ans, a, b)   == Sound(R, ans, a, b) /\ Complete(R, ans, a, b)

(* Which clause of IsChain fails first (used to label failing answers of the real code). *)
Clause(R, c, a, b) ==
  IF Len(c) = 0 THEN (IF Reachable(R, a, b) THEN "not-found" ELSE "ok")
  ELSE IF ~AllDeclared(R, c) THEN "undeclared-step"
  ELSE IF ~StartsAt(c, a) THEN "wrong-start"
  ELSE IF ~Connected(c) THEN "gap"
  ELSE IF ~EndsAt(c, b) THEN "wrong-end"
  ELSE "ok"

(* All loop-free chains from a to b: the answers a path search is expected to give.  Chains that visit a  *)
(* version twice are sound too; they are judged by ConvSearchTrace when the code returns one.             *)
RECURSIVE SimplePaths(_, _, _, _)
SimplePaths(R, cur, b, seen) ==
  IF cur = b THEN {<<>>}
  ELSE UNION { { <<r>> \o p : p \in SimplePaths(R, r.t, b, seen \cup {r.t}) }
               : r \in {x \in R : x.f = cur /\ x.t \notin seen} }
Admissible(R, a, b) == SimplePaths(R, a, b, {a})
=============================================================================
