------------------------------- MODULE ConvAlgo -------------------------------
(***************************************************************************)
(* C15 part 1, the search as an algorithm: FindConversionChain of           *)
(* pkg/webhook/conversion/chain.go transcribed step by step - PathsCache,   *)
(* BaseFromToIndex, the iterative extension loop, SearchPathForRule,        *)
(* RulesWithSimilarFromVersion, NextRules, the loop guards - with the cache *)
(* persisting over the requests and Go slices modelled as (backing array,   *)
(* length) with a capacity, so that append writes in place when there is    *)
(* spare capacity.  One action per loop body; the iteration order of Go     *)
(* maps is the interleaving of Expand steps.  SearchPathForRule's choice    *)
(* among several similar cached keys is over-approximated by "any".         *)
(*                                                                         *)
(* Properties: AnswerSound, AnswerComplete (at every return), CacheValid,   *)
(* Terminates.  FixSubstr / FixAlias / FixLoopGuard = FALSE give the code   *)
(* as it was (F14 / F15 / F24), see Algo_asis_*.cfg.                        *)
(***************************************************************************)
EXTENDS ConvRef, TLC, SequencesExt

CONSTANTS
  Grp, Name, CanShort, Edges, RuleSpell, QuerySpell, QueryFrom, MaxRules, QLen,
  NameIn,        \* <<i, j>>: the name of version i occurs in the written form of version j (substring)
  FixSubstr, FixAlias, FixLoopGuard

VARIABLES base,      \* declared rules (Chain.Put): keys of the paths cache with one-step paths
          last,      \* rules are declared in one fixed order (index into RU) - the order of Put calls is irrelevant
          asked,     \* requests served so far
          pc, query, result,
          cache,     \* PathsCache: key (a rule record) -> slice [a |-> backing array, n |-> length]
          arr, cap,  \* backing arrays (sequence of sequences of rules) and their capacities
          pend,      \* pairs <<ruleToCheck, nextRule>> of the current iteration not yet processed
          newPaths   \* the temporary map of the current iteration
vars == <<base, last, asked, pc, query, result, cache, arr, cap, pend, newPaths>>

V == 1..Len(Name)
SpellOk(i, c) == c = "f" \/ CanShort[i]
W(i, c) == [v |-> i, c |-> c]                      \* a written version
Universe == { [f |-> W(e[1], s[1]), t |-> W(e[2], s[2])] : e \in Edges, s \in RuleSpell }
RuleUniverse == { r \in Universe : SpellOk(r.f.v, r.f.c) /\ SpellOk(r.t.v, r.t.c) }
RU == SetToSeq(RuleUniverse)
Queries == { q \in { [f |-> W(a, s[1]), t |-> W(b, s[2])] : a \in QueryFrom, b \in V, s \in QuerySpell }
               : q.f.v # q.t.v /\ SpellOk(q.f.v, q.f.c) /\ SpellOk(q.t.v, q.t.c) }

(* VersionsMatched on written versions: equal strings, or one of them written short and the names equal.
   A name that exists in two groups is never written short (CanShort), hence: *)
VM(a, b) == a.v = b.v
(* strings.Index(k, TrimGroup(fromVer)) >= 0, or k == fromVer *)
SubstrMatch(k, fromVer) == k = fromVer \/ <<fromVer.v, k.v>> \in NameIn
NextMatch(k, fromVer) == IF FixSubstr THEN VM(k, fromVer) ELSE SubstrMatch(k, fromVer)
(* the loop guards compare ShortToVersion() with ShortFromVersion() *)
IsLoop(to, from) == IF FixLoopGuard THEN VM(to, from) ELSE Name[to.v] = Name[from.v]

Contents(p) == SubSeq(arr[p.a], 1, p.n)
Grow(n) == IF n <= 1 THEN 1 ELSE IF n <= 2 THEN 2 ELSE IF n <= 4 THEN 4 ELSE 8
(* Go append(p, x) *)
App(p, x) ==
  IF ~FixAlias /\ p.n < cap[p.a]
    THEN [ arr |-> [arr EXCEPT ![p.a] = SubSeq(@, 1, p.n) \o <<x>> \o SubSeq(@, p.n + 2, Len(@))],
           cap |-> cap, p |-> [a |-> p.a, n |-> p.n + 1] ]
    ELSE [ arr |-> Append(arr, Contents(p) \o <<x>>),
           cap |-> Append(cap, IF FixAlias THEN p.n + 1 ELSE Grow(p.n + 1)),
           p   |-> [a |-> Len(arr) + 1, n |-> p.n + 1] ]

Similar(k, r) == VM(k.f, r.f) /\ VM(k.t, r.t)
SimilarKeys(r) == { k \in DOMAIN cache : Similar(k, r) }
HasTarget(t)   == \E r \in base : VM(t, r.t)

Init ==
  /\ base = {} /\ last = 0 /\ asked = 0 /\ pc = "declare" /\ query = <<>> /\ result = <<>>
  /\ cache = <<>> /\ arr = <<>> /\ cap = <<>> /\ pend = {} /\ newPaths = <<>>

(* Chain.Put *)
Declare(j) ==
  /\ pc = "declare" /\ Cardinality(base) < MaxRules /\ j > last
  /\ last' = j
  /\ LET r == RU[j] IN
       /\ base' = base \cup {r}
       /\ arr' = Append(arr, <<r>>) /\ cap' = Append(cap, 1)
       /\ cache' = (r :> [a |-> Len(arr) + 1, n |-> 1]) @@ cache
  /\ UNCHANGED <<asked, pc, query, result, pend, newPaths>>

StartServing ==
  /\ pc = "declare" /\ base # {}
  /\ pc' = "idle"
  /\ UNCHANGED <<base, last, asked, query, result, cache, arr, cap, pend, newPaths>>

(* FindConversionChain entry: HasTargetVersion *)
Ask(q) ==
  /\ pc = "idle" /\ asked < QLen
  /\ query' = q /\ asked' = asked + 1
  /\ IF HasTarget(q.t) THEN pc' = "search" /\ result' = <<>>
                       ELSE pc' = "done" /\ result' = <<>>
  /\ UNCHANGED <<base, last, cache, arr, cap, pend, newPaths>>

(* top of the loop: SearchPathForRule(rule); otherwise collect the work of this iteration *)
Search ==
  /\ pc = "search"
  /\ IF SimilarKeys(query) # {}
       THEN /\ \E k \in SimilarKeys(query) : result' = Contents(cache[k])
            /\ pc' = "done"
            /\ UNCHANGED <<pend, newPaths>>
       ELSE /\ pend' = { <<rc, nr>> \in (DOMAIN cache) \X base :
                           /\ VM(rc.f, query.f)                  \* RulesWithSimilarFromVersion
                           /\ ~IsLoop(rc.t, query.f)             \* first loop guard
                           /\ NextMatch(nr.f, rc.t) }            \* NextRules(ruleToCheck.ToVersion)
            /\ newPaths' = <<>>
            /\ pc' = "expand"
            /\ UNCHANGED result
  /\ UNCHANGED <<base, last, asked, query, cache, arr, cap>>

(* one body of the inner loop *)
Expand(pair) ==
  /\ pc = "expand" /\ pair \in pend
  /\ pend' = pend \ {pair}
  /\ LET rc == pair[1]
         nr == pair[2]
         newRule == [f |-> query.f, t |-> nr.t]
     IN IF IsLoop(newRule.t, query.f)
          THEN UNCHANGED <<arr, cap, newPaths>>
          ELSE LET ap == App(cache[rc], nr) IN     \* the append happens before the "already discovered" test
               /\ arr' = ap.arr /\ cap' = ap.cap
               /\ IF SimilarKeys(newRule) # {}
                    THEN UNCHANGED newPaths
                    ELSE newPaths' = (newRule :> ap.p) @@ [k \in (DOMAIN newPaths) \ {newRule} |-> newPaths[k]]
  /\ UNCHANGED <<base, last, asked, pc, query, result, cache>>

(* end of the iteration: nothing new -> nil, else put the new paths into the cache and search again *)
Commit ==
  /\ pc = "expand" /\ pend = {}
  /\ IF DOMAIN newPaths = {}
       THEN pc' = "done" /\ result' = <<>> /\ UNCHANGED cache
       ELSE pc' = "search" /\ cache' = newPaths @@ cache /\ UNCHANGED result
  /\ newPaths' = <<>>
  /\ UNCHANGED <<base, last, asked, query, arr, cap, pend>>

Return ==
  /\ pc = "done" /\ pc' = "idle"
  /\ UNCHANGED <<base, last, asked, query, result, cache, arr, cap, pend, newPaths>>

Next ==
  \/ \E j \in 1..Len(RU) : Declare(j)
  \/ StartServing
  \/ \E q \in Queries : Ask(q)
  \/ Search
  \/ \E pair \in pend : Expand(pair)
  \/ Commit
  \/ Return
Spec == Init /\ [][Next]_vars /\ WF_vars(Search \/ Commit \/ Return \/ \E pair \in pend : Expand(pair))

(* ---- properties, in terms of version identities ---- *)
Abs(r)     == [f |-> r.f.v, t |-> r.t.v]
AbsBase    == { Abs(r) : r \in base }
AbsPath(p) == [i \in 1..Len(p) |-> Abs(p[i])]

AnswerSound    == pc = "done" => Sound(AbsBase, AbsPath(result), query.f.v, query.t.v)
AnswerComplete == pc = "done" => Complete(AbsBase, AbsPath(result), query.f.v, query.t.v)
(* every cached path is a chain for its key, whenever the cache can be read *)
CacheValid == pc \in {"idle", "search", "done"} =>
                \A k \in DOMAIN cache : IsChain(AbsBase, AbsPath(Contents(cache[k])), k.f.v, k.t.v)
(* every request returns *)
Terminates == [](pc \in {"search", "expand"} => <>(pc = "done"))
=============================================================================
