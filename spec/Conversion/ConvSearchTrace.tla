--------------------------- MODULE ConvSearchTrace ---------------------------
(***************************************************************************)
(* C15 part 1, implementation -> specification: answers that the real       *)
(* FindConversionChain gave and that are not among the loop-free chains     *)
(* listed by ConvSearch are judged here.  Every line of TraceFile is        *)
(*   {"id": k, "ar": [[f,t],...], "f": a, "t": b, "ans": [i1, i2, ...]}     *)
(* ar = the declared rules as pairs of version identities, ans = the        *)
(* returned chain as indices into ar (0 = a rule that was never declared).  *)
(* TLC evaluates Sound / Complete of ConvRef on each and prints the verdict *)
(* with the first clause of IsChain that fails.                             *)
(***************************************************************************)
EXTENDS ConvRef, TLC, Json

CONSTANT TraceFile
Trace == ndJsonDeserialize(TraceFile)

VARIABLE l
Init == l = 1
Next == l < Len(Trace) /\ l' = l + 1
Spec == Init /\ [][Next]_l

Rules(rec) == { [f |-> rec.ar[i][1], t |-> rec.ar[i][2]] : i \in 1..Len(rec.ar) }
Ans(rec)   == [ k \in 1..Len(rec.ans) |->
                  IF rec.ans[k] \in 1..Len(rec.ar)
                    THEN [f |-> rec.ar[rec.ans[k]][1], t |-> rec.ar[rec.ans[k]][2]]
                    ELSE [f |-> 0, t |-> 0] ]

Verdict(rec) ==
  [ id       |-> rec.id,
    sound    |-> Sound(Rules(rec), Ans(rec), rec.f, rec.t),
    complete |-> Complete(Rules(rec), Ans(rec), rec.f, rec.t),
    clause   |-> Clause(Rules(rec), Ans(rec), rec.f, rec.t) ]

Judge == (Len(Trace) >= l) => PrintT("@@" \o ToJson(Verdict(Trace[l])))
=============================================================================
