------------------------------ MODULE ConvSearch ------------------------------
(***************************************************************************)
(* C15 part 1: which chain of declared conversion rules serves a request.   *)
(*                                                                         *)
(* TLC enumerates rule graphs (all subsets of at most MaxRules rules of a   *)
(* candidate universe: Edges x allowed spellings), then sequences of QLen   *)
(* requests, and prints one case per complete state with, for every         *)
(* request, whether the target is Reachable and the set of Admissible       *)
(* (loop-free) chains.  The harness replays the case on the real            *)
(* conversion.ChainStorage (one storage per case, so the paths cache        *)
(* persists over the requests of the case).                                 *)
(*                                                                         *)
(* Version i is written Name[i] or Grp[i]/Name[i]; a version may only be    *)
(* written without its group when CanShort[i] (the name is unambiguous).    *)
(***************************************************************************)
EXTENDS ConvRef, TLC, Json, SequencesExt

CONSTANTS
  Grp, Name, CanShort,   \* sequences of equal length: API group, version name, may be written short
  Edges,                 \* candidate conversions, pairs <<i, j>> with i # j
  RuleSpell,             \* allowed spellings of a declared rule: subset of {"f","s"} \X {"f","s"}
  QuerySpell,            \* allowed spellings of a request (the API server always sends <<"f","f">>)
  QueryFrom,             \* versions requests start from
  MaxRules, QLen,
  DoEmit                 \* print the cases

VARIABLES rules, qs
vars == <<rules, qs>>

V == 1..Len(Name)
SpellOk(i, c) == c = "f" \/ CanShort[i]
Str(i, c) == IF c = "f" THEN Grp[i] \o "/" \o Name[i] ELSE Name[i]

Universe == { [f |-> e[1], t |-> e[2], sf |-> s[1], st |-> s[2]] : e \in Edges, s \in RuleSpell }
RuleUniverse == { r \in Universe : SpellOk(r.f, r.sf) /\ SpellOk(r.t, r.st) }
Queries == { q \in { [f |-> a, t |-> b, sf |-> s[1], st |-> s[2]] : a \in QueryFrom, b \in V, s \in QuerySpell }
               : q.f # q.t /\ SpellOk(q.f, q.sf) /\ SpellOk(q.t, q.st) }

Init == rules = {} /\ qs = <<>>

AddRule(r) ==
  /\ qs = <<>>
  /\ Cardinality(rules) < MaxRules
  /\ r \notin rules
  /\ rules' = rules \cup {r}
  /\ UNCHANGED qs

AddQuery(q) ==
  /\ rules # {}
  /\ Len(qs) < QLen
  /\ qs' = Append(qs, q)
  /\ UNCHANGED rules

Next == (\E r \in RuleUniverse : AddRule(r)) \/ (\E q \in Queries : AddQuery(q))
Spec == Init /\ [][Next]_vars

TypeOK == rules \subseteq RuleUniverse /\ qs \in Seq(Queries)

(* ---- what TLC checks on the reference notions, for every enumerated graph and request ---- *)
(* every Admissible chain is a chain in the sense of the statement *)
AdmissibleSound ==
  \A k \in 1..Len(qs) : \A c \in Admissible(rules, qs[k].f, qs[k].t) : IsChain(rules, c, qs[k].f, qs[k].t)
(* a loop-free chain exists exactly when the target is reachable: accepting "some Admissible chain, or nothing
   when there is none" is the same as Sound and Complete *)
AdmissibleIffReachable ==
  \A k \in 1..Len(qs) : (Admissible(rules, qs[k].f, qs[k].t) # {}) <=> Reachable(rules, qs[k].f, qs[k].t)
AdmissibleAccepted ==
  \A k \in 1..Len(qs) : \A c \in Admissible(rules, qs[k].f, qs[k].t) : Accept(rules, c, qs[k].f, qs[k].t)

(* ---- case export ---- *)
Case ==
  LET RS == SetToSeq(rules)
      Pos(r) == CHOOSE i \in 1..Len(RS) : RS[i] = r
      Q(k) == LET q == qs[k] IN
              [ from  |-> Str(q.f, q.sf), to |-> Str(q.t, q.st), f |-> q.f, t |-> q.t,
                reach |-> Reachable(rules, q.f, q.t),
                adm   |-> { [i \in 1..Len(c) |-> Pos(c[i])] : c \in Admissible(rules, q.f, q.t) } ]
      Used == {r.f : r \in rules} \cup {r.t : r \in rules} \cup {qs[k].f : k \in 1..Len(qs)} \cup {qs[k].t : k \in 1..Len(qs)}
  IN [ dupname |-> \E a, b \in Used : a # b /\ Name[a] = Name[b],   \* the case involves one version name in two API groups
       rules  |-> [i \in 1..Len(RS) |-> <<Str(RS[i].f, RS[i].sf), Str(RS[i].t, RS[i].st)>>],
       arules |-> [i \in 1..Len(RS) |-> <<RS[i].f, RS[i].t>>],
       qs     |-> [k \in 1..Len(qs) |-> Q(k)] ]

Emit == (DoEmit /\ Len(qs) = QLen) => PrintT("@@" \o ToJson(Case))
=============================================================================
