\* algorithm model, code after the fixes: 3 versions, 6 conversions x 4 spellings, <= 3 declared rules, 1 request
SPECIFICATION Spec
CONSTANTS
  Grp <- G3
  Name <- N3
  CanShort <- S3
  Edges <- AllEdges3
  RuleSpell <- AllSpell
  QuerySpell <- FullSpell
  QueryFrom <- V3
  NameIn <- In3
  MaxRules = 3
  QLen = 1
  FixSubstr = TRUE
  FixAlias = TRUE
  FixLoopGuard = TRUE
INVARIANTS AnswerSound AnswerComplete CacheValid
PROPERTIES Terminates
CHECK_DEADLOCK FALSE
