\* the event handler as it was (F16): a step answering failedMessage does not stop the chain; TLC must report StopsAtFirstFailure
SPECIFICATION Spec
CONSTANTS
  MaxLen = 2
  Counts = {1, 2}
  Kinds = {"exit1", "empty", "malformed", "failmsg", "failobj", "ok", "drop", "extra"}
  Variants = {"ff"}
  Layouts = {"perhook"}
  Reach = {TRUE, FALSE}
  FixFailMsg = FALSE
  FixCount = TRUE
  DoEmit = FALSE
INVARIANTS TypeOK InChainOrder StopsAtFirstFailure FailedCarriesHookMessage SuccessOnlyIfAllOkAndCountMatches ServedWhenAllOk FailsWithoutChain
CHECK_DEADLOCK FALSE
