\* exhaustive: chains of 1..3 steps, 1..2 requested objects, 8 hook outcomes per step (<= 1 count-changing step), 2 rule-declaration variants, 2 hook layouts: 8376 states, 3540 cases
SPECIFICATION Spec
CONSTANTS
  MaxLen = 3
  Counts = {1, 2}
  Kinds = {"exit1", "empty", "malformed", "failmsg", "failobj", "ok", "drop", "extra"}
  Variants = {"ff", "mixed+d"}
  Layouts = {"perhook", "split"}
  Reach = {TRUE, FALSE}
  FixFailMsg = TRUE
  FixCount = TRUE
  DoEmit = TRUE
INVARIANTS TypeOK InChainOrder StopsAtFirstFailure FailedCarriesHookMessage SuccessOnlyIfAllOkAndCountMatches ServedWhenAllOk FailsWithoutChain Emit
CHECK_DEADLOCK FALSE
