\* exhaustive: 3 versions of one group, all 6 conversions x 4 spellings (24 candidate rules), <= 3 declared rules (2325 graphs), all 6 full-spelled requests, sequences of 2 requests: ~100 k states
SPECIFICATION Spec
CONSTANTS
  Grp <- G3
  Name <- N3
  CanShort <- S3
  Edges <- E3
  RuleSpell <- AllSpell
  QuerySpell <- FullSpell
  QueryFrom <- V3
  MaxRules = 3
  QLen = 2
  DoEmit = TRUE
INVARIANTS TypeOK AdmissibleSound AdmissibleIffReachable AdmissibleAccepted Emit
CHECK_DEADLOCK FALSE
