------------------------------ MODULE ConvApply ------------------------------
(***************************************************************************)
(* C15 part 2: applying a chain of conversion rules to a ConversionReview.  *)
(*                                                                         *)
(* The chain has len steps (step k converts version k to version k+1, the   *)
(* request asks for version len+1 and carries n objects of version 1).      *)
(* Every step runs one hook whose outcome is fixed by outc[k]:              *)
(*   "exit1"     the hook process exits with a non-zero code                *)
(*   "empty"     exit 0, nothing written to $CONVERSION_RESPONSE_PATH       *)
(*   "malformed" exit 0, the response file is not JSON                      *)
(*   "failmsg"   exit 0, {"failedMessage": m}                               *)
(*   "failobj"   exit 0, {"failedMessage": m, "convertedObjects": [...]}:   *)
(*               the hook reports a failure AND writes every received       *)
(*               object converted to the promised version. The step failed  *)
(*               (the property: Failed, with the failing hook's own         *)
(*               message, whenever a step failed): exactly like "failmsg",  *)
(*               the objects are not used.                                  *)
(*   "ok"        exit 0, every received object converted                    *)
(*   "drop"      exit 0, converted objects returned but one is missing      *)
(*   "extra"     exit 0, converted objects returned plus a duplicate        *)
(* variant names how the harness declares the rules: "ff" both versions of  *)
(* every rule with the group, "ss" both without, "mixed" alternating; "+d"  *)
(* adds rules that are not on the chain (a back edge, a dead end, an        *)
(* unrelated pair) served by a third hook that must never run.              *)
(* layout names how the chain's rules are spread over hooks and bindings:   *)
(* "perhook" odd steps in hook-a, even steps in hook-b, one conversion      *)
(* binding each; "split" ONE hook with TWO conversion bindings for the same *)
(* crdName (the documented up/down layout), odd steps in the first binding, *)
(* even steps in the second (a chain of one step: the rule in the first     *)
(* binding, an unrelated rule in the second), so that a rule of the         *)
(* non-last binding is always needed. The expected run does not depend on   *)
(* variant or layout.                                                       *)
(* One action per step the code takes (conversionEventHandler loop body),   *)
(* Finish is the end of the loop plus handleReviewRequest's mapping.        *)
(* FixFailMsg / FixCount = FALSE give the code as it was (F16 / F17); as it  *)
(* was, the objects of a "failobj" step became the next input (Success      *)
(* when nothing else went wrong).                                           *)
(***************************************************************************)
EXTENDS Integers, Sequences, FiniteSets, TLC, Json

CONSTANTS MaxLen, Counts, Kinds, Variants, Layouts, Reach, FixFailMsg, FixCount, DoEmit

VARIABLES len, n, outc, variant, layout, reach,    \* the case (chosen in Init)
          i, cnt, invoked, status, msg       \* the run

vars == <<len, n, outc, variant, layout, reach, i, cnt, invoked, status, msg>>

OkKinds    == {"ok", "drop", "extra"}        \* the hook answered with converted objects
CountKinds == {"drop", "extra"}
MsgKinds   == {"failmsg", "failobj"}         \* the hook failed and said why
FailKinds  == {"exit1", "empty", "malformed"} \cup MsgKinds

NoMsg == [kind |-> "none", step |-> 0]

(* the statement is silent about hooks that lose and invent objects in one request, and about a hook
   that is handed nothing: at most one step changes the number of objects, and "drop" needs two objects *)
LegalCase(l, m, o) ==
  /\ Cardinality({k \in 1..l : o[k] \in CountKinds}) <= 1
  /\ (\E k \in 1..l : o[k] = "drop") => m >= 2

(* reach = FALSE: the request asks for a version that no chain of the declared rules leads to (the harness asks
   for version len+2); the hook outcomes are irrelevant then, one representative is kept *)
LegalReach(l, o, r) == ~r => \A k \in 1..l : o[k] = "ok"

Init ==
  /\ len \in 1..MaxLen
  /\ n \in Counts
  /\ outc \in [1..len -> Kinds]
  /\ LegalCase(len, n, outc)
  /\ variant \in Variants
  /\ layout \in Layouts
  /\ reach \in Reach
  /\ LegalReach(len, outc, reach)
  /\ i = 1 /\ cnt = n /\ invoked = <<>> /\ status = "run" /\ msg = NoMsg

(* the number of converted objects the hook of step k writes when it is handed c objects *)
Produced(k, c) == CASE outc[k] \in {"ok", "failobj"} -> c [] outc[k] = "drop" -> c - 1 [] outc[k] = "extra" -> c + 1 [] OTHER -> 0

(* run the hook of step i on the current objects *)
(* no chain of declared rules serves the request: it fails, no hook is run *)
NoChain ==
  /\ status = "run" /\ ~reach
  /\ status' = "Failed" /\ msg' = [kind |-> "other", step |-> 0]
  /\ UNCHANGED <<len, n, outc, variant, layout, reach, i, cnt, invoked>>

Step ==
  /\ status = "run" /\ i <= len /\ reach
  /\ invoked' = Append(invoked, [step |-> i, recv |-> cnt, prod |-> Produced(i, cnt)])
  /\ IF outc[i] \in OkKinds
       THEN /\ cnt' = Produced(i, cnt) /\ i' = i + 1
            /\ UNCHANGED <<status, msg>>
     ELSE IF outc[i] \in MsgKinds /\ ~FixFailMsg
       THEN (* as it was: the message is not looked at, the converted objects (none for "failmsg") become the next input *)
            /\ cnt' = Produced(i, cnt) /\ i' = i + 1
            /\ UNCHANGED <<status, msg>>
     ELSE /\ status' = "Failed"
          /\ msg' = IF outc[i] \in MsgKinds THEN [kind |-> "hook", step |-> i] ELSE [kind |-> "other", step |-> i]
          /\ UNCHANGED <<cnt, i>>
  /\ UNCHANGED <<len, n, outc, variant, layout, reach>>

(* all steps done: Success iff as many objects as requested *)
Finish ==
  /\ status = "run" /\ i > len /\ reach
  /\ IF (IF FixCount THEN cnt = n ELSE cnt >= 1)
       THEN status' = "Success" /\ msg' = NoMsg
       ELSE status' = "Failed" /\ msg' = [kind |-> "other", step |-> 0]
  /\ UNCHANGED <<len, n, outc, variant, layout, reach, i, cnt, invoked>>

Next == NoChain \/ Step \/ Finish
Spec == Init /\ [][Next]_vars

TypeOK ==
  /\ len \in 1..MaxLen /\ n \in Counts /\ i \in 1..(len + 1) /\ cnt \in 0..(n + 1)
  /\ status \in {"run", "Success", "Failed"}
  /\ Len(invoked) <= len

Done == status # "run"
FirstFail == IF \E k \in 1..len : outc[k] \in FailKinds
               THEN CHOOSE k \in 1..len : outc[k] \in FailKinds /\ \A j \in 1..(k - 1) : outc[j] \notin FailKinds
               ELSE 0

(* hooks run in chain order, each on what the previous one produced *)
InChainOrder ==
  \A k \in 1..Len(invoked) :
    /\ invoked[k].step = k
    /\ invoked[k].recv = IF k = 1 THEN n ELSE invoked[k - 1].prod

(* no step is run after a step that did not succeed *)
StopsAtFirstFailure ==
  /\ \A k \in 1..(Len(invoked) - 1) : outc[invoked[k].step] \in OkKinds
  /\ (Done /\ FirstFail # 0) => (status = "Failed" /\ Len(invoked) = FirstFail)

(* Failed carries the failing hook's own message when it gave one (whether or not it also wrote objects) *)
FailedCarriesHookMessage ==
  (Done /\ FirstFail # 0 /\ outc[FirstFail] \in MsgKinds) => (status = "Failed" /\ msg = [kind |-> "hook", step |-> FirstFail])

(* Success only if every step succeeded and as many objects as requested come back *)
SuccessOnlyIfAllOkAndCountMatches ==
  status = "Success" => /\ reach
                        /\ \A k \in 1..len : outc[k] \in OkKinds
                        /\ Len(invoked) = len
                        /\ cnt = n

(* the request is served when a chain exists and every step succeeds, and fails when there is no chain *)
ServedWhenAllOk ==
  (Done /\ reach /\ \A k \in 1..len : outc[k] = "ok") => status = "Success"
FailsWithoutChain ==
  (Done /\ ~reach) => (status = "Failed" /\ invoked = <<>>)

Case == [ len |-> len, n |-> n, outc |-> outc, variant |-> variant, layout |-> layout, reach |-> reach,
          invoked |-> invoked, status |-> status, msg |-> msg, cnt |-> cnt ]
Emit == (DoEmit /\ Done) => PrintT("@@" \o ToJson(Case))
=============================================================================
