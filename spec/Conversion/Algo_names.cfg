\* algorithm model, code after the fixes: names v1alpha1/v1/v1beta1/v2, 12 conversions x 2 spellings, <= 3 declared rules, 1 request, every map iteration order: ~530 k states
SPECIFICATION Spec
CONSTANTS
  Grp <- G4
  Name <- N4k
  CanShort <- S4
  Edges <- AllEdges4
  RuleSpell <- SameSpell
  QuerySpell <- FullSpell
  QueryFrom <- V4
  NameIn <- In4k
  MaxRules = 3
  QLen = 1
  FixSubstr = TRUE
  FixAlias = TRUE
  FixLoopGuard = TRUE
INVARIANTS AnswerSound AnswerComplete CacheValid
PROPERTIES Terminates
CHECK_DEADLOCK FALSE
