\* exhaustive: as MC_groups (one version name in two API groups) with <= 4 declared rules
SPECIFICATION Spec
CONSTANTS
  Grp <- G4g
  Name <- N4g
  CanShort <- S4g
  Edges <- E4
  RuleSpell <- SameSpell
  QuerySpell <- FullSpell
  QueryFrom <- V4
  MaxRules = 4
  QLen = 1
  DoEmit = TRUE
INVARIANTS TypeOK AdmissibleSound AdmissibleIffReachable AdmissibleAccepted Emit
CHECK_DEADLOCK FALSE
