\* the search as it was (F24): the loop guard compares version names without their group; TLC must report AnswerComplete
SPECIFICATION Spec
CONSTANTS
  Grp <- G4g
  Name <- N4g
  CanShort <- S4g
  Edges <- AllEdges4
  RuleSpell <- FullSpell
  QuerySpell <- FullSpell
  QueryFrom <- V4
  NameIn <- In4g
  MaxRules = 2
  QLen = 1
  FixSubstr = TRUE
  FixAlias = TRUE
  FixLoopGuard = FALSE
INVARIANTS AnswerComplete
PROPERTIES Terminates
CHECK_DEADLOCK FALSE
