\* the handler as it was (F17): the count check compares the answer with the overwritten request; TLC must report SuccessOnlyIfAllOkAndCountMatches
SPECIFICATION Spec
CONSTANTS
  MaxLen = 2
  Counts = {1, 2}
  Kinds = {"exit1", "empty", "malformed", "failmsg", "failobj", "ok", "drop", "extra"}
  Variants = {"ff"}
  Layouts = {"perhook"}
  Reach = {TRUE, FALSE}
  FixFailMsg = TRUE
  FixCount = FALSE
  DoEmit = FALSE
INVARIANTS TypeOK InChainOrder StopsAtFirstFailure FailedCarriesHookMessage SuccessOnlyIfAllOkAndCountMatches ServedWhenAllOk FailsWithoutChain
CHECK_DEADLOCK FALSE
