\* exhaustive: as MC_deep_quick (8 candidate conversions, 256 graphs) with sequences of 3 requests from version 1 (216 per graph)
SPECIFICATION Spec
CONSTANTS
  Grp <- G7
  Name <- N7
  CanShort <- S7
  Edges <- E7q
  RuleSpell <- FullSpell
  QuerySpell <- FullSpell
  QueryFrom <- F7
  MaxRules = 8
  QLen = 3
  DoEmit = TRUE
INVARIANTS TypeOK AdmissibleSound AdmissibleIffReachable AdmissibleAccepted Emit
CHECK_DEADLOCK FALSE
