\* exhaustive: 7 versions, every subset of 8 candidate conversions (chain 1-2-3-4, fork 4-5/4-6, diamond 5-7/6-7, cycle 3-1), full spelling, sequences of 2 requests from version 1: 256 graphs x 36
SPECIFICATION Spec
CONSTANTS
  Grp <- G7
  Name <- N7
  CanShort <- S7
  Edges <- E7q
  RuleSpell <- FullSpell
  QuerySpell <- FullSpell
  QueryFrom <- F7
  MaxRules = 8
  QLen = 2
  DoEmit = TRUE
INVARIANTS TypeOK AdmissibleSound AdmissibleIffReachable AdmissibleAccepted Emit
CHECK_DEADLOCK FALSE
