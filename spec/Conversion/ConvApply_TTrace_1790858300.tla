---- MODULE ConvApply_TTrace_1790858300 ----
EXTENDS Sequences, TLCExt, Toolbox, ConvApply, Naturals, TLC

_expression ==
    LET ConvApply_TEExpression == INSTANCE ConvApply_TEExpression
    IN ConvApply_TEExpression!expression
----

_trace ==
    LET ConvApply_TETrace == INSTANCE ConvApply_TETrace
    IN ConvApply_TETrace!trace
----

_inv ==
    ~(
        TLCGet("level") = Len(_TETrace)
        /\
        msg = ([kind |-> "other", step |-> 0])
        /\
        layout = ("perhook")
        /\
        outc = (<<"failmsg">>)
        /\
        len = (1)
        /\
        reach = (TRUE)
        /\
        cnt = (0)
        /\
        variant = ("ff")
        /\
        i = (2)
        /\
        invoked = (<<[step |-> 1, recv |-> 1, prod |-> 0]>>)
        /\
        n = (1)
        /\
        status = ("Failed")
    )
----

_init ==
    /\ msg = _TETrace[1].msg
    /\ invoked = _TETrace[1].invoked
    /\ outc = _TETrace[1].outc
    /\ i = _TETrace[1].i
    /\ n = _TETrace[1].n
    /\ len = _TETrace[1].len
    /\ layout = _TETrace[1].layout
    /\ cnt = _TETrace[1].cnt
    /\ variant = _TETrace[1].variant
    /\ status = _TETrace[1].status
    /\ reach = _TETrace[1].reach
----

_next ==
    /\ \E i,j \in DOMAIN _TETrace:
        /\ \/ /\ j = i + 1
              /\ i = TLCGet("level")
        /\ msg  = _TETrace[i].msg
        /\ msg' = _TETrace[j].msg
        /\ invoked  = _TETrace[i].invoked
        /\ invoked' = _TETrace[j].invoked
        /\ outc  = _TETrace[i].outc
        /\ outc' = _TETrace[j].outc
        /\ i  = _TETrace[i].i
        /\ i' = _TETrace[j].i
        /\ n  = _TETrace[i].n
        /\ n' = _TETrace[j].n
        /\ len  = _TETrace[i].len
        /\ len' = _TETrace[j].len
        /\ layout  = _TETrace[i].layout
        /\ layout' = _TETrace[j].layout
        /\ cnt  = _TETrace[i].cnt
        /\ cnt' = _TETrace[j].cnt
        /\ variant  = _TETrace[i].variant
        /\ variant' = _TETrace[j].variant
        /\ status  = _TETrace[i].status
        /\ status' = _TETrace[j].status
        /\ reach  = _TETrace[i].reach
        /\ reach' = _TETrace[j].reach

\* Uncomment the ASSUME below to write the states of the error trace
\* to the given file in Json format. Note that you can pass any tuple
\* to `JsonSerialize`. For example, a sub-sequence of _TETrace.
    \* ASSUME
    \*     LET J == INSTANCE Json
    \*         IN J!JsonSerialize("ConvApply_TTrace_1790858300.json", _TETrace)

=============================================================================

 Note that you can extract this module `ConvApply_TEExpression`
  to a dedicated file to reuse `expression` (the module in the 
  dedicated `ConvApply_TEExpression.tla` file takes precedence 
  over the module `ConvApply_TEExpression` below).

---- MODULE ConvApply_TEExpression ----
EXTENDS Sequences, TLCExt, Toolbox, ConvApply, Naturals, TLC

expression == 
    [
        \* To hide variables of the `ConvApply` spec from the error trace,
        \* remove the variables below.  The trace will be written in the order
        \* of the fields of this record.
        msg |-> msg
        ,invoked |-> invoked
        ,outc |-> outc
        ,i |-> i
        ,n |-> n
        ,len |-> len
        ,layout |-> layout
        ,cnt |-> cnt
        ,variant |-> variant
        ,status |-> status
        ,reach |-> reach
        
        \* Put additional constant-, state-, and action-level expressions here:
        \* ,_stateNumber |-> _TEPosition
        \* ,_msgUnchanged |-> msg = msg'
        
        \* Format the `msg` variable as Json value.
        \* ,_msgJson |->
        \*     LET J == INSTANCE Json
        \*     IN J!ToJson(msg)
        
        \* Lastly, you may build expressions over arbitrary sets of states by
        \* leveraging the _TETrace operator.  For example, this is how to
        \* count the number of times a spec variable changed up to the current
        \* state in the trace.
        \* ,_msgModCount |->
        \*     LET F[s \in DOMAIN _TETrace] ==
        \*         IF s = 1 THEN 0
        \*         ELSE IF _TETrace[s].msg # _TETrace[s-1].msg
        \*             THEN 1 + F[s-1] ELSE F[s-1]
        \*     IN F[_TEPosition - 1]
    ]

=============================================================================



Parsing and semantic processing can take forever if the trace below is long.
 In this case, it is advised to uncomment the module below to deserialize the
 trace from a generated binary file.

\*
\*---- MODULE ConvApply_TETrace ----
\*EXTENDS IOUtils, ConvApply, TLC
\*
\*trace == IODeserialize("ConvApply_TTrace_1790858300.bin", TRUE)
\*
\*=============================================================================
\*

---- MODULE ConvApply_TETrace ----
EXTENDS ConvApply, TLC

trace == 
    <<
    ([msg |-> [kind |-> "none", step |-> 0],layout |-> "perhook",outc |-> <<"failmsg">>,len |-> 1,reach |-> TRUE,cnt |-> 1,variant |-> "ff",i |-> 1,invoked |-> <<>>,n |-> 1,status |-> "run"]),
    ([msg |-> [kind |-> "none", step |-> 0],layout |-> "perhook",outc |-> <<"failmsg">>,len |-> 1,reach |-> TRUE,cnt |-> 0,variant |-> "ff",i |-> 2,invoked |-> <<[step |-> 1, recv |-> 1, prod |-> 0]>>,n |-> 1,status |-> "run"]),
    ([msg |-> [kind |-> "other", step |-> 0],layout |-> "perhook",outc |-> <<"failmsg">>,len |-> 1,reach |-> TRUE,cnt |-> 0,variant |-> "ff",i |-> 2,invoked |-> <<[step |-> 1, recv |-> 1, prod |-> 0]>>,n |-> 1,status |-> "Failed"])
    >>
----


=============================================================================

---- CONFIG ConvApply_TTrace_1790858300 ----
CONSTANTS
    MaxLen = 2
    Counts = { 1 , 2 }
    Kinds = { "exit1" , "empty" , "malformed" , "failmsg" , "failobj" , "ok" , "drop" , "extra" }
    Variants = { "ff" }
    Layouts = { "perhook" }
    Reach = { TRUE , FALSE }
    FixFailMsg = FALSE
    FixCount = TRUE
    DoEmit = FALSE

INVARIANT
    _inv

CHECK_DEADLOCK
    \* CHECK_DEADLOCK off because of PROPERTY or INVARIANT above.
    FALSE

INIT
    _init

NEXT
    _next

CONSTANT
    _TETrace <- _trace

ALIAS
    _expression
=============================================================================
\* Generated on Thu Oct 01 12:38:21 UTC 2026