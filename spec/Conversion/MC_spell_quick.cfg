\* exhaustive: 3 versions of one group, all 6 conversions x 4 spellings (24 candidate rules), <= 2 declared rules (301 graphs), all 6 full-spelled requests, sequences of 2 requests: ~13 k states
SPECIFICATION Spec
CONSTANTS
  Grp <- G3
  Name <- N3
  CanShort <- S3
  Edges <- E3
  RuleSpell <- AllSpell
  QuerySpell <- FullSpell
  QueryFrom <- V3
  MaxRules = 2
  QLen = 2
  DoEmit = TRUE
INVARIANTS TypeOK AdmissibleSound AdmissibleIffReachable AdmissibleAccepted Emit
CHECK_DEADLOCK FALSE
