\* exhaustive: 4 versions of one group named v1alpha1, v1, v1beta1, v2 (one name is a prefix of others), all 12 conversions x 2 spellings (24 candidate rules), <= 3 declared rules (2325 graphs), all 12 full-spelled requests: ~30 k states
SPECIFICATION Spec
CONSTANTS
  Grp <- G4
  Name <- N4k
  CanShort <- S4
  Edges <- E4
  RuleSpell <- SameSpell
  QuerySpell <- FullSpell
  QueryFrom <- V4
  MaxRules = 3
  QLen = 1
  DoEmit = TRUE
INVARIANTS TypeOK AdmissibleSound AdmissibleIffReachable AdmissibleAccepted Emit
CHECK_DEADLOCK FALSE
