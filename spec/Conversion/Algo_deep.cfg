\* algorithm model, code after the fixes: chain 1-2-3-4, fork 4-5/4-6, cycle 3-1 (every subset), 2 requests from version 1
SPECIFICATION Spec
CONSTANTS
  Grp <- G6
  Name <- N6
  CanShort <- S6
  Edges <- E6
  RuleSpell <- FullSpell
  QuerySpell <- FullSpell
  QueryFrom <- F1
  NameIn <- In6
  MaxRules = 6
  QLen = 2
  FixSubstr = TRUE
  FixAlias = TRUE
  FixLoopGuard = TRUE
INVARIANTS AnswerSound AnswerComplete CacheValid
PROPERTIES Terminates
CHECK_DEADLOCK FALSE
