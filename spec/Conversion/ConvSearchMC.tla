----------------------------- MODULE ConvSearchMC -----------------------------
(* Constant definitions for the configurations of ConvSearch (cfg files cannot spell tuples). *)
EXTENDS ConvSearch

AllSpell  == {"f", "s"} \X {"f", "s"}
FullSpell == {<<"f", "f">>}
SameSpell == {<<"f", "f">>, <<"s", "s">>}
MixSpell  == {<<"f", "f">>, <<"s", "f">>, <<"f", "s">>}

AllEdges(n) == {e \in (1..n) \X (1..n) : e[1] # e[2]}

(* three versions of one group, every spelling of every rule *)
G3     == <<"stable.example.com", "stable.example.com", "stable.example.com">>
N3     == <<"v1", "v2", "v3">>
S3     == <<TRUE, TRUE, TRUE>>
E3     == AllEdges(3)
V3     == 1..3

(* four versions with the usual Kubernetes names: one name is a prefix of the others *)
G4     == <<"stable.example.com", "stable.example.com", "stable.example.com", "stable.example.com">>
N4k    == <<"v1alpha1", "v1", "v1beta1", "v2">>
S4     == <<TRUE, TRUE, TRUE, TRUE>>
E4     == AllEdges(4)
V4     == 1..4

(* the example of docs/src/BINDING_CONVERSION.md: the same version name in two API groups (these two can
   only be written with their group), later versions written short *)
G4g    == <<"unstable.crontab.io", "stable.example.com", "stable.example.com", "stable.example.com">>
N4g    == <<"v1beta1", "v1beta1", "v1beta2", "v1">>
S4g    == <<FALSE, FALSE, TRUE, TRUE>>

(* seven versions: a chain 1-2-3-4, a fork 4-5 / 4-6, a diamond 5-7 / 6-7, a cycle 3-1, a shortcut 1-3, a
   second cycle 7-4 *)
G7     == [i \in 1..7 |-> "stable.example.com"]
N7     == <<"v1", "v2", "v3", "v4", "v5", "v6", "v7">>
S7     == [i \in 1..7 |-> TRUE]
E7     == {<<1, 2>>, <<2, 3>>, <<3, 4>>, <<4, 5>>, <<4, 6>>, <<5, 7>>, <<6, 7>>, <<3, 1>>, <<1, 3>>, <<7, 4>>}
E7q    == {<<1, 2>>, <<2, 3>>, <<3, 4>>, <<4, 5>>, <<4, 6>>, <<5, 7>>, <<6, 7>>, <<3, 1>>}
E6f    == {<<1, 2>>, <<2, 3>>, <<3, 4>>, <<4, 5>>, <<4, 6>>}
F7     == {1}
F7b    == {1, 2}
=============================================================================
