\* algorithm model, code after the fixes: the docs example (v1beta1 in two API groups), <= 3 declared rules, 1 request
SPECIFICATION Spec
CONSTANTS
  Grp <- G4g
  Name <- N4g
  CanShort <- S4g
  Edges <- AllEdges4
  RuleSpell <- SameSpell
  QuerySpell <- FullSpell
  QueryFrom <- V4
  NameIn <- In4g
  MaxRules = 3
  QLen = 1
  FixSubstr = TRUE
  FixAlias = TRUE
  FixLoopGuard = TRUE
INVARIANTS AnswerSound AnswerComplete CacheValid
PROPERTIES Terminates
CHECK_DEADLOCK FALSE
