\* the search as it was (F14): NextRules matches by substring; TLC must report AnswerSound
SPECIFICATION Spec
CONSTANTS
  Grp <- G4
  Name <- N4k
  CanShort <- S4
  Edges <- AllEdges4
  RuleSpell <- FullSpell
  QuerySpell <- FullSpell
  QueryFrom <- V4
  NameIn <- In4k
  MaxRules = 2
  QLen = 1
  FixSubstr = FALSE
  FixAlias = TRUE
  FixLoopGuard = TRUE
INVARIANTS AnswerSound
PROPERTIES Terminates
CHECK_DEADLOCK FALSE
