---------------------------- MODULE MC_thorough ----------------------------
(* Thorough tier domain of spec/BindingContext: the quick slices widened to (nearly) full products. *)
EXTENDS BindingContext
CONSTANT Seed

D == DefaultSlice
(* one queued context of a kubernetes binding: every option of both kubernetes bindings, with and without a
   schedule binding in the same group *)
KubeSingles == [D EXCEPT !.minc = {"none", "self", "aux", "both"},
                         !.ajq = {"none", "any"}, !.akeep = {TRUE, FALSE}, !.agrp = {"", "g1", "g2"},
                         !.initsA = {{}, {"a1"}, {"a1", "a2"}}, !.initsB = {{}, {"b1"}},
                         !.syncsels = {{}, {"main"}, {"aux"}}, !.trigs = {"Sync", "Add", "Mod", "Del"}]
OtherSingles == [D EXCEPT !.mjq = {"none", "any"}, !.minc = {"none"}, !.mgrp = {"", "g1"},
                          !.ajq = {"none", "any"}, !.akeep = {TRUE, FALSE}, !.agrp = {"", "g1", "g2"},
                          !.okinds = {"schedule", "validating", "mutating", "conversion", "onStartup"},
                          !.onamed = {TRUE, FALSE}, !.ogrp = {"", "g1", "g2"}, !.oinc = {"none", "main", "aux", "both"},
                          !.initsA = {{}, {"a1", "a2"}}, !.initsB = {{"b1"}},
                          !.trigs = {"StartUp", "Tick", "Request", "BootTick", "BootRequest"}]
NoAuxSingles == [D EXCEPT !.auxon = {FALSE}, !.minc = {"none", "self"}, !.okinds = {"none", "schedule", "validating"},
                          !.ogrp = {"", "g1"}, !.oinc = {"none", "main"},
                          !.initsA = {{}, {"a1", "a2"}}, !.syncsels = {{}, {"main"}}]
Pairs == [D EXCEPT !.minc = {"none", "self", "aux"}, !.ajq = {"none", "any"}, !.akeep = {TRUE, FALSE}, !.agrp = {"", "g1"},
                   !.okinds = {"none", "schedule"}, !.ogrp = {"", "g1"}, !.oinc = {"none", "main"},
                   !.useA = {"a1"}, !.initsA = {{}, {"a1"}}, !.initsB = {{"b1"}},
                   !.syncsels = {{}, {"main"}, {"main", "aux"}}, !.maxtrig = 2]
Triples == [D EXCEPT !.mjq = {"any"}, !.minc = {"none", "self"}, !.agrp = {"", "g1"}, !.akeep = {TRUE, FALSE},
                     !.okinds = {"none", "schedule"}, !.ogrp = {"", "g1"},
                     !.useA = {"a1"}, !.initsA = {{"a1"}}, !.initsB = {{"b1"}},
                     !.syncsels = {{}, {"main"}, {"main", "aux"}}, !.maxtrig = 3]
V0 == [D EXCEPT !.ver = {"v0"}, !.mnamed = {TRUE, FALSE}, !.okinds = {"none", "schedule", "onStartup"},
                !.onamed = {TRUE, FALSE}, !.auxon = {FALSE},
                !.initsA = {{}, {"a1"}, {"a1", "a2"}}, !.maxtrig = 3]
Unnamed == [D EXCEPT !.mnamed = {FALSE}, !.minc = {"none", "self"},
                     !.okinds = {"none", "schedule", "validating"}, !.onamed = {FALSE}, !.ogrp = {"", "g1"}, !.oinc = {"none", "main"},
                     !.useA = {"a1"}, !.initsA = {{}, {"a1"}}, !.initsB = {{"b1"}},
                     !.syncsels = {{}, {"main"}}, !.maxtrig = 2]

ThoroughSlices == {KubeSingles, OtherSingles, NoAuxSingles, Pairs, Triples, V0, Unnamed}
=============================================================================
