\* thorough tier: slices of MC_thorough.tla (nearly full option products for single contexts, pairs and triples on reduced options); 2+1 objects, <= 3 queued contexts
SPECIFICATION Spec
CONSTANTS
  Slices <- ThoroughSlices
  Seed = 0
  ObjsA = {"a1", "a2"}
  ObjsB = {"b1"}
  FixF13 = TRUE
  FixF12 = TRUE
  FixV0 = TRUE
INVARIANTS TypeOK DocumentedKeysOnly RequiredKeysPresent TypePerKind SnapshotsIff SnapshotKeys ObjectOmittedIff FilterResultIff FilterResultIsJqOfObject SnapshotsAreCurrent SnapshotsBeforeEnable EventObjectIsEventTime NoCrash Emit
CHECK_DEADLOCK FALSE
