\* as-it-was model: configVersion v0: the object is dropped and MapV0 dereferences it; 1 object, 1 queued context; TLC must report NoCrash violated
SPECIFICATION Spec
CONSTANTS
  Slices <- V0Slices
  ObjsA = {"a1", "a2"}
  ObjsB = {"b1"}
  FixF13 = TRUE
  FixF12 = TRUE
  FixV0 = FALSE
INVARIANTS TypeOK NoCrash
CHECK_DEADLOCK FALSE
