\* quick tier: slices KubeSingles, OtherSingles, Pairs, Triples, V0, Unnamed of MC_quick.tla; 2+1 objects, <= 3 queued contexts; ~5.8 k states, ~4.3 k cases (incl. schedule / admission / conversion contexts rendered before the kubernetes bindings are enabled), ~10 s
SPECIFICATION Spec
CONSTANTS
  Slices <- QuickSlices
  Seed = 0
  ObjsA = {"a1", "a2"}
  ObjsB = {"b1"}
  FixF13 = TRUE
  FixF12 = TRUE
  FixV0 = TRUE
INVARIANTS TypeOK DocumentedKeysOnly RequiredKeysPresent TypePerKind SnapshotsIff SnapshotKeys ObjectOmittedIff FilterResultIff FilterResultIsJqOfObject SnapshotsAreCurrent SnapshotsBeforeEnable EventObjectIsEventTime NoCrash Emit
CHECK_DEADLOCK FALSE
