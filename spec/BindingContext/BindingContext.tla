--------------------------- MODULE BindingContext ---------------------------
(***************************************************************************)
(* The binding context file of shell-operator as a reference function,     *)
(* transcribed from docs/src/HOOKS.md ("Binding context", "Snapshots",     *)
(* "Binding context of grouped bindings"), BINDING_VALIDATING.md and        *)
(* BINDING_CONVERSION.md -- not from binding_context.go.                    *)
(*                                                                         *)
(* One hook with                                                           *)
(*   - kubernetes binding "main" (watches the objects ObjsA),              *)
(*   - optionally kubernetes binding "aux" (watches ObjsB),                *)
(*   - optionally one more binding "other": schedule, kubernetesValidating,*)
(*     kubernetesMutating, kubernetesCustomResourceConversion or onStartup.*)
(* Options per binding: name given or default, jqFilter, keepFullObjects-  *)
(* InMemory, group, includeSnapshotsFrom.                                  *)
(*                                                                         *)
(* The state machine is the life of that hook as the operator drives it:   *)
(*   Init      choose the configuration and the objects that exist already *)
(*   StartUp   the onStartup run (before any binding is enabled)           *)
(*   Enable    kubernetes bindings are enabled; a Synchronization context  *)
(*             per selected binding is queued                              *)
(*   ObjAdd / ObjMod / ObjDel   the cluster changes, the watching binding  *)
(*             queues an Event context carrying the object AS IT IS NOW    *)
(*   Tick      the crontab fires, a Schedule context is queued             *)
(*   Request   an admission / conversion request arrives (never queued     *)
(*             behind anything: always an array of one)                    *)
(*   BootTick / BootRequest   the same two while the kubernetes bindings   *)
(*             are NOT enabled (no Enable yet: the webhook server answers  *)
(*             requests as soon as the operator is up, the hook's          *)
(*             EnableKubernetesBindings task may still be queued or keep   *)
(*             failing; monitors stopped).  A binding that is not enabled  *)
(*             has no objects to show: `snapshots` still has a key for     *)
(*             every included / grouped binding, each an EMPTY ARRAY       *)
(*             ("a map that contains an up-to-date lists of objects for    *)
(*             each binding name").                                        *)
(* `pending` is the list of contexts queued for the hook and not yet run.  *)
(* In every state with pending # <<>> the hook may run: the file it reads  *)
(* is  File == [i \in 1..n |-> Render(Compact(pending)[i])]  evaluated     *)
(* against the cluster AS IT IS AT THAT MOMENT (snapshots and the objects  *)
(* of a Synchronization are "actual for the moment of the hook execution", *)
(* the object of an Event is "the state at the moment of the event").      *)
(* Every such state is one replay case; TLC prints it with the expected    *)
(* file (Emit).                                                            *)
(*                                                                         *)
(* The jq option of a kubernetes binding is "none" or "any" (a filter is    *)
(* set; filterResult = Proj(object), instantiated by the harness with a    *)
(* catalogue of concrete filters); "object" / "scalar" are used only by    *)
(* the as-it-was model.  FixF13 / FixF12 / FixV0 = FALSE model the code as *)
(* it was at the pinned commit (MC_asis_f13/f12/v0.cfg: TLC finds the      *)
(* three defects); TRUE = the documented behaviour.                        *)
(***************************************************************************)
EXTENDS Integers, Sequences, FiniteSets, TLC, Json

CONSTANTS
  Slices,        \* the bounded domain: a set of slices, each a record of option sets (see DefaultSlice)
  ObjsA, ObjsB,  \* object names kubernetes binding "main" / "aux" may watch
  FixF13, FixF12, FixV0

VARIABLES sl,       \* the slice the case was taken from (constant after Init; carries the bounds)
          cfg,      \* the hook configuration (constant after Init)
          init0,    \* the cluster before the hook started (constant after Init)
          cluster,  \* object name -> "absent" | "s1" | "s2"
          phase,    \* "boot" (nothing enabled) | "run" | "closed" (an unqueued context was produced)
          pending,  \* contexts queued for the hook
          hist      \* the steps taken (what the harness must do)

vars == <<sl, cfg, init0, cluster, phase, pending, hist>>

Objs == ObjsA \cup ObjsB
NoAux == [on |-> FALSE, jq |-> "none", keep |-> TRUE, grp |-> "", inc |-> "none"]
NoOther == [kind |-> "none", named |-> TRUE, grp |-> "", inc |-> "none"]
AllTrigs == {"StartUp", "Sync", "Add", "Mod", "Del", "Tick", "Request"}
BootTrigs == {"BootTick", "BootRequest"}     \* not in the default slice: a slice asks for them explicitly

(* A slice = product of option sets + bounds.  MC_*.tla define Slices as variations of this one. *)
DefaultSlice ==
  [ver |-> {"v1"},
   mnamed |-> {TRUE}, mjq |-> {"none", "any"}, mkeep |-> {TRUE, FALSE}, mgrp |-> {"", "g1"},
   minc |-> {"none", "self", "aux"},                      \* main: includeSnapshotsFrom none / itself / aux / both
   auxon |-> {TRUE}, ajq |-> {"any"}, akeep |-> {TRUE}, agrp |-> {""},
   okinds |-> {"none"}, onamed |-> {TRUE}, ogrp |-> {""}, oinc |-> {"none"},   \* other: inc none / main / aux / both
   useA |-> ObjsA, useB |-> ObjsB,                        \* objects the case may touch
   initsA |-> {{}}, initsB |-> {{}},                      \* admissible sets of objects existing before the hook starts
   syncsels |-> {{}},                                     \* which Synchronization contexts are (still) queued
   maxtrig |-> 1,                                         \* maximal number of queued contexts
   trigs |-> AllTrigs]                                    \* which actions may queue a context

(* ------------------------------ configurations ------------------------------ *)
MainsV1(z) == [named : z.mnamed, jq : z.mjq, keep : z.mkeep, grp : z.mgrp, inc : z.minc]
AuxsV1(z)  == (IF TRUE \in z.auxon THEN [on : {TRUE}, jq : z.ajq, keep : z.akeep, grp : z.agrp, inc : {"none"}] ELSE {})
              \cup (IF FALSE \in z.auxon THEN {NoAux} ELSE {})
StartupOther == [kind |-> "onStartup", named |-> TRUE, grp |-> "", inc |-> "none"]
OthersV1(z) == (IF "none" \in z.okinds THEN {NoOther} ELSE {})
               \cup (IF "onStartup" \in z.okinds THEN {StartupOther} ELSE {})
               \cup [kind : z.okinds \cap {"schedule"}, named : z.onamed, grp : z.ogrp, inc : z.oinc]
               \cup [kind : z.okinds \cap {"validating", "mutating", "conversion"}, named : {TRUE}, grp : z.ogrp, inc : z.oinc]

(* configVersion v0 knows neither keepFullObjectsInMemory nor group nor includeSnapshotsFrom,
   nor webhooks; full objects are always there. *)
MainsV0(z)  == [named : z.mnamed, jq : z.mjq, keep : {TRUE}, grp : {""}, inc : {"none"}]
OthersV0(z) == (IF "none" \in z.okinds THEN {NoOther} ELSE {})
               \cup (IF "onStartup" \in z.okinds THEN {StartupOther} ELSE {})
               \cup [kind : z.okinds \cap {"schedule"}, named : z.onamed, grp : {""}, inc : {"none"}]

IncOK(c) == /\ (c.main.inc \in {"aux", "both"} => c.aux.on)
            /\ (c.other.inc \in {"aux", "both"} => c.aux.on)

ConfigsOf(z) ==
  { c \in [ver : z.ver \cap {"v1"}, main : MainsV1(z), aux : AuxsV1(z), other : OthersV1(z)] : IncOK(c) }
  \cup [ver : z.ver \cap {"v0"}, main : MainsV0(z), aux : {NoAux}, other : OthersV0(z)]

(* ------------------------------ names, groups, includes ------------------------------ *)
KubeRoles == IF cfg.aux.on THEN {"main", "aux"} ELSE {"main"}

Name(r) == CASE r = "main"  -> IF cfg.main.named THEN "kmain"
                               ELSE IF cfg.ver = "v0" THEN "onKubernetesEvent" ELSE "kubernetes"
             [] r = "aux"   -> "kaux"
             [] r = "other" -> CASE cfg.other.kind = "schedule"   -> IF cfg.other.named THEN "sched" ELSE "schedule"
                                 [] cfg.other.kind = "validating" -> "val.verif.example.com"
                                 [] cfg.other.kind = "mutating"   -> "mut.verif.example.com"
                                 [] cfg.other.kind = "conversion" -> "conv"
                                 [] OTHER -> "onStartup"

Opt(r) == CASE r = "main" -> cfg.main [] r = "aux" -> cfg.aux [] OTHER -> cfg.other
Grp(r) == Opt(r).grp
Jq(r)  == Opt(r).jq          \* kubernetes roles only
Keep(r) == Opt(r).keep       \* kubernetes roles only

RolesOf(inc, self) == CASE inc = "none" -> {}
                        [] inc = "self" -> {self}
                        [] inc = "main" -> {"main"}
                        [] inc = "aux"  -> {"aux"}
                        [] inc = "both" -> {"main", "aux"}

(* "a map that contains an up-to-date lists of objects for each binding name from
   includeSnapshotsFrom or for each kubernetes binding with a similar group" *)
EffInc(r) == RolesOf(Opt(r).inc, r)
             \cup (IF Grp(r) # "" THEN {k \in KubeRoles : Grp(k) = Grp(r)} ELSE {})

Watcher(o) == IF o \in ObjsA THEN "main" ELSE "aux"
Watched(r) == IF r = "main" THEN ObjsA ELSE ObjsB
Present(r) == {o \in Watched(r) : cluster[o] # "absent"}

(* ------------------------------ the reference rendering ------------------------------ *)
(* An item of `objects` / of a snapshot / the object part of an Event, for kubernetes binding k
   and object o in state s.  hasObject / hasFilter say which of the two keys are present;
   the value of filterResult is Proj(object) for the binding's jqFilter -- the harness evaluates
   the concrete filter with an independent jq implementation on the concrete object (o, s). *)
FilterValue(k) ==
  IF ~FixF13 THEN "null"                                   \* as it was: type assertion to string fails
  ELSE IF ~FixF12 /\ Jq(k) = "scalar" THEN "emptyObject"   \* as it is: only object-valued results survive
  ELSE "proj"

Item(k, o, s) == [name |-> o, state |-> s,
                  hasObject |-> Keep(k),
                  hasFilter |-> Jq(k) # "none",
                  filterValue |-> IF Jq(k) # "none" THEN FilterValue(k) ELSE "-"]

(* the kubernetes bindings have been enabled (the monitors exist) *)
Enabled == \E i \in DOMAIN hist : hist[i][1] = "Enable"

(* the list of objects of kubernetes binding k; a binding that is not enabled has none to show: the empty list *)
Snapshot(k) == IF Enabled THEN { Item(k, o, cluster[o]) : o \in Present(k) } ELSE {}
Snapshots(r) == [b \in {Name(k) : k \in EffInc(r)} |->
                   Snapshot(CHOOSE k \in EffInc(r) : Name(k) = b)]

Absent == "-"
NoItem == [name |-> Absent, state |-> Absent, hasObject |-> FALSE, hasFilter |-> FALSE, filterValue |-> Absent]
(* a rendered context: `keys` is the set of keys present in the JSON object; the other fields are the
   abstract values of those keys (meaningful only when the key is present; hasItem says that `item`
   describes the object / filterResult pair of an Event) *)
Blank == [keys |-> {}, binding |-> Absent, type |-> Absent, watchEvent |-> Absent, groupName |-> Absent,
          hasItem |-> FALSE, item |-> NoItem, objects |-> {}, snapshots |-> <<>>,
          fromVersion |-> Absent, toVersion |-> Absent, review |-> Absent,
          resourceEvent |-> Absent, resourceName |-> Absent, resourceKind |-> Absent, resourceNamespace |-> Absent]

WithSnap(rec, r) ==
  IF EffInc(r) # {} THEN [rec EXCEPT !.keys = @ \cup {"snapshots"}, !.snapshots = Snapshots(r)] ELSE rec

RenderV1(c) ==
  LET r == c.role
      base == [Blank EXCEPT !.binding = Name(r), !.keys = {"binding"}]
  IN
  CASE c.t = "OnStartup" -> base
    [] c.t \in {"Validating", "Mutating"} ->
         WithSnap([base EXCEPT !.keys = @ \cup {"type", "review"}, !.type = c.t, !.review = "admission"], r)
    [] c.t = "Conversion" ->
         WithSnap([base EXCEPT !.keys = @ \cup {"type", "review", "fromVersion", "toVersion"}, !.type = c.t,
                               !.review = "conversion", !.fromVersion = "from", !.toVersion = "to"], r)
    [] c.t \in {"Schedule", "Sync", "Event"} /\ Grp(r) # "" ->
         \* "Binding context for a group contains: binding, type Group, snapshots if ..."
         WithSnap([base EXCEPT !.keys = @ \cup {"type", "groupName"}, !.type = "Group", !.groupName = Grp(r)], r)
    [] c.t = "Schedule" ->
         WithSnap([base EXCEPT !.keys = @ \cup {"type"}, !.type = "Schedule"], r)
    [] c.t = "Sync" ->
         WithSnap([base EXCEPT !.keys = @ \cup {"type", "objects"}, !.type = "Synchronization",
                               !.objects = Snapshot(r)], r)
    [] c.t = "Event" ->
         WithSnap([base EXCEPT !.keys = @ \cup {"type", "watchEvent"}
                                         \cup (IF Keep(r) THEN {"object"} ELSE {})
                                         \cup (IF Jq(r) # "none" THEN {"filterResult"} ELSE {}),
                               !.type = "Event", !.watchEvent = c.w, !.hasItem = TRUE, !.item = Item(r, c.o, c.s)], r)

V0Event(w) == CASE w = "Added" -> "add" [] w = "Modified" -> "update" [] OTHER -> "delete"

RenderV0(c) ==
  LET base == [Blank EXCEPT !.binding = Name(c.role), !.keys = {"binding"}]
  IN IF c.t = "Event"
     THEN IF ~FixV0 THEN [base EXCEPT !.keys = {"PANIC"}]    \* as it was: the object is dropped, MapV0 dereferences it
          ELSE [base EXCEPT !.keys = @ \cup {"resourceEvent", "resourceNamespace", "resourceKind", "resourceName"},
                            !.resourceEvent = V0Event(c.w), !.resourceName = c.o,
                            !.resourceKind = "kind:" \o c.role, !.resourceNamespace = "ns"]
     ELSE base

Render(c) == IF cfg.ver = "v0" THEN RenderV0(c) ELSE RenderV1(c)

(* "Adjacent tasks for kubernetes and schedule bindings with the same group and queue are compacted":
   a context is dropped when the next one belongs to the same group. *)
Compact(s) == LET keep(i) == ~(Grp(s[i].role) # "" /\ i < Len(s) /\ Grp(s[i + 1].role) = Grp(s[i].role))
                  RECURSIVE go(_)
                  go(i) == IF i > Len(s) THEN <<>>
                           ELSE IF keep(i) THEN <<s[i]>> \o go(i + 1) ELSE go(i + 1)
              IN go(1)

File == LET cs == Compact(pending) IN [i \in 1..Len(cs) |-> Render(cs[i])]

(* ------------------------------ the life of the hook ------------------------------ *)
Ctx(role, t, w, o, s) == [role |-> role, t |-> t, w |-> w, o |-> o, s |-> s]

Init == /\ sl \in Slices
        /\ cfg \in ConfigsOf(sl)
        /\ \E ia \in sl.initsA, ib \in sl.initsB :
             cluster = [o \in Objs |-> IF o \in ia \cup (IF cfg.aux.on THEN ib ELSE {}) THEN "s1" ELSE "absent"]
        /\ init0 = cluster
        /\ phase = "boot" /\ pending = <<>> /\ hist = <<>>

Room == Len(pending) < sl.maxtrig
May(t) == t \in sl.trigs

StartUp == /\ phase = "boot" /\ cfg.other.kind = "onStartup" /\ May("StartUp")
           /\ pending' = <<Ctx("other", "OnStartup", "-", "-", "-")>>
           /\ phase' = "closed" /\ hist' = Append(hist, <<"StartUp">>)
           /\ UNCHANGED <<sl, cfg, init0, cluster>>

Enable == /\ phase = "boot"
          /\ \E sel \in sl.syncsels :
               /\ sel \subseteq KubeRoles /\ (sel # {} => May("Sync"))
               /\ cfg.ver = "v0" => sel = {}     \* v0: "No first Synchronization, only Event"
               /\ Cardinality(sel) <= sl.maxtrig
               /\ pending' = (IF "main" \in sel THEN <<Ctx("main", "Sync", "-", "-", "-")>> ELSE <<>>)
                             \o (IF "aux" \in sel THEN <<Ctx("aux", "Sync", "-", "-", "-")>> ELSE <<>>)
               /\ hist' = Append(hist, <<"Enable", sel>>)
          /\ phase' = "run" /\ UNCHANGED <<sl, cfg, init0, cluster>>

Usable(o) == o \in sl.useA \/ (o \in sl.useB /\ cfg.aux.on)

ObjAdd(o) == /\ phase = "run" /\ Room /\ May("Add") /\ Usable(o) /\ cluster[o] = "absent"
             /\ cluster' = [cluster EXCEPT ![o] = "s1"]
             /\ pending' = Append(pending, Ctx(Watcher(o), "Event", "Added", o, "s1"))
             /\ hist' = Append(hist, <<"Add", o, "s1">>) /\ UNCHANGED <<sl, cfg, init0, phase>>

Flip(s) == IF s = "s1" THEN "s2" ELSE "s1"
ObjMod(o) == /\ phase = "run" /\ Room /\ May("Mod") /\ Usable(o) /\ cluster[o] # "absent"
             /\ cluster' = [cluster EXCEPT ![o] = Flip(@)]
             /\ pending' = Append(pending, Ctx(Watcher(o), "Event", "Modified", o, Flip(cluster[o])))
             /\ hist' = Append(hist, <<"Mod", o, Flip(cluster[o])>>) /\ UNCHANGED <<sl, cfg, init0, phase>>

ObjDel(o) == /\ phase = "run" /\ Room /\ May("Del") /\ Usable(o) /\ cluster[o] # "absent"
             /\ cluster' = [cluster EXCEPT ![o] = "absent"]
             /\ pending' = Append(pending, Ctx(Watcher(o), "Event", "Deleted", o, cluster[o]))
             /\ hist' = Append(hist, <<"Del", o, cluster[o]>>) /\ UNCHANGED <<sl, cfg, init0, phase>>

Tick == /\ phase = "run" /\ Room /\ May("Tick") /\ cfg.other.kind = "schedule"
        /\ pending' = Append(pending, Ctx("other", "Schedule", "-", "-", "-"))
        /\ hist' = Append(hist, <<"Tick">>) /\ UNCHANGED <<sl, cfg, init0, cluster, phase>>

ReqType == CASE cfg.other.kind = "validating" -> "Validating"
             [] cfg.other.kind = "mutating" -> "Mutating"
             [] OTHER -> "Conversion"
Request == /\ phase = "run" /\ pending = <<>> /\ May("Request") /\ cfg.other.kind \in {"validating", "mutating", "conversion"}
           /\ pending' = <<Ctx("other", ReqType, "-", "-", "-")>>
           /\ phase' = "closed" /\ hist' = Append(hist, <<"Request">>) /\ UNCHANGED <<sl, cfg, init0, cluster>>

(* the same two while nothing is enabled; the context is rendered before any Enable *)
BootTick == /\ phase = "boot" /\ pending = <<>> /\ May("BootTick") /\ cfg.ver = "v1" /\ cfg.other.kind = "schedule"
            /\ EffInc("other") # {}          \* only contexts that carry `snapshots` differ from the enabled case
            /\ pending' = <<Ctx("other", "Schedule", "-", "-", "-")>>
            /\ phase' = "closed" /\ hist' = Append(hist, <<"Tick">>) /\ UNCHANGED <<sl, cfg, init0, cluster>>
BootRequest == /\ phase = "boot" /\ pending = <<>> /\ May("BootRequest") /\ cfg.ver = "v1"
               /\ cfg.other.kind \in {"validating", "mutating", "conversion"}
               /\ EffInc("other") # {}
               /\ pending' = <<Ctx("other", ReqType, "-", "-", "-")>>
               /\ phase' = "closed" /\ hist' = Append(hist, <<"Request">>) /\ UNCHANGED <<sl, cfg, init0, cluster>>

Next == StartUp \/ Enable \/ Tick \/ Request \/ BootTick \/ BootRequest \/ \E o \in Objs : ObjAdd(o) \/ ObjMod(o) \/ ObjDel(o)

Spec == Init /\ [][Next]_vars

(* ------------------------------ the property C09, clause by clause ------------------------------ *)
Documented(t, ver) ==
  IF ver = "v0" THEN {"binding", "resourceEvent", "resourceNamespace", "resourceKind", "resourceName"}
  ELSE CASE t = Absent            -> {"binding"}
         [] t = "Schedule"        -> {"binding", "type", "snapshots"}
         [] t = "Synchronization" -> {"binding", "type", "objects", "snapshots"}
         [] t = "Event"           -> {"binding", "type", "watchEvent", "object", "filterResult", "snapshots"}
         [] t = "Group"           -> {"binding", "type", "groupName", "snapshots"}
         [] t \in {"Validating", "Mutating"} -> {"binding", "type", "review", "snapshots"}
         [] t = "Conversion"      -> {"binding", "type", "fromVersion", "toVersion", "review", "snapshots"}
         [] OTHER                 -> {}

Required(t, ver) ==
  IF ver = "v0" THEN {"binding"}
  ELSE CASE t = Absent            -> {"binding"}
         [] t = "Schedule"        -> {"binding", "type"}
         [] t = "Synchronization" -> {"binding", "type", "objects"}
         [] t = "Event"           -> {"binding", "type", "watchEvent"}
         [] t = "Group"           -> {"binding", "type", "groupName"}
         [] t \in {"Validating", "Mutating"} -> {"binding", "type", "review"}
         [] t = "Conversion"      -> {"binding", "type", "fromVersion", "toVersion", "review"}
         [] OTHER                 -> {"undocumented type"}

Rendered == {File[i] : i \in DOMAIN File}

(* all items (object + filterResult pairs) a rendered context shows, with the kubernetes binding they belong to *)
RoleByName(b) == CHOOSE k \in KubeRoles : Name(k) = b
ItemsOf(x) ==
  (IF x.hasItem THEN {<<RoleByName(x.binding), x.item>>} ELSE {})
  \cup (IF "objects" \in x.keys THEN {<<RoleByName(x.binding), it>> : it \in x.objects} ELSE {})
  \cup (IF "snapshots" \in x.keys
        THEN UNION {{<<RoleByName(b), it>> : it \in x.snapshots[b]} : b \in DOMAIN x.snapshots} ELSE {})

DocumentedKeysOnly  == \A x \in Rendered : x.keys \subseteq Documented(x.type, cfg.ver)
RequiredKeysPresent == \A x \in Rendered : Required(x.type, cfg.ver) \subseteq x.keys
TypePerKind == \A i \in DOMAIN File :
  LET c == Compact(pending)[i] IN
  cfg.ver = "v1" =>
    File[i].type = CASE c.t = "OnStartup" -> Absent
                     [] c.t \in {"Validating", "Mutating", "Conversion"} -> c.t
                     [] Grp(c.role) # "" -> "Group"
                     [] c.t = "Sync" -> "Synchronization"
                     [] OTHER -> c.t
SnapshotsIff == \A i \in DOMAIN File :
  LET c == Compact(pending)[i] IN
  ("snapshots" \in File[i].keys) <=>
     (cfg.ver = "v1" /\ c.t # "OnStartup"
      /\ (Opt(c.role).inc # "none" \/ (Grp(c.role) # "" /\ \E k \in KubeRoles : Grp(k) = Grp(c.role))))
SnapshotKeys == \A i \in DOMAIN File :
  LET c == Compact(pending)[i] IN
  "snapshots" \in File[i].keys =>
     DOMAIN File[i].snapshots = {Name(k) : k \in EffInc(c.role)}
ObjectOmittedIff == \A x \in Rendered : \A p \in ItemsOf(x) : p[2].hasObject <=> Keep(p[1])
FilterResultIff  == \A x \in Rendered : \A p \in ItemsOf(x) : p[2].hasFilter <=> (Jq(p[1]) # "none")
FilterResultIsJqOfObject == \A x \in Rendered : \A p \in ItemsOf(x) : p[2].hasFilter => p[2].filterValue = "proj"
(* objects / snapshots show the cluster as it is when the hook runs; the Event item is the object at event time *)
SnapshotsAreCurrent == \A x \in Rendered :
  /\ "objects" \in x.keys => {it.name : it \in x.objects} = Present(RoleByName(x.binding))
                           /\ \A it \in x.objects : it.state = cluster[it.name]
  /\ "snapshots" \in x.keys => \A b \in DOMAIN x.snapshots :
                           /\ {it.name : it \in x.snapshots[b]} = (IF Enabled THEN Present(RoleByName(b)) ELSE {})
                           /\ \A it \in x.snapshots[b] : it.state = cluster[it.name]
(* a context rendered while the kubernetes bindings are not enabled: every included / grouped binding still has its key,
   and the value is a list - the empty one *)
SnapshotsBeforeEnable == \A i \in DOMAIN File :
  LET c == Compact(pending)[i] IN
  (~Enabled /\ "snapshots" \in File[i].keys) =>
     /\ DOMAIN File[i].snapshots = {Name(k) : k \in EffInc(c.role)}
     /\ \A b \in DOMAIN File[i].snapshots : File[i].snapshots[b] = {}
EventObjectIsEventTime == \A i \in DOMAIN File :
  LET c == Compact(pending)[i] IN
  File[i].hasItem => File[i].item.name = c.o /\ File[i].item.state = c.s
NoCrash == \A x \in Rendered : "PANIC" \notin x.keys

TypeOK == /\ sl \in Slices /\ cfg \in ConfigsOf(sl) /\ phase \in {"boot", "run", "closed"} /\ Len(pending) <= sl.maxtrig

(* ------------------------------ case export ------------------------------ *)
Emit == pending # <<>> =>
  PrintT("@@" \o ToJson([cfg |-> cfg,
                         enabled |-> Enabled,
                         names |-> [main |-> Name("main"), aux |-> Name("aux"), other |-> Name("other")],
                         init |-> init0,
                         steps |-> hist,
                         queued |-> Len(pending),
                         expect |-> File]))
=============================================================================
