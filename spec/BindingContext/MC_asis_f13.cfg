\* as-it-was model: filterResult is null whenever jqFilter is set (F13); 1 object, 1 queued context; TLC must report FilterResultIsJqOfObject violated
SPECIFICATION Spec
CONSTANTS
  Slices <- F13Slices
  ObjsA = {"a1", "a2"}
  ObjsB = {"b1"}
  FixF13 = FALSE
  FixF12 = TRUE
  FixV0 = TRUE
INVARIANTS TypeOK FilterResultIsJqOfObject
CHECK_DEADLOCK FALSE
