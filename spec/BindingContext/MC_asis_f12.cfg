\* as-it-was model: a jq result that is not a JSON object is rendered as {} (F12); 1 object, 1 queued context; TLC must report FilterResultIsJqOfObject violated
SPECIFICATION Spec
CONSTANTS
  Slices <- F12Slices
  ObjsA = {"a1", "a2"}
  ObjsB = {"b1"}
  FixF13 = TRUE
  FixF12 = FALSE
  FixV0 = TRUE
INVARIANTS TypeOK FilterResultIsJqOfObject
CHECK_DEADLOCK FALSE
