------------------------------ MODULE MC_asis ------------------------------
(* Small domains on which the model of the code AS IT WAS at the pinned commit (FixF13 / FixF12 / FixV0 = FALSE) *)
(* violates the property: TLC shows the three defects in the model (MC_asis_*.cfg).                            *)
EXTENDS BindingContext

D == DefaultSlice
Small == [D EXCEPT !.minc = {"none", "self"}, !.mgrp = {""}, !.auxon = {FALSE},
                   !.useA = {"a1"}, !.initsA = {{"a1"}}, !.syncsels = {{}, {"main"}}]
F13Slices == {[Small EXCEPT !.mjq = {"any"}]}
F12Slices == {[Small EXCEPT !.mjq = {"object", "scalar"}]}
V0Slices  == {[Small EXCEPT !.ver = {"v0"}, !.mjq = {"none"}, !.minc = {"none"}]}
=============================================================================
