----------------------------- MODULE MC_quick -----------------------------
(* Quick tier domain of spec/BindingContext: a union of slices, about 4.5 k cases.                  *)
(* Seed (0..3) rotates the options of the second kubernetes binding so that different seeds cover  *)
(* different corners; every slice is enumerated exhaustively.                                      *)
EXTENDS BindingContext
CONSTANT Seed

D == DefaultSlice
SeedJq   == IF Seed % 2 = 0 THEN "any" ELSE "none"
SeedKeep == (Seed \div 2) % 2 = 0

(* S1: one queued context of a kubernetes binding (Synchronization or Event), every option of the
   binding x two groupings of the second binding x 0..2 existing objects *)
KubeSingles == [D EXCEPT !.minc = {"none", "self", "aux", "both"},
                         !.ajq = {SeedJq}, !.akeep = {~SeedKeep}, !.agrp = {"", "g1"},
                         !.initsA = {{}, {"a1"}, {"a1", "a2"}}, !.initsB = {{"b1"}},
                         !.syncsels = {{}, {"main"}, {"aux"}}, !.trigs = {"Sync", "Add", "Mod", "Del"}]
(* S2: one context of a schedule / admission / conversion / onStartup binding, every group / include option *)
OtherSingles == [D EXCEPT !.mjq = {"any"}, !.minc = {"none"},
                          !.ajq = {SeedJq}, !.akeep = {SeedKeep}, !.agrp = {"", "g1"},
                          !.okinds = {"schedule", "validating", "mutating", "conversion", "onStartup"},
                          !.onamed = {TRUE, FALSE}, !.ogrp = {"", "g1", "g2"}, !.oinc = {"none", "main", "aux", "both"},
                          !.initsA = {{"a1"}}, !.initsB = {{"b1"}},
                          !.trigs = {"StartUp", "Tick", "Request", "BootTick", "BootRequest"}]
(* S3: arrays of two contexts (kubernetes + schedule mixed, Synchronization first) *)
Pairs == [D EXCEPT !.mjq = {"any"}, !.minc = {"none", "self"}, !.agrp = {"", "g1"}, !.akeep = {SeedKeep},
                   !.okinds = {"none", "schedule"}, !.ogrp = {"", "g1"},
                   !.useA = {"a1"}, !.initsA = {{"a1"}}, !.initsB = {{"b1"}},
                   !.syncsels = {{}, {"main"}, {"main", "aux"}}, !.maxtrig = 2]
(* S4: arrays of three contexts with group compaction *)
Triples == [D EXCEPT !.mjq = {"any"}, !.mkeep = {SeedKeep}, !.mgrp = {"g1"}, !.minc = {"none"},
                     !.agrp = {"", "g1"}, !.okinds = {"schedule"}, !.ogrp = {"g1"},
                     !.useA = {"a1"}, !.initsA = {{"a1"}}, !.initsB = {{"b1"}},
                     !.syncsels = {{}, {"main", "aux"}}, !.maxtrig = 3]
(* S5: configVersion v0 *)
V0 == [D EXCEPT !.ver = {"v0"}, !.mnamed = {TRUE, FALSE}, !.okinds = {"none", "schedule", "onStartup"},
                !.onamed = {TRUE, FALSE}, !.auxon = {FALSE},
                !.useA = {"a1"}, !.initsA = {{}, {"a1"}}, !.maxtrig = 2]
(* S6: default binding names *)
Unnamed == [D EXCEPT !.mnamed = {FALSE}, !.mjq = {"any"}, !.mkeep = {TRUE}, !.minc = {"none", "self"},
                     !.okinds = {"none", "schedule"}, !.onamed = {FALSE}, !.oinc = {"none", "main"},
                     !.useA = {"a1"}, !.initsA = {{"a1"}}, !.initsB = {{"b1"}},
                     !.syncsels = {{}, {"main"}}]

QuickSlices == {KubeSingles, OtherSingles, Pairs, Triples, V0, Unnamed}
=============================================================================
