\* planted faults (Fault is set by the check): 2 names, <= 2 bindings; TLC must report the named invariant as violated
SPECIFICATION Spec
CONSTANTS
  NameIdx = {1, 4}
  MaxBindings = 2
  EmitCases = FALSE
  EmitMod = 1
  EmitRem = 0
  Fault = "none"
INVARIANTS TypeOK FailClosed UidEchoed VerdictRelayed RightHookRuns
CHECK_DEADLOCK FALSE
