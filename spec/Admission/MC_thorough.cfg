\* thorough: as quick with all 7 names of NameTable (three-way webhook id collision p-q-x-io, collapse rule r_-s -> r-s): 417 configurations, 45,418 cases, 204,273 states; all exported
SPECIFICATION Spec
CONSTANTS
  NameIdx = {1, 2, 3, 4, 5, 6, 7}
  MaxBindings = 3
  EmitCases = TRUE
  EmitMod = 1
  EmitRem = 0
  Fault = "none"
INVARIANTS TypeOK FailClosed UidEchoed VerdictRelayed RightHookRuns Emit
CHECK_DEADLOCK FALSE
