\* quick: every configuration of 1..3 bindings over hooks h1, h2 x {validating, mutating} x 5 names (2 of them sharing a webhook id, 2 legal for mutating only), every case of Cases(c); all model-checked, 225 configurations, ~19 k cases; all model-checked, one of 5 residue classes of configurations (EmitRem = seed mod 5) exported
SPECIFICATION Spec
CONSTANTS
  NameIdx = {1, 2, 3, 4, 5}
  MaxBindings = 3
  EmitCases = TRUE
  EmitMod = 5
  EmitRem = 0
  Fault = "none"
INVARIANTS TypeOK FailClosed UidEchoed VerdictRelayed RightHookRuns Emit
CHECK_DEADLOCK FALSE
