\* quick: every configuration of 1..3 bindings over hooks h1, h2 x {validating, mutating} x 5 names (2 sharing a webhook id, 2 legal for mutating only) = 225 configurations, every case of Cases(c) (~23 k cases, 106,697 states), all model-checked; one of 5 residue classes of configurations (EmitRem = seed mod 5, set by the check) plus the 8 Core configurations (two hooks, one binding each, every kind combination) are exported for replay (~5.0-5.6 k cases)
SPECIFICATION Spec
CONSTANTS
  NameIdx = {1, 2, 3, 4, 5}
  MaxBindings = 3
  EmitCases = TRUE
  EmitMod = 5
  EmitRem = 0
  Fault = "none"
INVARIANTS TypeOK FailClosed UidEchoed VerdictRelayed RightHookRuns Emit
CHECK_DEADLOCK FALSE
