------------------------------ MODULE Admission ------------------------------
(***************************************************************************)
(* Admission webhooks of shell-operator (property C14): how one            *)
(* AdmissionReview request is answered.                                    *)
(*                                                                         *)
(* Written from the property statement, docs/src/BINDING_VALIDATING.md     *)
(* ("Hook input and output": the hook writes {"allowed":..,"message":..,   *)
(* "warnings":[..]} - mutating hooks also "patch": base64 of a JSON patch -*)
(* to $VALIDATING_RESPONSE_PATH; "Empty or invalid file is considered as   *)
(* allowed:false"), examples/206-mutating-webhook and the comment in       *)
(* pkg/webhook/admission/config.go (webhook path = /<configurationId>/     *)
(* <webhookId>, the webhook id is the URL-safe form of the binding name,   *)
(* the configuration id of hooks is "hooks").                              *)
(*                                                                         *)
(* The machine has one action per step the code takes:                     *)
(*   S_Decode   serveReviewRequest: content type + decode the body         *)
(*   S_Route    handleReviewRequest/detectConfigurationAndWebhook + the    *)
(*              event handler's search for the hook (HandleAdmissionEvent) *)
(*   S_RunHook  taskHandler -> Hook.Run: hook process, exit code, response *)
(*              file                                                       *)
(*   S_Answer   event handler result -> AdmissionResponse                  *)
(* Every case (configuration of bindings x request x scripted hook         *)
(* outcome) is one initial state; the behaviour from it is deterministic   *)
(* and ends in pc = "done" where the four properties are evaluated and the *)
(* case is exported (Emit) with the answer the reference demands.          *)
(*                                                                         *)
(* Excluded from the domain (statement silent): two bindings whose names   *)
(* map to one webhook id (NoCollision); binding names that are not         *)
(* accepted by Kubernetes for a validating webhook are used for mutating   *)
(* bindings only (the loader validates validating names only); names with  *)
(* "/" ; paths with empty segments; response files with trailing garbage,  *)
(* duplicate or differently-cased keys; a patch from a validating hook.    *)
(***************************************************************************)
EXTENDS Integers, Sequences, FiniteSets, TLC, Json

CONSTANTS
  NameIdx,      \* which entries of NameTable are used as binding names
  MaxBindings,  \* bindings per configuration (1..MaxBindings), over the hooks h1, h2
  EmitCases,    \* print the cases (Emit)
  EmitMod, EmitRem, \* export the configurations of one residue class only (all are model-checked)
  Fault         \* "none"; anything else plants a fault in the machine to show that the properties can fail
                \* (MC_fault_*.cfg): "open-noresponse" | "open-fail" | "open-signal" | "first-binding" | "drop-warnings" | "no-patchtype" | "drop-uid"

VARIABLES cfg,     \* configuration: set of bindings [hook, kind, n]           (input)
          req,     \* [segs, q, pclass, body, uid]                              (input)
          plan,    \* hook -> outcome its process produces if it is executed    (input)
          pc,      \* "recv" | "route" | "run" | "answer" | "done"
          task,    \* the binding picked by S_Route, or NoTask
          ran,     \* executions: <<[hook, binding, type, uid]>>
          result,  \* what the event handler got from the run
          ans      \* the HTTP answer

vars == <<cfg, req, plan, pc, task, ran, result, ans>>

(* ------------------------------ characters ----------------------------- *)
LowerDigit == {"a","b","c","d","e","f","g","h","i","j","k","l","m","n","o","p","q","r","s","t","u","v","w","x","y","z",
               "0","1","2","3","4","5","6","7","8","9"}
UpperMap == [Q |-> "q", S |-> "s", T |-> "t"]      \* the upper-case letters used in NameTable
Upper    == DOMAIN UpperMap

RECURSIVE Str(_)
Str(s) == IF s = <<>> THEN "" ELSE Head(s) \o Str(Tail(s))

(* The URL-safe transformation of pkg/webhook/admission/config.go ("It should be url safe"):                *)
(*   1. every upper-case letter X becomes "-x"   2. everything outside [a-z0-9-/] becomes "-"               *)
(*   3. runs of "-" collapse to one "-"                                                                      *)
RECURSIVE Dash(_)
Dash(s) == IF s = <<>> THEN <<>>
           ELSE IF Head(s) \in Upper THEN <<"-", UpperMap[Head(s)]>> \o Dash(Tail(s)) ELSE <<Head(s)>> \o Dash(Tail(s))
Clean(s) == [i \in 1..Len(s) |-> IF s[i] \in LowerDigit \cup {"-", "/"} THEN s[i] ELSE "-"]
RECURSIVE Collapse(_)
Collapse(s) == IF Len(s) < 2 THEN s
               ELSE IF s[1] = "-" /\ s[2] = "-" THEN Collapse(Tail(s)) ELSE <<s[1]>> \o Collapse(Tail(s))
SafeURL(s) == Collapse(Clean(Dash(s)))

(* A fully qualified Kubernetes webhook name: >= 3 DNS-1123 labels.                                           *)
DNSChars == LowerDigit \cup {"-", "."}
IsFQName(s) ==
  /\ \A i \in 1..Len(s) : s[i] \in DNSChars
  /\ s[1] \in LowerDigit /\ s[Len(s)] \in LowerDigit
  /\ \A i \in 1..Len(s) - 1 : (s[i] = "." => s[i+1] \in LowerDigit) /\ (s[i+1] = "." => s[i] \in LowerDigit)
  /\ Cardinality({i \in 1..Len(s) : s[i] = "."}) >= 2

NameTable == <<
  <<"p",".","x",".","i","o">>,                  \* 1  p.x.io      -> p-x-io
  <<"p","-","q",".","x",".","i","o">>,          \* 2  p-q.x.io    -> p-q-x-io
  <<"p",".","q",".","x",".","i","o">>,          \* 3  p.q.x.io    -> p-q-x-io   (same id as 2)
  <<"r","S",".","x",".","i","o">>,              \* 4  rS.x.io     -> r-s-x-io   (mutating only)
  <<"T","_","u",".","x",".","i","o">>,          \* 5  T_u.x.io    -> -t-u-x-io  (mutating only)
  <<"r","_","-","s",".","x",".","i","o">>,      \* 6  r_-s.x.io   -> r-s-x-io   (mutating only, same id as 4)
  <<"p","Q",".","x",".","i","o">> >>            \* 7  pQ.x.io     -> p-q-x-io   (mutating only, same id as 2, 3)

Hooks    == {"h1", "h2"}
HookNo   == [h1 |-> 1, h2 |-> 2]
Kinds    == {"validating", "mutating"}
KindNo   == [validating |-> 1, mutating |-> 2]
TypeOf   == [validating |-> "Validating", mutating |-> "Mutating"]
ConfId   == "hooks"                              \* DefaultConfigurationId: hooks cannot choose another one

NameStr == [n \in DOMAIN NameTable |-> Str(NameTable[n])]             \* constant tables: evaluated once by TLC
WidStr  == [n \in DOMAIN NameTable |-> Str(SafeURL(NameTable[n]))]
FQ      == [n \in DOMAIN NameTable |-> IsFQName(NameTable[n])]
Name(b) == NameStr[b.n]
Wid(b)  == WidStr[b.n]

Pool == {b \in [hook : Hooks, kind : Kinds, n : NameIdx] : b.kind = "validating" => FQ[b.n]}

NoCollision(c) == \A b1, b2 \in c : b1 # b2 => Wid(b1) # Wid(b2)
Configs == {c \in SUBSET Pool :
              /\ Cardinality(c) \in 1..MaxBindings
              /\ NoCollision(c)
              /\ (\E b \in c : b.hook = "h2") => (\E b \in c : b.hook = "h1")}   \* h2 alone = h1 alone

(* (configurationId, webhookId) -> binding : what the hooks register.                                        *)
Registry(c) == [k \in {<<ConfId, Wid(b)>> : b \in c} |-> CHOOSE b \in c : k = <<ConfId, Wid(b)>>]

(* ------------------------------- outcomes ------------------------------ *)
(* exit: the exit code of the hook process; a negative value -N stands for "terminated by signal N" after     *)
(* the response file was written (the hook helper sends the signal to itself).                              *)
BadClasses == {"absent", "blank", "trunc", "badtype", "array", "badb64", "badwarn", "null", "emptyobj"}
Plain(e, rc) == [exit |-> e, rc |-> rc, allowed |-> FALSE, msg |-> FALSE, warn |-> FALSE, patch |-> FALSE]
Valid(e, a, m, w, p) == [exit |-> e, rc |-> "valid", allowed |-> a, msg |-> m, warn |-> w, patch |-> p]
AllowPlain == Valid(0, TRUE, FALSE, FALSE, FALSE)

Outcomes(kind) ==
  {Plain(0, rc) : rc \in BadClasses}
  \cup {Valid(0, a, m, w, p) : a \in BOOLEAN, m \in BOOLEAN, w \in BOOLEAN,
                               p \in (IF kind = "mutating" THEN BOOLEAN ELSE {FALSE})}
  \cup {Plain(1, "absent"), Plain(1, "trunc"), Valid(1, TRUE, FALSE, FALSE, FALSE), Valid(1, TRUE, FALSE, TRUE, kind = "mutating")}
  \* exit = -N: the process wrote its response file and was then terminated by signal N (9 = SIGKILL: OOM killer,
  \* 15 = SIGTERM: watchdog, kill) - it "did not exit with zero" although there is no exit code above zero either
  \cup {Valid(-9, TRUE, FALSE, FALSE, FALSE), Valid(-15, TRUE, FALSE, TRUE, kind = "mutating")}

MsgText  == "denied: replicas above limit (policy p-1)"
Warn1    == "deprecated field spec.image"
Warn2    == "risky on Tuesday"
PatchRaw == "[{\"op\":\"add\",\"path\":\"/spec/replicas\",\"value\":333}]"
PatchB64 == "W3sib3AiOiJhZGQiLCJwYXRoIjoiL3NwZWMvcmVwbGljYXMiLCJ2YWx1ZSI6MzMzfV0="

(* The bytes the hook process writes to $VALIDATING_RESPONSE_PATH ("" = it does not touch the file).         *)
Text(o) ==
  CASE o.rc = "absent"  -> ""
    [] o.rc = "blank"   -> " "
    [] o.rc = "trunc"   -> "{\"allowed\": tru"
    [] o.rc = "badtype" -> "{\"allowed\":\"yes\"}"
    [] o.rc = "array"   -> "[true]"
    [] o.rc = "badb64"  -> "{\"allowed\":true,\"patch\":\"%%%\"}"
    [] o.rc = "badwarn" -> "{\"allowed\":true,\"warnings\":\"one\"}"
    [] o.rc = "null"    -> "null"
    [] o.rc = "emptyobj" -> "{}"
    [] o.rc = "valid"   ->
         "{\"allowed\":" \o (IF o.allowed THEN "true" ELSE "false")
         \o (IF o.msg THEN ",\"message\":\"" \o MsgText \o "\"" ELSE "")
         \o (IF o.warn THEN ",\"warnings\":[\"" \o Warn1 \o "\",\"" \o Warn2 \o "\"]" ELSE "")
         \o (IF o.patch THEN ",\"patch\":\"" \o PatchB64 \o "\"" ELSE "")
         \o "}"

Warnings(o) == IF o.warn THEN <<Warn1, Warn2>> ELSE <<>>

(* ------------------------------- requests ------------------------------ *)
RECURSIVE Join(_)
Join(segs) == IF segs = <<>> THEN "" ELSE "/" \o Head(segs) \o Join(Tail(segs))
PathStr(r) == (IF r.segs = <<>> THEN "/" ELSE Join(r.segs)) \o (IF r.q THEN "?timeout=10s" ELSE "")

RECURSIVE JoinIds(_)
JoinIds(segs) == IF segs = <<>> THEN "" ELSE IF Len(segs) = 1 THEN segs[1] ELSE segs[1] \o "/" \o JoinIds(Tail(segs))
\* detectConfigurationAndWebhook: first segment = configuration id, the rest joined = webhook id
Parse(segs) == IF segs = <<>> THEN <<"", "">> ELSE <<segs[1], JoinIds(Tail(segs))>>

BadBodies == {"notjson", "empty", "norequest", "reqstring", "ctype"}

Req(segs, q, pclass, body) == [segs |-> segs, q |-> q, pclass |-> pclass, body |-> body, uid |-> "UID"]

Code(b) == ((HookNo[b.hook] * 2 + KindNo[b.kind]) * 16 + b.n)
RECURSIVE CfgSum(_)
CfgSum(c) == IF c = {} THEN 0 ELSE LET b == CHOOSE x \in c : TRUE IN 31 * Code(b) + CfgSum(c \ {b})
CfgHash(c) == CfgSum(c) + Cardinality(c)

First(c) == CHOOSE b \in c : \A x \in c : Code(b) <= Code(x)
AllAllow == [h \in Hooks |-> AllowPlain]

(* The cases of one configuration: <<request, plan>>.                                                        *)
Cases(c) ==
  LET known(b)  == <<ConfId, Wid(b)>>
      t         == First(c)
      otherIds  == {WidStr[n] : n \in NameIdx} \ {Wid(b) : b \in c}
  IN  \* every outcome of the registered hook on its own path; the other hook would allow
      UNION {{<<Req(known(b), FALSE, "known", "ok"), [AllAllow EXCEPT ![b.hook] = o]>> : o \in Outcomes(b.kind)} : b \in c}
      \* the API server appends ?timeout=..s
 \cup {<<Req(known(b), TRUE, "known-query", "ok"), [AllAllow EXCEPT ![b.hook] = o]>> :
         b \in c, o \in {AllowPlain, Valid(0, FALSE, TRUE, TRUE, FALSE)}}
      \* paths nobody registered: every hook would allow if it were run
 \cup {<<Req(s, FALSE, "unknown-conf", "ok"), AllAllow>> : s \in {<<"other", Wid(b)>> : b \in c}}
 \cup {<<Req(s, FALSE, "raw-name", "ok"), AllAllow>> : s \in {<<ConfId, Name(b)>> : b \in c}}
 \cup {<<Req(s, FALSE, "hook-only", "ok"), AllAllow>> : s \in {<<Wid(b)>> : b \in c}}
 \cup {<<Req(s, FALSE, "extra-seg", "ok"), AllAllow>> : s \in {<<ConfId, Wid(b), "x">> : b \in c}}
 \cup {<<Req(s, FALSE, "suffix", "ok"), AllAllow>> : s \in {<<ConfId, Wid(b) \o "x">> : b \in c}}
 \cup {<<Req(s, FALSE, "unregistered", "ok"), AllAllow>> : s \in {<<ConfId, w>> : w \in otherIds \cup {"nohook-x-io"}}}
 \cup {<<Req(<<"HOOKS", Wid(t)>>, FALSE, "conf-case", "ok"), AllAllow>>,
       <<Req(<<"x", ConfId, Wid(t)>>, FALSE, "prefixed", "ok"), AllAllow>>,
       <<Req(<<ConfId>>, FALSE, "conf-only", "ok"), AllAllow>>,
       <<Req(<<>>, FALSE, "root", "ok"), AllAllow>>}
      \* bodies that carry no request
 \cup {<<Req(known(t), FALSE, "known", bd), AllAllow>> : bd \in BadBodies}

NoTask   == [hook |-> "", kind |-> "", n |-> 0]
NoResult == [kind |-> "none"]
NoAnswer == [http |-> "none"]

Init ==
  \E c \in Configs : \E k \in Cases(c) :
    /\ cfg = c /\ req = k[1] /\ plan = k[2]
    /\ pc = "recv" /\ task = NoTask /\ ran = <<>> /\ result = NoResult /\ ans = NoAnswer

(* -------------------------------- machine ------------------------------ *)
\* an answer that is no AdmissionReview at all (HTTP 4xx/5xx): only for a body that carries no request
Reject == [http |-> "non2xx"]
\* a denial whose wording is the operator's own (no verdict of a hook to relay)
DenyOwn == [http |-> "200", allowed |-> FALSE, uid |-> IF Fault = "drop-uid" THEN "" ELSE req.uid, verdict |-> FALSE,
            checkMsg |-> FALSE, msg |-> "", warnings |-> <<>>, checkPatch |-> FALSE, patch |-> "", patchType |-> ""]

S_Decode ==
  /\ pc = "recv"
  /\ IF req.body = "ok" THEN pc' = "route" /\ ans' = ans
                        ELSE pc' = "done" /\ ans' = Reject
  /\ UNCHANGED <<cfg, req, plan, task, ran, result>>

S_Route ==
  /\ pc = "route"
  /\ LET ev == Parse(req.segs)
         m  == {b \in cfg : ev[1] = ConfId /\ ev[2] = Wid(b)}
     IN IF m = {} THEN pc' = "done" /\ ans' = DenyOwn /\ task' = task      \* "no hook found"
        ELSE /\ pc' = "run" /\ ans' = ans
             /\ task' = IF Fault = "first-binding" THEN First(cfg) ELSE CHOOSE b \in m : TRUE  \* unique: NoCollision
  /\ UNCHANGED <<cfg, req, plan, ran, result>>

S_RunHook ==
  /\ pc = "run"
  /\ ran' = Append(ran, [hook |-> task.hook, binding |-> Name(task), type |-> TypeOf[task.kind], uid |-> req.uid])
  /\ LET o == plan[task.hook]
     IN result' = IF (IF Fault = "open-signal" THEN o.exit > 0 ELSE o.exit # 0) THEN [kind |-> "fail"]                      \* hook failed (exit code > 0 or killed by a signal)
                  ELSE IF o.rc = "absent" THEN [kind |-> "noresponse"]     \* file left empty
                  ELSE IF o.rc # "valid" THEN [kind |-> "fail"]            \* bad response fails the run
                  ELSE [kind |-> "response", o |-> o]
  /\ pc' = "answer"
  /\ UNCHANGED <<cfg, req, plan, task, ans>>

S_Answer ==
  /\ pc = "answer"
  /\ ans' = IF result.kind # "response"
            THEN IF \/ (Fault = "open-noresponse" /\ result.kind = "noresponse")
                    \/ (Fault = "open-fail" /\ result.kind = "fail")
                 THEN [DenyOwn EXCEPT !.allowed = TRUE] ELSE DenyOwn
            ELSE LET o == result.o
                 IN [http |-> "200", allowed |-> o.allowed, uid |-> req.uid, verdict |-> TRUE,
                     checkMsg |-> (~o.allowed /\ o.msg), msg |-> IF ~o.allowed /\ o.msg THEN MsgText ELSE "",
                     warnings |-> IF Fault = "drop-warnings" THEN <<>> ELSE Warnings(o),
                     checkPatch |-> o.allowed,
                     patch |-> IF o.allowed /\ o.patch THEN PatchRaw ELSE "",
                     patchType |-> IF o.allowed /\ o.patch /\ Fault # "no-patchtype" THEN "JSONPatch" ELSE ""]
  /\ pc' = "done"
  /\ UNCHANGED <<cfg, req, plan, task, ran, result>>

Next == S_Decode \/ S_Route \/ S_RunHook \/ S_Answer
Spec == Init /\ [][Next]_vars

(* ------------------------------ properties ----------------------------- *)
Done      == pc = "done"
Key       == <<Parse(req.segs)[1], Parse(req.segs)[2]>>
PathKnown == Key \in DOMAIN Registry(cfg)
Reg       == Registry(cfg)[Key]                  \* only where PathKnown
HasReq    == req.body = "ok"
Out       == plan[Reg.hook]                      \* outcome of the registered hook
Entitled  == HasReq /\ PathKnown /\ Out.exit = 0 /\ Out.rc = "valid" /\ Out.allowed

TypeOK ==
  /\ cfg \in Configs
  /\ pc \in {"recv", "route", "run", "answer", "done"}
  /\ Len(ran) <= 1
  /\ Done <=> ans # NoAnswer

\* allowed = TRUE only if the path is known, the registered hook ran, exited 0 and wrote a valid allowed:true;
\* everything else is a denial - or, for a body without a request, possibly no AdmissionReview at all.
FailClosed ==
  Done =>
    /\ (ans.http = "200" /\ ans.allowed) =>
          /\ Entitled
          /\ Len(ran) = 1 /\ ran[1].hook = Reg.hook
    /\ ~Entitled => (ans = Reject \/ (ans.http = "200" /\ ~ans.allowed))
    /\ (ans = Reject) => ~HasReq

UidEchoed == Done /\ ans.http = "200" => ans.uid = req.uid

\* a valid response of a hook that exited 0 is relayed: allowed, the message of a denial, warnings, patch + type
VerdictRelayed ==
  (Done /\ HasReq /\ PathKnown /\ Out.exit = 0 /\ Out.rc = "valid") =>
    /\ ans.http = "200" /\ ans.verdict
    /\ ans.allowed = Out.allowed
    /\ (~Out.allowed /\ Out.msg) => (ans.checkMsg /\ ans.msg = MsgText)
    /\ ans.warnings = Warnings(Out)
    /\ Out.allowed => /\ ans.checkPatch
                      /\ ans.patch = (IF Out.patch THEN PatchRaw ELSE "")
                      /\ ans.patchType = (IF Out.patch THEN "JSONPatch" ELSE "")
    /\ (Out.patch => Reg.kind = "mutating")

\* the request is handed to the hook and binding that registered the path - and to nobody else
RightHookRuns ==
  Done => ran = IF HasReq /\ PathKnown
                THEN <<[hook |-> Reg.hook, binding |-> Name(Reg), type |-> TypeOf[Reg.kind], uid |-> req.uid]>>
                ELSE <<>>

(* -------------------------------- export ------------------------------- *)
BindingRec(b) == [hook |-> b.hook, kind |-> b.kind, name |-> Name(b), wid |-> Wid(b),
                  path |-> "/" \o ConfId \o "/" \o Wid(b)]
\* exported for every seed: the two-hook configurations with one binding per hook over the names 1, 2 - both validating, both
\* mutating and the two mixed ones, in both assignments of the names (a request to the binding of the SECOND hook in hook order
\* must get past a first hook of either kind); the rest by residue class of the configuration.
Core(c) == /\ Cardinality(c) = 2
           /\ {b.hook : b \in c} = Hooks
           /\ \A b \in c : b.n \in {1, 2}
Selected == Core(cfg) \/ CfgHash(cfg) % EmitMod = EmitRem

Emit ==
  (EmitCases /\ Done /\ Selected) =>
    PrintT("@@" \o ToJson([
      cfgid |-> CfgHash(cfg),
      cfg  |-> {BindingRec(b) : b \in cfg},
      req  |-> [path |-> PathStr(req), pclass |-> req.pclass, body |-> req.body, uid |-> req.uid],
      plan |-> [h \in Hooks |-> [exit |-> plan[h].exit, rc |-> plan[h].rc, text |-> Text(plan[h])]],
      ran  |-> ran,
      exp  |-> ans]))
=============================================================================
