\* a seeded random subset of SampleK documents of every stratum of MC_thorough.cfg (strata smaller than SampleK are complete; v0kube: SampleK/2) + all single-fault mutations
SPECIFICATION Spec
CONSTANTS
  Strata = {"kopt", "kopt2", "ksel", "cross", "crossrej", "cross2", "sched", "hooks", "fault", "v0kube", "v0sched", "v0fault"}
  SampleK = 1000
  AsIs = FALSE
INVARIANTS DomainWellFormed FaithfulLoad Defaults LegacyLoad FaultRejected GroupSnapshots Emit
CHECK_DEADLOCK FALSE
