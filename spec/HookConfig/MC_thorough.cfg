\* exhaustive over the stratified document domain (<= 2 bindings per kind): kopt 16200, kopt2 16384, ksel 720, cross 5.4k loadable + 21.5k rejected, cross2 2880, sched 4325, hooks 6972 documents + ~1000 single-fault mutations of 6 base documents; legacy format (no configVersion): v0kube 3328, v0sched 545 documents + ~100 single-fault mutations of 3 base documents
SPECIFICATION Spec
CONSTANTS
  Strata = {"kopt", "kopt2", "ksel", "cross", "crossrej", "cross2", "sched", "hooks", "fault", "v0kube", "v0sched", "v0fault"}
  SampleK = 0
  AsIs = FALSE
INVARIANTS DomainWellFormed FaithfulLoad Defaults LegacyLoad FaultRejected GroupSnapshots Emit
CHECK_DEADLOCK FALSE
