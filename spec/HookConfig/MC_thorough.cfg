\* exhaustive over the stratified document domain (<= 2 bindings per kind): kopt 16200, ksel 720, cross 26922, cross2 2880, sched 4325, hooks 6972 documents + ~1000 single-fault mutations of 6 base documents
SPECIFICATION Spec
CONSTANTS
  Strata = {"kopt", "ksel", "cross", "crossrej", "cross2", "sched", "hooks", "fault"}
  SampleK = 0
  AsIs = FALSE
INVARIANTS DomainWellFormed FaithfulLoad Defaults FaultRejected GroupSnapshots Emit
CHECK_DEADLOCK FALSE
