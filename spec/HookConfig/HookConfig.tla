------------------------------ MODULE HookConfig ------------------------------
(***************************************************************************************************)
(* Reference semantics of the hook configuration format, configVersion v1, written from            *)
(* docs/src/HOOKS.md, BINDING_VALIDATING.md, BINDING_CONVERSION.md and the statement of C10, and   *)
(* of the legacy format (a document without configVersion: onStartup, schedule, onKubernetesEvent; *)
(* section "the legacy format" below).                                                             *)
(*                                                                                                 *)
(* A document is the JSON/YAML tree itself: a record that has exactly the declared fields          *)
(* (optional fields are simply absent), sequences for arrays.  Every scalar is a string; the       *)
(* non-string scalars are written as marker strings ("@true", "@false", "@n5", "@f1.5", "@null")   *)
(* so that a wrongly typed value is still a value TLC can compare.  The harness turns the markers  *)
(* back into booleans / numbers / null when it renders the document as YAML and as JSON.           *)
(*                                                                                                 *)
(*   GrammarFault(doc)  the documented grammar as a validator ("ok" or the first violated rule)    *)
(*   Effective(doc)     "reject" or the effective configuration the documentation promises         *)
(*   Faults(doc)        the single-fault mutations named in the statement                          *)
(*                                                                                                 *)
(* TLC enumerates the bounded document domain (one state per document, no transitions), checks     *)
(* the clauses of the statement as invariants of Effective, and prints every case together with    *)
(* the expected result for the replay on the real loader.                                          *)
(***************************************************************************************************)
EXTENDS Integers, Sequences, FiniteSets, TLC, Json, Randomization

CONSTANTS Strata,     \* which parts of the domain to enumerate
          SampleK,    \* 0: whole stratum; k > 0: a random subset of k documents per stratum (quick tier)
          AsIs        \* TRUE: model the loader as it was found (used only to show TLC sees the defects)

VARIABLE c            \* the case: [stratum, fault, doc, base (document before the fault), why (RejectReason), eff (Effective)]

---------------------------------------------------------------------------------------------------
(* generic helpers *)

Has(r, f)    == f \in DOMAIN r
Get(r, f, d) == IF f \in DOMAIN r THEN r[f] ELSE d
Set(r, f, v) == [x \in DOMAIN r \cup {f} |-> IF x = f THEN v ELSE r[x]]
Del(r, f)    == [x \in DOMAIN r \ {f} |-> r[x]]
Sub(r, S)    == [x \in DOMAIN r \cap S |-> r[x]]
Range(s)     == {s[i] : i \in DOMAIN s}
One(f, v)    == [x \in {f} |-> v]
Opt(f, vals) == {<<>>} \cup {One(f, v) : v \in vals}
Merge(A, B)  == {a @@ b : a \in A, b \in B}

RECURSIVE MergeAll(_)
MergeAll(ss) == IF Len(ss) = 1 THEN ss[1] ELSE Merge(ss[1], MergeAll(Tail(ss)))

SeqsUpTo(S, lo, hi) == UNION {[1..n -> S] : n \in lo..hi}
Section(f, s) == IF s = <<>> THEN <<>> ELSE One(f, s)

Dedup(s) ==
  LET F[i \in 0..Len(s)] ==
        IF i = 0 THEN <<>>
        ELSE IF \E j \in 1..(i - 1) : s[j] = s[i] THEN F[i - 1] ELSE Append(F[i - 1], s[i])
  IN F[Len(s)]

NoDup(s) == \A i, j \in 1..Len(s) : s[i] = s[j] => i = j

---------------------------------------------------------------------------------------------------
(* scalars *)

BoolLit == {"@true", "@false"}
IntLit  == {"@n1", "@n2", "@n5", "@n10"}
NonStr  == BoolLit \cup IntLit \cup {"@null", "@f1.5"}
IsStr(v)  == v \notin NonStr
IsBool(v) == v \in BoolLit
IsInt(v)  == v \in IntLit
IntVal(v) == CASE v = "@n1" -> 1 [] v = "@n2" -> 2 [] v = "@n5" -> 5 [] v = "@n10" -> 10
Bool(v)   == v = "@true"

(* catalogues: concrete values for the abstract classes "valid X" / "invalid X" *)
GoodCrontab  == {"* * * * *", "*/5 * * * *", "0 2 */3 * * *"}          \* 5 and 6 fields (robfig/cron)
GoodApiVer   == {"v1", "apps/v1"}
AllEvents    == {"Added", "Modified", "Deleted"}
LabelOps     == {"In", "NotIn", "Exists", "DoesNotExist"}
FieldOps     == {"=", "==", "Equals", "!=", "NotEquals"}
GoodLabelKey == {"myLabel", "tier", "env", "node-role.kubernetes.io/master"}
GoodLabelVal == {"myLabelValue", "cache", "db", "prod", ""}
GoodDuration == {"3s", "500ms"}
DurationMs(v) == CASE v = "3s" -> 3000 [] v = "500ms" -> 500
GoodHookName == {"val.example.com", "mut.example.com"}                  \* "a domain with at least three segments"
Policies     == {"Ignore", "Fail"}
SideEffects  == {"None", "NoneOnDryRun"}
RuleOps      == {"CREATE", "UPDATE", "DELETE", "CONNECT", "*"}

CanonEvents(S) == SelectSeq(<<"Added", "Modified", "Deleted">>, LAMBDA e : e \in S)

---------------------------------------------------------------------------------------------------
(* the documented grammar as a validator: "ok" or the name of the first violated rule *)

StrSeqOK(s, min) == Len(s) >= min /\ \A i \in 1..Len(s) : IsStr(s[i])

FirstBad(checks) ==   \* checks: sequence of <<condition, rule name>>
  IF \A i \in 1..Len(checks) : checks[i][1] THEN "ok"
  ELSE checks[CHOOSE i \in 1..Len(checks) : ~checks[i][1] /\ \A j \in 1..(i - 1) : checks[j][1]][2]

NameSelOK(s) == DOMAIN s = {"matchNames"} /\ StrSeqOK(s.matchNames, 0)

(* shape: what a JSON schema can say; semantics: the Kubernetes label selector rules *)
LabelExprShapeOK(e) ==
  /\ DOMAIN e \subseteq {"key", "operator", "values"} /\ Has(e, "key") /\ Has(e, "operator")
  /\ IsStr(e.key) /\ e.operator \in LabelOps
  /\ Has(e, "values") => StrSeqOK(e.values, 0)
LabelExprSemOK(e) ==
  /\ e.key \in GoodLabelKey
  /\ Has(e, "values") => \A i \in 1..Len(e.values) : e.values[i] \in GoodLabelVal
  /\ e.operator \in {"In", "NotIn"} => Has(e, "values") /\ Len(e.values) >= 1
  /\ e.operator \in {"Exists", "DoesNotExist"} => Len(Get(e, "values", <<>>)) = 0

LabelSelShapeOK(s) ==
  /\ DOMAIN s \subseteq {"matchLabels", "matchExpressions"} /\ DOMAIN s # {}
  /\ Has(s, "matchLabels") => \A k \in DOMAIN s.matchLabels : IsStr(s.matchLabels[k])
  /\ Has(s, "matchExpressions") => \A i \in 1..Len(s.matchExpressions) : LabelExprShapeOK(s.matchExpressions[i])
LabelSelSemOK(s) ==
  /\ Has(s, "matchLabels") => \A k \in DOMAIN s.matchLabels : k \in GoodLabelKey /\ s.matchLabels[k] \in GoodLabelVal
  /\ Has(s, "matchExpressions") => \A i \in 1..Len(s.matchExpressions) : LabelExprSemOK(s.matchExpressions[i])
LabelSelOK(s) == LabelSelShapeOK(s) /\ LabelSelSemOK(s)

FieldExprOK(e) ==
  DOMAIN e = {"field", "operator", "value"} /\ IsStr(e.field) /\ e.operator \in FieldOps /\ IsStr(e.value)

FieldSelOK(s) ==
  DOMAIN s = {"matchExpressions"} /\ \A i \in 1..Len(s.matchExpressions) : FieldExprOK(s.matchExpressions[i])

NamespaceOK(s) ==
  /\ DOMAIN s \subseteq {"nameSelector", "labelSelector"} /\ DOMAIN s # {}
  /\ Has(s, "nameSelector") => NameSelOK(s.nameSelector)
  /\ Has(s, "labelSelector") => LabelSelShapeOK(s.labelSelector)
  /\ Has(s, "labelSelector") => (AsIs \/ LabelSelSemOK(s.labelSelector))   \* as found: not checked for kubernetes bindings

EventListOK(s) == \A i \in 1..Len(s) : s[i] \in AllEvents      \* the empty list is documented as legal

NameAndFieldClash(b) ==
  /\ Has(b, "nameSelector") /\ Has(b, "fieldSelector")
  /\ NameSelOK(b.nameSelector) /\ FieldSelOK(b.fieldSelector)
  /\ Len(b.nameSelector.matchNames) > 0
  /\ \E i \in 1..Len(b.fieldSelector.matchExpressions) : b.fieldSelector.matchExpressions[i].field = "metadata.name"

IncludeFieldOK(b) == Has(b, "includeSnapshotsFrom") => StrSeqOK(b.includeSnapshotsFrom, 1)

ScheduleFields == {"name", "crontab", "allowFailure", "queue", "includeSnapshotsFrom", "group"}
ScheduleFault(b) == FirstBad(<<
  <<DOMAIN b \subseteq ScheduleFields, "unknown-field">>,
  <<Has(b, "crontab"), "crontab-missing">>,
  <<Has(b, "crontab") => IsStr(b.crontab), "crontab-type">>,
  <<Has(b, "crontab") /\ IsStr(b.crontab) => b.crontab \in GoodCrontab, "crontab-invalid">>,
  <<Has(b, "name") => IsStr(b.name), "name-type">>,
  <<Has(b, "queue") => IsStr(b.queue), "queue-type">>,
  <<Has(b, "group") => IsStr(b.group), "group-type">>,
  <<Has(b, "allowFailure") => IsBool(b.allowFailure), "allowFailure-type">>,
  <<IncludeFieldOK(b), "include-empty-or-type">> >>)

KubeFields == {"name", "apiVersion", "kind", "executeHookOnEvent", "watchEvent", "executeHookOnSynchronization",
               "keepFullObjectsInMemory", "nameSelector", "labelSelector", "fieldSelector", "namespace", "jqFilter",
               "includeSnapshotsFrom", "allowFailure", "queue", "group"}
KubeFault(b) == FirstBad(<<
  <<DOMAIN b \subseteq KubeFields, "unknown-field">>,
  <<Has(b, "kind"), "kind-missing">>,
  <<Has(b, "kind") => IsStr(b.kind), "kind-type">>,
  <<Has(b, "name") => IsStr(b.name), "name-type">>,
  <<Has(b, "apiVersion") => IsStr(b.apiVersion), "apiVersion-type">>,
  <<Has(b, "apiVersion") /\ IsStr(b.apiVersion) => b.apiVersion \in GoodApiVer, "apiVersion-invalid">>,
  <<Has(b, "executeHookOnEvent") => EventListOK(b.executeHookOnEvent), "event-unknown">>,
  <<Has(b, "watchEvent") => EventListOK(b.watchEvent), "event-unknown">>,
  <<Has(b, "executeHookOnSynchronization") => IsBool(b.executeHookOnSynchronization), "sync-type">>,
  <<Has(b, "keepFullObjectsInMemory") => IsBool(b.keepFullObjectsInMemory), "keep-type">>,
  <<Has(b, "allowFailure") => IsBool(b.allowFailure), "allowFailure-type">>,
  <<Has(b, "jqFilter") => IsStr(b.jqFilter), "jqFilter-type">>,
  <<Has(b, "queue") => IsStr(b.queue), "queue-type">>,
  <<Has(b, "group") => IsStr(b.group), "group-type">>,
  <<IncludeFieldOK(b), "include-empty-or-type">>,
  <<Has(b, "nameSelector") => NameSelOK(b.nameSelector), "nameSelector-invalid">>,
  <<Has(b, "labelSelector") => LabelSelOK(b.labelSelector), "labelSelector-invalid">>,
  <<Has(b, "fieldSelector") => FieldSelOK(b.fieldSelector), "fieldSelector-invalid">>,
  <<Has(b, "namespace") => NamespaceOK(b.namespace), "namespace-invalid">>,
  <<~NameAndFieldClash(b), "nameSelector-and-metadata-name">> >>)

RuleOK(r) ==
  /\ DOMAIN r \subseteq {"apiVersions", "apiGroups", "resources", "operations", "scope"}
  /\ {"apiVersions", "apiGroups", "resources", "operations"} \subseteq DOMAIN r
  /\ StrSeqOK(r.apiVersions, 1) /\ StrSeqOK(r.apiGroups, 1) /\ StrSeqOK(r.resources, 1)
  /\ Len(r.operations) >= 1 /\ \A i \in 1..Len(r.operations) : r.operations[i] \in RuleOps
  /\ Has(r, "scope") => r.scope \in {"Cluster", "Namespaced", "*"}

AdmissionFields == {"name", "group", "includeSnapshotsFrom", "failurePolicy", "sideEffects", "timeoutSeconds",
                    "labelSelector", "namespace", "rules"}
AdmissionFault(b) == FirstBad(<<
  <<DOMAIN b \subseteq AdmissionFields, "unknown-field">>,
  <<Has(b, "name"), "name-missing">>,
  <<Has(b, "name") => IsStr(b.name), "name-type">>,
  <<Has(b, "name") /\ IsStr(b.name) => b.name \in GoodHookName, "name-not-qualified">>,
  <<Has(b, "group") => IsStr(b.group), "group-type">>,
  <<IncludeFieldOK(b), "include-empty-or-type">>,
  <<Has(b, "failurePolicy") => b.failurePolicy \in Policies, "failurePolicy-invalid">>,
  <<Has(b, "sideEffects") => b.sideEffects \in SideEffects, "sideEffects-invalid">>,
  <<Has(b, "timeoutSeconds") => IsInt(b.timeoutSeconds), "timeoutSeconds-type">>,
  <<Has(b, "labelSelector") => LabelSelOK(b.labelSelector), "labelSelector-invalid">>,
  <<Has(b, "namespace") => DOMAIN b.namespace = {"labelSelector"} /\ LabelSelOK(b.namespace.labelSelector), "namespace-invalid">>,
  <<Has(b, "rules") => Len(b.rules) >= 1 /\ \A i \in 1..Len(b.rules) : RuleOK(b.rules[i]), "rules-invalid">> >>)

ConvRuleOK(r) == DOMAIN r = {"fromVersion", "toVersion"} /\ IsStr(r.fromVersion) /\ IsStr(r.toVersion)
ConversionFields == {"name", "group", "includeSnapshotsFrom", "crdName", "conversions"}
ConversionFault(b) == FirstBad(<<
  <<DOMAIN b \subseteq ConversionFields, "unknown-field">>,
  <<Has(b, "name"), "name-missing">>,
  <<Has(b, "name") => IsStr(b.name), "name-type">>,
  <<Has(b, "crdName"), "crdName-missing">>,
  <<Has(b, "crdName") => IsStr(b.crdName), "crdName-type">>,
  <<Has(b, "conversions"), "conversions-missing">>,
  <<Has(b, "conversions") => Len(b.conversions) >= 1 /\ \A i \in 1..Len(b.conversions) : ConvRuleOK(b.conversions[i]), "conversions-invalid">>,
  <<Has(b, "group") => IsStr(b.group), "group-type">>,
  <<IncludeFieldOK(b), "include-empty-or-type">> >>)

SettingsFault(s) == FirstBad(<<
  <<DOMAIN s \subseteq {"executionMinInterval", "executionBurst"}, "unknown-field">>,
  <<Has(s, "executionMinInterval") => IsStr(s.executionMinInterval), "interval-type">>,
  <<Has(s, "executionMinInterval") /\ IsStr(s.executionMinInterval) => s.executionMinInterval \in GoodDuration, "interval-invalid">>,
  <<Has(s, "executionBurst") => IsInt(s.executionBurst), "burst-type">> >>)

SectionFault(doc, f, Check(_)) ==    \* an array section: at least one item, every item valid
  IF ~Has(doc, f) THEN "ok"
  ELSE IF Len(doc[f]) = 0 THEN f \o "/empty-array"
  ELSE LET bad == {i \in 1..Len(doc[f]) : Check(doc[f][i]) # "ok"}
       IN IF bad = {} THEN "ok"
          ELSE LET i == CHOOSE i \in bad : \A j \in bad : i <= j IN f \o "/" \o Check(doc[f][i])

TopFields == {"configVersion", "onStartup", "schedule", "kubernetes", "kubernetesValidating", "kubernetesMutating",
              "kubernetesCustomResourceConversion", "settings"}

VersionFault(doc) ==
  IF ~Has(doc, "configVersion") THEN "version/absent"
  ELSE IF ~IsStr(doc.configVersion) THEN "version/not-a-string"
  ELSE IF doc.configVersion # "v1" THEN "version/unsupported"
  ELSE "ok"

GrammarFault(doc) ==
  LET parts == <<
        VersionFault(doc),
        IF DOMAIN doc \subseteq TopFields THEN "ok" ELSE "top/unknown-field",
        IF Has(doc, "onStartup") /\ ~IsInt(doc.onStartup) THEN "onStartup/type" ELSE "ok",
        IF Has(doc, "settings") /\ SettingsFault(doc.settings) # "ok" THEN "settings/" \o SettingsFault(doc.settings) ELSE "ok",
        SectionFault(doc, "schedule", ScheduleFault),
        SectionFault(doc, "kubernetes", KubeFault),
        SectionFault(doc, "kubernetesValidating", AdmissionFault),
        SectionFault(doc, "kubernetesMutating", AdmissionFault),
        SectionFault(doc, "kubernetesCustomResourceConversion", ConversionFault) >>
      bad == {i \in 1..Len(parts) : parts[i] # "ok"}
  IN IF bad = {} THEN "ok" ELSE parts[CHOOSE i \in bad : \A j \in bad : i <= j]

---------------------------------------------------------------------------------------------------
(* the legacy format ("v0"): a document WITHOUT configVersion.  It has three sections:                *)
(*   onStartup: ORDER                                                                                  *)
(*   schedule:          [{name, crontab, allowFailure}]                                                *)
(*   onKubernetesEvent: [{name, kind, event: [add|update|delete], selector (a label selector),         *)
(*                        objectName, namespaceSelector: {matchNames, any}, jqFilter, allowFailure}]   *)
(* The repository has no prose for it any more; the reference is the statement applied to that format: *)
(* every declared binding in declared order, every declared option in the effective configuration,     *)
(* the defaults of the statement (queue `main` - the format has no queues -, allowFailure false, all   *)
(* three watch events, default binding names `schedule` / `onKubernetesEvent`), no first               *)
(* Synchronization (the format predates it: kemtypes.ModeV0 "No first Synchronization, only Event"),   *)
(* full objects kept (the legacy binding context is rendered from the object), no groups / snapshots.  *)
(* objectName is the name selector with that one name, selector the label selector, namespaceSelector  *)
(* {matchNames} the namespace name selector, {any: true} (or nothing) all namespaces.                  *)

IsV0(doc) == ~Has(doc, "configVersion")

V0TopFields == {"onStartup", "schedule", "onKubernetesEvent"}
V0Events    == {"add", "update", "delete"}
V0EventName(e) == CASE e = "add" -> "Added" [] e = "update" -> "Modified" [] e = "delete" -> "Deleted"

ScheduleV0Fault(b) == FirstBad(<<
  <<DOMAIN b \subseteq {"name", "crontab", "allowFailure"}, "unknown-field">>,
  <<Has(b, "crontab"), "crontab-missing">>,
  <<Has(b, "crontab") => IsStr(b.crontab), "crontab-type">>,
  <<Has(b, "crontab") /\ IsStr(b.crontab) => b.crontab \in GoodCrontab, "crontab-invalid">>,
  <<Has(b, "name") => IsStr(b.name), "name-type">>,
  <<Has(b, "allowFailure") => IsBool(b.allowFailure), "allowFailure-type">> >>)

(* {any: true} | {matchNames: [...]} | {matchNames: [...], any: false}; matchNames next to any: true, and   *)
(* any: false without names, have no evident meaning and are not part of the domain                         *)
NsSelV0OK(s) ==
  /\ DOMAIN s \subseteq {"matchNames", "any"} /\ DOMAIN s # {}
  /\ Has(s, "matchNames") => StrSeqOK(s.matchNames, 1)
  /\ Has(s, "any") => IsBool(s.any)
  /\ Has(s, "any") /\ IsBool(s.any) => (Bool(s.any) <=> ~Has(s, "matchNames"))

KubeV0Fields == {"name", "kind", "event", "selector", "objectName", "namespaceSelector", "jqFilter", "allowFailure"}
KubeV0Fault(b) == FirstBad(<<
  <<DOMAIN b \subseteq KubeV0Fields, "unknown-field">>,
  <<Has(b, "kind"), "kind-missing">>,
  <<Has(b, "kind") => IsStr(b.kind), "kind-type">>,
  <<Has(b, "name") => IsStr(b.name), "name-type">>,
  <<Has(b, "event") => Len(b.event) >= 1, "event-empty">>,          \* an explicitly empty list is not part of the domain
  <<Has(b, "event") => \A i \in 1..Len(b.event) : b.event[i] \in V0Events, "event-unknown">>,
  <<Has(b, "objectName") => IsStr(b.objectName), "objectName-type">>,
  <<Has(b, "jqFilter") => IsStr(b.jqFilter), "jqFilter-type">>,
  <<Has(b, "allowFailure") => IsBool(b.allowFailure), "allowFailure-type">>,
  <<Has(b, "selector") => LabelSelOK(b.selector), "selector-invalid">>,
  <<Has(b, "namespaceSelector") => NsSelV0OK(b.namespaceSelector), "namespaceSelector-invalid">> >>)

ItemsFault(doc, f, Check(_)) ==      \* an array section of the legacy format: every item valid
  IF ~Has(doc, f) THEN "ok"
  ELSE LET bad == {i \in 1..Len(doc[f]) : Check(doc[f][i]) # "ok"}
       IN IF bad = {} THEN "ok"
          ELSE LET i == CHOOSE i \in bad : \A j \in bad : i <= j IN "v0/" \o f \o "/" \o Check(doc[f][i])

GrammarFaultV0(doc) ==
  LET parts == <<
        IF DOMAIN doc \subseteq V0TopFields THEN "ok" ELSE "v0/top/unknown-field",
        IF DOMAIN doc # {} THEN "ok" ELSE "v0/top/empty",
        IF Has(doc, "onStartup") /\ ~IsInt(doc.onStartup) THEN "v0/onStartup/type" ELSE "ok",
        ItemsFault(doc, "schedule", ScheduleV0Fault),
        ItemsFault(doc, "onKubernetesEvent", KubeV0Fault) >>
      bad == {i \in 1..Len(parts) : parts[i] # "ok"}
  IN IF bad = {} THEN "ok" ELSE parts[CHOOSE i \in bad : \A j \in bad : i <= j]

EffScheduleV0(b) ==
  [name |-> Get(b, "name", "schedule"), crontab |-> b.crontab, queue |-> "main",
   allowFailure |-> Bool(Get(b, "allowFailure", "@false")), group |-> "", include |-> <<>>]

EffKubeV0(b) ==
  [name |-> Get(b, "name", "onKubernetesEvent"), kind |-> b.kind, apiVersion |-> "",
   events |-> CanonEvents(IF Has(b, "event") THEN {V0EventName(e) : e \in Range(b.event)} ELSE AllEvents),
   sync |-> FALSE, keep |-> TRUE,
   jqFilter |-> Get(b, "jqFilter", ""), queue |-> "main",
   allowFailure |-> Bool(Get(b, "allowFailure", "@false")), group |-> "", include |-> <<>>]
  @@ (IF Has(b, "objectName") THEN One("nameSelector", [matchNames |-> <<b.objectName>>]) ELSE <<>>)
  @@ (IF Has(b, "selector") THEN One("labelSelector", b.selector) ELSE <<>>)
  @@ (IF Has(b, "namespaceSelector") /\ Has(b.namespaceSelector, "matchNames")
      THEN One("namespace", [nameSelector |-> [matchNames |-> b.namespaceSelector.matchNames]]) ELSE <<>>)

---------------------------------------------------------------------------------------------------
(* names, groups, snapshots.  Only evaluated on documents whose grammar is ok. *)

Kubes(doc)    == Get(doc, "kubernetes", <<>>)
KubeName(b)   == Get(b, "name", "kubernetes")       \* documented default binding names
SchedName(b)  == Get(b, "name", "schedule")
NameCount(doc, n) == Cardinality({i \in 1..Len(Kubes(doc)) : KubeName(Kubes(doc)[i]) = n})

(* names of the kubernetes bindings of group g, in declared order *)
GroupNames(doc, g) ==
  LET ks == Kubes(doc)
      F[i \in 0..Len(ks)] == IF i = 0 THEN <<>>
                             ELSE IF Get(ks[i], "group", "") = g THEN Append(F[i - 1], KubeName(ks[i])) ELSE F[i - 1]
  IN F[Len(ks)]

(* own includeSnapshotsFrom first, then the group's bindings not yet listed; no duplicates added *)
Includes(doc, b) ==
  LET own == Get(b, "includeSnapshotsFrom", <<>>)
      grp == IF Has(b, "group") THEN Dedup(GroupNames(doc, b.group)) ELSE <<>>
  IN own \o SelectSeq(grp, LAMBDA n : n \notin Range(own))

AllBindings(doc) ==   \* every binding that can carry includeSnapshotsFrom / group
  Get(doc, "kubernetes", <<>>) \o Get(doc, "schedule", <<>>) \o Get(doc, "kubernetesValidating", <<>>)
    \o Get(doc, "kubernetesMutating", <<>>) \o Get(doc, "kubernetesCustomResourceConversion", <<>>)

(* "includeSnapshotsFrom must name exactly one kubernetes binding" *)
IncludeFault(doc) ==
  LET bs == AllBindings(doc)
      own(b) == Get(b, "includeSnapshotsFrom", <<>>)
  IN IF \E i \in 1..Len(bs) : \E n \in Range(own(bs[i])) : NameCount(doc, n) = 0 THEN "include/unknown-name"
     ELSE IF \E i \in 1..Len(bs) : \E n \in Range(own(bs[i])) : NameCount(doc, n) > 1 THEN "include/ambiguous-name"
     ELSE IF ~AsIs /\ \E i \in 1..Len(bs) : \E n \in Range(Includes(doc, bs[i])) : NameCount(doc, n) > 1 THEN "group/ambiguous-name"
     ELSE "ok"

(* duplicate validating webhook names cannot be registered *)
HookNameFault(doc) ==
  LET vs == Get(doc, "kubernetesValidating", <<>>)
  IN IF \E i, j \in 1..Len(vs) : i # j /\ vs[i].name = vs[j].name THEN "kubernetesValidating/duplicate-name" ELSE "ok"

RejectReason(doc) ==
  IF IsV0(doc) THEN GrammarFaultV0(doc)
  ELSE IF GrammarFault(doc) # "ok" THEN GrammarFault(doc)
  ELSE IF IncludeFault(doc) # "ok" THEN IncludeFault(doc)
  ELSE HookNameFault(doc)

---------------------------------------------------------------------------------------------------
(* the effective configuration *)

EffSchedule(doc, b) ==
  [name |-> SchedName(b), crontab |-> b.crontab, queue |-> Get(b, "queue", "main"),
   allowFailure |-> Bool(Get(b, "allowFailure", "@false")), group |-> Get(b, "group", ""),
   include |-> Includes(doc, b)]

EffKube(doc, b) ==
  [name |-> KubeName(b), kind |-> b.kind, apiVersion |-> Get(b, "apiVersion", ""),
   events |-> CanonEvents(IF Has(b, "executeHookOnEvent") THEN Range(b.executeHookOnEvent)
                          ELSE IF Has(b, "watchEvent") THEN Range(b.watchEvent) ELSE AllEvents),
   sync |-> Bool(Get(b, "executeHookOnSynchronization", "@true")),
   keep |-> Bool(Get(b, "keepFullObjectsInMemory", "@true")),
   jqFilter |-> Get(b, "jqFilter", ""), queue |-> Get(b, "queue", "main"),
   allowFailure |-> Bool(Get(b, "allowFailure", "@false")), group |-> Get(b, "group", ""),
   include |-> Includes(doc, b)]
  @@ Sub(b, {"nameSelector", "labelSelector", "fieldSelector", "namespace"})      \* selectors verbatim

EffAdmission(doc, b) ==
  [name |-> b.name, group |-> Get(b, "group", ""), include |-> Includes(doc, b),
   failurePolicy |-> Get(b, "failurePolicy", "Fail"), sideEffects |-> Get(b, "sideEffects", "None"),
   timeoutSeconds |-> IntVal(Get(b, "timeoutSeconds", "@n10")), rules |-> Len(Get(b, "rules", <<>>))]

EffConversion(doc, b) ==
  [name |-> b.name, group |-> Get(b, "group", ""), include |-> Includes(doc, b),
   crdName |-> b.crdName, conversions |-> b.conversions]

Map(s, Op(_)) == [i \in 1..Len(s) |-> Op(s[i])]

EffectiveV0(doc) ==
  [schedules  |-> Map(Get(doc, "schedule", <<>>), EffScheduleV0),
   kubernetes |-> Map(Get(doc, "onKubernetesEvent", <<>>), EffKubeV0),
   validating |-> <<>>, mutating |-> <<>>, conversion |-> <<>>]
  @@ (IF Has(doc, "onStartup")
      THEN One("onStartup", [name |-> "onStartup", order |-> IntVal(doc.onStartup), allowFailure |-> FALSE])
      ELSE <<>>)

Effective(doc) ==
  IF RejectReason(doc) # "ok" THEN "reject"
  ELSE IF IsV0(doc) THEN EffectiveV0(doc)
  ELSE [schedules  |-> Map(Get(doc, "schedule", <<>>), LAMBDA b : EffSchedule(doc, b)),
        kubernetes |-> Map(Get(doc, "kubernetes", <<>>), LAMBDA b : EffKube(doc, b)),
        validating |-> Map(Get(doc, "kubernetesValidating", <<>>), LAMBDA b : EffAdmission(doc, b)),
        mutating   |-> Map(Get(doc, "kubernetesMutating", <<>>), LAMBDA b : EffAdmission(doc, b)),
        conversion |-> Map(Get(doc, "kubernetesCustomResourceConversion", <<>>), LAMBDA b : EffConversion(doc, b))]
       @@ (IF Has(doc, "onStartup")
           THEN One("onStartup", [name |-> "onStartup", order |-> IntVal(doc.onStartup), allowFailure |-> FALSE])
           ELSE <<>>)
       @@ (IF Has(doc, "settings")
           THEN One("settings", [intervalMs |-> DurationMs(doc.settings.executionMinInterval),
                                 burst |-> IntVal(doc.settings.executionBurst)])
           ELSE <<>>)

---------------------------------------------------------------------------------------------------
(* single-fault mutations.  Each element: <<class, mutated document>>. *)

SetItem(doc, sect, i, f, v) == Set(doc, sect, [doc[sect] EXCEPT ![i] = Set(@, f, v)])
DelItem(doc, sect, i, f)    == Set(doc, sect, [doc[sect] EXCEPT ![i] = Del(@, f)])

DupNames(doc) == {n \in {KubeName(Kubes(doc)[i]) : i \in 1..Len(Kubes(doc))} : NameCount(doc, n) > 1}

BadLabelSelsRaw == {
  <<"operator", [matchExpressions |-> <<[key |-> "tier", operator |-> "Near", values |-> <<"cache">>]>>]>>,
  <<"in-without-values", [matchExpressions |-> <<[key |-> "tier", operator |-> "In"]>>]>>,
  <<"exists-with-values", [matchExpressions |-> <<[key |-> "tier", operator |-> "Exists", values |-> <<"cache">>]>>]>>,
  <<"bad-key", [matchExpressions |-> <<[key |-> "bad key!", operator |-> "Exists"]>>]>>,
  <<"bad-value", [matchLabels |-> [tier |-> "not a label value!"]]>>,
  <<"bad-label-key", [matchLabels |-> One("bad key!", "cache")]>>,
  <<"unknown-field", [matchLabels |-> [tier |-> "cache"], matchFields |-> <<>>]>>,
  <<"expr-unknown-field", [matchExpressions |-> <<[key |-> "tier", operator |-> "Exists", foo |-> "bar"]>>]>>,
  <<"expr-no-key", [matchExpressions |-> <<[operator |-> "Exists"]>>]>> }
BadLabelSels == {<<"labelSelector-" \o x[1], x[2]>> : x \in BadLabelSelsRaw}

BadFieldSels == {
  <<"fieldSelector-operator", [matchExpressions |-> <<[field |-> "status.phase", operator |-> "In", value |-> "Pending"]>>]>>,
  <<"fieldSelector-no-value", [matchExpressions |-> <<[field |-> "status.phase", operator |-> "Equals"]>>]>>,
  <<"fieldSelector-value-number", [matchExpressions |-> <<[field |-> "status.phase", operator |-> "Equals", value |-> "@n5"]>>]>>,
  <<"fieldSelector-unknown-field", [matchExpressions |-> <<[field |-> "status.phase", operator |-> "Equals", value |-> "Pending"]>>, foo |-> "bar"]>>,
  <<"fieldSelector-no-expressions", [matchLabels |-> [tier |-> "cache"]]>> }

BadNameSels == {
  <<"nameSelector-unknown-field", [matchNames |-> <<"pod-0">>, foo |-> "bar"]>>,
  <<"nameSelector-no-matchNames", [names |-> <<"pod-0">>]>>,
  <<"nameSelector-number-item", [matchNames |-> <<"@n5">>]>> }

BadNamespaces == {
  <<"namespace-unknown-field", [nameSelector |-> [matchNames |-> <<"default">>], foo |-> "bar"]>>,
  <<"namespace-nameSelector-invalid", [nameSelector |-> [names |-> <<"default">>]]>> }
  \cup {<<"namespace-" \o x[1], [labelSelector |-> x[2]]>> : x \in BadLabelSels}

TopFaults(doc) ==
  { <<"top/unknown-field", Set(doc, "foo", "@n1")>>,
    <<"top/unknown-field-v0-key", Set(doc, "onKubernetesEvent", <<[kind |-> "Pod"]>>)>>,
    <<"version/unsupported", Set(doc, "configVersion", "v2")>>,
    <<"version/empty", Set(doc, "configVersion", "")>>,
    <<"version/number", Set(doc, "configVersion", "@n1")>>,
    <<"version/bool", Set(doc, "configVersion", "@true")>>,
    <<"version/null", Set(doc, "configVersion", "@null")>>,
    <<"onStartup/string", Set(doc, "onStartup", "first")>>,
    <<"onStartup/bool", Set(doc, "onStartup", "@true")>>,
    <<"onStartup/float", Set(doc, "onStartup", "@f1.5")>>,
    <<"onStartup/null", Set(doc, "onStartup", "@null")>>,
    <<"schedule/empty-array", Set(doc, "schedule", <<>>)>>,
    <<"kubernetes/empty-array", Set(doc, "kubernetes", <<>>)>>,
    <<"kubernetesValidating/empty-array", Set(doc, "kubernetesValidating", <<>>)>>,
    <<"kubernetesMutating/empty-array", Set(doc, "kubernetesMutating", <<>>)>>,
    <<"kubernetesCustomResourceConversion/empty-array", Set(doc, "kubernetesCustomResourceConversion", <<>>)>>,
    <<"settings/unknown-field", Set(doc, "settings", [executionMinInterval |-> "3s", executionBurst |-> "@n1", foo |-> "bar"])>>,
    <<"settings/burst-string", Set(doc, "settings", [executionMinInterval |-> "3s", executionBurst |-> "many"])>>,
    <<"settings/burst-float", Set(doc, "settings", [executionMinInterval |-> "3s", executionBurst |-> "@f1.5"])>>,
    <<"settings/interval-number", Set(doc, "settings", [executionMinInterval |-> "@n5", executionBurst |-> "@n1"])>>,
    <<"settings/interval-invalid", Set(doc, "settings", [executionMinInterval |-> "30ks", executionBurst |-> "@n1"])>> }
  \cup (IF DOMAIN doc \subseteq {"configVersion", "onStartup", "schedule"} THEN {}
        ELSE {<<"version/absent", Del(doc, "configVersion")>>})   \* without v1-only sections this is a legacy (v0) document

ItemFaults(doc, sect, i) ==   \* faults common to every binding kind that has includeSnapshotsFrom / group / name
  { <<sect \o "/unknown-field", SetItem(doc, sect, i, "foo", "bar")>>,
    <<sect \o "/name-number", SetItem(doc, sect, i, "name", "@n5")>>,
    <<sect \o "/group-number", SetItem(doc, sect, i, "group", "@n5")>>,
    <<sect \o "/include-empty-array", SetItem(doc, sect, i, "includeSnapshotsFrom", <<>>)>>,
    <<sect \o "/include-number-item", SetItem(doc, sect, i, "includeSnapshotsFrom", <<"@n5">>)>>,
    <<sect \o "/include-unknown-name", SetItem(doc, sect, i, "includeSnapshotsFrom", <<"no-such-binding">>)>> }
  \cup {<<sect \o "/include-ambiguous-name", SetItem(doc, sect, i, "includeSnapshotsFrom", <<n>>)>> : n \in DupNames(doc)}

ScheduleFaults(doc, i) ==
  ItemFaults(doc, "schedule", i) \cup
  { <<"schedule/crontab-missing", DelItem(doc, "schedule", i, "crontab")>>,
    <<"schedule/crontab-number", SetItem(doc, "schedule", i, "crontab", "@n5")>>,
    <<"schedule/crontab-garbage", SetItem(doc, "schedule", i, "crontab", "every day at noon")>>,
    <<"schedule/crontab-too-few-fields", SetItem(doc, "schedule", i, "crontab", "* * *")>>,
    <<"schedule/crontab-out-of-range", SetItem(doc, "schedule", i, "crontab", "61 * * * *")>>,
    <<"schedule/crontab-empty", SetItem(doc, "schedule", i, "crontab", "")>>,
    <<"schedule/crontab-zero-step", SetItem(doc, "schedule", i, "crontab", "*/0 * * * *")>>,
    <<"schedule/allowFailure-string", SetItem(doc, "schedule", i, "allowFailure", "yes")>>,
    <<"schedule/allowFailure-number", SetItem(doc, "schedule", i, "allowFailure", "@n1")>>,
    <<"schedule/queue-number", SetItem(doc, "schedule", i, "queue", "@n5")>>,
    <<"schedule/queue-bool", SetItem(doc, "schedule", i, "queue", "@true")>> }

KubeFaults(doc, i) ==
  ItemFaults(doc, "kubernetes", i) \cup
  { <<"kubernetes/unknown-field-mode", SetItem(doc, "kubernetes", i, "mode", "v0")>>,
    <<"kubernetes/unknown-field-v0-key", SetItem(doc, "kubernetes", i, "objectName", "pod-0")>>,
    <<"kubernetes/kind-missing", DelItem(doc, "kubernetes", i, "kind")>>,
    <<"kubernetes/kind-number", SetItem(doc, "kubernetes", i, "kind", "@n5")>>,
    <<"kubernetes/kind-null", SetItem(doc, "kubernetes", i, "kind", "@null")>>,
    <<"kubernetes/apiVersion-invalid", SetItem(doc, "kubernetes", i, "apiVersion", "a/b/c")>>,
    <<"kubernetes/apiVersion-number", SetItem(doc, "kubernetes", i, "apiVersion", "@n1")>>,
    <<"kubernetes/executeHookOnEvent-unknown", SetItem(doc, "kubernetes", i, "executeHookOnEvent", <<"Added", "Created">>)>>,
    <<"kubernetes/watchEvent-unknown", SetItem(doc, "kubernetes", i, "watchEvent", <<"Updated">>)>>,
    <<"kubernetes/executeHookOnEvent-lowercase", SetItem(doc, "kubernetes", i, "executeHookOnEvent", <<"added">>)>>,
    <<"kubernetes/sync-string", SetItem(doc, "kubernetes", i, "executeHookOnSynchronization", "sometimes")>>,
    <<"kubernetes/sync-quoted-false", SetItem(doc, "kubernetes", i, "executeHookOnSynchronization", "false")>>,
    <<"kubernetes/sync-number", SetItem(doc, "kubernetes", i, "executeHookOnSynchronization", "@n1")>>,
    <<"kubernetes/keep-string", SetItem(doc, "kubernetes", i, "keepFullObjectsInMemory", "no")>>,
    <<"kubernetes/allowFailure-string", SetItem(doc, "kubernetes", i, "allowFailure", "yes")>>,
    <<"kubernetes/jqFilter-number", SetItem(doc, "kubernetes", i, "jqFilter", "@n5")>>,
    <<"kubernetes/queue-number", SetItem(doc, "kubernetes", i, "queue", "@n5")>>,
    <<"kubernetes/nameSelector-and-metadata-name",
      SetItem(SetItem(doc, "kubernetes", i, "nameSelector", [matchNames |-> <<"pod-0">>]), "kubernetes", i, "fieldSelector",
              [matchExpressions |-> <<[field |-> "metadata.name", operator |-> "Equals", value |-> "pod-1"]>>])>> }
  \cup {<<"kubernetes/" \o x[1], SetItem(doc, "kubernetes", i, "labelSelector", x[2])>> : x \in BadLabelSels}
  \cup {<<"kubernetes/" \o x[1], SetItem(doc, "kubernetes", i, "fieldSelector", x[2])>> : x \in BadFieldSels}
  \cup {<<"kubernetes/" \o x[1], SetItem(doc, "kubernetes", i, "nameSelector", x[2])>> : x \in BadNameSels}
  \cup {<<"kubernetes/" \o x[1], SetItem(doc, "kubernetes", i, "namespace", x[2])>> : x \in BadNamespaces}

AdmissionFaults(doc, sect, i) ==
  ItemFaults(doc, sect, i) \cup
  { <<sect \o "/name-missing", DelItem(doc, sect, i, "name")>>,
    <<sect \o "/failurePolicy-invalid", SetItem(doc, sect, i, "failurePolicy", "Sometimes")>>,
    <<sect \o "/sideEffects-invalid", SetItem(doc, sect, i, "sideEffects", "Some")>>,
    <<sect \o "/timeoutSeconds-string", SetItem(doc, sect, i, "timeoutSeconds", "soon")>>,
    <<sect \o "/rules-empty-array", SetItem(doc, sect, i, "rules", <<>>)>>,
    <<sect \o "/rules-operation-unknown", SetItem(doc, sect, i, "rules",
        <<[apiVersions |-> <<"v1">>, apiGroups |-> <<"stable.example.com">>, resources |-> <<"crontabs">>, operations |-> <<"PATCH">>]>>)>>,
    <<sect \o "/rules-missing-resources", SetItem(doc, sect, i, "rules",
        <<[apiVersions |-> <<"v1">>, apiGroups |-> <<"stable.example.com">>, operations |-> <<"CREATE">>]>>)>>,
    <<sect \o "/labelSelector-in-without-values", SetItem(doc, sect, i, "labelSelector",
        [matchExpressions |-> <<[key |-> "tier", operator |-> "In"]>>])>>,
    <<sect \o "/namespace-labelSelector-in-without-values", SetItem(doc, sect, i, "namespace",
        [labelSelector |-> [matchExpressions |-> <<[key |-> "tier", operator |-> "In"]>>]])>> }
  \cup (IF sect = "kubernetesValidating"
        THEN {<<sect \o "/name-not-qualified", SetItem(doc, sect, i, "name", "snapshots")>>} ELSE {})

ConversionFaults(doc, i) ==
  LET sect == "kubernetesCustomResourceConversion" IN
  ItemFaults(doc, sect, i) \cup
  { <<sect \o "/name-missing", DelItem(doc, sect, i, "name")>>,
    <<sect \o "/crdName-missing", DelItem(doc, sect, i, "crdName")>>,
    <<sect \o "/conversions-missing", DelItem(doc, sect, i, "conversions")>>,
    <<sect \o "/conversions-empty-array", SetItem(doc, sect, i, "conversions", <<>>)>>,
    <<sect \o "/conversions-no-toVersion", SetItem(doc, sect, i, "conversions", <<[fromVersion |-> "v1beta1"]>>)>>,
    <<sect \o "/conversions-unknown-field", SetItem(doc, sect, i, "conversions",
        <<[fromVersion |-> "v1beta1", toVersion |-> "v1", via |-> "v1beta2"]>>)>> }

SectFaults(doc, sect, F(_, _)) == IF Has(doc, sect) THEN UNION {F(doc, i) : i \in 1..Len(doc[sect])} ELSE {}

Faults(doc) ==
  TopFaults(doc)
  \cup SectFaults(doc, "schedule", ScheduleFaults)
  \cup SectFaults(doc, "kubernetes", KubeFaults)
  \cup SectFaults(doc, "kubernetesValidating", LAMBDA d, i : AdmissionFaults(d, "kubernetesValidating", i))
  \cup SectFaults(doc, "kubernetesMutating", LAMBDA d, i : AdmissionFaults(d, "kubernetesMutating", i))
  \cup SectFaults(doc, "kubernetesCustomResourceConversion", ConversionFaults)

(* single-fault mutations of a legacy document: the classes the statement names that exist in that format *)
V0SchedFaults(doc, i) ==
  { <<"v0/schedule/crontab-missing", DelItem(doc, "schedule", i, "crontab")>>,
    <<"v0/schedule/crontab-garbage", SetItem(doc, "schedule", i, "crontab", "every day at noon")>>,
    <<"v0/schedule/crontab-too-few-fields", SetItem(doc, "schedule", i, "crontab", "* * *")>>,
    <<"v0/schedule/crontab-out-of-range", SetItem(doc, "schedule", i, "crontab", "61 * * * *")>>,
    <<"v0/schedule/crontab-zero-step", SetItem(doc, "schedule", i, "crontab", "*/0 * * * *")>>,
    <<"v0/schedule/allowFailure-string", SetItem(doc, "schedule", i, "allowFailure", "yes")>> }

V0KubeFaults(doc, i) ==
  { <<"v0/onKubernetesEvent/event-unknown", SetItem(doc, "onKubernetesEvent", i, "event", <<"add", "create">>)>>,
    <<"v0/onKubernetesEvent/event-v1-name", SetItem(doc, "onKubernetesEvent", i, "event", <<"Added">>)>>,
    <<"v0/onKubernetesEvent/allowFailure-string", SetItem(doc, "onKubernetesEvent", i, "allowFailure", "yes")>> }

(* unknown keys inside the items: a slip, or - the realistic case - keys of the v1 format in a document whose configVersion
   was forgotten (`queue`, `group`, `includeSnapshotsFrom` of a schedule; `apiVersion` of a kubernetes binding) *)
V0SchedKeyFaults(doc, i) ==
  {<<"v0/unknown-item-key/schedule", SetItem(doc, "schedule", i, x[1], x[2])>> :
     x \in {<<"foo", "bar">>, <<"queue", "q1">>, <<"group", "g">>, <<"includeSnapshotsFrom", <<"monitor pods">> >>}}
V0KubeKeyFaults(doc, i) ==
  {<<"v0/unknown-item-key/kube", SetItem(doc, "onKubernetesEvent", i, x[1], x[2])>> :
     x \in {<<"foo", "bar">>, <<"apiVersion", "v1">>, <<"queue", "q1">>, <<"executeHookOnEvent", <<"Added">> >>}}

(* invalid label selectors in `selector`: the classes of the v1 format + NotIn without values *)
V0BadSels == BadLabelSelsRaw \cup
  {<<"notin-without-values", [matchExpressions |-> <<[key |-> "tier", operator |-> "NotIn"]>>]>>}
V0SelectorFaults(doc, i) ==
  {<<"v0/invalid-selector/" \o x[1], SetItem(doc, "onKubernetesEvent", i, "selector", x[2])>> : x \in V0BadSels}

FaultsV0(doc) ==
  SectFaults(doc, "schedule", V0SchedKeyFaults)
  \cup SectFaults(doc, "onKubernetesEvent", V0KubeKeyFaults)
  \cup SectFaults(doc, "onKubernetesEvent", V0SelectorFaults)
  \cup
  { <<"v0/top/unknown-field", Set(doc, "foo", "@n1")>>,
    <<"v0/top/unknown-field-v1-key", Set(doc, "kubernetes", <<[kind |-> "Pod"]>>)>>,
    <<"v0/version/unsupported", Set(doc, "configVersion", "v0")>>,
    <<"v0/onStartup/string", Set(doc, "onStartup", "first")>>,
    <<"v0/onStartup/bool", Set(doc, "onStartup", "@true")>> }
  \cup SectFaults(doc, "schedule", V0SchedFaults)
  \cup SectFaults(doc, "onKubernetesEvent", V0KubeFaults)

---------------------------------------------------------------------------------------------------
(* the bounded document domain, in strata *)

V1 == [configVersion |-> "v1"]
Pod == {[kind |-> "Pod"]}
EvLists == {<<>>, <<"Modified">>, <<"Added", "Deleted">>, <<"Deleted", "Modified", "Added">>}

(* kopt: one kubernetes binding, every combination of the scalar options *)
KOpt == MergeAll(<<Pod, Opt("name", {"pods"}), Opt("apiVersion", GoodApiVer), Opt("executeHookOnEvent", EvLists),
                   Opt("watchEvent", EvLists), Opt("executeHookOnSynchronization", BoolLit),
                   Opt("keepFullObjectsInMemory", BoolLit), Opt("jqFilter", {".metadata.labels"}),
                   Opt("queue", {"q1"}), Opt("allowFailure", BoolLit)>>)
DocsKOpt == {V1 @@ [kubernetes |-> <<k>>] : k \in KOpt}

(* kopt2: two kubernetes bindings with independent option sets (an option of one binding must not leak into the other) *)
KOptSmall == MergeAll(<<{[kind |-> "Pod"], [kind |-> "ConfigMap"]}, Opt("name", {"pods"}), Opt("executeHookOnEvent", {<<"Modified">>}),
                        Opt("executeHookOnSynchronization", {"@false"}), Opt("keepFullObjectsInMemory", {"@false"}),
                        Opt("queue", {"q1"}), Opt("allowFailure", {"@true"})>>)
DocsKOpt2 == {V1 @@ [kubernetes |-> <<k1, k2>>] : k1 \in KOptSmall, k2 \in KOptSmall}

(* ksel: one kubernetes binding, every combination of selectors *)
NameSels  == {[matchNames |-> <<>>], [matchNames |-> <<"pod-0", "pod-1">>]}
LabelSels == {[matchLabels |-> [myLabel |-> "myLabelValue"]],
              [matchLabels |-> One("node-role.kubernetes.io/master", "")],
              [matchExpressions |-> <<[key |-> "tier", operator |-> "In", values |-> <<"cache">>]>>],
              [matchLabels |-> [myLabel |-> "myLabelValue", env |-> "prod"],
               matchExpressions |-> <<[key |-> "env", operator |-> "Exists"],
                                       [key |-> "tier", operator |-> "NotIn", values |-> <<"cache", "db">>]>>]}
FieldSels == {[matchExpressions |-> <<[field |-> "status.phase", operator |-> "Equals", value |-> "Pending"]>>],
              [matchExpressions |-> <<[field |-> "metadata.namespace", operator |-> "!=", value |-> "default"],
                                       [field |-> "status.phase", operator |-> "==", value |-> "Running"]>>]}
Namespaces == {[nameSelector |-> [matchNames |-> <<"default", "proj-stage">>]],
               [labelSelector |-> [matchLabels |-> [env |-> "prod"]]],
               [nameSelector |-> [matchNames |-> <<"default">>],
                labelSelector |-> [matchExpressions |-> <<[key |-> "env", operator |-> "In", values |-> <<"prod">>]>>]]}
KSel == MergeAll(<<Pod, Opt("nameSelector", NameSels), Opt("labelSelector", LabelSels), Opt("fieldSelector", FieldSels),
                   Opt("namespace", Namespaces), Opt("jqFilter", {".metadata.labels"}), Opt("keepFullObjectsInMemory", {"@false"})>>)
DocsKSel == {V1 @@ [kubernetes |-> <<k>>] : k \in KSel}

(* cross: names, groups and includes across <= 2 kubernetes bindings and <= 1 schedule *)
KCross == MergeAll(<<Pod, Opt("name", {"a", "b"}), Opt("group", {"g", "h"}),
                     Opt("includeSnapshotsFrom", {<<"a">>, <<"b">>, <<"a", "b">>, <<"kubernetes">>})>>)
SCross == MergeAll(<<{[crontab |-> "* * * * *"]}, Opt("group", {"g", "h"}),
                     Opt("includeSnapshotsFrom", {<<"a">>, <<"b", "a">>, <<"kubernetes">>})>>)
DocsCross == {V1 @@ Section("kubernetes", ks) @@ Section("schedule", ss) :
                ks \in SeqsUpTo(KCross, 0, 2), ss \in SeqsUpTo(SCross, 0, 1)} \ {V1}

(* cross2: two schedules next to <= 2 kubernetes bindings *)
K2 == MergeAll(<<Pod, Opt("name", {"a"}), Opt("group", {"g"})>>)
S2 == MergeAll(<<{[crontab |-> "*/5 * * * *"]}, Opt("name", {"s"}), Opt("group", {"g"}),
                 Opt("includeSnapshotsFrom", {<<"a">>, <<"kubernetes">>})>>)
DocsCross2 == {V1 @@ [kubernetes |-> ks, schedule |-> ss] : ks \in SeqsUpTo(K2, 1, 2), ss \in SeqsUpTo(S2, 2, 2)}

(* sched: schedule options, onStartup, settings *)
SOpt == MergeAll(<<{[crontab |-> x] : x \in GoodCrontab}, Opt("name", {"every"}), Opt("queue", {"q1"}),
                   Opt("allowFailure", BoolLit), Opt("group", {"g"})>>)
SSecond == MergeAll(<<{[crontab |-> "*/5 * * * *"]}, Opt("name", {"every", "other"}), Opt("queue", {"q1", "q2"})>>)
SchedSeqs == {<<>>} \cup {<<s>> : s \in SOpt} \cup {<<s, t>> : s \in SOpt, t \in SSecond}
DocsSched == {V1 @@ Section("schedule", ss) @@ o @@ st :
                ss \in SchedSeqs, o \in Opt("onStartup", {"@n5"}),
                st \in Opt("settings", {[executionMinInterval |-> d, executionBurst |-> "@n2"] : d \in GoodDuration})} \ {V1}

(* hooks: admission and conversion bindings next to kubernetes bindings and a schedule (coarse) *)
Rules == <<[apiVersions |-> <<"v1">>, apiGroups |-> <<"stable.example.com">>, resources |-> <<"crontabs">>,
            operations |-> <<"CREATE", "UPDATE">>, scope |-> "Namespaced"]>>
AdmOpt(n) == MergeAll(<<{[name |-> n, rules |-> Rules]}, Opt("group", {"g"}), Opt("includeSnapshotsFrom", {<<"a">>}),
                        Opt("failurePolicy", {"Ignore"}), Opt("timeoutSeconds", {"@n5"})>>)
ConvOpt == MergeAll(<<{[name |-> "conv", crdName |-> "crontabs.stable.example.com",
                        conversions |-> <<[fromVersion |-> "v1beta1", toVersion |-> "v1"],
                                          [fromVersion |-> "stable.example.com/v1", toVersion |-> "stable.example.com/v2"]>>]},
                      Opt("group", {"g"}), Opt("includeSnapshotsFrom", {<<"a">>, <<"kubernetes">>})>>)
HookParts == {Section("kubernetesValidating", <<v>>) : v \in AdmOpt("val.example.com")}
        \cup {Section("kubernetesMutating", <<m>>) : m \in AdmOpt("mut.example.com")}
        \cup {Section("kubernetesCustomResourceConversion", <<x>>) : x \in ConvOpt}
        \cup {[kubernetesValidating |-> <<v>>, kubernetesMutating |-> <<m>>, kubernetesCustomResourceConversion |-> <<x>>] :
                v \in AdmOpt("val.example.com") \cap {b \in AdmOpt("val.example.com") : ~Has(b, "timeoutSeconds")},
                m \in {b \in AdmOpt("mut.example.com") : ~Has(b, "failurePolicy") /\ ~Has(b, "timeoutSeconds")},
                x \in {b \in ConvOpt : Get(b, "includeSnapshotsFrom", <<>>) # <<"kubernetes">>}}
DocsHooks == {V1 @@ Section("kubernetes", ks) @@ h @@ Section("schedule", ss) :
                ks \in SeqsUpTo(K2, 0, 2), h \in HookParts,
                ss \in {<<>>, <<[crontab |-> "* * * * *", group |-> "g"]>>}}

(* v0kube / v0sched: legacy documents (no configVersion) with every option of that format *)
KV0 == MergeAll(<<{[kind |-> "pod"]}, Opt("name", {"monitor pods"}),
                  Opt("event", {<<"add">>, <<"update", "delete">>, <<"delete", "update", "add">>}),
                  Opt("selector", {[matchLabels |-> [myLabel |-> "myLabelValue"]],
                                   [matchExpressions |-> <<[key |-> "tier", operator |-> "In", values |-> <<"cache">>]>>]}),
                  Opt("objectName", {"pod-0"}),
                  Opt("namespaceSelector", {[any |-> "@true"], [matchNames |-> <<"default", "proj-stage">>],
                                            [matchNames |-> <<"default">>, any |-> "@false"]}),
                  Opt("jqFilter", {".metadata.labels"}), Opt("allowFailure", BoolLit)>>)
(* two bindings with independent option sets (an option of one binding must not leak into the other) *)
KV0Small == MergeAll(<<{[kind |-> "pod"], [kind |-> "configmap"]}, Opt("name", {"monitor pods"}), Opt("event", {<<"update">>}),
                       Opt("objectName", {"pod-0"}), Opt("allowFailure", {"@true"})>>)
DocsV0Kube == {o @@ [onKubernetesEvent |-> <<k>>] : k \in KV0, o \in Opt("onStartup", {"@n5"})}
         \cup {[onKubernetesEvent |-> <<k1, k2>>] : k1 \in KV0Small, k2 \in KV0Small}

SV0 == MergeAll(<<{[crontab |-> x] : x \in GoodCrontab}, Opt("name", {"every"}), Opt("allowFailure", BoolLit)>>)
SV0Second == MergeAll(<<{[crontab |-> "*/5 * * * *"]}, Opt("name", {"other"}), Opt("allowFailure", {"@true"})>>)
SchedSeqsV0 == {<<>>} \cup {<<s>> : s \in SV0} \cup {<<s, t>> : s \in SV0, t \in SV0Second}
DocsV0Sched == {Section("schedule", ss) @@ o @@ Section("onKubernetesEvent", ks) :
                  ss \in SchedSeqsV0, o \in Opt("onStartup", {"@n5"}),
                  ks \in {<<>>, <<[kind |-> "pod"]>>, <<[kind |-> "pod", name |-> "monitor pods", allowFailure |-> "@true"]>>}} \ {<<>>}

FaultBaseV0 == {
  [onStartup |-> "@n5",
   schedule |-> <<[name |-> "every", crontab |-> "*/5 * * * *", allowFailure |-> "@true"], [crontab |-> "* * * * *"]>>,
   onKubernetesEvent |-> <<[name |-> "monitor pods", kind |-> "pod", event |-> <<"add", "delete">>, objectName |-> "pod-0",
                            selector |-> [matchLabels |-> [myLabel |-> "myLabelValue"]],
                            namespaceSelector |-> [matchNames |-> <<"default">>], jqFilter |-> ".metadata.labels",
                            allowFailure |-> "@true"], [kind |-> "configmap"]>>],
  [schedule |-> <<[crontab |-> "* * * * *"]>>],
  [onKubernetesEvent |-> <<[kind |-> "pod"]>>] }

(* fault: base documents to which every single-fault mutation is applied *)
FullKube == [name |-> "a", kind |-> "Pod", apiVersion |-> "v1", executeHookOnEvent |-> <<"Modified">>,
             executeHookOnSynchronization |-> "@false", keepFullObjectsInMemory |-> "@false",
             jqFilter |-> ".metadata.labels", queue |-> "q1", allowFailure |-> "@true", group |-> "g",
             includeSnapshotsFrom |-> <<"b">>,
             labelSelector |-> [matchLabels |-> [myLabel |-> "myLabelValue"]],
             namespace |-> [nameSelector |-> [matchNames |-> <<"default">>]]]
FaultBase == {
  V1 @@ [onStartup |-> "@n5",
         settings |-> [executionMinInterval |-> "3s", executionBurst |-> "@n1"],
         schedule |-> <<[name |-> "every", crontab |-> "*/5 * * * *", queue |-> "q1", allowFailure |-> "@true",
                         group |-> "g", includeSnapshotsFrom |-> <<"a">>], [crontab |-> "* * * * *"]>>,
         kubernetes |-> <<FullKube, [name |-> "b", kind |-> "ConfigMap"]>>,
         kubernetesValidating |-> <<[name |-> "val.example.com", rules |-> Rules, includeSnapshotsFrom |-> <<"a">>]>>,
         kubernetesMutating |-> <<[name |-> "mut.example.com", rules |-> Rules, group |-> "g"]>>,
         kubernetesCustomResourceConversion |-> <<[name |-> "conv", crdName |-> "crontabs.stable.example.com",
                                                    conversions |-> <<[fromVersion |-> "v1beta1", toVersion |-> "v1"]>>]>>],
  V1 @@ [kubernetes |-> <<[kind |-> "Pod"]>>],
  V1 @@ [schedule |-> <<[crontab |-> "* * * * *"]>>],
  V1 @@ [onStartup |-> "@n1"],
  V1 @@ [kubernetes |-> <<[name |-> "a", kind |-> "Pod"], [name |-> "a", kind |-> "ConfigMap"]>>,
         schedule |-> <<[crontab |-> "* * * * *"]>>],
  V1 @@ [kubernetes |-> <<[kind |-> "Pod"], [kind |-> "ConfigMap"]>>, schedule |-> <<[crontab |-> "* * * * *"]>>,
         kubernetesValidating |-> <<[name |-> "val.example.com", rules |-> Rules]>>] }

Pick(S) == IF SampleK = 0 \/ Cardinality(S) <= SampleK THEN S ELSE RandomSubset(SampleK, S)
PickHalf(S) == IF SampleK = 0 \/ 2 * Cardinality(S) <= SampleK THEN S ELSE RandomSubset(SampleK \div 2, S)

Case(st, f, d, b) == [stratum |-> st, fault |-> f, doc |-> d, base |-> b, why |-> RejectReason(d), eff |-> Effective(d)]

FromStratum(name, S) == name \in Strata /\ \E d \in Pick(S) : c = Case(name, "none", d, d)

Init == \/ FromStratum("kopt", DocsKOpt)
        \/ FromStratum("kopt2", DocsKOpt2)
        \/ FromStratum("ksel", DocsKSel)
        \/ FromStratum("cross", {d \in DocsCross : RejectReason(d) = "ok"})        \* sampled separately:
        \/ FromStratum("crossrej", {d \in DocsCross : RejectReason(d) # "ok"})    \* most combinations are rejected
        \/ FromStratum("cross2", DocsCross2)
        \/ FromStratum("sched", DocsSched)
        \/ FromStratum("hooks", DocsHooks)
        \/ "v0kube" \in Strata /\ \E d \in PickHalf(DocsV0Kube) : c = Case("v0kube", "none", d, d)
        \/ FromStratum("v0sched", DocsV0Sched)
        \/ "v0fault" \in Strata /\ \E b \in FaultBaseV0 : c = Case("v0fault", "none", b, b)
        \/ "v0fault" \in Strata /\ \E b \in FaultBaseV0 : \E f \in FaultsV0(b) : c = Case("v0fault", f[1], f[2], b)
        \/ "fault" \in Strata /\ \E b \in FaultBase : c = Case("fault", "none", b, b)
        \/ "fault" \in Strata /\ \E b \in FaultBase : \E f \in Faults(b) : c = Case("fault", f[1], f[2], b)
Next == UNCHANGED c
Spec == Init /\ [][Next]_c

---------------------------------------------------------------------------------------------------
(* the clauses of the statement, as invariants of the reference function *)

Eff == c.eff
Loaded == c.why = "ok"

(* the generator only produces documents of the documented grammar *)
DomainWellFormed == c.fault = "none" => (IF IsV0(c.doc) THEN GrammarFaultV0(c.doc) ELSE GrammarFault(c.doc)) = "ok"

(* exactly the declared bindings, in declared order, every declared option in the effective configuration *)
FaithfulLoad ==
  Loaded /\ ~IsV0(c.doc) =>
    LET ks == Get(c.doc, "kubernetes", <<>>)  ss == Get(c.doc, "schedule", <<>>) IN
    /\ Len(Eff.kubernetes) = Len(ks) /\ Len(Eff.schedules) = Len(ss)
    /\ Len(Eff.validating) = Len(Get(c.doc, "kubernetesValidating", <<>>))
    /\ Len(Eff.mutating) = Len(Get(c.doc, "kubernetesMutating", <<>>))
    /\ Len(Eff.conversion) = Len(Get(c.doc, "kubernetesCustomResourceConversion", <<>>))
    /\ Has(Eff, "onStartup") <=> Has(c.doc, "onStartup")
    /\ Has(Eff, "settings") <=> Has(c.doc, "settings")
    /\ \A i \in 1..Len(ks) :
         LET b == ks[i]  e == Eff.kubernetes[i] IN
         /\ e.kind = b.kind
         /\ Has(b, "name") => e.name = b.name
         /\ Has(b, "queue") => e.queue = b.queue
         /\ Has(b, "group") => e.group = b.group
         /\ Has(b, "jqFilter") => e.jqFilter = b.jqFilter
         /\ Has(b, "apiVersion") => e.apiVersion = b.apiVersion
         /\ Has(b, "allowFailure") => e.allowFailure = Bool(b.allowFailure)
         /\ Has(b, "executeHookOnSynchronization") => e.sync = Bool(b.executeHookOnSynchronization)
         /\ Has(b, "keepFullObjectsInMemory") => e.keep = Bool(b.keepFullObjectsInMemory)
         /\ Has(b, "executeHookOnEvent") => Range(e.events) = Range(b.executeHookOnEvent)      \* takes precedence
         /\ ~Has(b, "executeHookOnEvent") /\ Has(b, "watchEvent") => Range(e.events) = Range(b.watchEvent)
         /\ \A f \in {"nameSelector", "labelSelector", "fieldSelector", "namespace"} : Has(b, f) <=> Has(e, f)
         /\ \A f \in {"nameSelector", "labelSelector", "fieldSelector", "namespace"} : Has(b, f) => e[f] = b[f]
         /\ \A n \in Range(Get(b, "includeSnapshotsFrom", <<>>)) : n \in Range(e.include)
    /\ \A i \in 1..Len(ss) :
         LET b == ss[i]  e == Eff.schedules[i] IN
         /\ e.crontab = b.crontab
         /\ Has(b, "name") => e.name = b.name
         /\ Has(b, "queue") => e.queue = b.queue
         /\ Has(b, "group") => e.group = b.group
         /\ Has(b, "allowFailure") => e.allowFailure = Bool(b.allowFailure)
         /\ \A n \in Range(Get(b, "includeSnapshotsFrom", <<>>)) : n \in Range(e.include)

(* the documented defaults *)
Defaults ==
  Loaded /\ ~IsV0(c.doc) =>
    LET ks == Get(c.doc, "kubernetes", <<>>)  ss == Get(c.doc, "schedule", <<>>) IN
    /\ \A i \in 1..Len(ks) :
         LET b == ks[i]  e == Eff.kubernetes[i] IN
         /\ ~Has(b, "name") => e.name = "kubernetes"
         /\ ~Has(b, "queue") => e.queue = "main"
         /\ ~Has(b, "allowFailure") => e.allowFailure = FALSE
         /\ ~Has(b, "executeHookOnSynchronization") => e.sync = TRUE
         /\ ~Has(b, "keepFullObjectsInMemory") => e.keep = TRUE
         /\ ~Has(b, "executeHookOnEvent") /\ ~Has(b, "watchEvent") => e.events = <<"Added", "Modified", "Deleted">>
         /\ ~Has(b, "group") /\ ~Has(b, "includeSnapshotsFrom") => e.include = <<>>
    /\ \A i \in 1..Len(ss) :
         LET b == ss[i]  e == Eff.schedules[i] IN
         /\ ~Has(b, "name") => e.name = "schedule"
         /\ ~Has(b, "queue") => e.queue = "main"
         /\ ~Has(b, "allowFailure") => e.allowFailure = FALSE
    /\ Has(Eff, "onStartup") => Eff.onStartup.name = "onStartup" /\ Eff.onStartup.allowFailure = FALSE
    /\ \A i \in 1..Len(Eff.validating) :
         LET b == c.doc.kubernetesValidating[i]  e == Eff.validating[i] IN
         /\ ~Has(b, "failurePolicy") => e.failurePolicy = "Fail"
         /\ ~Has(b, "sideEffects") => e.sideEffects = "None"
         /\ ~Has(b, "timeoutSeconds") => e.timeoutSeconds = 10

(* the legacy format: exactly the declared bindings in declared order, every declared option in the effective
   configuration, the defaults of the statement for everything not declared *)
LegacyLoad ==
  Loaded /\ IsV0(c.doc) =>
    LET ks == Get(c.doc, "onKubernetesEvent", <<>>)  ss == Get(c.doc, "schedule", <<>>) IN
    /\ Len(Eff.kubernetes) = Len(ks) /\ Len(Eff.schedules) = Len(ss)
    /\ Eff.validating = <<>> /\ Eff.mutating = <<>> /\ Eff.conversion = <<>> /\ ~Has(Eff, "settings")
    /\ Has(Eff, "onStartup") <=> Has(c.doc, "onStartup")
    /\ Has(Eff, "onStartup") => Eff.onStartup.name = "onStartup" /\ Eff.onStartup.allowFailure = FALSE
    /\ \A i \in 1..Len(ks) :
         LET b == ks[i]  e == Eff.kubernetes[i] IN
         /\ e.kind = b.kind /\ e.queue = "main" /\ e.keep = TRUE /\ e.sync = FALSE /\ e.group = "" /\ e.include = <<>>
         /\ e.name = (IF Has(b, "name") THEN b.name ELSE "onKubernetesEvent")
         /\ e.allowFailure = (IF Has(b, "allowFailure") THEN Bool(b.allowFailure) ELSE FALSE)
         /\ e.jqFilter = (IF Has(b, "jqFilter") THEN b.jqFilter ELSE "")
         /\ Has(b, "event") => Cardinality(Range(e.events)) = Cardinality(Range(b.event))
         /\ ~Has(b, "event") => e.events = <<"Added", "Modified", "Deleted">>
         /\ Has(e, "nameSelector") <=> Has(b, "objectName")
         /\ Has(b, "objectName") => e.nameSelector.matchNames = <<b.objectName>>
         /\ Has(e, "labelSelector") <=> Has(b, "selector")
         /\ Has(b, "selector") => e.labelSelector = b.selector
         /\ Has(e, "namespace") <=> (Has(b, "namespaceSelector") /\ ~Bool(Get(b.namespaceSelector, "any", "@false")))
         /\ Has(e, "namespace") => e.namespace.nameSelector.matchNames = b.namespaceSelector.matchNames
         /\ ~Has(e, "fieldSelector")
    /\ \A i \in 1..Len(ss) :
         LET b == ss[i]  e == Eff.schedules[i] IN
         /\ e.crontab = b.crontab /\ e.queue = "main" /\ e.group = "" /\ e.include = <<>>
         /\ e.name = (IF Has(b, "name") THEN b.name ELSE "schedule")
         /\ e.allowFailure = (IF Has(b, "allowFailure") THEN Bool(b.allowFailure) ELSE FALSE)

(* every single-fault mutation of a loadable document is rejected, and it is the only fault *)
FaultRejected ==
  c.fault # "none" => /\ c.why # "ok"
                      /\ RejectReason(c.base) = "ok" /\ c.doc # c.base

(* group members receive the snapshots of every kubernetes binding of the group; every snapshot name is
   either declared by the binding or comes from its group; each name resolves to exactly one binding *)
EffBindings == Eff.kubernetes \o Eff.schedules \o Eff.validating \o Eff.mutating \o Eff.conversion
GroupSnapshots ==
  Loaded /\ ~IsV0(c.doc) =>
    LET ds == AllBindings(c.doc)  es == EffBindings IN
    /\ Len(ds) = Len(es)
    /\ \A i \in 1..Len(ds) :
         LET inc == es[i].include  own == Get(ds[i], "includeSnapshotsFrom", <<>>) IN
         /\ NoDup(inc)
         /\ \A n \in Range(inc) : NameCount(c.doc, n) = 1
         /\ SubSeq(inc, 1, Len(own)) = own                                          \* own list first, order kept
         /\ Has(ds[i], "group") =>
              \A j \in 1..Len(Kubes(c.doc)) :
                Get(Kubes(c.doc)[j], "group", "") = ds[i].group => KubeName(Kubes(c.doc)[j]) \in Range(inc)
         /\ \A n \in Range(inc) :
              \/ n \in Range(own)
              \/ Has(ds[i], "group") /\ \E j \in 1..Len(Kubes(c.doc)) :
                     Get(Kubes(c.doc)[j], "group", "") = ds[i].group /\ KubeName(Kubes(c.doc)[j]) = n
         /\ \A p, q \in 1..Len(inc) :      \* group part keeps the declared order of the kubernetes bindings
              (p < q /\ p > Len(own)) =>
                \E j, k \in 1..Len(Kubes(c.doc)) : j < k /\ KubeName(Kubes(c.doc)[j]) = inc[p] /\ KubeName(Kubes(c.doc)[k]) = inc[q]

Emit == PrintT("@@" \o ToJson([stratum |-> c.stratum, fault |-> c.fault, doc |-> c.doc, why |-> c.why, expect |-> c.eff]))

================================================================================
