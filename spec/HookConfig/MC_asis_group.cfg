\* the loader as it was found: group-derived snapshot names are not checked for ambiguity; TLC must find a GroupSnapshots violation
SPECIFICATION Spec
CONSTANTS
  Strata = {"cross2"}
  SampleK = 0
  AsIs = TRUE
INVARIANTS DomainWellFormed FaithfulLoad Defaults GroupSnapshots
CHECK_DEADLOCK FALSE
