\* the loader as it was found: namespace selectors of kubernetes bindings are not validated; TLC must find a FaultRejected violation
SPECIFICATION Spec
CONSTANTS
  Strata = {"fault"}
  SampleK = 0
  AsIs = TRUE
INVARIANTS DomainWellFormed FaultRejected
CHECK_DEADLOCK FALSE
