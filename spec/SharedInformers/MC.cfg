\* exhaustive: 2 monitors over 2 indices (every assignment), 1 object x 2 values, <= 3 cluster operations, <= 3 monitor starts
SPECIFICATION Spec
CONSTANTS
  Mons = {"m1", "m2"}
  Idx = {"x", "y"}
  Objs = {"a"}
  Vals = {"v1", "v2"}
  NONE = "none"
  MaxOps = 3
  MaxStarts = 3
INVARIANTS TypeOK QuietConverges FactoryRefCount UsersAreLive StartedRegistered
CHECK_DEADLOCK FALSE
