--------------------------- MODULE SharedInformers ---------------------------
(***************************************************************************)
(* Several monitors (kubernetes bindings, possibly of different hooks)     *)
(* that watch the same kind in the same namespace with the same selectors  *)
(* share ONE client-go informer: pkg/kube_events_manager/factory.go keeps  *)
(* a FactoryStore of shared informer factories keyed by (GVR, namespace,   *)
(* selectors) and counts its users by their handler registrations.         *)
(*                                                                         *)
(*   AddMonitor(m)    the monitor's resourceInformer preloads its          *)
(*                    namespace with a LIST of its own (cache[m])          *)
(*   StartMonitor(m)  FactoryStore.Start under the store mutex: the        *)
(*                    factory of the index is created (its informer LISTs  *)
(*                    and then follows the watch) or found; the monitor's  *)
(*                    handler is registered: client-go replays an Added    *)
(*                    for every object in the informer's store to the new  *)
(*                    handler; afterwards objects that were preloaded but  *)
(*                    are not in the store are dropped from cache[m]       *)
(*   Mutate           an object is created / changed / deleted             *)
(*   InformerStep(x)  the shared informer of index x handles its next      *)
(*                    watch event: store updated, one notification queued  *)
(*                    for every registered handler                         *)
(*   HandlerStep(m)   the handler of m takes its next notification: cache  *)
(*                    updated; the change is passed on if the value        *)
(*                    differs from the cached one                          *)
(*   StopMonitor(m)   the monitor's context is cancelled ...               *)
(*   StopStep(m)      ... and a goroutine calls FactoryStore.Stop: handler *)
(*                    removed; the last user cancels and drops the factory *)
(*                                                                         *)
(* What a user relies on (C01/C02 for bindings that share informers):      *)
(* every started monitor follows the cluster, whatever the other monitors  *)
(* of the same index do - start earlier or later, stop, start again.       *)
(***************************************************************************)
EXTENDS Integers, Sequences, FiniteSets, TLC

CONSTANTS Mons,       \* monitor ids
          Idx,        \* factory indices (namespaces)
          Objs, Vals, NONE,
          MaxOps, MaxStarts

VARIABLES idxOf,      \* monitor -> index, chosen in Init
          cluster,    \* [Idx \X Objs] -> value | NONE
          mst,        \* monitor -> "none" | "added" | "started" | "stopping" | "stopped"
          cache,      \* monitor -> [Objs -> value | NONE]
          inbox,      \* monitor -> notifications not yet handled (sequence of <<obj, value>>)
          passed,     \* monitor -> number of changes passed on to the consumer (history)
          fst,        \* index -> "none" | "running"
          fstore,     \* index -> [Objs -> value | NONE], the shared informer's store
          fpending,   \* index -> watch events not yet handled by the shared informer
          reg,        \* index -> monitors whose handler is registered
          nops, nstarts, act

vars == <<idxOf, cluster, mst, cache, inbox, passed, fst, fstore, fpending, reg, nops, nstarts, act>>
EmptyObjs == [o \in Objs |-> NONE]
ClusterOf(x) == [o \in Objs |-> cluster[<<x, o>>]]
\* some order of the objects present in f
RECURSIVE AddsOf(_, _)
AddsOf(f, S) == IF S = {} THEN <<>> ELSE LET o == CHOOSE p \in S : TRUE IN
                  (IF f[o] # NONE THEN <<<<o, f[o]>>>> ELSE <<>>) \o AddsOf(f, S \ {o})

Init == /\ idxOf \in [Mons -> Idx]
        /\ cluster \in [Idx \X Objs -> Vals \cup {NONE}]
        /\ mst = [m \in Mons |-> "none"] /\ cache = [m \in Mons |-> EmptyObjs] /\ inbox = [m \in Mons |-> <<>>]
        /\ passed = [m \in Mons |-> 0]
        /\ fst = [x \in Idx |-> "none"] /\ fstore = [x \in Idx |-> EmptyObjs] /\ fpending = [x \in Idx |-> <<>>]
        /\ reg = [x \in Idx |-> {}] /\ nops = 0 /\ nstarts = 0 /\ act = <<"Init">>

Mutate(x, o, v) ==
  /\ nops < MaxOps /\ cluster[<<x, o>>] # v
  /\ cluster' = [cluster EXCEPT ![<<x, o>>] = v] /\ nops' = nops + 1
  /\ fpending' = IF fst[x] = "running" THEN [fpending EXCEPT ![x] = Append(@, <<o, v>>)] ELSE fpending
  /\ act' = <<"Mutate", x, o, v>>
  /\ UNCHANGED <<idxOf, mst, cache, inbox, passed, fst, fstore, reg, nstarts>>

AddMonitor(m) ==
  /\ mst[m] \in {"none", "stopped"} /\ nstarts < MaxStarts
  /\ mst' = [mst EXCEPT ![m] = "added"] /\ nstarts' = nstarts + 1
  /\ cache' = [cache EXCEPT ![m] = ClusterOf(idxOf[m])]
  /\ inbox' = [inbox EXCEPT ![m] = <<>>] /\ passed' = [passed EXCEPT ![m] = 0]
  /\ act' = <<"AddMonitor", m>>
  /\ UNCHANGED <<idxOf, cluster, fst, fstore, fpending, reg, nops>>

StartMonitor(m) ==
  /\ mst[m] = "added"
  /\ LET x == idxOf[m]
         store == IF fst[x] = "running" THEN fstore[x] ELSE ClusterOf(x) IN
       /\ fst' = [fst EXCEPT ![x] = "running"]
       /\ fstore' = [fstore EXCEPT ![x] = store]
       /\ fpending' = IF fst[x] = "running" THEN fpending ELSE [fpending EXCEPT ![x] = <<>>]
       /\ reg' = [reg EXCEPT ![x] = @ \cup {m}]
       /\ inbox' = [inbox EXCEPT ![m] = AddsOf(store, Objs)]
       \* removeStaleCachedObjects: preloaded objects the informer's store does not hold are dropped
       /\ cache' = [cache EXCEPT ![m] = [o \in Objs |-> IF store[o] = NONE THEN NONE ELSE cache[m][o]]]
  /\ mst' = [mst EXCEPT ![m] = "started"]
  /\ act' = <<"StartMonitor", m>>
  /\ UNCHANGED <<idxOf, cluster, passed, nops, nstarts>>

InformerStep(x) ==
  /\ fst[x] = "running" /\ fpending[x] # <<>>
  /\ LET e == Head(fpending[x]) IN
       /\ fstore' = [fstore EXCEPT ![x][e[1]] = e[2]]
       /\ inbox' = [m \in Mons |-> IF m \in reg[x] THEN Append(inbox[m], e) ELSE inbox[m]]
  /\ fpending' = [fpending EXCEPT ![x] = Tail(@)]
  /\ act' = <<"InformerStep", x>>
  /\ UNCHANGED <<idxOf, cluster, mst, cache, passed, fst, reg, nops, nstarts>>

HandlerStep(m) ==
  /\ inbox[m] # <<>>
  /\ LET e == Head(inbox[m]) IN
       /\ cache' = [cache EXCEPT ![m][e[1]] = e[2]]
       /\ passed' = [passed EXCEPT ![m] = IF cache[m][e[1]] # e[2] THEN @ + 1 ELSE @]
  /\ inbox' = [inbox EXCEPT ![m] = Tail(@)]
  /\ act' = <<"HandlerStep", m>>
  /\ UNCHANGED <<idxOf, cluster, mst, fst, fstore, fpending, reg, nops, nstarts>>

StopMonitor(m) ==
  /\ mst[m] = "started" /\ mst' = [mst EXCEPT ![m] = "stopping"]
  /\ act' = <<"StopMonitor", m>>
  /\ UNCHANGED <<idxOf, cluster, cache, inbox, passed, fst, fstore, fpending, reg, nops, nstarts>>

StopStep(m) ==
  /\ mst[m] = "stopping" /\ mst' = [mst EXCEPT ![m] = "stopped"]
  /\ LET x == idxOf[m] IN
       /\ reg' = [reg EXCEPT ![x] = @ \ {m}]
       /\ IF reg[x] = {m}
            THEN /\ fst' = [fst EXCEPT ![x] = "none"] /\ fstore' = [fstore EXCEPT ![x] = EmptyObjs]
                 /\ fpending' = [fpending EXCEPT ![x] = <<>>]
            ELSE UNCHANGED <<fst, fstore, fpending>>
  /\ inbox' = [inbox EXCEPT ![m] = <<>>]
  /\ act' = <<"StopStep", m>>
  /\ UNCHANGED <<idxOf, cluster, cache, passed, nops, nstarts>>

\* StopMonitor and StopStep in one step: the replayed behaviours use this one, because the harness cannot hold back the
\* goroutine that calls FactoryStore.Stop (it runs as soon as the context is cancelled)
StopBoth(m) ==
  /\ mst[m] = "started" /\ mst' = [mst EXCEPT ![m] = "stopped"]
  /\ LET x == idxOf[m] IN
       /\ reg' = [reg EXCEPT ![x] = @ \ {m}]
       /\ IF reg[x] = {m}
            THEN /\ fst' = [fst EXCEPT ![x] = "none"] /\ fstore' = [fstore EXCEPT ![x] = EmptyObjs]
                 /\ fpending' = [fpending EXCEPT ![x] = <<>>]
            ELSE UNCHANGED <<fst, fstore, fpending>>
  /\ inbox' = [inbox EXCEPT ![m] = <<>>]
  /\ act' = <<"StopBoth", m>>
  /\ UNCHANGED <<idxOf, cluster, cache, passed, nops, nstarts>>

Next == \/ \E x \in Idx, o \in Objs, v \in Vals \cup {NONE} : Mutate(x, o, v)
        \/ \E m \in Mons : AddMonitor(m) \/ StartMonitor(m) \/ HandlerStep(m) \/ StopMonitor(m) \/ StopStep(m)
        \/ \E x \in Idx : InformerStep(x)
Spec == Init /\ [][Next]_vars

S(z) == IF nops >= 0 THEN z ELSE {}
SimNext == \/ \E x \in S(Idx), o \in S(Objs), v \in S(Vals \cup {NONE}) : Mutate(x, o, v)
           \/ \E x \in S(Idx), o \in S(Objs), v \in S(Vals \cup {NONE}) : Mutate(x, o, v)
           \/ \E m \in S(Mons) : AddMonitor(m)
           \/ \E m \in S(Mons) : StartMonitor(m)
           \/ \E m \in S(Mons) : HandlerStep(m)
           \/ \E m \in S(Mons) : StopBoth(m)
           \/ \E x \in S(Idx) : InformerStep(x)
SimSpec == Init /\ [][SimNext]_vars

QuietMon(m) == mst[m] = "started" /\ fpending[idxOf[m]] = <<>> /\ inbox[m] = <<>>
\* every started monitor follows the cluster whatever its neighbours do
QuietConverges == \A m \in Mons : QuietMon(m) => cache[m] = ClusterOf(idxOf[m])
\* a factory lives exactly as long as it has users, and its users are live monitors
FactoryRefCount == \A x \in Idx : (fst[x] = "running") <=> (reg[x] # {})
UsersAreLive == \A x \in Idx : \A m \in reg[x] : idxOf[m] = x /\ mst[m] \in {"started", "stopping"}
\* a started monitor is a user of its factory
StartedRegistered == \A m \in Mons : mst[m] = "started" => m \in reg[idxOf[m]]
TypeOK == /\ \A m \in Mons : mst[m] \in {"none", "added", "started", "stopping", "stopped"}
          /\ \A x \in Idx : fst[x] \in {"none", "running"}
=============================================================================
