SPECIFICATION SimSpec
CONSTANTS
  Mons = {"m1", "m2", "m3"}
  Idx = {"x", "y"}
  Objs = {"a", "b"}
  Vals = {"v1", "v2"}
  NONE = "none"
  MaxOps = 8
  MaxStarts = 5
CHECK_DEADLOCK FALSE
