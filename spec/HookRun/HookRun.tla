------------------------------ MODULE HookRun ------------------------------
(***************************************************************************)
(* C12 - hook execution contract.                                          *)
(*                                                                         *)
(* One execution of a hook (pkg/hook/hook.go Run + pkg/executor +          *)
(* handleRunHook in pkg/shell-operator/operator.go) as a protocol machine: *)
(*                                                                         *)
(*   Plan      the task (hook, queue, binding contexts) and what the hook  *)
(*             process is going to do (exit code, a class per output file) *)
(*   Prepare   (may fail at the i-th file: hooks L189/L190/L193, whose     *)
(*             temp file names exceed the file-name limit - then the files *)
(*             created so far are removed and the execution fails without  *)
(*             a process)                                                  *)
(*             five temporary files with fresh names: the binding-context  *)
(*             file holds the contexts of the task, the metrics, patch,    *)
(*             admission-response and conversion-response files are empty; *)
(*             working directory and environment of the process            *)
(*   ExecStart the process starts and looks at cwd, environment and files  *)
(*   ExecExit  the process writes its outputs through the environment      *)
(*             variables and exits                                         *)
(*   Parse     non-zero exit = failure; metrics, admission, conversion     *)
(*             files are parsed in this order, the patch file is read      *)
(*   Apply     patch operations, metric batch, admission response,         *)
(*             conversion response - in this order, stop at the first error*)
(*   Cleanup   the five files are removed, whatever the outcome            *)
(*                                                                         *)
(* Executions of different queues interleave freely (every step of one may *)
(* happen between two steps of the other); the temp directory (fs) and the *)
(* set of applied effects are shared.                                      *)
(*                                                                         *)
(* The reference (what the property statement demands) is Expected(p): a   *)
(* function of the plan only. The machine is written like the code; the    *)
(* invariants relate the two.                                              *)
(***************************************************************************)
EXTENDS Integers, Sequences, FiniteSets, TLC, Json

CONSTANTS Execs,      \* execution ids: {"e1"} or {"e1", "e2"} (e1 runs in queue qa, e2 in queue qb)
          Level,      \* "full": every combination of output classes; "pair": at most one output deviates from all-valid, or all empty;
                      \* "pairq": all valid, all empty, one output truncated, patch of the wrong type, metrics that cannot be applied
          Mut,        \* model mutations (subset of Mutations); {} = the contract as the code implements it
          Emit,       \* TRUE: print one JSON case per completed single execution
          Obs         \* TRUE: maintain the observation variable (case generation), FALSE: keep it constant (smaller state space)

Mutations == {"fixedname", "leak-on-error", "leak-on-prepare-error", "ignore-metrics-error", "late-context", "no-cwd", "stale-admission"}

ASSUME Mut \subseteq Mutations
ASSUME Level \in {"full", "pair", "pairq"}

-----------------------------------------------------------------------------
\* vocabulary

Kinds == <<"ctx", "metrics", "admission", "conversion", "patch">>     \* order of creation in Hook.Run
KindSet == {Kinds[i] : i \in 1..Len(Kinds)}
Outs == KindSet \ {"ctx"}
KindIdx(k) == CHOOSE i \in 1..Len(Kinds) : Kinds[i] = k

\* the documented environment variables and the file each one points to (docs/src/HOOKS.md, KUBERNETES.md,
\* METRICS_FROM_HOOKS.md, BINDING_VALIDATING.md, BINDING_CONVERSION.md)
EnvVars == [BINDING_CONTEXT_PATH |-> "ctx", METRICS_PATH |-> "metrics", KUBERNETES_PATCH_PATH |-> "patch",
            VALIDATING_RESPONSE_PATH |-> "admission", CONVERSION_RESPONSE_PATH |-> "conversion"]

Malformed == {"truncated", "wrongtype"}
ClassesOf(k) == IF k \in {"patch", "metrics"}
                THEN {"empty", "valid", "truncated", "wrongtype", "unappliable"}
                ELSE {"empty", "valid", "truncated", "wrongtype"}

\* hooks: one at the top of the hooks directory, one in a sub-directory
HookNames == {"c12a", "sub/c12b"}
\* hooks whose name is so long that the name of a temp file exceeds NAME_MAX (255): the number is the length of the
\* hook's relative path; the files are created in the order of Kinds, the i-th creation fails
\*   hook-<name>-binding-context-<uuid>.json = len+63, -metrics- len+55, -admission-response- len+66, -conversion-response- len+67, <name>-object-patch-<uuid> = len+50
LongHooks == {"L189", "L190", "L193"}
PrepFail(h) == CASE h = "L189" -> 4 [] h = "L190" -> 3 [] h = "L193" -> 1 [] OTHER -> 0
DirOf(h) == IF h = "sub/c12b" THEN "sub" ELSE IF h \in LongHooks THEN "long" ELSE "."
QueueOf(e) == IF e = "e1" THEN "qa" ELSE "qb"

\* binding contexts a task can carry (abstract ids; CtxDesc is what the hook must find in the file, in this order)
CtxDesc(c) == CASE c = "s1" -> [binding |-> "s1", type |-> "Schedule", watchEvent |-> "", object |-> ""]
                [] c = "s2" -> [binding |-> "s2", type |-> "Schedule", watchEvent |-> "", object |-> ""]
                [] c = "ka" -> [binding |-> "k1", type |-> "Event", watchEvent |-> "Added", object |-> "obj-a"]
                [] c = "km" -> [binding |-> "k1", type |-> "Event", watchEvent |-> "Modified", object |-> "obj-m"]
                [] c = "kd" -> [binding |-> "k1", type |-> "Event", watchEvent |-> "Deleted", object |-> "obj-d"]
CtxLists == {<<"s1">>, <<"s2", "ka">>, <<"km", "s1", "kd", "ka">>}
\* with two executions the two tasks carry different lists, so that a mix-up is visible
CtxListsOf(e) == IF Cardinality(Execs) = 1 THEN CtxLists
                 ELSE IF e = "e1" THEN {<<"s2", "ka">>} ELSE {<<"km", "s1", "kd", "ka">>}

OutCombos == [Outs -> {"empty", "valid", "truncated", "wrongtype", "unappliable"}]
LegalCombo(o) == \A k \in Outs : o[k] \in ClassesOf(k)
Deviations(o, base) == Cardinality({k \in Outs : o[k] # base})
QuickDeviation(o) == \A k \in Outs : o[k] \in {"valid", "truncated"} \/ (k = "patch" /\ o[k] = "wrongtype") \/ (k = "metrics" /\ o[k] = "unappliable")
Combos == IF Level = "full" THEN {o \in OutCombos : LegalCombo(o)}
          ELSE IF Level = "pair" THEN {o \in OutCombos : LegalCombo(o) /\ (Deviations(o, "valid") <= 1 \/ Deviations(o, "empty") = 0)}
          ELSE {o \in OutCombos : LegalCombo(o) /\ ((Deviations(o, "valid") <= 1 /\ QuickDeviation(o)) \/ Deviations(o, "empty") = 0)}

HooksOf(e) == IF Cardinality(Execs) = 1 \/ e = "e2" THEN HookNames ELSE {"c12a"}   \* pairs: same hook or different hooks

-----------------------------------------------------------------------------
\* the reference: what the statement demands for a plan

IsBad(c) == c \in Malformed \/ c = "unappliable"

Expected(p) ==
  LET fail == p.exit # 0 \/ (\E k \in Outs : IsBad(p.out[k])) \/ PrepFail(p.hook) # 0
  IN [status  |-> IF fail THEN "Fail" ELSE "Success",
      must    |-> IF fail THEN {} ELSE {k \in Outs : p.out[k] = "valid"},   \* applied after a successful run
      mustnot |-> IF PrepFail(p.hook) # 0 THEN Outs ELSE {k \in Outs : p.out[k] # "valid"}]    \* nothing of a malformed file is applied; nothing the process did not write

WithExpect(p) == [hook |-> p.hook, queue |-> p.queue, ctxs |-> p.ctxs, exit |-> p.exit, out |-> p.out, expect |-> Expected(p)]
Plans(e) == {WithExpect([hook |-> h, queue |-> QueueOf(e), ctxs |-> c, exit |-> x, out |-> o]) :
               h \in HooksOf(e), c \in CtxListsOf(e), x \in {0, 1}, o \in Combos}
            \cup (IF Cardinality(Execs) = 1 \/ e = "e2"      \* the process of these never runs: one plan each (it would apply everything)
                  THEN {WithExpect([hook |-> h, queue |-> QueueOf(e), ctxs |-> <<"s1">>, exit |-> 0, out |-> [k \in Outs |-> "valid"]]) : h \in LongHooks}
                  ELSE {})

-----------------------------------------------------------------------------
\* file contents: all values are sequences so that TLC can compare them
Absent == <<"ABSENT">>
Cls(c) == <<"out", c>>              \* an output file whose content is of class c (Cls("empty") = exists and is empty)
Ctx(l) == <<"ctx">> \o l            \* a binding-context file holding the list l
VarOf(k) == CHOOSE v \in DOMAIN EnvVars : EnvVars[v] = k
NoPlan == [hook |-> "", queue |-> "", ctxs |-> <<>>, exit |-> 0, out |-> [k \in Outs |-> "empty"],
           expect |-> [status |-> "", must |-> {}, mustnot |-> {}]]
NoNames == [k \in KindSet |-> 0]
NoSeen == [cwd |-> "", env |-> [v \in DOMAIN EnvVars |-> 0], files |-> [k \in KindSet |-> Absent]]
NoRes == [status |-> "", applied |-> {}, stage |-> ""]

MaxNames == 5 * (Cardinality(Execs) + 1)
Names == 1..MaxNames

VARIABLES pc,       \* [Execs -> step]
          plan,     \* [Execs -> plan]
          names,    \* [Execs -> [KindSet -> Names \cup {0}]]
          cwd, env, \* what Prepare hands to the process
          fs,       \* the temp directory: [Names -> content \cup {Absent}]; content = a context list or an output class
          used,     \* names ever handed out
          reused,   \* TRUE once Prepare took a name that had been handed out before
          nextName, \* name generator
          seen,     \* what the process saw when it started
          exitcode, \* [Execs -> exit code of the process]
          parsed,   \* [Execs -> [Outs -> class read back]]
          res,      \* [Execs -> [status, applied, stage]]
          lastAdm,  \* mutation stale-admission: the hook object keeps the last response
          act,      \* last action (for case generation)
          obs       \* observation after the step: executions whose files must all exist / must all be gone

vars == <<pc, plan, names, cwd, env, fs, used, reused, nextName, seen, exitcode, parsed, res, lastAdm, act, obs>>

\* exhaustive runs hide the bookkeeping variables
View == <<pc, plan, names, cwd, env, fs, used, reused, nextName, seen, exitcode, parsed, res, lastAdm>>

PathOf(e, k) == names[e][k]

Init ==
  /\ pc = [e \in Execs |-> "new"]
  /\ plan = [e \in Execs |-> NoPlan]
  /\ names = [e \in Execs |-> NoNames]
  /\ cwd = [e \in Execs |-> ""]
  /\ env = [e \in Execs |-> [v \in DOMAIN EnvVars |-> 0]]
  /\ fs = [n \in Names |-> Absent]
  /\ used = {}
  /\ reused = FALSE
  /\ nextName = 1
  /\ seen = [e \in Execs |-> NoSeen]
  /\ exitcode = [e \in Execs |-> 0]
  /\ parsed = [e \in Execs |-> [k \in Outs |-> "empty"]]
  /\ res = [e \in Execs |-> NoRes]
  /\ lastAdm = "empty"
  /\ act = <<"Init", "">>
  /\ obs = [live |-> {}, gone |-> {}]

\* ---- Plan: the task is created and the behaviour of the process is fixed
PlanStep(e) ==
  /\ pc[e] = "new"
  /\ \E p \in Plans(e) : plan' = [plan EXCEPT ![e] = p]
  /\ pc' = [pc EXCEPT ![e] = "planned"]
  /\ act' = <<"Plan", e>>
  /\ UNCHANGED <<names, cwd, env, fs, used, reused, nextName, seen, exitcode, parsed, res, lastAdm>>

\* ---- Prepare (hook.go: prepare*File, envs, NewExecutor(path.Dir(h.Path), ...))
FixedName(h, k) == (IF h = "c12a" THEN 0 ELSE 5) + KindIdx(k)      \* mutation: a name that depends on hook and kind only
NewNames(e) == IF "fixedname" \in Mut
               THEN [k \in KindSet |-> FixedName(plan[e].hook, k)]
               ELSE [k \in KindSet |-> nextName + KindIdx(k) - 1]

Prepare(e) ==
  /\ pc[e] = "planned"
  /\ PrepFail(plan[e].hook) = 0
  /\ ("fixedname" \in Mut \/ nextName + 4 <= MaxNames)
  /\ LET nn == NewNames(e)
         nset == {nn[k] : k \in KindSet}
     IN /\ names' = [names EXCEPT ![e] = nn]
        /\ reused' = (reused \/ nset \cap used # {})
        /\ used' = used \cup nset
        /\ nextName' = IF "fixedname" \in Mut THEN nextName ELSE nextName + 5
        /\ fs' = [n \in Names |->
                    IF n = nn["ctx"] THEN (IF "late-context" \in Mut THEN Cls("empty") ELSE Ctx(plan[e].ctxs))
                    ELSE IF n \in nset THEN Cls("empty")
                    ELSE fs[n]]
        /\ env' = [env EXCEPT ![e] = [v \in DOMAIN EnvVars |-> nn[EnvVars[v]]]]
        /\ cwd' = [cwd EXCEPT ![e] = IF "no-cwd" \in Mut THEN "operator-cwd" ELSE DirOf(plan[e].hook)]
  /\ pc' = [pc EXCEPT ![e] = "prepared"]
  /\ act' = <<"Prepare", e>>
  /\ UNCHANGED <<plan, seen, exitcode, parsed, res, lastAdm>>

\* a file cannot be created: the files created before it are removed again, the execution fails before a process exists
PrepareFail(e) ==
  /\ pc[e] = "planned"
  /\ PrepFail(plan[e].hook) # 0
  /\ ("fixedname" \in Mut \/ nextName + 4 <= MaxNames)
  /\ LET nn == [k \in KindSet |-> IF KindIdx(k) < PrepFail(plan[e].hook) THEN NewNames(e)[k] ELSE 0]
         nset == {nn[k] : k \in KindSet} \ {0}
     IN /\ names' = [names EXCEPT ![e] = nn]
        /\ reused' = (reused \/ nset \cap used # {})
        /\ used' = used \cup nset
        /\ nextName' = IF "fixedname" \in Mut THEN nextName ELSE nextName + 5
        /\ fs' = IF "leak-on-prepare-error" \in Mut
                 THEN [n \in Names |-> IF n = nn["ctx"] THEN Ctx(plan[e].ctxs) ELSE IF n \in nset THEN Cls("empty") ELSE fs[n]]
                 ELSE fs
  /\ res' = [res EXCEPT ![e] = [status |-> "Fail", applied |-> {}, stage |-> "prepare"]]
  /\ pc' = [pc EXCEPT ![e] = "done"]
  /\ act' = <<"PrepareFail", e>>
  /\ UNCHANGED <<plan, cwd, env, seen, exitcode, parsed, lastAdm>>

\* ---- ExecStart: the process looks around
ExecStart(e) ==
  /\ pc[e] = "prepared"
  /\ seen' = [seen EXCEPT ![e] = [cwd |-> cwd[e], env |-> env[e],
                                  files |-> [k \in KindSet |-> fs[env[e][VarOf(k)]]]]]
  /\ fs' = IF "late-context" \in Mut THEN [fs EXCEPT ![PathOf(e, "ctx")] = Ctx(plan[e].ctxs)] ELSE fs
  /\ pc' = [pc EXCEPT ![e] = "running"]
  /\ act' = <<"ExecStart", e>>
  /\ UNCHANGED <<plan, names, cwd, env, used, reused, nextName, exitcode, parsed, res, lastAdm>>

\* ---- ExecExit: the process writes its (non-empty) outputs where the environment tells it to and exits
ExecExit(e) ==
  /\ pc[e] = "running"
  /\ LET written(n) == {k \in Outs : env[e][VarOf(k)] = n /\ plan[e].out[k] # "empty"}
     IN fs' = [n \in Names |-> IF written(n) # {} THEN Cls(plan[e].out[CHOOSE k \in written(n) : TRUE]) ELSE fs[n]]
  /\ exitcode' = [exitcode EXCEPT ![e] = plan[e].exit]
  /\ pc' = [pc EXCEPT ![e] = "exited"]
  /\ act' = <<"ExecExit", e>>
  /\ UNCHANGED <<plan, names, cwd, env, used, reused, nextName, seen, parsed, res, lastAdm>>

\* ---- Parse (hook.go Run after RunAndLogLines): metrics, admission, conversion, then the patch bytes
Content(e, k) == LET c == fs[PathOf(e, k)] IN IF c = Absent THEN "unreadable" ELSE IF c[1] = "out" THEN c[2] ELSE "wrongtype"
ParseBad(e, k) == Content(e, k) \in Malformed \/ Content(e, k) = "unreadable"

Parse(e) ==
  /\ pc[e] = "exited"
  /\ LET bad(k) == IF k = "metrics" /\ "ignore-metrics-error" \in Mut THEN FALSE ELSE ParseBad(e, k)
         failed == exitcode[e] # 0 \/ bad("metrics") \/ bad("admission") \/ bad("conversion") \/ Content(e, "patch") = "unreadable"
         stage == IF exitcode[e] # 0 THEN "exit"
                  ELSE IF bad("metrics") THEN "parse-metrics"
                  ELSE IF bad("admission") THEN "parse-admission"
                  ELSE IF bad("conversion") THEN "parse-conversion"
                  ELSE "read-patch"
     IN IF failed
        THEN /\ res' = [res EXCEPT ![e] = [status |-> "Fail", applied |-> {}, stage |-> stage]]
             /\ parsed' = parsed
             /\ pc' = [pc EXCEPT ![e] = "applied"]       \* handleRunHook returns the error, nothing to apply
        ELSE /\ parsed' = [parsed EXCEPT ![e] = [k \in Outs |->
                              IF k = "metrics" /\ "ignore-metrics-error" \in Mut /\ ParseBad(e, k) THEN "empty" ELSE Content(e, k)]]
             /\ res' = res
             /\ pc' = [pc EXCEPT ![e] = "parsed"]
  /\ act' = <<"Parse", e>>
  /\ UNCHANGED <<plan, names, cwd, env, fs, used, reused, nextName, seen, exitcode, lastAdm>>

\* ---- Apply (operator.go handleRunHook): patch, metrics, admission, conversion; return at the first error
Apply(e) ==
  /\ pc[e] = "parsed"
  /\ LET p == parsed[e]
         adm == IF "stale-admission" \in Mut /\ p["admission"] = "empty" THEN lastAdm ELSE p["admission"]
         patchBad == IsBad(p["patch"])                      \* ParseOperations / ExecuteOperations error
         metricsBad == p["metrics"] = "unappliable"          \* SendBatch: ValidateOperations error
         ap == IF patchBad THEN {}
               ELSE (IF p["patch"] = "valid" THEN {"patch"} ELSE {}) \cup
                    (IF metricsBad THEN {}
                     ELSE (IF p["metrics"] = "valid" THEN {"metrics"} ELSE {}) \cup
                          (IF adm = "valid" THEN {"admission"} ELSE {}) \cup
                          (IF p["conversion"] = "valid" THEN {"conversion"} ELSE {}))
         stage == IF patchBad THEN "apply-patch" ELSE IF metricsBad THEN "apply-metrics" ELSE "done"
     IN /\ res' = [res EXCEPT ![e] = [status |-> IF patchBad \/ metricsBad THEN "Fail" ELSE "Success", applied |-> ap, stage |-> stage]]
        /\ lastAdm' = IF "stale-admission" \in Mut /\ p["admission"] # "empty" THEN p["admission"] ELSE lastAdm
  /\ pc' = [pc EXCEPT ![e] = "applied"]
  /\ act' = <<"Apply", e>>
  /\ UNCHANGED <<plan, names, cwd, env, fs, used, reused, nextName, seen, exitcode, parsed>>

\* ---- Cleanup (the deferred removal in Run; the model keeps it as the last step of the execution)
Cleanup(e) ==
  /\ pc[e] = "applied"
  /\ fs' = IF "leak-on-error" \in Mut /\ res[e].status = "Fail"
           THEN fs
           ELSE [n \in Names |-> IF \E k \in KindSet : PathOf(e, k) = n THEN Absent ELSE fs[n]]
  /\ pc' = [pc EXCEPT ![e] = "done"]
  /\ act' = <<"Cleanup", e>>
  /\ UNCHANGED <<plan, names, cwd, env, used, reused, nextName, seen, exitcode, parsed, res, lastAdm>>

Step(e) == PlanStep(e) \/ Prepare(e) \/ PrepareFail(e) \/ ExecStart(e) \/ ExecExit(e) \/ Parse(e) \/ Apply(e) \/ Cleanup(e)

AllExist(e) == \A k \in KindSet : names'[e][k] # 0 /\ fs'[names'[e][k]] # Absent
AllGone(e) == \A k \in KindSet : names'[e][k] # 0 => fs'[names'[e][k]] = Absent

Next == /\ \E e \in Execs : Step(e)
        /\ obs' = IF Obs THEN [live |-> {e \in Execs : pc'[e] = "running" /\ AllExist(e)},
                               gone |-> {e \in Execs : pc'[e] = "done" /\ AllGone(e)}]
                  ELSE obs

Spec == Init /\ [][Next]_vars

-----------------------------------------------------------------------------
\* properties

Started(e) == pc[e] \in {"running", "exited", "parsed", "applied", "done"} /\ res[e].stage # "prepare"
NameSet(e) == {names[e][k] : k \in KindSet} \ {0}

TypeOK == /\ pc \in [Execs -> {"new", "planned", "prepared", "running", "exited", "parsed", "applied", "done"}]
          /\ \A e \in Execs : \A k \in KindSet : names[e][k] \in Names \cup {0}
          /\ \A e \in Execs : res[e].status \in {"", "Success", "Fail"}

\* cwd = the hook's directory; every documented variable points to the prepared file of its kind
EnvContract == \A e \in Execs : Started(e) =>
                 /\ seen[e].cwd = DirOf(plan[e].hook)
                 /\ \A v \in DOMAIN EnvVars : seen[e].env[v] = names[e][EnvVars[v]] /\ seen[e].env[v] # 0
                 /\ \A k \in Outs : seen[e].files[k] = Cls("empty")  \* exists and is empty

\* the binding-context file holds exactly the contexts of the task
ContextsExact == \A e \in Execs : Started(e) => seen[e].files["ctx"] = Ctx(plan[e].ctxs)

\* no temp file name is shared: within an execution, between concurrent executions, with any earlier execution
FreshNames == /\ ~reused
              /\ \A e \in Execs : \A k1, k2 \in KindSet : (k1 # k2 /\ names[e][k1] # 0) => names[e][k1] # names[e][k2]
              /\ \A e \in Execs : Started(e) => Cardinality(NameSet(e)) = 5
              /\ \A e1, e2 \in Execs : e1 # e2 => NameSet(e1) \cap NameSet(e2) = {}

\* failure iff non-zero exit, malformed output or an output that cannot be applied; nothing of a malformed file is applied;
\* after a success every valid output is applied
ResultRule == \A e \in Execs : pc[e] \in {"applied", "done"} =>
                LET x == Expected(plan[e])
                IN /\ x = plan[e].expect
                   /\ res[e].status = x.status
                   /\ x.must \subseteq res[e].applied
                   /\ x.mustnot \cap res[e].applied = {}

\* after Cleanup none of the files of the execution exists, whatever the outcome; at the end the directory is empty
NoLeftovers == /\ \A e \in Execs : pc[e] = "done" => \A n \in NameSet(e) : fs[n] = Absent
               /\ (\A e \in Execs : pc[e] = "done") => \A n \in Names : fs[n] = Absent

\* while the process runs its files are there; nobody else touches what it wrote before it is read back
FilesStable == \A e \in Execs :
                 /\ pc[e] \in {"running", "exited"} => \A k \in KindSet : fs[names[e][k]] # Absent
                 /\ pc[e] = "exited" => \A k \in Outs : fs[names[e][k]] = Cls(plan[e].out[k])

-----------------------------------------------------------------------------
\* case export (single executions): one JSON line per completed execution

\* the schedule of a single execution with the observation after each step (checked against the machine by ScheduleFaithful)
SingleSchedule(e) ==
  << [act |-> <<"Plan", e>>, live |-> {}, gone |-> {}], [act |-> <<"Prepare", e>>, live |-> {}, gone |-> {}],
     [act |-> <<"ExecStart", e>>, live |-> {e}, gone |-> {}], [act |-> <<"ExecExit", e>>, live |-> {}, gone |-> {}],
     [act |-> <<"Parse", e>>, live |-> {}, gone |-> {}], [act |-> <<"Apply", e>>, live |-> {}, gone |-> {}],
     [act |-> <<"Cleanup", e>>, live |-> {}, gone |-> {e}] >>
FailedPrepareSchedule(e) ==
  << [act |-> <<"Plan", e>>, live |-> {}, gone |-> {}], [act |-> <<"PrepareFail", e>>, live |-> {}, gone |-> {e}] >>
ScheduleOf(e) == IF PrepFail(plan[e].hook) # 0 THEN FailedPrepareSchedule(e) ELSE SingleSchedule(e)
ScheduleFaithful == (Obs /\ Cardinality(Execs) = 1) =>
                      \A e \in Execs : \A i \in 1..Len(ScheduleOf(e)) : act = ScheduleOf(e)[i].act =>
                         (obs.live = ScheduleOf(e)[i].live /\ obs.gone = ScheduleOf(e)[i].gone)

CaseOf(e) ==
  LET p == plan[e]  x == Expected(p)
  IN [hook |-> p.hook, cwd |-> DirOf(p.hook), queue |-> p.queue, exit |-> p.exit, out |-> p.out,
      ctxs |-> [i \in 1..Len(p.ctxs) |-> CtxDesc(p.ctxs[i])],
      envvars |-> EnvVars, steps |-> ScheduleOf(e), prepfail |-> PrepFail(p.hook),
      status |-> x.status, must |-> x.must, mustnot |-> x.mustnot,
      applied |-> res[e].applied, stage |-> res[e].stage]

EmitCase == (Emit /\ Cardinality(Execs) = 1 /\ \A e \in Execs : pc[e] = "done") =>
              PrintT("@@" \o ToJson(CaseOf(CHOOSE e \in Execs : TRUE)))

\* what the behaviour export needs besides the variables (evaluated by TLC, printed once)
Tables == [ctxdesc |-> [c \in {"s1", "s2", "ka", "km", "kd"} |-> CtxDesc(c)], envvars |-> EnvVars,
           dirs |-> [h \in HookNames \cup LongHooks |-> DirOf(h)], prepfail |-> [h \in HookNames \cup LongHooks |-> PrepFail(h)]]
EmitTables == (pc = [e \in Execs |-> "new"]) => PrintT("@@" \o ToJson([tables |-> Tables]))

=============================================================================
