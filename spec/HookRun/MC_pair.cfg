\* exhaustive: 2 executions (queues qa, qb; same hook or two hooks), every interleaving of their 7 steps; plans: 2 exit codes x (at most one output file deviating from all-valid, or all empty) = 32 per execution
SPECIFICATION Spec
CONSTANTS
  Execs = {"e1", "e2"}
  Level = "pair"
  Mut = {}
  Emit = FALSE
  Obs = FALSE
INVARIANTS TypeOK EnvContract ContextsExact FreshNames ResultRule NoLeftovers FilesStable EmitTables
VIEW View
CHECK_DEADLOCK FALSE
