\* model mutation "fixedname" (2 executions, reduced plans): TLC must report a violation of FreshNames - shows that the invariant is not vacuous
SPECIFICATION Spec
CONSTANTS
  Execs = {"e1", "e2"}
  Level = "pairq"
  Mut = {"fixedname"}
  Emit = FALSE
  Obs = FALSE
INVARIANTS FreshNames
VIEW View
CHECK_DEADLOCK FALSE
