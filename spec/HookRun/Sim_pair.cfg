\* behaviour generation (simulation): 2 executions, full plan domain (2 x 400 x hooks), random interleavings; depth 15 = both executions complete
SPECIFICATION Spec
CONSTANTS
  Execs = {"e1", "e2"}
  Level = "full"
  Mut = {}
  Emit = FALSE
  Obs = TRUE
CHECK_DEADLOCK FALSE
