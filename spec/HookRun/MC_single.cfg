\* exhaustive: 1 execution, 2 hooks x 3 context lists x 2 exit codes x every combination of output classes (5*5*4*4 = 400): 4 800 plans, ~34 k states; prints one case per plan
SPECIFICATION Spec
CONSTANTS
  Execs = {"e1"}
  Level = "full"
  Mut = {}
  Emit = TRUE
  Obs = TRUE
INVARIANTS TypeOK EnvContract ContextsExact FreshNames ResultRule NoLeftovers FilesStable ScheduleFaithful EmitCase
CHECK_DEADLOCK FALSE
