\* model mutation "late-context" (2 executions, reduced plans): TLC must report a violation of ContextsExact - shows that the invariant is not vacuous
SPECIFICATION Spec
CONSTANTS
  Execs = {"e1", "e2"}
  Level = "pairq"
  Mut = {"late-context"}
  Emit = FALSE
  Obs = FALSE
INVARIANTS ContextsExact
VIEW View
CHECK_DEADLOCK FALSE
