\* model mutation "stale-admission" (2 executions, reduced plans): TLC must report a violation of ResultRule - shows that the invariant is not vacuous
SPECIFICATION Spec
CONSTANTS
  Execs = {"e1", "e2"}
  Level = "pairq"
  Mut = {"stale-admission"}
  Emit = FALSE
  Obs = FALSE
INVARIANTS ResultRule
VIEW View
CHECK_DEADLOCK FALSE
