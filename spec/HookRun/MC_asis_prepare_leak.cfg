\* as-it-was model (Mut = leak-on-prepare-error: hook.go before the proposed fix keeps the files created before a failing prepare step): TLC must report a violation of NoLeftovers
SPECIFICATION Spec
CONSTANTS
  Execs = {"e1", "e2"}
  Level = "pairq"
  Mut = {"leak-on-prepare-error"}
  Emit = FALSE
  Obs = FALSE
INVARIANTS NoLeftovers
VIEW View
CHECK_DEADLOCK FALSE
