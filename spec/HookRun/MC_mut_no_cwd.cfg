\* model mutation "no-cwd" (2 executions, reduced plans): TLC must report a violation of EnvContract - shows that the invariant is not vacuous
SPECIFICATION Spec
CONSTANTS
  Execs = {"e1", "e2"}
  Level = "pairq"
  Mut = {"no-cwd"}
  Emit = FALSE
  Obs = FALSE
INVARIANTS EnvContract
VIEW View
CHECK_DEADLOCK FALSE
