\* model mutation "leak-on-error" (2 executions, reduced plans): TLC must report a violation of NoLeftovers - shows that the invariant is not vacuous
SPECIFICATION Spec
CONSTANTS
  Execs = {"e1", "e2"}
  Level = "pairq"
  Mut = {"leak-on-error"}
  Emit = FALSE
  Obs = FALSE
INVARIANTS NoLeftovers
VIEW View
CHECK_DEADLOCK FALSE
