\* exhaustive (quick): 2 executions, every interleaving of their 7 steps; plans: 2 exit codes x {all valid, all empty, one output truncated, patch of the wrong type, unappliable metrics} = 16 per execution
SPECIFICATION Spec
CONSTANTS
  Execs = {"e1", "e2"}
  Level = "pairq"
  Mut = {}
  Emit = FALSE
  Obs = FALSE
INVARIANTS TypeOK EnvContract ContextsExact FreshNames ResultRule NoLeftovers FilesStable EmitTables
VIEW View
CHECK_DEADLOCK FALSE
