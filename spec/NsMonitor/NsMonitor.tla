------------------------------ MODULE NsMonitor ------------------------------
(***************************************************************************)
(* C01 for bindings with namespace.labelSelector: the monitor keeps one    *)
(* set of informers per matching namespace; namespaces may appear after    *)
(* the Synchronization.  Two goroutines meet in monitor.go:                *)
(*                                                                         *)
(*   EnableKubeEventCb (after a successful Synchronization):               *)
(*        EN_Range   enable every informer stored so far                   *)
(*        EN_Flag    eventsEnabled := TRUE   (for namespaces to come)      *)
(*     FixF4 = TRUE: the flag is set first, then the informers are ranged. *)
(*   namespace informer callback for a new namespace n:                    *)
(*        NS_Create  create the informers of n; loadExistedObjects lists   *)
(*                   the objects already in n into the cache (silently;    *)
(*                   FixF5 = TRUE: the callback forgets them again)        *)
(*        NS_Store   store them in VaryingInformers                        *)
(*        NS_Flag    read eventsEnabled, enable the new informers if set   *)
(*        NS_Start   start them: client-go delivers Added for every object *)
(*                   of n; an object that is already cached with the same  *)
(*                   checksum fires nothing                                *)
(*   objects are created in namespaces at any time.                        *)
(***************************************************************************)
EXTENDS Integers, Sequences, FiniteSets, TLC

CONSTANTS NewNs, Objs, FixF4, MaxCreates,
          FixF5   \* TRUE: the callback forgets the preloaded objects of a new namespace (they arrive as Added)

VARIABLES epc,        \* enabler: "idle" | "ranged" | "flagged" | "done"
          flag,       \* monitor.eventsEnabled
          npc,        \* per new namespace: "none" | "created" | "stored" | "checked" | "started"
          stored,     \* namespaces in VaryingInformers
          enabledInf, \* namespace -> informer's eventCbEnabled
          cluster,    \* set of <<ns, obj>> existing
          preloaded,  \* <<ns,obj>> cached silently by NS_Create
          delivered,  \* <<ns,obj>> for which an Added event reached the consumer
          buffered,   \* <<ns,obj>> sitting in a buffer
          ncreate, act

vars == <<epc, flag, npc, stored, enabledInf, cluster, preloaded, delivered, buffered, ncreate, act>>

Init == /\ epc = "idle" /\ flag = FALSE /\ npc = [n \in NewNs |-> "none"] /\ stored = {}
        /\ enabledInf = [n \in NewNs |-> FALSE] /\ cluster = {} /\ preloaded = {} /\ delivered = {} /\ buffered = {}
        /\ ncreate = 0 /\ act = <<"Init">>

\* an Added watch event for <<n,o>> handled by the informers of n (if they run)
Deliver(n, o, buf, del) ==
  IF <<n, o>> \in preloaded THEN <<buf, del>>                      \* checksum equal: skipped
  ELSE IF enabledInf[n] THEN <<buf, del \cup {<<n, o>>}>> ELSE <<buf \cup {<<n, o>>}, del>>

CreateObj(n, o) ==
  /\ ncreate < MaxCreates /\ <<n, o>> \notin cluster
  /\ cluster' = cluster \cup {<<n, o>>} /\ ncreate' = ncreate + 1
  /\ IF npc[n] = "started"
       THEN /\ buffered' = Deliver(n, o, buffered, delivered)[1] /\ delivered' = Deliver(n, o, buffered, delivered)[2]
       ELSE UNCHANGED <<buffered, delivered>>
  /\ act' = <<"CreateObj", n, o>>
  /\ UNCHANGED <<epc, flag, npc, stored, enabledInf, preloaded>>

\* enabling an informer replays its buffer
EnableSet(S) == /\ enabledInf' = [n \in NewNs |-> enabledInf[n] \/ n \in S]
                /\ delivered' = delivered \cup {p \in buffered : p[1] \in S}
                /\ buffered' = {p \in buffered : p[1] \notin S}

EN_Range == /\ epc = (IF FixF4 THEN "flagged" ELSE "idle")
            /\ EnableSet(stored)
            /\ epc' = (IF FixF4 THEN "done" ELSE "ranged") /\ act' = <<"EN_Range">>
            /\ UNCHANGED <<flag, npc, stored, cluster, preloaded, ncreate>>
EN_Flag ==  /\ epc = (IF FixF4 THEN "idle" ELSE "ranged")
            /\ flag' = TRUE /\ epc' = (IF FixF4 THEN "flagged" ELSE "done") /\ act' = <<"EN_Flag">>
            /\ UNCHANGED <<npc, stored, enabledInf, cluster, preloaded, delivered, buffered, ncreate>>

\* the namespace informer hands its events to the callback one at a time (one delivery goroutine, and a mutex in
\* namespaceInformer since the stale-namespace repair): no callback starts while another one is under way
NoCallbackUnderWay == \A m \in NewNs : npc[m] \in {"none", "started"}
NS_Create(n) == /\ npc[n] = "none" /\ NoCallbackUnderWay /\ npc' = [npc EXCEPT ![n] = "created"]
                /\ preloaded' = IF FixF5 THEN preloaded ELSE preloaded \cup {p \in cluster : p[1] = n}
                /\ act' = <<"NS_Create", n>>
                /\ UNCHANGED <<epc, flag, stored, enabledInf, cluster, delivered, buffered, ncreate>>
NS_Store(n) ==  /\ npc[n] = "created" /\ npc' = [npc EXCEPT ![n] = "stored"] /\ stored' = stored \cup {n}
                /\ act' = <<"NS_Store", n>>
                /\ UNCHANGED <<epc, flag, enabledInf, cluster, preloaded, delivered, buffered, ncreate>>
NS_Flag(n) ==   /\ npc[n] = "stored" /\ npc' = [npc EXCEPT ![n] = "checked"]
                /\ IF flag THEN EnableSet({n}) ELSE UNCHANGED <<enabledInf, delivered, buffered>>
                /\ act' = <<"NS_Flag", n, flag>>
                /\ UNCHANGED <<epc, flag, stored, cluster, preloaded, ncreate>>
\* start: the informer lists the namespace and delivers Added for every object in it
NS_Start(n) ==
  /\ npc[n] = "checked" /\ npc' = [npc EXCEPT ![n] = "started"]
  /\ LET news == {p \in cluster : p[1] = n /\ p \notin preloaded} IN
       IF enabledInf[n] THEN /\ delivered' = delivered \cup news /\ UNCHANGED buffered
                        ELSE /\ buffered' = buffered \cup news /\ UNCHANGED delivered
  /\ act' = <<"NS_Start", n>>
  /\ UNCHANGED <<epc, flag, stored, enabledInf, cluster, preloaded, ncreate>>

\* the code has one gate after Store and none between the flag read and start: the replayed behaviours take
\* NS_Create+NS_Store and NS_Flag+NS_Start as pairs
NS_CreateStore(n) ==
  /\ npc[n] = "none" /\ NoCallbackUnderWay /\ npc' = [npc EXCEPT ![n] = "stored"] /\ stored' = stored \cup {n}
  /\ preloaded' = IF FixF5 THEN preloaded ELSE preloaded \cup {p \in cluster : p[1] = n}
  /\ act' = <<"NS_CreateStore", n>>
  /\ UNCHANGED <<epc, flag, enabledInf, cluster, delivered, buffered, ncreate>>
NS_FlagStart(n) ==
  /\ npc[n] = "stored" /\ npc' = [npc EXCEPT ![n] = "started"]
  /\ LET en == enabledInf[n] \/ flag
         news == {p \in cluster : p[1] = n /\ p \notin preloaded}
         old == {p \in buffered : p[1] = n}
     IN /\ enabledInf' = [enabledInf EXCEPT ![n] = en]
        /\ IF en THEN /\ delivered' = delivered \cup news \cup old /\ buffered' = buffered \ old
                 ELSE /\ buffered' = buffered \cup news /\ UNCHANGED delivered
  /\ act' = <<"NS_FlagStart", n, flag>>
  /\ UNCHANGED <<epc, flag, stored, cluster, preloaded, ncreate>>
S(x) == IF ncreate >= 0 THEN x ELSE {}
SimNext == EN_Range \/ EN_Flag \/ (\E n \in S(NewNs) : NS_CreateStore(n)) \/ (\E n \in S(NewNs) : NS_FlagStart(n))
           \/ (\E n \in S(NewNs), o \in S(Objs) : CreateObj(n, o)) \/ (\E n \in S(NewNs), o \in S(Objs) : CreateObj(n, o))
SimSpec == Init /\ [][SimNext]_vars

Next == EN_Range \/ EN_Flag \/ (\E n \in NewNs : NS_Create(n) \/ NS_Store(n) \/ NS_Flag(n) \/ NS_Start(n))
        \/ (\E n \in NewNs, o \in Objs : CreateObj(n, o))
Spec == Init /\ [][Next]_vars

Quiet == epc = "done" /\ \A n \in NewNs : npc[n] = "started"
\* every informer of the monitor delivers events once the Synchronization was unlocked
AllEnabled == Quiet => \A n \in NewNs : enabledInf[n]
NothingStranded == Quiet => buffered = {}
\* every object of a namespace that appeared after the Synchronization reaches the hook as Added
AllDelivered == Quiet => cluster \subseteq delivered
\* ... except the ones that existed when the namespace's informers were created (known finding)
AllDeliveredExceptPreloaded == Quiet => (cluster \ preloaded) \subseteq delivered
=============================================================================
