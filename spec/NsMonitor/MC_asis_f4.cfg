\* pinned commit: informers stored after the range and before the flag are never enabled (F4)
SPECIFICATION Spec
CONSTANTS
  NewNs = {"n1", "n2"}
  Objs = {"a", "b"}
  FixF4 = FALSE
  FixF5 = TRUE
  MaxCreates = 3
INVARIANTS AllEnabled
CHECK_DEADLOCK FALSE
