\* exhaustive: 2 namespaces appearing after the Synchronization, 2 object names, <= 3 creations; code after the F4 fix
SPECIFICATION SimSpec
CONSTANTS
  NewNs = {"n1", "n2"}
  Objs = {"a", "b"}
  FixF4 = TRUE
  FixF5 = TRUE
  MaxCreates = 4

CHECK_DEADLOCK FALSE
