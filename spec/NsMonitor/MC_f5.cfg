\* pinned commit: objects present when the informers of a new namespace are created never produce Added (F5) - TLC must find it
SPECIFICATION Spec
CONSTANTS
  NewNs = {"n1", "n2"}
  Objs = {"a", "b"}
  FixF4 = TRUE
  FixF5 = FALSE
  MaxCreates = 3
INVARIANTS AllDelivered
CHECK_DEADLOCK FALSE
