\* objects present when the informers of a new namespace are created never produce Added (F5, known finding)
SPECIFICATION Spec
CONSTANTS
  NewNs = {"n1", "n2"}
  Objs = {"a", "b"}
  FixF4 = TRUE
  MaxCreates = 3
INVARIANTS AllDelivered
CHECK_DEADLOCK FALSE
