"""C12 (hook execution contract: inputs via files, outputs read back, temp files gone): spec/HookRun bound to
pkg/hook/hook.go (Run), pkg/executor and handleRunHook of pkg/shell-operator/operator.go.

What is modelled (spec/HookRun/HookRun.tla): one execution as a protocol machine - Plan (the task: hook, queue,
binding contexts; and what the process will do: exit code, a class per output file), Prepare (five temp files with
fresh names, context file = the task's contexts, four empty output files, cwd and environment), ExecStart (what
the process sees), ExecExit (outputs written through the environment variables), Parse (non-zero exit; metrics,
admission, conversion parsed in this order; patch read), Apply (patch, metrics, admission response, conversion
response; stop at the first error), Cleanup; PrepareFail: the i-th temp file cannot be created (hooks whose relative
path is 189 / 190 / 193 characters long make the name of the conversion-response / admission-response / context file
exceed NAME_MAX) - the files created so far are removed, the execution fails without a process. Executions of two queues interleave at step granularity and share the
temp directory. Invariants: EnvContract, ContextsExact, FreshNames, ResultRule, NoLeftovers, FilesStable
(+ ScheduleFaithful for the exported single schedule). The reference `Expected(plan)` is a function of the plan
only (status, outputs that must / must not be applied), the machine computes the same from the files.

  1. TLC checks all invariants exhaustively: MC_single.cfg (1 execution, 2 hooks x 3 context lists x 2 exit codes
     x all 400 combinations of output classes; prints one case per plan with the expected result), MC_pair*.cfg
     (2 executions, every interleaving, reduced plan set). MC_mut_*.cfg: six mutated machines (fixed file names,
     files kept on the error path, metrics parse error ignored, context file written after the start, no working
     directory, admission response kept from the previous run) must each violate the matching invariant.
  2. TLC simulation (Sim_pair.cfg) generates two-execution behaviours over the full plan domain.
  3. `hookrun` replays every selected case on the real code: a ShellOperator on a fake cluster, one HookRun task
     per execution handed to the production task handler on its own goroutine (as the worker of its queue would),
     hook process = hookbin in block mode (records cwd, environment, file states, contexts, listing; then writes
     the scripted outputs and exits with the scripted code when released).

Oracles (hard, = the property): cwd is the hook's directory; the five documented variables are set, point to
existing files, one file per kind, outputs empty at start; the context file holds exactly the task's contexts (and
still does while the process is blocked and another execution starts/ends); no file name was seen before in any
execution of the run (consecutive) or belongs to a running one (concurrent); task status = expected status; after
Success every valid output is visible (object on the cluster, metric in the hook metric storage, admission /
conversion response in the task properties with the content the hook wrote); nothing is visible from an output
that was not valid (malformed: not even the leading complete document/line of a truncated file); after the handler
returned none of the execution's files exists and, when all executions ended, the temp directory is empty; the
files of a blocked process survive the end of the other execution; after a failed Prepare the task fails and nothing
of this execution is left in the temp directory (defect found here: C12/leftover/prepare-failed/file-N, fix proposed in
tools/proposed_fixes/C12-tmp-files-left-when-prepare-fails.diff; the spec models the fixed code, MC_asis_prepare_leak.cfg
the code as it was). Soft (DIVERGENCE note): exact set of applied
outputs on failing runs (order of parsing/applying), the undocumented ADMISSION_RESPONSE_PATH alias.

Excluded from the domain, with reasons: trailing data after a complete admission/conversion response (the decoder
reads one document; DESIGN.md section 4 lists this as unspecified) - "truncated" for these two files is one cut
document; the JSON document `null` (encoding/json treats it as "no value": an admission response file holding
`null` yields allowed=false, i.e. fail closed; the statement's "wrong type" is taken as array / string / wrongly
typed field); failures of the file system other than a refused file name (disk full, permissions: cannot be provoked per
execution); allowFailure tasks
(C04); combination of queued tasks (C07); the rendering details of contexts (C09) - the comparison projects
binding, type, watchEvent and object name; what an unappliable patch leaves behind (C13) and batch validation of
metrics (C16) - for "unappliable" only the failure of the execution is demanded.
"""
import glob
import json
import os
import random

import tlaparse
import vlib
from vlib import Infra

SPEC = "HookRun"
MUTS = [("MC_mut_fixedname.cfg", "FreshNames"), ("MC_mut_leak_on_error.cfg", "NoLeftovers"),
        ("MC_mut_ignore_metrics_error.cfg", "ResultRule"), ("MC_mut_late_context.cfg", "ContextsExact"),
        ("MC_mut_no_cwd.cfg", "EnvContract"), ("MC_mut_stale_admission.cfg", "ResultRule")]
OUTS = ("metrics", "admission", "conversion", "patch")


def plan_key(x):
    return "%s|%d|%s|%s" % (x["hook"], x["exit"], ",".join(x["out"][k] for k in OUTS), "+".join(c["binding"] + c["watchEvent"] for c in x["ctxs"]))


def model_checks(ctx):
    r = vlib.tlc(ctx, SPEC, "HookRun", "MC_single.cfg", timeout=600, expect_violation=False, workers=4)
    singles = [p for p in r["prints"] if "hook" in p]
    if len(singles) < 100:
        raise Infra("MC_single.cfg printed %d cases" % len(singles))
    ctx.log("TLC MC_single.cfg: %d distinct states, %d single-execution cases, %.0fs" % (r["distinct"], len(singles), r["wall_s"]))
    cfg = ctx.pick("MC_pair_quick.cfg", "MC_pair.cfg")
    r2 = vlib.tlc(ctx, SPEC, "HookRun", cfg, timeout=ctx.pick(600, 1800), expect_violation=False, workers=4, coverage=not ctx.quick())
    tables = [p["tables"] for p in r2["prints"] if "tables" in p]
    if not tables:
        raise Infra("%s did not print the tables" % cfg)
    ctx.log("TLC %s: %d generated / %d distinct states, depth %d, %.0fs" % (cfg, r2["generated"], r2["distinct"], r2["depth"], r2["wall_s"]))
    if not ctx.quick():
        zero = [l for l in r2["out"].splitlines() if l.startswith("<") and l.rstrip().endswith(": 0:0")]
        ctx.cov["actions_never_taken"] = zero[:20]
    # the invariants are not vacuous: every mutated machine violates the matching one (quick: two of them, chosen by the seed)
    muts = MUTS if not ctx.quick() else [MUTS[ctx.seed % len(MUTS)], MUTS[(ctx.seed + 3) % len(MUTS)]]
    for cfgm, inv in muts:
        vlib.tlc(ctx, SPEC, "HookRun", cfgm, timeout=300, expect_violation=inv, workers=2)
    # the as-it-was model of Hook.Run (removal deferred only after all five files exist) violates NoLeftovers
    vlib.tlc(ctx, SPEC, "HookRun", "MC_asis_prepare_leak.cfg", timeout=300, expect_violation="NoLeftovers", workers=2)
    ctx.log("TLC: mutated machines %s violate %s as expected" % ([m[0][7:-4] for m in muts], [m[1] for m in muts]))
    return singles, tables[0]


def select_singles(ctx, singles, rng):
    """quick: every plan in which at most one output file deviates from empty or from valid (all hooks/context lists
    rotate over them), plus a seeded sample of the rest; thorough: every plan."""
    singles = sorted(singles, key=plan_key)
    if not ctx.quick():
        return singles
    groups = {}
    always = [s for s in singles if s["prepfail"] > 0]          # the hooks whose temp files cannot all be created
    for s in singles:
        if s["prepfail"] > 0:
            continue
        groups.setdefault((s["exit"], tuple(s["out"][k] for k in OUTS)), []).append(s)
    core, rest = [], []
    for key in sorted(groups):
        outs = key[1]
        dev_e = sum(1 for c in outs if c != "empty")
        dev_v = sum(1 for c in outs if c != "valid")
        variants = list(groups[key])                             # the 6 (hook, context list) variants of the plan
        rng.shuffle(variants)
        if all(c in ("empty", "valid") for c in outs):
            core += variants[:3] if key[0] == 0 else variants[:1]   # the 16 plans that must succeed: three variants each
        elif min(dev_e, dev_v) <= 1:
            core.append(variants[0])
        else:
            rest.append(variants[0])
    rng.shuffle(rest)
    return always + core + rest[:max(0, 340 - len(core))]


def gen_pairs(ctx, tables, num, level):
    d = os.path.dirname(ctx.path("hrbeh_" + level, "x"))
    vlib.tlc(ctx, SPEC, "HookRun", "Sim_pair.cfg", mode="sim", sim_num=num, sim_depth=15, timeout=600, want_prints=False,
             consts={"Level": '"%s"' % level}, simfile=os.path.join(d, "b"))
    out = []
    for f in sorted(glob.glob(os.path.join(d, "b_*"))):
        sts = tlaparse.parse_behaviour_file(f)
        os.unlink(f)
        last = sts[-1]
        if any(v != "done" for v in last["pc"].values()):
            continue
        execs = {}
        for e, p in last["plan"].items():
            execs[e] = {"hook": p["hook"], "cwd": tables["dirs"][p["hook"]], "queue": p["queue"], "exit": p["exit"], "out": p["out"],
                        "ctxs": [tables["ctxdesc"][c] for c in p["ctxs"]],
                        "status": p["expect"]["status"], "must": p["expect"]["must"], "mustnot": p["expect"]["mustnot"],
                        "applied": last["res"][e]["applied"], "stage": last["res"][e]["stage"], "prepfail": tables["prepfail"][p["hook"]]}
            if last["res"][e]["status"] != p["expect"]["status"]:
                raise Infra("behaviour %s: machine and reference disagree" % f)
        steps = [{"act": s["act"], "live": s["obs"]["live"], "gone": s["obs"]["gone"]} for s in sts[1:]]
        out.append({"kind": "pair", "envvars": tables["envvars"], "execs": execs, "steps": steps})
    if not out:
        raise Infra("TLC simulation produced no complete behaviours")
    return out


def check_c12(ctx):
    rng = random.Random(ctx.seed)
    singles, tables = model_checks(ctx)
    cases = []
    for s in select_singles(ctx, singles, rng):
        x = {k: s[k] for k in ("hook", "cwd", "queue", "exit", "out", "ctxs", "status", "must", "mustnot", "applied", "stage", "prepfail")}
        cases.append({"kind": "single", "envvars": s["envvars"], "execs": {"e1": x}, "steps": s["steps"]})
    n_single = len(cases)
    npairs = ctx.pick(36, 400)
    cases += gen_pairs(ctx, tables, npairs, "pair")
    cases += gen_pairs(ctx, tables, npairs, "full")
    rng.shuffle(cases)          # consecutive executions of one hook meet in seed-dependent order
    for i, c in enumerate(cases):
        c["id"] = i
    binary = vlib.go_build(ctx, "hookrun")
    hookbin = vlib.go_build(ctx, "hookbin")
    inp, outp = ctx.path("hr_in.jsonl"), ctx.path("hr_out.jsonl")
    vlib.write_jsonl(inp, cases)
    r = vlib.run_bin(ctx, binary, ["-in", inp, "-out", outp, "-hookbin", hookbin], timeout=ctx.pick(900, 3000))
    if r["rc"] != 0:
        raise Infra("hookrun failed: " + r["stderr"][-2000:])
    res = vlib.read_jsonl(outp)
    if len(res) != len(cases):
        raise Infra("hookrun: %d results for %d cases" % (len(res), len(cases)))
    stats = {"spawns": 0, "overlapping_pairs": 0, "diverged": 0, "success_runs": 0, "fail_runs": 0, "applied_effects": 0}
    distinct = set()
    for c, rr in zip(cases, res):
        if rr["case"] != c["id"]:
            raise Infra("hookrun: result order")
        stats["spawns"] += rr.get("spawns", 0)
        stats["overlapping_pairs"] += 1 if rr.get("overlap") else 0
        for o in rr.get("observed") or []:
            _, st, ap = o.split(":")
            stats["success_runs" if st == "Success" else "fail_runs"] += 1
            stats["applied_effects"] += len([a for a in ap.split("+") if a])
        distinct.add(json.dumps([[plan_key(c["execs"][e]) for e in sorted(c["execs"])], [s["act"] for s in c["steps"]]]))
        rep = {"kind": c["kind"], "execs": c["execs"], "schedule": [s["act"] for s in c["steps"]]}
        for fl in rr.get("fails") or []:
            ctx.fail(fl["sig"], fl["detail"], rep)
        if not rr.get("fails") and not rr["ok"]:
            sig = rr.get("sig", "")
            if sig.startswith("C12/"):
                ctx.fail(sig, rr.get("detail", ""), rep)
            else:
                stats["diverged"] += 1
                ctx.notes.append("DIVERGENCE %s (case %d): %s" % (sig, c["id"], rr.get("detail", "")[:300]))
        for fl in (rr.get("soft") or []) if rr.get("fails") else []:
            ctx.notes.append("DIVERGENCE %s (case %d): %s" % (fl["sig"], c["id"], fl["detail"][:300]))
    if stats["diverged"] > len(cases) // 2:
        raise Infra("most cases could not be steered (%d of %d): %s" % (stats["diverged"], len(cases), ctx.notes[:3]))
    ctx.log("replayed %d single-execution and %d two-execution cases on the real operator: %s" % (n_single, len(cases) - n_single, stats))
    ctx.cov["traces_validated_against_impl"] = len(cases)
    ctx.cov["evaluations"] = stats["spawns"]
    ctx.cov["distinct_nontrivial"] = len(distinct)
    ctx.cov["single_cases"] = n_single
    ctx.cov["pair_cases"] = len(cases) - n_single
    ctx.cov["single_plans_enumerated"] = len(singles)
    ctx.cov["replay"] = stats
    for c in cases:
        if c["kind"] == "pair":
            ctx.sample({"pair": {e: {"hook": x["hook"], "exit": x["exit"], "out": x["out"], "expected": x["status"], "applied": x["applied"]} for e, x in c["execs"].items()},
                        "schedule": [s["act"][0] + ":" + s["act"][1] for s in c["steps"]]})
            break
    for c in cases[:40]:
        if c["kind"] == "single" and len(ctx.cov["samples"]) < 4:
            x = c["execs"]["e1"]
            ctx.sample({"single": {"hook": x["hook"], "exit": x["exit"], "out": x["out"], "contexts": [d["binding"] for d in x["ctxs"]]},
                        "expected": {"status": x["status"], "must_apply": x["must"], "must_not_apply": x["mustnot"]}})
    ctx.assumptions += ["hook processes are the hookbin helper (block mode); objects are ConfigMaps on kube-client's fake cluster; metrics are read from the private registry of op.HookMetricStorage",
                        "tasks are handed to the production task handler directly (no queue worker): combination with queued tasks (C07) and retries (C04) are out of scope",
                        "Prepare/Parse/Apply happen inside the handler and are not held separately; the harness controls process start, process end and waits for the handler"]
    vlib.finish(ctx, rule="cases: every plan of MC_single.cfg (thorough) or the plans with at most one output deviating from all-empty/all-valid plus a seeded sample (quick), "
                          "plus TLC-simulated two-execution behaviours; evaluations = hook processes run; distinct = distinct (plans, schedule)")


CHECKS = {"C12": check_c12}

MANIFEST = {
    "C12": dict(
        text="spec/HookRun models one hook execution as a protocol machine (Plan, Prepare, ExecStart, ExecExit, Parse, Apply, Cleanup; two executions of "
             "different queues interleaved at step granularity, shared temp directory) with EnvContract, ContextsExact, FreshNames, ResultRule, NoLeftovers "
             "and FilesStable checked exhaustively by TLC (all 2 x 400 exit/output-class plans for one execution, every interleaving of two executions over a "
             "reduced plan set, six mutated machines that must violate the matching invariant). TLC emits every single-execution plan with the expected "
             "status and the outputs that must / must not be applied, and simulates two-execution behaviours; each is replayed on the real ShellOperator "
             "(fake cluster; HookRun tasks through the production task handler, real Hook.Run / executor / handleRunHook; hookbin as the hook process, "
             "blocked until released) and the oracles check what the process saw (cwd, documented variables, empty files, contexts of the task), file-name "
             "freshness across all executions of the run, task status, visible effects (cluster object, hook metric, admission/conversion response in the "
             "task properties) and the temp directory after every outcome.",
        note="Classes per file: empty, valid, truncated, wrong type (array / string / wrongly typed field), plus 'cannot be applied' for patch and metrics. "
             "A failing Prepare is provoked with hook paths of 189/190/193 characters (temp file name over NAME_MAX). Excluded: trailing data after a complete response document, the JSON document null, other file-system faults, allowFailure. "
             "Prepare/Parse/Apply are not held separately in the real run (no yield point); concurrency is controlled at process start, process end and "
             "handler return. Quick tier replays a structured + seeded subset of the 4 800 single plans, thorough all of them.",
        technique="TLA+ spec + TLC exhaustive check (incl. mutated machines); TLC-enumerated cases and simulated two-execution behaviours replayed on the real operator",
        design="5/C12"),
}
