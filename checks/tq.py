"""C05 (faithful list) and C17 (clean shutdown, queue level): spec/TaskQueue bound to pkg/task/queue.

  1. TLC exhaustively checks TaskQueue.tla (the code after the fix commits) for the property invariants,
     and checks that the as-it-was variant of the model does violate them (the model can see the defect).
  2. TLC simulation generates behaviours; `tq replay` steps the real queue.TaskQueue through each of them
     (public operations, Stop, one worker stretch between two gates per step) and compares the projected
     state (Iterate/Length/GetFirst/GetLast/Get, worker position, task handed to the handler, back-off
     argument) with the specification's state after every step.
  3. `tq stress` records free-running concurrent executions (one record per write critical section, logged
     under the queue lock); TLC validates the trace against TaskQueueTrace.tla.
"""
import glob
import json
import os

import tlaparse
import vlib
from vlib import Infra

SPEC = "TaskQueue"
KEYS = ("act", "items", "wpc", "cur", "sleep", "ctxDone", "lateStart", "backoffArg")


def gen_behaviours(ctx, num, depth, consts=None):
    d = ctx.path("beh", "x")
    d = os.path.dirname(d)
    r = vlib.tlc(ctx, SPEC, "TaskQueue", "Sim.cfg", mode="sim", sim_num=num, sim_depth=depth, timeout=600,
                 extra=None, want_prints=False, consts=consts, simfile=os.path.join(d, "b"))
    files = sorted(glob.glob(os.path.join(d, "b_*")))
    behs = []
    for f in files:
        sts = tlaparse.parse_behaviour_file(f)
        beh = []
        for i, s in enumerate(sts):
            rec = {k: s[k] for k in KEYS}
            rec["lvl"] = i + 1
            beh.append(rec)
        if len(beh) > 1:
            behs.append(beh)
        os.unlink(f)
    if not behs:
        raise Infra("TLC simulation produced no behaviours")
    return behs


def replay(ctx, binary, behs, prefix):
    res = vlib.run_sharded(ctx, binary, behs, lambda i, o: ["replay", "-in", i, "-out", o], shards=8, timeout=1500, tag="tqreplay")
    steps = 0
    acts = {}
    distinct = set()
    for b, rr in zip(behs, res):
        steps += rr["steps"]
        key = json.dumps([s["act"] for s in b[1:rr["steps"] + 1]])
        distinct.add(key)
        for s in b[1:rr["steps"] + 1]:
            a = s["act"][0]
            acts[a] = acts.get(a, 0) + 1
        if not rr["ok"]:
            sig = rr["sig"]
            if sig.startswith(prefix):
                ctx.fail(sig, rr["detail"], vlib.replay_payload("tq", ["replay", "-in", "{in}", "-out", "{out}"], b, human={"actions": [s["act"] for s in b[1:rr["bad_step"] + 1]]}))
            else:
                ctx.notes.append("DIVERGENCE %s at step %d of a replayed behaviour: %s" % (sig, rr["bad_step"], rr["detail"]))
    return steps, acts, len(distinct)


def model_checks(ctx, asis_cfg, asis_inv):
    cfg = ctx.pick("MC_quick.cfg", "MC_thorough.cfg")
    r = vlib.tlc(ctx, SPEC, "TaskQueue", cfg, timeout=ctx.pick(300, 1800), expect_violation=False,
                 coverage=not ctx.quick())
    ctx.log("TLC %s: %d generated / %d distinct states, depth %d, %.0fs" % (cfg, r["generated"], r["distinct"], r["depth"], r["wall_s"]))
    if not ctx.quick():
        zero = [l for l in r["out"].splitlines() if l.startswith("<") and l.rstrip().endswith(": 0:0")]
        ctx.cov["actions_never_taken"] = zero[:20]
    a = vlib.tlc(ctx, SPEC, "TaskQueue", asis_cfg, timeout=300, expect_violation=asis_inv)
    ctx.log("TLC %s: as-it-was model violates %s as expected (%d states)" % (asis_cfg, asis_inv, a["generated"]))
    return r


def check_c05(ctx):
    model_checks(ctx, "MC_asis_nil.cfg", "NoEmptySlot")
    binary = vlib.go_build(ctx, "tq")
    # (R/S) behaviours -> real queue
    num = ctx.pick(350, 6000)
    behs = gen_behaviours(ctx, num, 60)
    steps, acts, distinct = replay(ctx, binary, behs, "C05/")
    ctx.log("replayed %d behaviours (%d steps) on the real queue: %s" % (len(behs), steps, acts))
    ctx.cov["traces_validated_against_impl"] += len(behs)
    ctx.cov["replayed_steps"] = steps
    ctx.cov["replayed_actions"] = acts
    ctx.cov["evaluations"] = len(behs)
    ctx.cov["distinct_nontrivial"] = distinct
    ctx.sample({"behaviour_actions": [s["act"] for s in behs[0][1:12]], "final_items": behs[0][min(11, len(behs[0]) - 1)]["items"]})
    # (T) free-running traces -> TLC
    runs = ctx.pick(150, 2500)
    tr = ctx.path("trace.ndjson")
    r = vlib.run_bin(ctx, binary, ["stress", "-out", tr, "-n", str(runs), "-seed", str(ctx.seed)], timeout=900)
    crashed = False
    if r["rc"] != 0:
        err = r["stderr"]
        if "panic:" in err and "/pkg/task/queue" in err:
            i = err.index("panic:")
            ctx.fail("C05/stress/crash", "the queue code panicked in a free-running run: " + err[i:i + 1200], {"seed": ctx.seed, "runs": runs})
            crashed = True
        else:
            raise Infra("tq stress failed: " + err[-2000:])
    events = [] if crashed else vlib.read_jsonl(tr)
    if crashed:
        vlib.finish(ctx, rule="see DESIGN.md section 5, C05")
    t = vlib.tlc(ctx, SPEC, "TaskQueueTrace", "Trace.cfg", mode="mc", workers=1, timeout=900, files={"trace.ndjson": tr})
    ctx.cov["trace_events"] = len(events)
    ctx.cov["trace_runs"] = runs
    ops = {}
    for e in events:
        ops[e["op"]] = ops.get(e["op"], 0) + 1
    ctx.cov["trace_ops"] = ops
    if t["violated"]:
        # find the first event the reference semantics does not explain
        et = tlaparse.parse_error_trace(t["out"])
        l = et[-1][1].get("l", 0) if et else 0
        bad = events[l - 2] if 2 <= l <= len(events) + 1 else {}
        q = et[-1][1].get("q") if et else None
        prevq = et[-2][1].get("q") if len(et) > 1 else None
        ctx.fail("C05/trace/%s/%s" % (bad.get("op", "?"), t["violated"]),
                 "recorded write %s left the queue as %s; an ordinary list goes from %s to %s" % (json.dumps(bad), bad.get("items"), prevq, q),
                 {"event_index": l - 1, "event": bad, "window": events[max(0, l - 8):l]})
    else:
        ctx.cov["traces_validated_against_impl"] += runs
    ctx.log("validated %d free-running runs (%d write events) against TaskQueueTrace: %s" % (runs, len(events), t["violated"] or "accepted"))
    ctx.assumptions += ["task ids are compared by GetId(); the reference for an insertion next to a missing id is 'no change' (container/list semantics)",
                        "replay fixtures use 1 ns delays so that the wait loop's elapsed>=waitUntil test is always true"]
    vlib.finish(ctx, rule="behaviours: TLC simulation of spec/TaskQueue (SimSpec, seed), distinct = distinct action sequences; "
                          "every step compares Iterate/Length/GetFirst/GetLast/Get with the spec state; "
                          "traces: free-running runs validated by TLC against TaskQueueTrace.tla")


def check_c17(ctx):
    model_checks(ctx, "MC_asis_stop.cfg", "NoLateStart")
    if not ctx.quick():
        r = vlib.tlc(ctx, SPEC, "TaskQueue", "MC_live.cfg", timeout=1800, expect_violation=False)
        ctx.log("TLC MC_live.cfg (TerminatesAfterStop under weak fairness): %d distinct states, %.0fs" % (r["distinct"], r["wall_s"]))
    binary = vlib.go_build(ctx, "tq")
    num = ctx.pick(350, 6000)
    behs = gen_behaviours(ctx, num, 60, consts={"StopAfterPicks": "1", "StopAfterOps": "0"})
    # Stop while the worker is in (or about to enter) waitForTask: empty queue, back-off delay, repeat delay
    behs += gen_behaviours(ctx, num, 60, consts={"StopAfterPicks": "0", "StopAfterOps": "0",
                                                 "StopPcs": '{"select", "shortcut", "top", "get"}'})
    # Stop before the worker of a (late-created) queue is started: shutdown while the operator is still starting
    behs += gen_behaviours(ctx, max(100, num // 4), 40, consts={"StopAfterPicks": "0", "StopAfterOps": "0", "StopPcs": '{"notstarted"}'})
    # Stop and CancelTaskDelay both while the worker sits in the wait loop: the select then has the cancelled context,
    # the ticker and whatever CancelTaskDelay uses to wake the loop ready at once
    both = gen_behaviours(ctx, num, 40, consts={"StopAfterPicks": "0", "StopAfterOps": "0", "StopPcs": '{"select"}', "CancelPcs": '{"select"}'})
    both = [b for b in both if any(s["act"][0] == "CancelDelay" for s in b)]
    ctx.cov["stop_and_cancel_in_wait_loop"] = len([b for b in both if any(s["act"][0] == "Stop" for s in b)])
    behs += both
    behs = [b for b in behs if any(s["act"][0] == "Stop" for s in b)]
    steps, acts, distinct = replay(ctx, binary, behs, "C17/")
    stop_pcs = {}
    for b in behs:
        for i, s in enumerate(b):
            if s["act"][0] == "Stop":
                stop_pcs[b[i - 1]["wpc"]] = stop_pcs.get(b[i - 1]["wpc"], 0) + 1
    ctx.log("replayed %d behaviours with Stop (%d steps); Stop injected at worker positions %s" % (len(behs), steps, stop_pcs))
    ctx.cov["traces_validated_against_impl"] += len(behs)
    ctx.cov["stop_positions"] = stop_pcs
    ctx.cov["replayed_steps"] = steps
    ctx.cov["replayed_actions"] = acts
    ctx.cov["evaluations"] = len(behs)
    ctx.cov["distinct_nontrivial"] = distinct
    if behs:
        ctx.sample({"behaviour_actions": [s["act"] for s in behs[0][1:]][-12:], "final_wpc": behs[0][-1]["wpc"]})
    # operator level: Shutdown in the middle of a run of the real operator (queues idle, in a handler, events and ticks
    # still arriving): no execution may start afterwards
    import op
    n, st = op.e2e(ctx, ("C17/",), ["A", "D"], ctx.pick(20, 300), depth=45, sdafter=ctx.pick(11, 10), nrandom=ctx.pick(4, 30))
    ctx.log("operator level: %d behaviours with Shutdown replayed on the real operator: %s" % (n, st))
    ctx.cov["traces_validated_against_impl"] += n
    ctx.cov["operator_level"] = st
    ctx.assumptions += ["'picked' is linearised at the last context check before the task is returned by waitForTask",
                        "when Stop and the wait-loop ticker are both ready the harness lets Go's select choose; the step is repeated over many behaviours"]
    vlib.finish(ctx, rule="behaviours containing Stop from TLC simulation of spec/TaskQueue, replayed gate by gate on the real worker goroutine; "
                          "distinct = distinct action sequences; Stop position = worker pc at the time of Stop")


CHECKS = {"C05": check_c05, "C17": check_c17}

MANIFEST = {
    "C05": dict(
        text="TLC exhaustively checks spec/TaskQueue (slice operations as the code performs them next to an ordinary list, "
             "worker loop at gate granularity, public operations interleaved between pick and result application) for "
             "NoEmptySlot/ListFaithful/HeadFirst/FailKeepsPosition; TLC-generated behaviours are replayed step by step on the real "
             "queue.TaskQueue with Iterate/Length/GetFirst/GetLast/Get compared after every step; free-running concurrent runs are "
             "recorded under the queue lock and validated by TLC against TaskQueueTrace.tla.",
        note="Trusts TLC, the gate hooks (add-only, tag verif) and the Go runtime. Bounds: 3+2 ids, queue length <= 4-5, <= 12 public operations "
             "per behaviour. 'Insert next to a missing id' is specified as 'no change' (container/list semantics); other policies without an "
             "empty slot are reported as divergence, not violation.",
        technique="TLA+ spec + TLC exhaustive check; behaviour replay into the real queue; TLC trace validation of recorded runs",
        design="5/C05"),
    "C17": dict(
        text="TLC checks NoLateStart (invariant) on spec/TaskQueue with Stop enabled at every worker position and Go's select modelled as a "
             "nondeterministic choice, and TerminatesAfterStop under weak fairness (thorough); behaviours with Stop at every gate are replayed "
             "on the real worker goroutine (gate hooks), with ticker and cancelled context both ready at the wait-loop select.",
        note="Queue level (task_queue.go). 'Picked' is linearised at the last context check before waitForTask returns. The select race is "
             "probabilistic in Go: each behaviour exercises it once, hundreds of behaviours per run.",
        technique="TLA+ spec + TLC exhaustive check incl. liveness; gate-scheduled schedule replay on the real worker goroutine",
        design="5/C17"),
}

