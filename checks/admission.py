"""C14 (admission webhooks fail closed and relay the hook's verdict faithfully): spec/Admission bound to the real
chain  HTTP request -> chi router of admission.WebhookManager -> event handler closure of
initValidatingWebhookManager -> taskHandler -> hook process -> response file -> AdmissionReview.

What is modelled (spec/Admission/Admission.tla, written from the statement, docs/src/BINDING_VALIDATING.md,
examples/206-mutating-webhook and the path comment in pkg/webhook/admission/config.go):
  * a configuration = 1..3 bindings [hook h1|h2, kind validating|mutating, name]; the registry
    (configurationId "hooks", webhookId) -> binding is built from the binding names by the URL-safe
    transformation (upper case X -> "-x", everything outside [a-z0-9-/] -> "-", runs of "-" collapsed) which TLC
    evaluates on the characters of the names;
  * a request = path (registered / registered + ?timeout=10s / other configuration id / configuration id in
    upper case / unregistered webhook id / the untransformed binding name / webhook id alone / extra segment /
    suffix / prefix segment / configuration only / root) x body (AdmissionReview with a request, not JSON, empty,
    no request, request of the wrong type, wrong content type);
  * the scripted outcome of every hook process: exit code x bytes written to $VALIDATING_RESPONSE_PATH (nothing,
    blank, truncated JSON, wrong types, array, bad base64, null, {}, or a valid response over allowed x message x
    warnings x patch[mutating only]); the way the process ends is exit 0, exit 1, or - after it wrote a valid
    allowing response - termination by a signal (exit = -9: SIGKILL, -15: SIGTERM; the hook helper sends the signal
    to itself): "did not exit with zero", so the answer must be a denial;
  * the machine S_Decode, S_Route, S_RunHook, S_Answer and the invariants FailClosed, UidEchoed, VerdictRelayed,
    RightHookRuns, checked by TLC over every case; planted faults (MC_fault.cfg) show each invariant can fail
    (open-signal = a signalled hook is not a failed hook, the seeded change C14-m6).

What the oracle demands of the real code, per case, with the expected answer computed by TLC:
  * allowed=true only where TLC's answer is an allow; a case without a request in the body may be answered with a
    non-2xx status or a denial; every other non-allow must be a real denial (2xx, allowed=false) because a
    non-2xx answer is subject to failurePolicy;
  * response.uid equals the request uid;
  * where a hook's valid response is relayed: allowed, status.message (only for a denial with a message), warnings,
    and for allows patch (base64-decoded) and patchType;
  * the hook processes that ran (exec/*.start of hookbin) are exactly the registered hook, with one binding context
    whose binding name, type (Validating/Mutating) and review.request.uid are those of the registration/request;
    no process runs for unknown paths or bodies without a request;
  * once per configuration: the clientConfig.service.path of every webhook in the Validating/Mutating
    WebhookConfiguration objects the manager created on the fake cluster equals TLC's path for that binding.

Excluded from the generated domain (statement silent or unsatisfiable), never counted as violations:
  two bindings that map to one webhook id (TLC computes the collision and drops the configuration); names that
  Kubernetes does not accept are used for mutating bindings only (the loader validates validating names) and
  names with "/" are not generated; request paths with empty segments ("//") or a trailing slash; response files
  with trailing garbage, duplicate or differently-cased keys, unknown extra keys; a patch written by a
  validating hook; the patch of a denial; the message of an allow; the wording of the operator's own denials;
  concurrent requests; hook processes that never end or are killed before they wrote a response (same answer as
  "nothing written"); failures of metrics/kubernetes-patch files.
"""
import concurrent.futures
import json
import os

import vlib
from vlib import Infra

SPEC = "Admission"
FAULTS = [("open-noresponse", "FailClosed"), ("open-fail", "FailClosed"), ("first-binding", "RightHookRuns"),
          ("drop-warnings", "VerdictRelayed"), ("no-patchtype", "VerdictRelayed"), ("drop-uid", "UidEchoed"),
          ("open-signal", "FailClosed")]


def cfg_key(c):
    return json.dumps(sorted(c["cfg"], key=lambda b: (b["hook"], b["kind"], b["name"])), sort_keys=True)


def case_order(c):
    return (cfg_key(c), c["req"]["pclass"], c["req"]["path"], c["req"]["body"], json.dumps(c["plan"], sort_keys=True))


def nontrivial(c):
    """every case except a plain {"allowed":true} on the only binding of a one-binding configuration"""
    if len(c["cfg"]) > 1 or c["req"]["pclass"] != "known" or c["req"]["body"] != "ok":
        return True
    e = c["exp"]
    return not (e.get("allowed") and not e.get("warnings") and not e.get("patch"))


def planted_faults(ctx, which):
    def one(fw):
        fault, inv = fw
        vlib.tlc(ctx, SPEC, "Admission", "MC_fault.cfg", consts={"Fault": '"%s"' % fault}, workers=1, timeout=300,
                 expect_violation=inv, want_prints=False)
        return fault
    with concurrent.futures.ThreadPoolExecutor(max_workers=3) as ex:
        return list(ex.map(one, which))


def replay(ctx, cases, shards):
    binary = vlib.go_build(ctx, "admission")
    hookbin = vlib.go_build(ctx, "hookbin")
    # cases of one configuration stay adjacent and in one shard
    groups = []
    for c in cases:
        k = cfg_key(c)
        if not groups or groups[-1][0] != k:
            groups.append((k, []))
        groups[-1][1].append(c)
    parts = [[] for _ in range(shards)]
    for i, (_, g) in enumerate(groups):
        parts[i % shards].append(g)
    jobs = []
    for i, p in enumerate(parts):
        flat = [c for g in p for c in g]
        if not flat:
            continue
        inp, outp = ctx.path("adm", "in_%d.jsonl" % i), ctx.path("adm", "out_%d.jsonl" % i)
        vlib.write_jsonl(inp, flat)
        jobs.append((flat, inp, outp, ctx.path("adm", "work_%d" % i, "x")))

    def run(job):
        flat, inp, outp, work = job
        r = vlib.run_bin(ctx, binary, ["-in", inp, "-out", outp, "-hookbin", hookbin, "-work", os.path.dirname(work)],
                         timeout=ctx.pick(600, 2400))
        if r["rc"] != 0:
            raise Infra("admission harness failed: " + r["stderr"][-2000:])
        res = vlib.read_jsonl(outp)
        if len(res) != len(flat):
            raise Infra("admission harness: %d results for %d cases" % (len(res), len(flat)))
        return list(zip(flat, res))

    with concurrent.futures.ThreadPoolExecutor(max_workers=shards) as ex:
        out = []
        for pairs in ex.map(run, jobs):
            out += pairs
    return out, len(groups)


def check_c14(ctx):
    # 1. the design: every case of the bounded domain, all four properties; one residue class of configurations exported
    cfgname = ctx.pick("MC_quick.cfg", "MC_thorough.cfg")
    mod = ctx.pick(5, 1)
    r = vlib.tlc(ctx, SPEC, "Admission", cfgname, consts={"EmitMod": str(mod), "EmitRem": str(ctx.seed % mod)},
                 workers=4, timeout=ctx.pick(300, 1200), expect_violation=False)
    cases = r["prints"]
    if not cases:
        raise Infra("TLC exported no cases")
    ctx.log("TLC %s: %d states, all properties hold; %d cases exported (class %d of %d), %.0fs"
            % (cfgname, r["distinct"], len(cases), ctx.seed % mod, mod, r["wall_s"]))
    # 2. the properties are not vacuous: TLC finds each planted fault
    done = planted_faults(ctx, FAULTS if not ctx.quick() else [[FAULTS[6], FAULTS[0], FAULTS[1]][ctx.seed % 3], FAULTS[2 + ctx.seed % 3], FAULTS[5]])
    ctx.log("planted faults found by TLC: %s" % ", ".join(done))
    ctx.cov["planted_faults_detected_by_tlc"] = done
    # 3. replay on the real code
    cases.sort(key=case_order)
    pairs, nconf = replay(ctx, cases, shards=4)
    stats = {"cases": len(pairs), "configurations": nconf, "hook_executions": 0, "operators_assembled": 0, "by_request": {}, "by_outcome": {}}
    for c, o in pairs:
        stats["hook_executions"] += o.get("execs", 0)
        stats["operators_assembled"] += 1 if o.get("setup") else 0
        k = c["req"]["pclass"] + "/" + c["req"]["body"]
        stats["by_request"][k] = stats["by_request"].get(k, 0) + 1
        if c["ran"]:
            p = c["plan"][c["ran"][0]["hook"]]
            k2 = "%s/exit%d" % (p["rc"], p["exit"])
            stats["by_outcome"][k2] = stats["by_outcome"].get(k2, 0) + 1
        if o["ok"]:
            if o.get("detail"):
                ctx.notes.append("DIVERGENCE C14 %s (%s)" % (o["detail"], c["req"]["path"]))
            continue
        sig = o["sig"]
        if sig.startswith("C14/"):
            ctx.fail(sig, o["detail"], {"cfg": c["cfg"], "req": c["req"], "plan": c["plan"], "expected": c["exp"],
                                        "expected_ran": c["ran"], "observed": o.get("obs")})
        else:
            raise Infra("admission harness could not run a case (%s): %s" % (sig, o["detail"][:1500]))
    ctx.log("replayed %d cases of %d configurations on the real operator: %d hook executions" % (len(pairs), nconf, stats["hook_executions"]))
    ctx.cov["traces_validated_against_impl"] = len(pairs)
    ctx.cov["evaluations"] = len(pairs)
    ctx.cov["distinct_nontrivial"] = len({json.dumps([cfg_key(c), c["req"], c["plan"]], sort_keys=True) for c, _ in pairs if nontrivial(c)})
    ctx.cov["replay"] = stats
    picks = [next((c for c, _ in pairs if c["exp"].get("patch")), None),
             next((c for c, _ in pairs if c["exp"].get("checkMsg") and len(c["cfg"]) == 3), None),
             next((c for c, _ in pairs if c["req"]["pclass"] == "raw-name"), None),
             next((c for c, _ in pairs if c["ran"] and c["plan"][c["ran"][0]["hook"]]["rc"] == "absent"), None),
             next((c for c, _ in pairs if c["req"]["body"] == "notjson"), None)]
    for c in picks:
        if c:
            ctx.sample({"cfg": [(b["hook"], b["kind"], b["name"], b["path"]) for b in c["cfg"]], "req": c["req"],
                        "plan": {h: (p["exit"], p["text"]) for h, p in c["plan"].items()}, "expected": c["exp"], "runs": c["ran"]})
    ctx.assumptions += ["hook processes are the hookbin helper with scripted exit code / response file; the webhook router is served by "
                        "net/http/httptest; a hook 'killed by a signal' is the helper sending SIGKILL / SIGTERM to itself after writing its files (the manager's own TLS listener is started on 127.0.0.1:0 with a run-time certificate but not used)",
                        "Validating/MutatingWebhookConfiguration objects go to kube-client's fake cluster",
                        "requests are sequential; consecutive cases of a configuration share one operator (stale state would show)"]
    vlib.finish(ctx, rule="cases = TLC states of spec/Admission (configuration x request x scripted hook outcomes) of the exported residue class of "
                          "configurations, each run end to end on the real operator; distinct_nontrivial = distinct cases except a plain "
                          "{\"allowed\":true} on the only binding of a one-binding configuration")


CHECKS = {"C14": check_c14}

MANIFEST = {
    "C14": dict(text="spec/Admission (request decode, path -> (configurationId, webhookId) -> registered binding via the URL-safe name "
                     "transformation, hook run, response file classes, answer) is checked by TLC for FailClosed, UidEchoed, VerdictRelayed and "
                     "RightHookRuns over every configuration of <= 3 validating/mutating bindings on <= 2 hooks x request paths/bodies x hook "
                     "outcomes (response file classes x exit 0 / exit 1 / killed by SIGKILL or SIGTERM after writing an allowing response). The cases, with the answer TLC computed, are replayed end to end on the real operator: real admission.WebhookManager "
                     "(Init/Start with a run-time certificate, configuration objects on a fake cluster), its chi router under httptest, the real "
                     "event handler closure of initValidatingWebhookManager, real hook processes; HTTP status, allowed, uid, status.message, warnings, "
                     "patch, patchType, the hook/binding context that ran and the registered webhook paths are compared.",
                note="Quick: 5 binding names (one webhook-id collision, two names legal for mutating only), one of 5 residue classes of the 225 "
                     "configurations per seed plus, for every seed, the 8 two-hook configurations with one binding per hook in every kind "
                     "combination (VV, MM, VM, MV) (~5.0-5.6 k cases). Thorough: 7 names, all 417 configurations (~45 k cases). Colliding webhook ids, "
                     "empty path segments, sloppy-but-parseable response files and concurrent requests are outside the domain (module docstring).",
                technique="TLA+ reference machine enumerated and checked by TLC; case replay through the real HTTP handler, operator and hook processes",
                design="5/C14"),
}
