"""C18 (the execution rate limit from `settings` is respected): spec/RateLimit bound to the real ShellOperator.

What is modelled (spec/RateLimit/RateLimit.tla, discrete time): per hook a token bucket (capacity executionBurst B,
one token per executionMinInterval I; hooks without settings: no limiter), one worker per queue whose first step for
every HookRun task - first runs and retries alike - is RateLimitWait, combination of adjacent tasks after the wait,
hooks sharing / not sharing a queue, one hook with bindings in two queues, arbitrary arrivals.

  1. TLC, exhaustive: (a) MC_quick/MC_thorough - no clock, unbounded time, the window bound evaluated by a monitor
     (WindowBoundMon), Unthrottled, NoNeedlessWait; (b) MC_hist_* - clock with a horizon of 12 ticks, the bound evaluated
     literally over the history of start times (WindowBound: every window of length T holds <= B + ceil(T/I) starts);
     (c) MC_equiv_* - on ARBITRARY start sequences the monitor rejects exactly what the literal formula rejects;
     (d) MC_mut - seeded wiring errors in the model (no wait, retries skip the wait, limiter re-created per run, one
     limiter shared by all hooks) violate WindowBoundMon / Unthrottled: the properties are not vacuous.
  2. TLC simulation generates behaviours (bursts, steady streams, failing runs); their arrival patterns (tick, hook,
     queue, kube event or schedule tick), run outcomes and hook settings become scenarios for `ratelimit run`: a real
     ShellOperator on a fake cluster, hooks with `settings: {executionMinInterval: I, executionBurst: B}` for
     I in {100, 150} ms and B in {1, 2, 3}, hooks without settings, queue workers running freely, hook processes
     (hookbin, plan mode) that record their own start time and exit at once (or fail and are retried after 2 ms).
  3. The recorded start times, quantised to 25 ms ticks, are validated by TLC against RateLimitTrace.tla (the same
     WindowOK formula, slack 2 ticks).

Oracles (a verdict only from executions of the real code, and only after the same oracle failed again in a
confirmation run of the scenario on its own):
  * C18/window/...: for a hook with settings, over ALL windows [t_i, t_j] between two observed process starts:
    count <= B + ceil((t_j - t_i + 20 ms) / I).  The process start is later than the return of RateLimitWait; for a hook
    whose runs come from one queue the bound then cannot fail on correct code whatever the lag (runs are serial:
    only the first start of a window can have left the limiter before the window, and ceil((T + slack)/I) >=
    floor(T/I) + 1); for a hook with bindings in two queues a lag above I + 20 ms would be needed.  In addition the
    failure must also show on the in-process stamps taken right after RateLimitWait (first metric of the handler)
    where they exist; otherwise it is logged as NOT-REPRODUCED spawn lag.
  * C18/limiter-probe/...: B + 2 consecutive direct RateLimitWait calls on the hook object the operator built from the
    hook's config (full bucket) obey the same bound, in two rounds (catches a limiter built from the wrong
    setting/unit without any process lag).
  * C18/unthrottled/...: two hooks without settings with 24 tasks queued alternately (no combination possible) run
    back to back: a failure needs the third quartile of the pauses between the end of one process and the start of the
    next above 50 ms (typically 3-10 ms; any limiter of the scale configured here makes every run, or every second
    run, wait >= 90 ms) AND, in process, the third quartile of the time between q.get and the return of RateLimitWait
    above 25 ms (typically 0.03 ms); 100 direct RateLimitWait calls on a hook without settings take < 100 ms (fastest of
    3 batches).
Not a violation (the statement gives an upper bound only): a limiter that is stricter than configured - burst not
granted, longer interval, one limiter shared by several hooks with settings.  The direct probe reports these as
DIVERGENCE notes.  Excluded: settings with I <= 0 or B <= 0 (the statement is about configured limits), webhook-triggered
runs (they do not go through taskHandleHookRun), golang.org/x/time/rate itself (trusted).
"""
import concurrent.futures
import glob
import json
import os
import random
import re

import tlaparse
import vlib
from vlib import Infra

SPEC = "RateLimit"
TICK_MS = 50
TRACE_TICK_MS = 25
SLACK_MS = 20
HORIZON = 12


def model_checks(ctx):
    w = 4
    cfgs = ctx.pick(["MC_quick.cfg", "MC_hist_quick.cfg", "MC_equiv_quick.cfg"],
                    ["MC_thorough.cfg", "MC_hist_thorough.cfg", "MC_equiv_thorough.cfg"])
    for cfg in cfgs:
        r = vlib.tlc(ctx, SPEC, "MCRateLimit", cfg, timeout=ctx.pick(400, 2400), expect_violation=False, workers=w,
                     coverage=(not ctx.quick() and cfg == "MC_thorough.cfg"))
        ctx.log("TLC %s: %d generated / %d distinct states, depth %d, %.0fs" % (cfg, r["generated"], r["distinct"], r["depth"], r["wall_s"]))
        if not ctx.quick() and cfg == "MC_thorough.cfg":
            zero = [l for l in r["out"].splitlines() if l.startswith("<") and l.rstrip().endswith(": 0:0")]
            ctx.cov["actions_never_taken"] = zero[:20]
    muts = [("nowait", "WindowBoundMon"), ("skipretry", "WindowBoundMon"), ("fresh", "WindowBoundMon"), ("shared", "Unthrottled")]
    if ctx.quick():
        muts = [muts[1], muts[3]]
    seen = []
    for wiring, inv in muts:
        a = vlib.tlc(ctx, SPEC, "MCRateLimit", "MC_mut.cfg", timeout=300, expect_violation=inv, workers=2,
                     consts={"Wiring": '"%s"' % wiring})
        seen.append("%s->%s" % (wiring, inv))
        # a model-only counterexample; it must not count as explored state space of the property
        ctx.cov["states"] -= a["distinct"]
        ctx.cov["transitions"] -= a["generated"]
    ctx.log("TLC MC_mut.cfg: seeded wiring errors violate the properties in the model: " + ", ".join(seen))
    ctx.cov["model_mutants_rejected"] = seen


_NOW = re.compile(r"^/\\ now = (\d+)\s*$", re.M)
_ACT = re.compile(r"^/\\ act = (.*)$", re.M)
_HDR = re.compile(r"^STATE_(\d+) ==\s*$", re.M)


def parse_behaviour(path):
    """(cfg, [(now, act)]) - only what the scenarios need (the generic parser is slow on 10^4 states)."""
    txt = open(path, errors="replace").read()
    parts = _HDR.split(txt)
    first = re.split(r"^\\\*|^====", parts[2], flags=re.M)[0]
    cfg = tlaparse.parse_state(first)["cfg"]
    steps = []
    for i in range(1, len(parts), 2):
        body = parts[i + 1]
        m1, m2 = _NOW.search(body), _ACT.search(body)
        if not m1 or not m2:
            raise Infra("cannot parse a state of " + path)
        steps.append((int(m1.group(1)), tlaparse.parse_value(m2.group(1))))
    return cfg, steps


def gen_behaviours(ctx, num):
    d = os.path.dirname(ctx.path("rlbeh", "x"))
    vlib.tlc(ctx, SPEC, "MCRateLimit", "Sim.cfg", mode="sim", sim_num=num, sim_depth=160, timeout=600, want_prints=False,
             simfile=os.path.join(d, "b"))
    out = []
    for f in sorted(glob.glob(os.path.join(d, "b_*"))):
        cfg, steps = parse_behaviour(f)
        os.unlink(f)
        out.append((cfg, steps))
    if not out:
        raise Infra("TLC simulation produced no behaviours")
    return out


def topology(qs):
    a, b = sorted(qs["h1"]), sorted(qs["h2"])
    if len(a) > 1:
        return "multi"
    return "shared" if a == b else "separate"


def duration(ms, rnd):
    return rnd.choice(["%dms" % ms, "%gs" % (ms / 1000.0), "%dus" % (ms * 1000), "%dms" % ms])


def to_scenario(n, cfg, steps, rnd):
    hooks = []
    for h in ("h1", "h2"):
        i = cfg["I"][h]
        hooks.append({"name": h, "i_ticks": i, "burst": cfg["B"][h], "queues": sorted(cfg["QS"][h]),
                      "duration": duration(i * TICK_MS, rnd) if i else ""})
    arrivals, plans = [], {"h1": [], "h2": []}
    for now, act in steps:
        if act[0] == "Arrive":
            arrivals.append({"tick": now, "hook": act[1], "queue": act[2], "src": act[3]})
        elif act[0] == "Start":
            plans[act[2]].append(bool(act[3]))
    shape = {6: "burst", 3: "mixed", 1: "steady"}.get(cfg.get("W"), "w%s" % cfg.get("W"))
    topo = topology(cfg["QS"])
    # stress: runs of a hook that cannot be combined (blocks separated by another hook's task in the same queue) plus retries
    score = 0
    for h in hooks:
        if not h["i_ticks"]:
            continue
        blocks = 0
        for q in h["queues"]:
            prev = None
            for a in arrivals:
                if a["queue"] != q:
                    continue
                if a["hook"] == h["name"] and prev != h["name"]:
                    blocks += 1
                prev = a["hook"]
        retries = sum(1 for ok in plans[h["name"]] if not ok)
        score = max(score, blocks + retries - h["burst"])
    key = "%s/I%s-%s/B%s-%s" % (topo, cfg["I"]["h1"], cfg["I"]["h2"], cfg["B"]["h1"], cfg["B"]["h2"])
    sc = {"id": n, "name": "%s/%s" % (key, shape), "tick_ms": TICK_MS, "trace_tick_ms": TRACE_TICK_MS, "slack_ms": SLACK_MS,
          "horizon": HORIZON, "drain_ms": 1500, "hooks": hooks, "arrivals": arrivals, "plans": plans, "control_n": 12}
    return sc, key, shape, score


def select(ctx, behs):
    rnd = random.Random(ctx.seed)
    groups = {}
    for n, (cfg, steps) in enumerate(behs):
        sc, key, shape, score = to_scenario(n, cfg, steps, rnd)
        if not sc["arrivals"]:
            continue
        groups.setdefault((key, "steady" if shape == "steady" else "burst"), []).append((score, len(sc["arrivals"]), n, sc))
    per_burst, per_steady = ctx.pick((1, 1), (10, 6))
    chosen = []
    keys = sorted({k for k, _ in groups})
    for k in keys:
        b = sorted(groups.get((k, "burst"), []), key=lambda x: (-x[0], -x[1], x[2]))
        chosen += [x[3] for x in b[:per_burst]]
    steady_keys = keys if not ctx.quick() else rnd.sample(keys, min(5, len(keys)))
    for k in steady_keys:
        s = sorted(groups.get((k, "steady"), []), key=lambda x: (-x[0], -x[1], x[2]))
        chosen += [x[3] for x in s[:per_steady]]
    for i, sc in enumerate(chosen):
        sc["id"] = i
    if not chosen:
        raise Infra("no scenario selected")
    return chosen, len(keys)


def build(ctx):
    return vlib.go_build(ctx, "ratelimit"), vlib.go_build(ctx, "hookbin")


def check_c18(ctx):
    if getattr(ctx, "replay", None):
        # --replay <file>: run the scenario of a recorded failure again (no model checking, no generation)
        data = json.load(open(ctx.replay))
        sc = (data.get("replay") or {}).get("scenario")
        if not sc:
            raise Infra("no scenario in " + ctx.replay)
        sc["id"] = 0
        scenarios = [sc]
        binary, hookbin = build(ctx)
    else:
        with concurrent.futures.ThreadPoolExecutor(1) as ex:
            fut = ex.submit(build, ctx)           # the Go build runs while TLC checks the model
            model_checks(ctx)
            behs = gen_behaviours(ctx, ctx.pick(220, 1500))
            binary, hookbin = fut.result()
        scenarios, nkeys = select(ctx, behs)
        ctx.log("%d behaviours generated, %d scenarios selected over %d hook configurations" % (len(behs), len(scenarios), nkeys))
    inp, outp, tr = ctx.path("rl_in.jsonl"), ctx.path("rl_out.jsonl"), ctx.path("rl_trace.ndjson")
    vlib.write_jsonl(inp, scenarios)
    r = vlib.run_bin(ctx, binary, ["run", "-in", inp, "-out", outp, "-trace", tr, "-hookbin", hookbin, "-par", "4"], timeout=ctx.pick(600, 2400))
    if r["rc"] != 0:
        raise Infra("ratelimit run failed: " + r["stderr"][-2000:])
    res = vlib.read_jsonl(outp)
    if len(res) != len(scenarios):
        raise Infra("ratelimit run: %d results for %d scenarios" % (len(res), len(scenarios)))
    ran = execs = nstarts = 0
    lag_max = fill_max = 0.0
    gaps, inproc = [], []
    infra = []
    conf_notes = 0
    nontrivial = set()
    for sc, rr in zip(scenarios, res):
        if rr.get("infra"):
            infra.append("%s: %s" % (sc["name"], rr["infra"][:300]))
            continue
        ran += 1
        execs += rr["execs"]
        for h in rr["hooks"]:
            if h.get("unlimited"):
                continue
            nstarts += h["starts"]
            lag_max = max(lag_max, h["lag_max_ms"])
            fill_max = max(fill_max, h["max_fill"])
            if h["starts"] > h["b"] + 1:
                nontrivial.add(json.dumps([sc["hooks"], sc["arrivals"], sc["plans"]], sort_keys=True))
        c = rr.get("control") or {}
        if c.get("gaps"):
            gaps.append(c["gap_p75_ms"])
            inproc.append(c["in_wait_p75_ms"])
        for f in rr["failures"]:
            ctx.fail(f["sig"], f["detail"], {"scenario": sc, "observed": f.get("data"), "first_run": rr.get("first_run")})
        for n in rr["notes"]:
            if n.startswith("DIVERGENCE") or n.startswith("NOT-REPRODUCED"):
                ctx.notes.append("%s [scenario %s]" % (n[:500], sc["name"]))
        if len(ctx.cov["samples"]) < 4 and rr["hooks"]:
            ctx.sample({"scenario": sc["name"], "arrivals": len(sc["arrivals"]), "executions": rr["execs"],
                        "hooks": [{k: h[k] for k in ("hook", "i_ms", "b", "starts", "tightest", "lag_max_ms", "probe_ms") if k in h} for h in rr["hooks"]],
                        "control": rr.get("control")})
    if infra:
        ctx.notes.append("DIVERGENCE %d scenario(s) could not be run: %s" % (len(infra), "; ".join(infra)[:600]))
    if ran * 2 < len(scenarios):
        raise Infra("only %d of %d scenarios could be run: %s" % (ran, len(scenarios), "; ".join(infra)[:1500]))
    ctx.log("%d scenarios on the real operator: %d hook processes, %d starts of throttled hooks, fullest window at %.0f%% of its bound, "
            "max lag RateLimitWait->process start %.1f ms; hooks without settings: third quartile of the pauses %.1f ms (worst scenario), of the in-process wait %.2f ms"
            % (ran, execs, nstarts, fill_max * 100, lag_max, max(gaps or [0]), max(inproc or [0])))
    # (T) the recorded start times against the specification's window formula
    lines = vlib.read_jsonl(tr) if os.path.exists(tr) else []
    if lines:
        t = vlib.tlc(ctx, SPEC, "RateLimitTrace", "Trace.cfg", mode="mc", workers=1, timeout=600, files={"trace.ndjson": tr})
        ctx.cov["states"] -= t["distinct"]          # a linear trace, not explored state space
        ctx.cov["transitions"] -= t["generated"]
        conf = {(p["run"], p["hook"]) for p in t["prints"]}
        conf_notes = len(conf)
        if t["violated"]:
            et = tlaparse.parse_error_trace(t["out"])
            par = et[-1][1].get("par", {}) if et else {}
            seen = et[-1][1].get("seen", []) if et else []
            msg = "TLC rejects the recorded start times of hook %s in scenario %s (%s): ticks %s, I=%s B=%s S=%s" % (
                par.get("hook"), par.get("run"), t["violated"], seen, par.get("I"), par.get("B"), par.get("S"))
            if ctx.failures:
                ctx.log(msg)
            else:
                # the quantised bound is weaker than the Go-side oracle: a rejection without a Go-side failure was either not
                # confirmed by the second run or is an inconsistency of the tooling
                ctx.notes.append("DIVERGENCE trace: " + msg)
        else:
            ctx.log("TLC accepted the recorded trace: %d start events of %d hook runs (WindowBound, slack 2 ticks of %d ms); %d sequence(s) outside the tight token-bucket envelope"
                    % (sum(1 for l in lines if l["ev"] == "start"), sum(1 for l in lines if l["ev"] == "hook"), TRACE_TICK_MS, conf_notes))
    ctx.cov["traces_validated_against_impl"] = ran
    ctx.cov["evaluations"] = nstarts
    ctx.cov["distinct_nontrivial"] = len(nontrivial)
    ctx.cov["scenarios"] = {"selected": len(scenarios), "run": ran, "hook_processes": execs, "throttled_starts": nstarts,
                            "max_window_fill": fill_max, "max_lag_ms": lag_max, "control_gap_p75_ms_worst": max(gaps or [0]),
                            "control_inproc_wait_p75_ms_worst": max(inproc or [0]), "trace_lines": len(lines),
                            "outside_tight_bucket_envelope": conf_notes}
    ctx.assumptions += [
        "golang.org/x/time/rate is trusted; the check is about the wiring: limiter built from settings, one per hook, waited on before every queued run",
        "the start of an execution is observed as the timestamp the hook process takes itself (later than the return of RateLimitWait); "
        "the window bound is evaluated with 20 ms slack and a failure must repeat in a second run of the scenario",
        "a limiter stricter than configured is not a violation of the statement (upper bound only); reported as DIVERGENCE",
        "retry back-off of the queues is set to 2 ms (ExponentialBackoffFn replaced on the worker goroutine) so that retries stress the limiter",
    ]
    vlib.finish(ctx, rule="scenarios = arrival patterns/outcomes/settings of TLC-simulated behaviours of spec/RateLimit (highest number of non-combinable runs "
                          "and retries per hook configuration, plus steady streams); evaluations = process starts of hooks with settings, each start closes "
                          "windows with all earlier starts; distinct_nontrivial = distinct scenarios in which a throttled hook started more than B + 1 times")


CHECKS = {"C18": check_c18}

MANIFEST = {
    "C18": dict(
        text="TLC exhaustively checks spec/RateLimit (per-hook token bucket, RateLimitWait as the first step of every queued HookRun incl. retries, "
             "combination after the wait, hooks sharing / not sharing a queue, a hook bound to two queues, arbitrary arrivals; I in {2,3} ticks, "
             "B in {1,2}) for the window bound (every window of length T holds <= B + ceil(T/I) starts: literally over a 12-tick horizon and through "
             "an equivalent monitor for unbounded time) and for Unthrottled; arrival patterns and outcomes of TLC-simulated behaviours drive a real "
             "ShellOperator (fake cluster, settings with I = 100/150 ms, B = 1..3, kube events and schedule ticks, failing runs) whose hook processes "
             "record their start times; the bound is evaluated over all windows between observed starts, hooks without settings must run back to "
             "back, the limiter each hook carries is probed directly, and TLC validates the quantised start times against RateLimitTrace.tla.",
        note="The real-time clause is a measured check with an explicit jitter slack (20 ms added to every window; a failure must repeat in a "
             "confirmation run and, where available, on in-process stamps taken right after RateLimitWait); golang.org/x/time/rate itself is trusted. "
             "Only the upper bound of the statement is an oracle: a limiter stricter than configured (burst not granted, shared by hooks with "
             "settings) is reported as DIVERGENCE, an effective burst of B + 1 is within B + ceil(T/I). Webhook-triggered runs are not rate limited by "
             "the code and are outside the statement ('queued executions').",
        technique="TLA+ spec + TLC exhaustive check (discrete time, unbounded-time monitor); TLC-generated arrival patterns replayed on the real "
                  "operator in real time; TLC trace validation of recorded start times",
        design="5/C18", category="model_checking"),
}
