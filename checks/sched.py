"""C11 (schedules: one task per binding per tick; crontabs are reference-counted):
spec/ScheduleManager bound to pkg/schedule_manager, pkg/hook/controller (schedule bindings), pkg/hook
(hook.Manager.HandleScheduleEvent) and the schedule handler of pkg/shell-operator (operator.go,
manager_events_handler.go).

What is modelled
  * SchedOps.tla / ScheduleManager.tla: the schedule manager as the code has it: `entries` (crontab -> cron entry id
    + set of ids, a key only while ids remain), `cron` = the entry list of the cron library (a BAG of crontabs: entry
    ids are unique, two registrations of one crontab are two elements), Add(c,id) / Remove(c,id) for every pair
    (repeated, unknown, removed twice), Tick(c) enabled iff c is registered, one channel event per registration.
    Next to it `ref`, the set of (crontab,id) pairs the history has registered (the reference the statement talks
    about). TLC checks RefCount, EntriesFaithful, FiresWhileReferenced, StopsAfterLast, NoDuplicateFiring.
  * ScheduleHooks.tla: 2-3 hooks with 0..2 schedule bindings each, EVERY assignment of 2 crontabs and 2 queues to the
    bindings (441 / 9261 configurations; name, group, allowFailure, snapshot list fixed per position, names repeat
    within and across hooks), Enable/DisableScheduleBindings(hook) = Add/Remove per binding + link map, Tick(c) ->
    for every event one task per link with that crontab. TLC checks OneTaskPerBinding (tasks of a tick = exactly the
    enabled bindings with that crontab, each with its name, group, allowFailure, snapshot list, queue) and the
    reference-count properties, for histories of any length (VIEW up to renaming of cron entry ids).
  * Design mutations of the model (Add registers every time, HandleEvent returns the first link only) must make TLC
    report a violation: the properties are not vacuous.

Binding (replay; all expected values are computed by TLC and printed as JSON, nothing is recomputed here or in Go)
  * manager level: ALL Add/Remove histories of length 4 over 2 crontabs x 3 ids (thorough: also length 5 over 2 x 2), plus
    pseudo-random Add/Remove/Tick histories of 40 operations over 3 x 3, replayed on a real
    schedule_manager.NewScheduleManager, part of them (1/8 quick, 1/2 thorough; all walks both ways) with the cron goroutine started. After EVERY step: Entries map
    (keys, ids), the cron library's entry list (each entry identified by its parsed schedule), and one injected tick per
    registered entry by running the registered cron Job (what the cron goroutine calls) with the events read from Ch().
  * hook level: per configuration a fixed tour through all sets of enabled hooks (with repeated Enable and Disable of a
    hook that is not enabled) and pseudo-random Enable/Disable/Tick walks, replayed at three levels of reality:
    `ctrl` (real HookController/ScheduleBindingsController per hook), `manager` (real hook.Manager over generated hook
    scripts; real uuids), `operator` (shell_operator.Init on the generated directory: the real schedule handler closure of
    operator.go, the real ManagerEventsHandler goroutine, tasks read from the real queues). After every step the same
    manager observation, and for every tick event the multiset of created tasks.

Oracle (= the property statement)
  * a tick of crontab c delivers exactly one event iff at least one id / enabled binding is registered for c, none
    otherwise (cron registrations and the events actually delivered when the registered jobs are run);
  * every event produces exactly one task per enabled binding with that crontab, with hook, binding name, group,
    allowFailure, snapshot list (task metadata and the binding context inside the task) and queue; no other task.
    Order of tasks is not part of the statement (the code ranges over a Go map): multisets are compared.
  * A difference in the Entries map alone (no effect on registrations, events, tasks) is reported as DIVERGENCE, not
    as a violation.

Excluded, and why
  * crontab strings that cron.Parse rejects: Add documents "should be validated before", the config loader does it.
  * concurrent Add/Remove from several goroutines: the operator enables bindings from the main queue only, the
    statement quantifies over histories.
  * wall-clock firing: ticks are injected by running the registered job; the crontabs used are months away from now.
  * EnableScheduleBindings as a queued task and hook execution: operator-level harness of C03/C06/C12.
"""
import concurrent.futures
import hashlib
import json
import os
import random

import vlib
from vlib import Infra

SPEC = "ScheduleManager"


class _Sub:
    """Private coverage record for a TLC run in a worker thread (merged afterwards)."""

    def __init__(self, ctx):
        self.scratch = ctx.scratch
        self.seed = ctx.seed
        self.cov = {"states": 0, "transitions": 0, "tlc_runs": []}


def _tlc(ctx, module, cfg, **kw):
    sub = _Sub(ctx)
    try:
        r = vlib.tlc(sub, SPEC, module, cfg, **kw)
    except Exception as e:  # re-raised in the main thread
        return sub, e
    return sub, r


def _merge(ctx, sub, count_states):
    ctx.cov["tlc_runs"] += sub.cov["tlc_runs"]
    if count_states:
        ctx.cov["states"] += sub.cov["states"]
        ctx.cov["transitions"] += sub.cov["transitions"]


def _hist(case):
    return [tuple(s["op"]) for s in case["h"]]


def _nontrivial(case):
    """Rule for distinct_nontrivial: the history makes some crontab registered, unregistered again (last reference
    removed) and, for hook-level cases, at least one tick is expected to create tasks for two or more bindings."""
    seen_on, off_after_on = set(), False
    multi = False
    for s in case["h"]:
        for c, n in s["cron"].items():
            if n > 0:
                seen_on.add(c)
            elif c in seen_on:
                off_after_on = True
        for c, ts in (s.get("ticks") or {}).items():
            if s["cron"].get(c, 0) > 0 and len(ts) >= 2:
                multi = True
    if "ticks" in case["h"][0]:
        return off_after_on and multi
    return off_after_on


def _replay_single(ctx):
    """--replay file: run the stored history alone on the current tree."""
    rp = json.load(open(ctx.replay))
    case = rp["replay"]["case"]
    binary = vlib.go_build(ctx, "sched")
    inp, outp = ctx.path("r", "in.jsonl"), ctx.path("r", "out.jsonl")
    vlib.write_jsonl(inp, [case])
    r = vlib.run_bin(ctx, binary, ["replay", "-in", inp, "-out", outp, "-work", os.path.dirname(ctx.path("r", "work", "x"))], timeout=300)
    if r["rc"] != 0:
        raise Infra("sched replay failed: " + r["stderr"][-2000:])
    rr = vlib.read_jsonl(outp)[0]
    ctx.log("replayed %s (level %s, %d steps): %s" % (ctx.replay, case["level"], len(case["h"]), "reproduced " + rr["sig"] if not rr["ok"] else "the history passes on this tree"))
    ctx.cov["traces_validated_against_impl"] = 1
    ctx.cov["evaluations"] = rr["steps"]
    ctx.sample({"operations": [list(x) for x in _hist(case)]})
    if not rr["ok"]:
        if rr["sig"] == "INFRA":
            raise Infra(rr["detail"])
        ctx.fail(rr["sig"], "level %s, history %s: %s" % (case["level"], _hist(case)[-8:], rr["detail"]), {"case": case, "bad_step": rr.get("bad_step", 0)})
    vlib.finish(ctx, rule="single stored history replayed on the real code")


def check_c11(ctx):
    if getattr(ctx, "replay", None):
        _replay_single(ctx)
    q = ctx.quick()
    seed = str(ctx.seed)
    W = 4  # TLC workers per run (several runs in parallel)
    jobs = {
        # name: (module, cfg, kwargs, counts_as_model_check)
        "MC": ("ScheduleManager", ctx.pick("MC_quick.cfg", "MC_thorough.cfg"), dict(expect_violation=False, workers=W, timeout=600, coverage=not q), True),
        "MCH": ("ScheduleHooks", ctx.pick("MCH_quick.cfg", "MCH_thorough.cfg"), dict(expect_violation=False, workers=ctx.pick(W, 8), timeout=1500), True),
        "MUT_add": ("ScheduleManager", "MC_quick.cfg", dict(expect_violation=True, workers=2, timeout=300, consts={"Variant": '"add_always"'}), False),
        "MUT_link": ("ScheduleHooks", "MCH_quick.cfg", dict(expect_violation="OneTaskPerBinding", workers=2, timeout=300, consts={"HVariant": '"first_link"'}), False),
        "Emit": ("ScheduleManager", "Emit.cfg", dict(workers=W, timeout=900), False),
        "Walk": ("ScheduleManager", "Walk.cfg", dict(workers=2, timeout=600, consts={"Seed": seed, "NWalks": ctx.pick("300", "3000")}), False),
        "Tour2": ("ScheduleHooks", "TourH2.cfg", dict(workers=2, timeout=600), False),
        "Tour3": ("ScheduleHooks", "TourH3.cfg", dict(workers=W, timeout=900, consts={"NCfg": ctx.pick("600", "0")}), False),
        "WalkH": ("ScheduleHooks", "WalkH.cfg", dict(workers=W, timeout=900, consts={"Seed": seed, "NCfg": ctx.pick("300", "3000")}), False),
    }
    if not q:
        # all histories of length 5 over 2 crontabs x 2 ids (8^5 = 32768)
        jobs["Emit5"] = ("ScheduleManager", "Emit.cfg", dict(workers=W, timeout=900, consts={"EmitDepth": "5", "MaxOps": "5", "Ids": '{"a", "b"}'}), False)
        jobs["MC8"] = ("ScheduleManager", "MC_quick.cfg", dict(expect_violation=False, workers=2, timeout=300), True)
        jobs["MUT_rm"] = ("ScheduleManager", "MC_quick.cfg", dict(expect_violation=True, workers=2, timeout=300, consts={"Variant": '"remove_early"'}), False)
        jobs["MUT_keep"] = ("ScheduleManager", "MC_quick.cfg", dict(expect_violation=True, workers=2, timeout=300, consts={"Variant": '"remove_keeps_cron"'}), False)
        jobs["MUT_stale"] = ("ScheduleHooks", "MCH_quick.cfg", dict(expect_violation="OneTaskPerBinding", workers=2, timeout=300, consts={"HVariant": '"stale_links"'}), False)
    res = {}
    with concurrent.futures.ThreadPoolExecutor(max_workers=ctx.pick(5, 4)) as ex:
        fb = ex.submit(vlib.go_build, ctx, "sched")
        futs = {n: ex.submit(_tlc, ctx, m, c, **kw) for n, (m, c, kw, _) in jobs.items()}
        for n, f in futs.items():
            sub, r = f.result()
            if isinstance(r, Exception):
                raise r
            _merge(ctx, sub, jobs[n][3])
            res[n] = r
        binary = fb.result()
    for n in sorted(res):
        r = res[n]
        ctx.log("TLC %-9s %s/%s: %d generated / %d distinct states, depth %d, %s, %.1fs" % (
            n, r["module"], r["cfg"], r["generated"], r["distinct"], r["depth"],
            ("violates %s (expected: design mutation)" % r["violated"]) if r["violated"] else "no violation", r["wall_s"]))
    if not q:
        zero = [l for l in res["MC"]["out"].splitlines() if l.startswith("<") and l.rstrip().endswith(": 0:0")]
        ctx.cov["actions_never_taken"] = zero[:20]
    ctx.cov["model_mutations_detected"] = sorted(n for n in res if n.startswith("MUT_"))

    # ---------------- cases ----------------
    rnd = random.Random(ctx.seed)
    cases = []

    def add(level, started, c, src):
        cases.append({"level": level, "started": started, "h": c["h"], "src": src})

    for n in ("Emit", "Walk", "Tour2", "Tour3", "WalkH"):
        if not res[n]["prints"]:
            raise Infra("TLC export %s printed no histories" % n)
    every = ctx.pick(8, 2)   # a started cron goroutine computes real next-activation times: ~1.5 ms per history
    for i, c in enumerate(res["Emit"]["prints"] + (res["Emit5"]["prints"] if "Emit5" in res else [])):
        add("mgr", i % every == 0, c, "Emit")
    for c in res["Walk"]["prints"]:
        add("mgr", False, c, "Walk")
        add("mgr", True, c, "Walk")
    hook_cases = [(c, "Tour2") for c in res["Tour2"]["prints"]] + [(c, "Tour3") for c in res["Tour3"]["prints"]] + \
                 [(c, "WalkH") for c in res["WalkH"]["prints"]]
    for i, (c, src) in enumerate(hook_cases):
        add("ctrl", i % 2 == 0, c, src)
    n_mgr = min(len(hook_cases), ctx.pick(150, 2000))
    n_op = min(len(hook_cases), ctx.pick(120, 1000))
    for i, (c, src) in enumerate(rnd.sample(hook_cases, n_mgr)):
        add("manager", i % 2 == 0, c, src)
    for i, (c, src) in enumerate(rnd.sample(hook_cases, n_op)):
        add("operator", i % 2 == 1, c, src)

    # ---------------- replay on the real code ----------------
    # several harness processes side by side: manager-level histories in NPROC slices, the levels that build hooks in
    # one process each (the operator level sets process-wide settings of pkg/app)
    NPROC = 4
    groups = [[c for i, c in enumerate([c for c in cases if c["level"] == "mgr"]) if i % NPROC == k] for k in range(NPROC)]
    groups += [[c for c in cases if c["level"] in ("ctrl", "manager")], [c for c in cases if c["level"] == "operator"]]
    groups = [g for g in groups if g]
    cases = [c for g in groups for c in g]

    def run_group(k, g):
        inp = ctx.path("g%d" % k, "in.jsonl")
        outp = ctx.path("g%d" % k, "out.jsonl")
        work = os.path.dirname(ctx.path("g%d" % k, "work", "x"))
        vlib.write_jsonl(inp, [{kk: v for kk, v in c.items() if kk != "src"} for c in g])
        r = vlib.run_bin(ctx, binary, ["replay", "-in", inp, "-out", outp, "-work", work], timeout=ctx.pick(600, 3000))
        if r["rc"] != 0:
            raise Infra("sched replay failed: " + r["stderr"][-2000:])
        o = vlib.read_jsonl(outp)
        if len(o) != len(g):
            raise Infra("sched replay returned %d results for %d cases" % (len(o), len(g)))
        return o

    with concurrent.futures.ThreadPoolExecutor(max_workers=len(groups)) as ex:
        outs = list(ex.map(lambda kg: run_group(*kg), enumerate(groups)))
    out = [r for o in outs for r in o]
    hangs = 0
    per = {}
    infra = {}
    distinct = set()
    for c, rr in zip(cases, out):
        lv = c["level"]
        p = per.setdefault(lv, {"cases": 0, "steps": 0, "tick_events": 0, "tasks": 0, "started": 0})
        p["cases"] += 1
        p["steps"] += rr["steps"]
        p["tick_events"] += rr["events"]
        p["tasks"] += rr["tasks"]
        p["started"] += 1 if c["started"] else 0
        if _nontrivial(c):
            distinct.add(hashlib.sha1(json.dumps([lv, c["h"][0].get("hooks"), _hist(c)], sort_keys=True).encode()).hexdigest())
        for d in rr.get("div") or []:
            if len(ctx.notes) < 20:
                ctx.notes.append("DIVERGENCE level=%s Entries map differs from the specification without effect on firing: %s" % (lv, d))
        if rr["ok"]:
            continue
        if rr["sig"].endswith("/crash") and rr["detail"].startswith("no progress"):
            # a hang cannot be attributed (code under test or fixture): reported as infrastructure failure below
            hangs += 1
            ctx.notes.append("DIVERGENCE level=%s a case hung: %s" % (lv, rr["detail"][:300]))
            continue
        if rr["sig"] == "INFRA":
            infra[lv] = infra.get(lv, 0) + 1
            if len(ctx.notes) < 20:
                ctx.notes.append("DIVERGENCE level=%s case could not be set up / steered: %s" % (lv, rr["detail"][:300]))
            continue
        bad = rr.get("bad_step", 0)
        ctx.fail(rr["sig"], "level %s, history %s: %s" % (lv, _hist(c)[:bad + 1][-8:], rr["detail"]),
                 {"case": {"level": lv, "started": c["started"], "h": c["h"][:bad + 1]}, "bad_step": bad, "source": c.get("src")})
    for lv, n in infra.items():
        if n * 2 > per[lv]["cases"]:
            raise Infra("level %s: %d of %d cases could not be set up on this tree (fixture problem, not a verdict): see notes\n%s" % (
                lv, n, per[lv]["cases"], "\n".join(ctx.notes[:5])))
    if hangs and not ctx.failures:
        raise Infra("%d case(s) hung (no progress for 30 s); not attributable to the property:\n%s" % (hangs, "\n".join(ctx.notes[:5])))
    for lv in ("mgr", "ctrl", "manager", "operator"):
        if lv in per:
            p = per[lv]
            ctx.log("level %-8s: %d histories (%d with the cron goroutine started), %d steps compared, %d tick events injected, %d tasks compared" % (
                lv, p["cases"], p["started"], p["steps"], p["tick_events"], p["tasks"]))
    ctx.cov["levels"] = per
    ctx.cov["traces_validated_against_impl"] = len(cases) - sum(infra.values())
    ctx.cov["evaluations"] = sum(p["steps"] for p in per.values())
    ctx.cov["distinct_nontrivial"] = len(distinct)
    ctx.cov["cases_not_steered"] = infra
    for n in ("Emit", "Walk", "Tour3", "WalkH"):
        c = res[n]["prints"][min(7, len(res[n]["prints"]) - 1)]
        last = c["h"][-1]
        s = {"source": n, "operations": [list(x) for x in _hist(c)][:14], "expected_cron_after_last": last["cron"], "expected_entries_after_last": last["ent"]}
        if "ticks" in last:
            s["hooks"] = c["h"][0]["hooks"]
            s["expected_tasks_per_tick_after_last"] = last["ticks"]
        ctx.sample(s)
    ctx.assumptions += [
        "a cron entry is what the cron goroutine will run at the crontab's time: ticks are injected by running the registered Job",
        "a registered entry is attributed to the crontab whose parsed schedule it carries (cron.Parse of the same string)",
        "tasks of one tick are compared as a multiset (the statement does not order them)",
        "operator level: queues are created by the harness as bootstrapMainQueue/initAndStartHookQueues do and are not started",
    ]
    vlib.finish(ctx, rule="cases: TLC exports of spec/ScheduleManager (all Add/Remove histories of a fixed length; pseudo-random walks; one tour per "
                          "hook configuration); evaluations = steps whose observation (Entries, cron registrations, tick events, tasks) was compared; "
                          "distinct_nontrivial = distinct (level, configuration, operation sequence) in which a crontab is registered and later loses its "
                          "last reference (and, hook level, some tick creates tasks for >= 2 bindings)")


CHECKS = {"C11": check_c11}

MANIFEST = {
    "C11": dict(
        text="TLC exhaustively checks spec/ScheduleManager: the schedule manager as coded (Entries map, bag of cron library registrations) "
             "against the set of registered (crontab,id) pairs for RefCount/FiresWhileReferenced/StopsAfterLast/NoDuplicateFiring over every "
             "Add/Remove/Tick history (2x3 to depth 8; 3x3 unbounded up to renaming of entry ids), and ScheduleHooks over every configuration of "
             "2-3 hooks x <=2 bindings x 2 crontabs x 2 queues for OneTaskPerBinding. TLC-exported histories (all Add/Remove histories of length "
             "4-5, random walks, a tour through all sets of enabled hooks per configuration) are replayed on the real schedule manager, the real "
             "HookController, the real hook.Manager over generated hooks, and an operator assembled by shell_operator.Init (real schedule handler, "
             "events handler goroutine and queues); after every step the Entries map, the cron library's entry list and the events/tasks of one "
             "injected tick per registration are compared with the values TLC computed.",
        note="Trusts TLC, the verif-tagged accessors in pkg/schedule_manager/verif_export.go (cron entries, Entries map) and the cron library's "
             "own timing loop (ticks are injected by running the registered job, not awaited). Bounds: 2-3 crontabs, 3 ids, 2-3 hooks, <=2 bindings "
             "per hook, 2 queues; payload (name/group/allowFailure/snapshots) fixed per binding position. Invalid crontab strings and concurrent "
             "Add/Remove are outside the statement. Enabling through a queued EnableScheduleBindings task is covered by the operator-level checks.",
        technique="TLA+ spec + TLC exhaustive check; TLC-generated histories replayed step by step on the real code at four levels",
        design="5/C11"),
}
