"""C02 (Synchronization objects and snapshots equal the set of matching objects), monitor level: spec/Snapshot bound
to the real KubeEventsManager / monitor / informers on kube-client's fake cluster through the public API.

Oracle: at every quiet point (informers started, nothing pending) Monitor.Snapshot() holds exactly the cluster's
objects of the watched namespaces, each once, ordered by namespace and name, with the jqFilter result attached;
also after Restart; one third of the histories use a filter on a field that never changes, so that every modification
takes the "projection unchanged" path and the snapshot must still show the new object. The keys of `snapshots` are
checked for all 512 group / includeSnapshotsFrom topologies of two kubernetes bindings and a schedule binding
(spec/Snapshot/SnapKeys.tla) through the real loader and HookController.UpdateSnapshots; for grouped topologies one
execution with three contexts is rendered while the cluster is changed between two reads of the same binding (should
the per-execution cache ever read twice): every occurrence of a binding's snapshot must be the same list.
Bindings with a static namespace list and namespace.labelSelector (namespaces start and stop matching, are deleted with
their objects and come back, around AddMonitor / StartMonitor / Restart): spec/Snapshot/SnapshotNs.tla, replayed on the
real monitor; a namespace reaches the started monitor through the namespace informer's own callbacks (the fake cluster
does not honour label selectors on watches).
"""
import ast
import glob
import json
import os

import tlaparse
import vlib
from vlib import Infra

SPEC = "Snapshot"


def norm(fn):
    out = {}
    for k, v in fn.items():
        ns, name = ast.literal_eval(k)
        out["%s/%s" % (ns, name)] = v
    return out


def gen(ctx, num, depth):
    d = os.path.dirname(ctx.path("snapbeh", "x"))
    vlib.tlc(ctx, SPEC, "Snapshot", "Sim.cfg", mode="sim", sim_num=num, sim_depth=depth, timeout=600, want_prints=False,
             consts={"FixGhost": "FALSE" if os.environ.get("VERIF_SNAP_ASIS") else "TRUE"}, simfile=os.path.join(d, "b"))
    behs = []
    for f in sorted(glob.glob(os.path.join(d, "b_*"))):
        sts = tlaparse.parse_behaviour_file(f)
        os.unlink(f)
        if len(sts) > 3:
            behs.append([{"act": s["act"], "phase": s["phase"], "pending": s["pending"], "cluster": norm(s["cluster"]), "cache": norm(s["cache"])} for s in sts])
    if not behs:
        raise Infra("no behaviours")
    return behs


def gen_ns(ctx, num, depth):
    d = os.path.dirname(ctx.path("snapnsbeh", "x"))
    vlib.tlc(ctx, SPEC, "SnapshotNs", "SimNs.cfg", mode="sim", sim_num=num, sim_depth=depth, timeout=600, want_prints=False,
             simfile=os.path.join(d, "b"))
    behs = []
    for f in sorted(glob.glob(os.path.join(d, "b_*"))):
        sts = tlaparse.parse_behaviour_file(f)
        os.unlink(f)
        if len(sts) > 3 and any(s["act"][0] == "StartMonitor" for s in sts):
            behs.append([{"act": s["act"], "phase": s["phase"], "pendingNs": s["pendingNs"], "pendingObj": s["pendingObj"], "nsMatch": s["nsMatch"],
                          "known": sorted(s["known"]), "cluster": norm(s["cluster"]), "cache": norm(s["cache"])} for s in sts])
    if not behs:
        raise Infra("no behaviours")
    return behs


def namespaces(ctx, binary, prefixes=("C02/",), mc=True):
    """Bindings with a static namespace list and namespace.labelSelector: spec/Snapshot/SnapshotNs.tla."""
    q = ctx.quick()
    if mc:  # the exhaustive runs belong to C02's check; C01 reuses the behaviours and the harness only
        big = None if q else {"DynNs": '{"n1", "n2", "n3"}', "Vals": '{"v1"}', "MaxNsOps": "4"}
        r = vlib.tlc(ctx, SPEC, "SnapshotNs", "MCNs.cfg", timeout=3000, expect_violation=False, workers=12, consts=big)
        ctx.log("TLC SnapshotNs/MCNs (label-selected namespaces, reference): %d generated / %d distinct states, %.0fs" % (r["generated"], r["distinct"], r["wall_s"]))
        vlib.tlc(ctx, SPEC, "SnapshotNs", "MCNs_asis.cfg", timeout=300, expect_violation="KnownFollowsLabel", workers=4)
        r2 = vlib.tlc(ctx, SPEC, "SnapshotNs", "MCNs_asis_only.cfg", timeout=3000, expect_violation=False, workers=12, consts=big)
        ctx.log("TLC: the code as it is deviates only by namespaces that stop matching between AddMonitor and StartMonitor (%d distinct states)" % r2["distinct"])
    behs = gen_ns(ctx, ctx.pick(140, 2400), 45)
    cases = [{"steps": b} for b in behs]
    rows = vlib.run_sharded(ctx, binary, cases, lambda i, o: ["-mode", "ns", "-in", i, "-out", o], shards=8, timeout=1800, tag="snapns")
    quiet = 0
    acts = {}
    for c, o in zip(cases, rows):
        quiet += o.get("quiet_points", 0)
        for s in c["steps"][1:]:
            acts[s["act"][0]] = acts.get(s["act"][0], 0) + 1
        if not o["ok"]:
            for x in o.get("also") or []:
                if not any(o["sig"].startswith(p) for p in prefixes) and any(x["sig"].startswith(p) for p in prefixes):
                    o["sig"], o["detail"] = x["sig"], x["detail"]
            if any(o["sig"].startswith(p) for p in prefixes):
                # informers, their stop goroutines and the fake cluster's watches are asynchronous: a failure counts only if
                # the same history fails again (same property) when it is executed once more on its own
                ci, co = ctx.path("snapns_confirm_in.jsonl"), ctx.path("snapns_confirm_out.jsonl")
                vlib.write_jsonl(ci, [c])
                rc = vlib.run_bin(ctx, binary, ["-mode", "ns", "-in", ci, "-out", co], timeout=300)
                again = vlib.read_jsonl(co) if rc["rc"] == 0 else []
                sigs2 = [again[0].get("sig", "")] + [x["sig"] for x in (again[0].get("also") or [])] if again and not again[0]["ok"] else []
                if not any(s2.startswith(p) for s2 in sigs2 for p in prefixes):
                    ctx.notes.append("NOT-REPRODUCED %s: %s" % (o["sig"], o["detail"][:300]))
                    continue
                ctx.fail(o["sig"], o["detail"], vlib.replay_payload("snap", ["-mode", "ns", "-in", "{in}", "-out", "{out}"], c,
                         human={"actions": [s["act"] for s in c["steps"][1:o.get("bad_step", 0) + 1]], "initial": c["steps"][0]["cluster"], "labelled": c["steps"][0]["nsMatch"]}))
            else:
                ctx.notes.append("DIVERGENCE %s: %s" % (o["sig"], o["detail"][:300]))
    ctx.log("replayed %d histories with label-selected namespaces on the real monitor: %d quiet points compared; actions %s" % (len(cases), quiet, acts))
    ctx.cov["namespace_histories"] = len(cases)
    ctx.cov["namespace_quiet_points"] = quiet
    ctx.cov["namespace_actions"] = acts
    return len(cases)


def check_c02(ctx):
    r = vlib.tlc(ctx, SPEC, "Snapshot", "MC.cfg", timeout=900, expect_violation=False, consts={"MaxOps": ctx.pick("3", "4")}, workers=8)
    ctx.log("TLC Snapshot/MC (reference): %d generated / %d distinct states, %.0fs" % (r["generated"], r["distinct"], r["wall_s"]))
    vlib.tlc(ctx, SPEC, "Snapshot", "MC_asis.cfg", timeout=300, expect_violation="QuietConverges", workers=4)
    r2 = vlib.tlc(ctx, SPEC, "Snapshot", "MC_asis_only.cfg", timeout=900, expect_violation=False, consts={"MaxOps": ctx.pick("3", "4")}, workers=8)
    ctx.log("TLC: the pinned-commit model deviates from the cluster only by the ghost of a preloaded-then-deleted object (%d states)" % r2["distinct"])
    binary = vlib.go_build(ctx, "snap")
    behs = gen(ctx, ctx.pick(250, 3000), 40)
    cases = [{"filter": i % 3 != 0, "const": i % 3 == 2, "steps": b} for i, b in enumerate(behs)]
    inp, outp = ctx.path("snap_in.jsonl"), ctx.path("snap_out.jsonl")
    vlib.write_jsonl(inp, cases)
    rr = vlib.run_bin(ctx, binary, ["-in", inp, "-out", outp], timeout=1800)
    if rr["rc"] != 0:
        raise Infra("snap failed: " + rr["stderr"][-1500:])
    res = vlib.read_jsonl(outp)
    if len(res) != len(cases):
        raise Infra("snap: %d results for %d cases" % (len(res), len(cases)))
    quiet = 0
    for c, o in zip(cases, res):
        quiet += o.get("quiet_points", 0)
        if not o["ok"]:
            if o["sig"].startswith("C02/"):
                ctx.fail(o["sig"], o["detail"], vlib.replay_payload("snap", ["-in", "{in}", "-out", "{out}"], c, human={"filter": c["filter"], "actions": [s["act"] for s in c["steps"][1:o["bad_step"] + 1]], "initial": c["steps"][0]["cluster"]}))
            else:
                ctx.notes.append("DIVERGENCE %s: %s" % (o["sig"], o["detail"][:300]))
    ctx.log("replayed %d histories on the real KubeEventsManager (fake cluster): %d quiet points compared" % (len(cases), quiet))
    # keys of `snapshots`: all group / includeSnapshotsFrom topologies of 2 kubernetes bindings + 1 schedule binding
    kt = vlib.tlc(ctx, SPEC, "SnapKeys", "Keys.cfg", timeout=300, expect_violation=False, workers=2)
    topos = kt["prints"]
    if len(topos) != 512:
        raise Infra("SnapKeys: %d topologies instead of 512" % len(topos))
    kin, kout = ctx.path("keys_in.jsonl"), ctx.path("keys_out.jsonl")
    vlib.write_jsonl(kin, topos)
    kr = vlib.run_bin(ctx, binary, ["-mode", "keys", "-in", kin, "-out", kout], timeout=900)
    if kr["rc"] != 0:
        raise Infra("snap keys failed: " + kr["stderr"][-1500:])
    kres = vlib.read_jsonl(kout)
    if len(kres) != len(topos):
        raise Infra("snap keys: %d results for %d topologies" % (len(kres), len(topos)))
    for t, o in zip(topos, kres):
        if not o["ok"]:
            if o["sig"].startswith("C02/"):
                ctx.fail(o["sig"], o["detail"], vlib.replay_payload("snap", ["-mode", "keys", "-in", "{in}", "-out", "{out}"], t, human={"topology": t}))
            else:
                ctx.notes.append("DIVERGENCE %s: %s" % (o["sig"], o["detail"][:300]))
    ctx.log("snapshot keys: %d topologies (exhaustive) through the real loader + HookController.UpdateSnapshots" % len(topos))
    nns = namespaces(ctx, binary)
    # bindings that watch the same objects share one client-go informer (FactoryStore): spec/SharedInformers
    import shared
    nns += shared.run(ctx, ("C02/",))
    ctx.cov["topologies"] = len(topos)
    ctx.cov["traces_validated_against_impl"] = len(cases) + len(topos) + nns
    ctx.cov["evaluations"] = len(cases) + len(topos) + nns
    ctx.cov["quiet_points"] = quiet
    ctx.cov["distinct_nontrivial"] = len({json.dumps([s["act"] for s in c["steps"]]) + json.dumps(c["steps"][0]["cluster"], sort_keys=True) for c in cases})
    ctx.sample({"initial": cases[0]["steps"][0]["cluster"], "actions": [s["act"] for s in cases[0]["steps"][1:]]})
    ctx.assumptions += ["kube-client's fake cluster delivers watch events per namespace in order; label selectors on watches are not honoured by it (not used)",
                        "quiescence on the real side = Snapshot() stable within 1.5 s"]
    vlib.finish(ctx, rule="histories = TLC simulation behaviours of spec/Snapshot (random initial cluster, mutations around AddMonitor/StartMonitor/Restart); "
                          "distinct = distinct (initial cluster, action sequence); every quiet point compares Snapshot() with the fake cluster")


CHECKS = {"C02": check_c02}
MANIFEST = {
    "C02": dict(
        text="spec/Snapshot (preload list, informer start, watch events, restart) is checked exhaustively by TLC for QuietConverges; TLC histories are "
             "executed through the public KubeEventsManager API on the fake cluster and at every quiet point Monitor.Snapshot() is compared with the cluster "
             "(set equality, each object once, order by namespace/name, filter result attached). Snapshot reads concurrent with changes are covered at "
             "informer level by the C01 replay (cache comparison after every step). spec/Snapshot/SnapshotNs.tla covers namespace.labelSelector bindings "
             "(namespaces start/stop matching, are deleted with their objects and come back, around AddMonitor/StartMonitor/Restart) and is replayed on "
             "the real monitor; spec/Snapshot/SnapKeys.tla enumerates all 512 includeSnapshotsFrom/group topologies for the keys of `snapshots`, "
             "executed through the real loader and HookController.UpdateSnapshots, with a within-execution consistency probe.",
        note="Static namespace lists: 2 namespaces x 2 names x 2 values, <= 8 mutations, <= 2 restarts per history. Label-selected namespaces: 3 "
             "namespaces, <= 5 namespace operations; a started monitor learns of a namespace through the namespace informer's own callbacks (the "
             "fake cluster does not honour label selectors on watches). namespace.nameSelector is ignored by the code when labelSelector is given.",
        technique="TLA+ spec + TLC exhaustive check; replay of TLC histories through the public API on a fake cluster",
        design="5/C02"),
}
