"""C10 (hook configuration: faithful load, documented defaults, rejection of invalid documents, YAML = JSON, no crash):
spec/HookConfig bound to pkg/hook/config (HookConfig.LoadAndValidate).

What is modelled
  spec/HookConfig/HookConfig.tla is the reference semantics of configVersion v1, written from docs/src/HOOKS.md,
  BINDING_VALIDATING.md, BINDING_CONVERSION.md and the statement: a document is the JSON/YAML tree itself (records with
  exactly the declared fields); `GrammarFault` is the documented grammar as a validator, `Effective` yields "reject" or the
  effective configuration (declared bindings in declared order, defaults queue `main`, allowFailure false, three watch
  events, executeHookOnSynchronization / keepFullObjectsInMemory true, default names `kubernetes` / `schedule` /
  `onStartup`, executeHookOnEvent over watchEvent, includeSnapshotsFrom names must resolve to exactly one kubernetes
  binding, group members get the snapshots of all kubernetes bindings of the group: own list first, then the group's
  bindings in declared order, no duplicates), `Faults` are the single-fault mutation classes of the statement.
  TLC enumerates the stratified document domain (<= 2 bindings per kind: scalar options of one and of two kubernetes
  bindings, selectors, names x groups x includes, schedules/onStartup/settings, webhook bindings, fault base documents;
  MC_thorough.cfg exhaustive, MC_quick.cfg a seeded random subset of 1000 documents per stratum + all faults), checks DomainWellFormed / FaithfulLoad / Defaults / LegacyLoad / FaultRejected / GroupSnapshots
  on every case and prints every case with the expected result.
  The legacy format (a document without configVersion: onStartup, schedule {name, crontab, allowFailure}, onKubernetesEvent
  {name, kind, event, selector, objectName, namespaceSelector {matchNames | any}, jqFilter, allowFailure}) has its own
  reference in the same module (GrammarFaultV0 / EffectiveV0 / invariant LegacyLoad): declared bindings in declared order,
  every declared option carried over (event add/update/delete = Added/Modified/Deleted, objectName = name selector,
  selector = label selector, namespaceSelector.matchNames = namespace name selector, any: true = all namespaces), defaults
  allowFailure false / queue `main` / all three events / names `schedule`, `onKubernetesEvent`, no first Synchronization,
  full objects kept, no groups or snapshots. Strata v0kube (one binding with every option combination x onStartup, two
  bindings with independent options; quick: 500 of 3328), v0sched (<= 2 schedules with name / allowFailure x onStartup x
  <= 1 onKubernetesEvent binding, 545 documents, complete in quick), v0fault (3 base documents x the fault classes that
  exist in that format: unknown top-level key, v1 section without configVersion, configVersion: v0, onStartup type, bad
  crontabs, unknown event names, allowFailure type, unknown keys inside schedule / onKubernetesEvent items - `foo` and the
  v1 keys queue / group / includeSnapshotsFrom / apiVersion / executeHookOnEvent -, and the ten invalid label selectors
  (the v1 classes + NotIn without values) under `selector`).
  Open known findings (known_findings.json; the reference says "reject", the loader accepts - the check prints
  KNOWN-FINDING and does not fail for exactly these signatures): C10/v0-accepted/unknown-item-key/{kube,schedule} (unknown
  item keys of a legacy document are silently ignored) and C10/v0-accepted/invalid-selector/<class> (the legacy `selector`
  is not validated at load time). Every other rejected-by-the-reference legacy document that loads is a violation.

What the oracle demands (real code, harness/cmd/hookconfig)
  every case is rendered as YAML (seeded style: plain or quoted scalars, block or flow leaf sequences, key order) and
  as JSON and loaded with the real LoadAndValidate:
    * no panic, the call returns (a hang - 3 s of CPU time burnt inside one call - is a failure: the document is
      neither rejected nor loaded),
    * YAML and JSON give the same verdict and the same projected configuration,
    * expected "reject" (faults, unknown / ambiguous snapshot names)  =>  an error (signature C10/accepted/<class>; for
      faults of legacy documents C10/v0-accepted/<class>),
    * expected configuration  =>  no error and the projection (ids, debug names, labels, pointers erased) equals TLC's record
      (signature C10/mismatch<path>; for legacy documents C10/v0-mismatch<path>, with the suffix /default when the
      differing option is not declared in the document).
  Snapshot name lists that are the expected *set* in another order are a DIVERGENCE note, not a failure (the statement
  speaks of "the snapshots of every kubernetes binding of that group", the order is a convention of the reference).
  Exploration only (not decided by the specification, reported in coverage.byte_level): seeded byte-level corruptions of
  rendered documents must not panic, must return, and must yield an error or a projectable configuration.

What is excluded and why
  * a missing configVersion on a document that has only onStartup/schedule is the legacy v0 format, not a fault;
  * legacy format, statement silent / observed only: a missing `kind` (accepted, kind ""), an explicitly empty `event: []`
    (same as absent), `namespaceSelector` with matchNames next to any: true or with any: false alone, empty `schedule: []` /
    `onKubernetesEvent: []` (accepted) - the repository has no documentation of that format any more and the statement
    does not decide them;
  * two kubernetes bindings with the same effective name are legal as long as no binding refers to that name
    (explicitly or through its group); a reference makes the document ambiguous => expected "reject";
  * container-instead-of-scalar type errors (e.g. a string where an array is expected): the documentation itself shows
    `includeSnapshotsFrom: "monitor-pods"` in one example;
  * webhook bindings are modelled coarsely (name, group, snapshots, failurePolicy / sideEffects / timeoutSeconds defaults,
    number of rules, conversion rules).
"""
import base64
import json
import os
from concurrent.futures import ThreadPoolExecutor

import vlib
from vlib import Infra

SPEC = "HookConfig"
SHARDS = 6


def _is_trivial(case):
    """Trivial = loads, and no binding declares anything beyond its required fields."""
    if case["why"] != "ok":
        return False
    req = {"kubernetes": {"kind"}, "onKubernetesEvent": {"kind"}, "schedule": {"crontab"}, "kubernetesValidating": {"name", "rules"},
           "kubernetesMutating": {"name", "rules"}, "kubernetesCustomResourceConversion": {"name", "crdName", "conversions"}}
    doc = case["doc"]
    for sect, need in req.items():
        for b in doc.get(sect, []):
            if set(b.keys()) - need:
                return False
    return "settings" not in doc


def _run_sharded(ctx, binary, cases):
    shards = [[] for _ in range(SHARDS)]
    index = [[] for _ in range(SHARDS)]
    for i, c in enumerate(cases):
        shards[i % SHARDS].append(c)
        index[i % SHARDS].append(i)

    def one(k):
        if not shards[k]:
            return []
        inp = ctx.path("replay", "in_%d.jsonl" % k)
        outp = ctx.path("replay", "out_%d.jsonl" % k)
        vlib.write_jsonl(inp, shards[k])
        r = vlib.run_bin(ctx, binary, ["replay", "-in", inp, "-out", outp], timeout=1500)
        if r["rc"] != 0:
            raise Infra("hookconfig replay failed: " + r["stderr"][-2000:])
        res = vlib.read_jsonl(outp)
        if len(res) != len(shards[k]):
            raise Infra("hookconfig replay returned %d results for %d cases" % (len(res), len(shards[k])))
        return res

    with ThreadPoolExecutor(max_workers=SHARDS) as ex:
        parts = list(ex.map(one, range(SHARDS)))
    out = [None] * len(cases)
    for k in range(SHARDS):
        for j, r in enumerate(parts[k]):
            out[index[k][j]] = r
    return out


def _run_fuzz(ctx, binary, cases, n):
    # corrupt renderings of a bounded number of model documents
    step = max(1, len(cases) // 1500)
    base = cases[::step]
    inp = ctx.path("fuzz", "in.jsonl")
    outp = ctx.path("fuzz", "out.jsonl")
    vlib.write_jsonl(inp, base)
    r = vlib.run_bin(ctx, binary, ["fuzz", "-in", inp, "-out", outp, "-n", str(n)], timeout=1500)
    if r["rc"] != 0:
        raise Infra("hookconfig fuzz failed: " + r["stderr"][-2000:])
    return vlib.read_jsonl(outp)


def _report(ctx, case, r):
    sig = r.get("sig", "")
    if sig == "HARNESS":
        raise Infra("harness error: " + r.get("detail", "")[-1500:])
    replay = {"case": case, "yaml": r.get("yaml"), "json": r.get("json"), "input_b64": r.get("input_b64")}
    if sig in ("C10/hang", "C10/crash"):     # name the input class
        sig += "/" + ((case["fault"] if case["fault"] != "none" else case["why"]) if case else "bytes")
    if sig.startswith("C10/"):
        ctx.fail(sig, r.get("detail", ""), replay)
    else:
        ctx.notes.append("DIVERGENCE %s: %s" % (sig, r.get("detail", "")[:400]))


def _replay_one(ctx):
    data = json.load(open(ctx.replay))
    rp = data.get("replay") or {}
    binary = vlib.go_build(ctx, "hookconfig")
    if rp.get("case"):
        case = rp["case"]
    elif rp.get("input_b64"):
        case = {"stratum": "bytes", "fault": "none", "doc": {}, "why": "bytes", "expect": "reject", "raw_b64": rp["input_b64"]}
    else:
        raise Infra("replay file has no case")
    res = _run_sharded(ctx, binary, [case])
    r = res[0]
    ctx.cov["traces_validated_against_impl"] = 1
    ctx.cov["evaluations"] = 1
    ctx.cov["distinct_nontrivial"] = 1
    ctx.log("replayed %s: %s" % (data.get("signature"), "ok" if r["ok"] else r.get("sig")))
    ctx.sample({"replayed_signature": data.get("signature"), "result": r.get("sig", "ok"), "detail": r.get("detail", "")[:300]})
    if not r["ok"]:
        _report(ctx, case, r)
    vlib.finish(ctx, rule="single case from %s" % os.path.basename(ctx.replay))


def check_c10(ctx):
    if getattr(ctx, "replay", None):
        return _replay_one(ctx)
    cfg = ctx.pick("MC_quick.cfg", "MC_thorough.cfg")
    with ThreadPoolExecutor(max_workers=4) as ex:
        f_main = ex.submit(vlib.tlc, ctx, SPEC, "HookConfig", cfg, workers=4, timeout=ctx.pick(300, 1500),
                           expect_violation=False, heap="6g")
        f_a1 = ex.submit(vlib.tlc, ctx, SPEC, "HookConfig", "MC_asis_group.cfg", workers=2, timeout=300,
                         expect_violation="GroupSnapshots", want_prints=False)
        f_a2 = ex.submit(vlib.tlc, ctx, SPEC, "HookConfig", "MC_asis_selector.cfg", workers=2, timeout=300,
                         expect_violation="FaultRejected", want_prints=False)
        f_bin = ex.submit(vlib.go_build, ctx, "hookconfig")
        r = f_main.result()
        a1 = f_a1.result()
        a2 = f_a2.result()
        binary = f_bin.result()
    # the as-it-was runs stop at their first violation; they are not part of the explored state count
    ctx.cov["states"] = r["distinct"]
    ctx.cov["transitions"] = r["generated"]
    cases = r["prints"]
    if len(cases) != r["distinct"]:
        raise Infra("TLC reported %d distinct cases but printed %d" % (r["distinct"], len(cases)))
    if not cases:
        raise Infra("TLC produced no cases")
    ctx.log("TLC %s: %d cases (one state per document), DomainWellFormed/FaithfulLoad/Defaults/LegacyLoad/FaultRejected/GroupSnapshots hold, %.0fs; "
            "as-it-was models violate GroupSnapshots / FaultRejected as expected (%.0fs, %.0fs)"
            % (cfg, len(cases), r["wall_s"], a1["wall_s"], a2["wall_s"]))
    # deterministic order (TLC's print order depends on worker scheduling)
    cases.sort(key=lambda c: (len(json.dumps(c["doc"])), json.dumps(c, sort_keys=True)))     # small documents first

    by_stratum, by_fault, by_why = {}, {}, {}
    for c in cases:
        by_stratum[c["stratum"]] = by_stratum.get(c["stratum"], 0) + 1
        if c["fault"] != "none":
            by_fault[c["fault"]] = by_fault.get(c["fault"], 0) + 1
        by_why[c["why"]] = by_why.get(c["why"], 0) + 1
    grouped = sum(1 for c in cases if c["why"] == "ok" and
                  any(len(b["include"]) > len(d.get("includeSnapshotsFrom", [])) for sect, eff in
                      (("kubernetes", "kubernetes"), ("schedule", "schedules"), ("kubernetesValidating", "validating"),
                       ("kubernetesMutating", "mutating"), ("kubernetesCustomResourceConversion", "conversion"))
                      for d, b in zip(c["doc"].get(sect, []), c["expect"][eff])))
    legacy_opts = sum(1 for c in cases if c["why"] == "ok" and "configVersion" not in c["doc"] and
                      (any(b.get("allowFailure") == "@true" for b in c["doc"].get("schedule", [])) or
                       any(len(b) > 1 for b in c["doc"].get("onKubernetesEvent", []))))
    if not by_fault or "ok" not in by_why or not grouped or not legacy_opts:
        raise Infra("vacuous case set: %s, %d cases with group-derived snapshots, %d legacy documents with non-default options"
                    % (by_stratum, grouped, legacy_opts))

    n_fuzz = ctx.pick(6000, 60000)
    with ThreadPoolExecutor(max_workers=2) as ex:
        f_fz = ex.submit(_run_fuzz, ctx, binary, cases, n_fuzz)
        results = _run_sharded(ctx, binary, cases)
        fuzz = f_fz.result()

    loaded = sum(1 for rr in results if rr["ok"] and rr.get("loaded"))
    rejected = sum(1 for rr in results if rr["ok"] and not rr.get("loaded"))
    failed_sigs = {}
    for c, rr in zip(cases, results):
        if not rr["ok"]:
            failed_sigs[rr.get("sig")] = failed_sigs.get(rr.get("sig"), 0) + 1
            _report(ctx, c, rr)
    ctx.log("replayed %d cases as YAML and JSON on the real loader: %d loaded and equal to the reference, %d rejected as expected, "
            "%d failing (%s)" % (len(cases), loaded, rejected, sum(failed_sigs.values()), failed_sigs))

    outcome = {}
    runs = 0
    for b in fuzz:
        runs += b.get("runs", 0)
        for k, v in (b.get("outcome") or {}).items():
            outcome[k] = outcome.get(k, 0) + v
        if not b["ok"]:
            _report(ctx, None, b)
    ctx.cov["byte_level"] = {"level": "exploration (not decided by the specification)", "corrupted_inputs": runs,
                             "returned_error": outcome.get("error", 0), "returned_config": outcome.get("config", 0),
                             "panics": outcome.get("panic", 0), "broken_configs": outcome.get("broken-config", 0),
                             "hangs": sum(1 for b in fuzz if b.get("sig") == "C10/hang"),
                             "mutations": {k[4:]: v for k, v in sorted(outcome.items()) if k.startswith("mut:")}}
    ctx.log("byte-level exploration: %d corrupted inputs, %d errors, %d configurations, %d panics"
            % (runs, outcome.get("error", 0), outcome.get("config", 0), outcome.get("panic", 0)))

    distinct = set()
    for c in cases:
        if not _is_trivial(c):
            distinct.add(json.dumps(c["doc"], sort_keys=True))
    ctx.cov["traces_validated_against_impl"] = len(cases)
    ctx.cov["evaluations"] = 2 * len(cases) + runs
    ctx.cov["distinct_nontrivial"] = len(distinct)
    ctx.cov["cases_by_stratum"] = by_stratum
    ctx.cov["loadable_cases_with_group_derived_snapshots"] = grouped
    ctx.cov["loadable_legacy_documents_with_non_default_options"] = legacy_opts
    ctx.cov["fault_classes"] = len(by_fault)
    ctx.cov["fault_cases"] = sum(by_fault.values())
    ctx.cov["expected_reject_reasons"] = len([k for k in by_why if k != "ok"])
    ctx.cov["expected_loadable"] = by_why.get("ok", 0)
    ctx.cov["real_loaded_equal_reference"] = loaded
    ctx.cov["real_rejected_as_expected"] = rejected
    ctx.cov["failing_signatures"] = failed_sigs

    def first(pred):
        for c in cases:
            if pred(c):
                return c
        return None
    s1 = first(lambda c: c["stratum"] == "kopt" and len(c["doc"]["kubernetes"][0]) >= 6)
    s2 = first(lambda c: c["stratum"] == "cross" and any(len(k["include"]) > 1 for k in c["expect"]["kubernetes"]))
    s3 = first(lambda c: c["fault"].startswith("kubernetes/labelSelector"))
    s4 = first(lambda c: c["why"] == "include/ambiguous-name")
    s5 = first(lambda c: c["stratum"] == "v0sched" and c["why"] == "ok" and len(c["doc"].get("schedule", [])) == 2
               and c["doc"].get("onKubernetesEvent"))
    s6 = first(lambda c: c["stratum"] == "v0kube" and c["why"] == "ok" and len(c["doc"]["onKubernetesEvent"][0]) >= 6)
    for s in (s1, s2, s5, s6):
        if s:
            ctx.sample({"document": s["doc"], "expected_effective": {"kubernetes": s["expect"]["kubernetes"], "schedules": s["expect"]["schedules"]}})
    for s in (s3, s4):
        if s:
            ctx.sample({"document": s["doc"], "fault": s["fault"], "expected": "reject", "reason": s["why"]})
    ctx.sample({"byte_level": ctx.cov["byte_level"]})
    ctx.assumptions += [
        "catalogues stand for the classes 'valid/invalid crontab, label key, label value, apiVersion, duration, hook name' (a few concrete members each)",
        "the projection erases monitor ids, debug names, schedule ids, log/metric labels and compares watch events as a set in canonical order",
        "YAML renderings are produced by the harness' own emitter and verified against gopkg.in/yaml.v3 before use",
        "a load is a hang when the harness process has burnt 3 s of CPU time inside one call (or nothing returned for 150 s); wall-clock time alone is not used"]
    vlib.finish(ctx, rule="cases: TLC enumeration of spec/HookConfig (%s, seed-dependent subset in quick); each case = YAML + JSON load on the real "
                          "LoadAndValidate compared with TLC's Effective(); distinct_nontrivial = distinct documents that declare at least one "
                          "optional field or are expected to be rejected; byte_level = exploration with a no-panic/returns oracle only" % cfg)


CHECKS = {"C10": check_c10}

MANIFEST = {
    "C10": dict(
        text="TLC enumerates the bounded document domain of spec/HookConfig for both config versions (reference semantics written from the "
             "documentation: grammar validator, Effective = reject | effective configuration with the documented defaults, "
             "group/includeSnapshotsFrom resolution, ~100 single-fault mutation classes; legacy documents without configVersion with every "
             "option of that format - schedule name/allowFailure, onKubernetesEvent name/event/selector/objectName/namespaceSelector/jqFilter/"
             "allowFailure - and ~30 fault classes incl. unknown item keys and invalid selectors) and checks FaithfulLoad/Defaults/LegacyLoad/FaultRejected/GroupSnapshots on every case; every case is "
             "rendered as YAML and as JSON, loaded with the real HookConfig.LoadAndValidate, projected to the abstract effective record and "
             "compared with TLC's expectation and with each other; every faulted document must be rejected; panics and hangs are failures.",
        note="Bounds: <= 2 bindings per kind, options on/off in strata (scalar options, selectors, names x groups x includes, schedules/settings, "
             "webhook bindings coarse; legacy format: one binding with every option combination, two bindings with independent options, <= 2 "
             "schedules), catalogues for valid/invalid crontabs, selectors, versions. The 'any byte string never panics' clause is "
             "exploration only: seeded byte-level corruptions (truncate, flip, delete, splice, duplicate keys, YAML tokens) of rendered model "
             "documents with a no-panic / returns / error-or-config oracle, reported in coverage.byte_level; it is not decided by the "
             "specification. Partial `settings`, undocumented schema fields, container-vs-scalar type errors, and for the legacy format a missing "
             "kind / an empty event list are outside the domain. Two open known findings (legacy format only): unknown keys inside "
             "schedule / onKubernetesEvent items are silently ignored (C10/v0-accepted/unknown-item-key/*), `selector` is not validated at "
             "load time (C10/v0-accepted/invalid-selector/*).",
        technique="TLA+ reference function + TLC exhaustive enumeration of the bounded input domain; case replay (YAML and JSON) into the real loader; "
                  "seeded byte-level exploration",
        category="model_checking",
        design="5/C10"),
}
