"""C19 (the bundled shell framework dispatches each binding context to exactly one handler):
spec/ShellFramework bound to shell_lib.sh + frameworks/shell/{hook,context}.sh by case replay with real bash + jq.

What is modelled (spec/ShellFramework/ShellFramework.tla, written from the property statement and the binding
context contract in docs/src/HOOKS.md / BINDING_VALIDATING.md / BINDING_CONVERSION.md; the repository has no other
documentation of the handler names, so the table in the spec header is the reference):
  * Candidates(ctx): the handler names of a context by type / binding / event, most specific first, then __main__;
  * Run(ctxs, defined, failing): invocation log <<[h, idx, binding]>> + exit class; first defined candidate per
    context, stop non-zero at the first failing handler or at the first context without a defined candidate;
  * the same as a machine (FW_Config | FW_Dispatch per context | FW_Finish) with the invariants
    ExactlyOnePerContext, MostSpecificFirst, StopsAtFirstFailure, ConfigOnly, MachineIsRun (machine = function).
  TLC enumerates the bounded domain (bounds: line 1 of MC_quick.cfg / MC_thorough.cfg) and prints one JSON record
  per finished run: the context documents, the handlers to define, the failing ones, the argument, and the
  EXPECTED log / exit class / output computed by TLC.  Nothing of the expectation is recomputed here.

Binding (R): for every case a hook script is generated that sources a copy of <REPO>/shell_lib.sh whose only change
is the framework path (`/frameworks/shell/` -> `<REPO>/frameworks/shell/`, made with sed at run time, REPO =
vlib.REPO i.e. VERIF_REPO is honoured), defines `__config__` and exactly the chosen handlers (each appends
name / BINDING_CONTEXT_CURRENT_INDEX / BINDING_CONTEXT_CURRENT_BINDING to a log file - every third case also what
`context::jq -r .binding` returns inside the handler - and returns 3 if it is a failing one) and calls
`hook::run "$@"`.  It is run by the real bash with the real jq, BINDING_CONTEXT_PATH pointing to the generated JSON
array (unset for `--config`, as the operator does).

Oracle (exactly the statement): the sequence of (handler, current index, current binding) equals TLC's log; the exit
status is zero iff TLC says "zero"; with `--config` stdout is byte for byte what `__config__` prints, exit 0, no
handler.  Nothing is demanded of stderr, of the exact non-zero status, or of stdout in ordinary runs.

Conversion versions: fromVersion / toVersion each plain ("v1beta1") or group-qualified ("stable.example.com/v1beta1"):
none, only from, only to, both.  ASSUMPTION (spec header): inside the handler name every "/" of a version is written
".", per version - the framework's own convention and the only way such a handler can be named.

Excluded from the domain (statement silent): contexts with an unknown type or watchEvent; binding names with quotes, newlines or glob characters; handlers that are not shell functions.  For binding names
with white space (the documentation itself uses "Monitor pods in cache tier", "every minute") no specific handler
can exist as a bash function, so only __main__ / __on_startup are in the defined-set domain.

Quick tier: a seeded stratified sample (about 550 ordinary runs + 50 `--config` runs) of MC_quick's cases;
thorough: every case of MC_thorough.  Runs are executed in parallel (VERIF_JOBS, default 12).
"""
import concurrent.futures
import json
import os
import random
import subprocess

import vlib
from vlib import Infra

SPEC = "ShellFramework"
CONFIG_TEXT = 'configVersion: v1\nonStartup: 7\nschedule:\n- name: "every minute"\n  crontab: "* * * * *"\n# verif-marker %s\n'
INVARIANTS = ["TypeOK", "ExactlyOnePerContext", "MostSpecificFirst", "StopsAtFirstFailure", "ConfigOnly", "MachineIsRun"]


def jobs():
    try:
        return max(1, int(os.environ.get("VERIF_JOBS", "")))
    except ValueError:
        return max(2, min(12, (os.cpu_count() or 4) - 2))


# ----------------------------------------------------------------------------------------------
# the library under test
# ----------------------------------------------------------------------------------------------
def prepare_lib(ctx):
    """Copy of shell_lib.sh that finds the framework in the tree under test; the only change is that path."""
    src = os.path.join(vlib.REPO, "shell_lib.sh")
    fw = os.path.join(os.path.realpath(vlib.REPO), "frameworks", "shell")
    for f in (src, os.path.join(fw, "hook.sh"), os.path.join(fw, "context.sh")):
        if not os.path.isfile(f):
            raise Infra("missing %s" % f)
    dst = ctx.path("lib", "shell_lib.sh")
    with open(dst, "w") as out:
        p = subprocess.run(["sed", "s#/frameworks/shell/#%s/#g" % fw, src], stdout=out, stderr=subprocess.PIPE, timeout=30)
    if p.returncode != 0:
        raise Infra("sed failed: " + p.stderr.decode(errors="replace"))
    a, b = open(src).read().splitlines(), open(dst).read().splitlines()
    changed = [(x, y) for x, y in zip(a, b) if x != y]
    if len(a) != len(b) or not changed or any(x.replace("/frameworks/shell/", fw + "/") != y for x, y in changed):
        raise Infra("shell_lib.sh no longer refers to /frameworks/shell/ in the expected way; cannot point it at the tree under test")
    return dst


def hook_script(lib, case, marker, deep, midfail=False, exits=False):
    failing = set(case["failing"])
    lines = ["#!/usr/bin/env bash", "source %s" % lib, "", "function __config__() {", "cat <<'VERIF_EOF'",
             (CONFIG_TEXT % marker).rstrip("\n"), "VERIF_EOF", "}", ""]
    for h in sorted(case["defined"]):
        if any(ch.isspace() or ch in "'\"\\$`*?[" for ch in h):
            raise Infra("handler name %r cannot be a bash function" % h)
        seen = '"$(context::jq -r .binding)"' if deep else "'-'"
        lines += ["function %s() {" % h,
                  "  printf '%%s\\t%%s\\t%%s\\t%%s\\n' '%s' \"${BINDING_CONTEXT_CURRENT_INDEX-unset}\" "
                  "\"${BINDING_CONTEXT_CURRENT_BINDING-unset}\" %s >> \"$VERIF_LOG\"" % (h, seen)]
        if h in failing:
            # two ways for a handler to fail under the library's strict mode: an explicit non-zero return, or a failing
            # command in the middle of the function (errexit ends the handler there; what follows would succeed)
            lines += (["  false", "  true"] if midfail else ["  return 3"])
        elif exits:
            # a handler may end with `exit 0`: it runs in a subshell of its own, the run goes on with the next context
            lines.append("  exit 0")
        lines += ["}", ""]
    lines += ['hook::run "$@"', ""]
    return "\n".join(lines)


def run_case(lib, base, n, case):
    """Execute one case on the real framework; returns the observation (never judges)."""
    d = os.path.join(base, "c%06d" % n)
    os.makedirs(d)
    deep = case["arg"] == "" and n % 3 == 0
    marker = "m%d" % n
    hook = os.path.join(d, "hook.sh")
    with open(hook, "w") as f:
        f.write(hook_script(lib, case, marker, deep, midfail=(n % 2 == 1), exits=(n % 3 == 1)))
    logp = os.path.join(d, "log")
    open(logp, "w").close()
    env = {k: v for k, v in os.environ.items() if not k.startswith("BINDING_CONTEXT")}
    env["VERIF_LOG"] = logp
    args = ["bash", hook]
    if case["arg"]:
        args.append(case["arg"])
    else:
        cp = os.path.join(d, "binding_context.json")
        with open(cp, "w") as f:
            json.dump(case["ctxs"], f)
        env["BINDING_CONTEXT_PATH"] = cp
    try:
        p = subprocess.run(args, cwd=d, env=env, stdin=subprocess.DEVNULL, stdout=subprocess.PIPE, stderr=subprocess.PIPE, timeout=120)
    except subprocess.TimeoutExpired:
        return {"n": n, "timeout": True}
    entries = []
    for line in open(logp).read().splitlines():
        parts = line.split("\t")
        if len(parts) != 4:
            entries.append({"h": line, "idx": "?", "binding": "?", "seen": "?"})
            continue
        entries.append({"h": parts[0], "idx": parts[1], "binding": parts[2], "seen": parts[3]})
    return {"n": n, "rc": p.returncode, "stdout": p.stdout.decode(errors="replace"), "stderr": p.stderr.decode(errors="replace")[-1500:],
            "log": entries, "deep": deep, "marker": marker, "timeout": False}


# ----------------------------------------------------------------------------------------------
# oracle: observation against TLC's expectation
# ----------------------------------------------------------------------------------------------
def judge(case, obs):
    """None if the real run shows what TLC computed, else (what, where, detail)."""
    exp = case["log"]
    got = obs["log"]
    kinds = case["kinds"]

    def kind_at(k):
        return kinds[k] if k < len(kinds) else "none"

    if case["arg"] == "--config":
        want = CONFIG_TEXT % obs["marker"]
        if got:
            return ("config-ran-handler", "config", "`hook::run --config` invoked %s" % [e["h"] for e in got])
        if obs["rc"] != 0:
            return ("config-exit-status", "config", "`hook::run --config` exited %d; stderr: %s" % (obs["rc"], obs["stderr"][-300:]))
        if obs["stdout"] != want:
            return ("config-output", "config", "`hook::run --config` printed %r, __config__ prints %r" % (obs["stdout"][:300], want))
        return None
    for k in range(max(len(exp), len(got))):
        if k >= len(got):
            return ("missing-invocation", kind_at(k),
                    "context #%d (%s): expected handler %s was not invoked; log %s, exit %d, stderr: %s" %
                    (k, kind_at(k), exp[k]["h"], [(e["h"], e["idx"]) for e in got], obs["rc"], obs["stderr"][-400:]))
        if k >= len(exp):
            why = "after the failing handler %s" % exp[-1]["h"] if exp and exp[-1]["h"] in case["failing"] else \
                  "although context #%d has no defined candidate" % len(exp)
            return ("extra-invocation", kind_at(len(exp)),
                    "%s was invoked (index %s) %s; defined %s" % (got[k]["h"], got[k]["idx"], why, sorted(case["defined"])))
        e, g = exp[k], got[k]
        if g["h"] != e["h"]:
            return ("wrong-handler", kind_at(k), "context #%d (%s): %s invoked, expected %s; defined %s" %
                    (k, kind_at(k), g["h"], e["h"], sorted(case["defined"])))
        if g["idx"] != str(e["idx"]):
            return ("wrong-index", kind_at(k), "handler %s for context #%d ran with BINDING_CONTEXT_CURRENT_INDEX=%s" % (g["h"], e["idx"], g["idx"]))
        if g["binding"] != e["binding"] or (obs["deep"] and g["seen"] != e["binding"]):
            return ("wrong-current-context", kind_at(k),
                    "handler %s for context #%d (binding %s) saw BINDING_CONTEXT_CURRENT_BINDING=%s, context::jq .binding=%s" %
                    (g["h"], e["idx"], e["binding"], g["binding"], g["seen"]))
    if (obs["rc"] == 0) != (case["exit"] == "zero"):
        return ("exit-status", "expected-" + case["exit"],
                "invocations %s as expected but exit status %d, expected %s; stderr: %s" %
                ([(e["h"], e["idx"]) for e in got], obs["rc"], case["exit"], obs["stderr"][-400:]))
    return None


def signature(case, what, where):
    if case["class"] != "plain":
        return "C19/%s/%s" % (case["class"], what)
    return "C19/%s/%s" % (what, where)


# ----------------------------------------------------------------------------------------------
def select_cases(ctx, cases):
    if not ctx.quick():
        return cases
    rnd = random.Random(ctx.seed)
    quota = {(1, "plain", ""): 180, (1, "group-version", ""): 45, (1, "group-version", "--config"): 3,
             (1, "plain", "--config"): 40, (1, "spaced-name", ""): 40, (1, "spaced-name", "--config"): 5,
             (1, "typed-binding-named-onStartup", ""): 30, (1, "typed-binding-named-onStartup", "--config"): 5,
             (2, "plain", ""): 180, (3, "plain", ""): 60}
    strata = {}
    for c in cases:
        strata.setdefault((c["n"], c["class"], c["arg"]), []).append(c)
    out = []
    for key in sorted(strata):
        lst = strata[key]
        q = quota.get(key, len(lst))
        out += lst if len(lst) <= q else rnd.sample(lst, q)
    return out


def check_c19(ctx):
    if getattr(ctx, "replay", None):
        rp = json.load(open(ctx.replay))
        cases = [rp["replay"]["case"]]
        ctx.log("replaying the case stored in %s" % ctx.replay)
    else:
        cfg = ctx.pick("MC_quick.cfg", "MC_thorough.cfg")
        r = None
        for attempt in (1, 2, 3):
            r = vlib.tlc(ctx, SPEC, "ShellFramework", cfg, workers=4, timeout=ctx.pick(240, 900), expect_violation=False,
                         coverage=False)
            if "Model checking completed" in r["out"] and r["distinct"] > 0:
                break
            # the JVM went away before the search was complete (killed from outside): not a result, run it again
            ctx.log("TLC run %d on %s ended early (rc %s, %d cases printed); repeating" % (attempt, cfg, r["rc"], len(r["prints"])))
            ctx.cov["states"] -= r["distinct"]
            ctx.cov["transitions"] -= r["generated"]
            r = None
        if r is None:
            raise Infra("TLC did not complete the search of %s in three attempts" % cfg)
        ctx.log("TLC %s: %d distinct states, invariants %s hold; %d cases emitted, %.0fs" %
                (cfg, r["distinct"], " ".join(INVARIANTS), len(r["prints"]), r["wall_s"]))
        for acfg, inv in (("MC_asis_split.cfg", "StopsAtFirstFailure"), ("MC_asis_startup.cfg", "MostSpecificFirst")):
            a = vlib.tlc(ctx, SPEC, "ShellFramework", acfg, workers=2, timeout=240, expect_violation=inv, want_prints=False)
            ctx.log("TLC %s: the as-it-was model violates %s as expected (%d states)" % (acfg, inv, a["generated"]))
        cases = sorted(r["prints"], key=lambda c: json.dumps(c, sort_keys=True))
        if len(cases) < 1000:
            raise Infra("TLC emitted only %d cases" % len(cases))
        ctx.cov["cases_in_domain"] = len(cases)
        cases = select_cases(ctx, cases)
    lib = prepare_lib(ctx)
    base = ctx.path("cases", "x")
    base = os.path.dirname(base)
    j = jobs()
    ctx.log("running %d cases on %s with bash + jq, %d at a time" % (len(cases), vlib.REPO, j))
    with concurrent.futures.ThreadPoolExecutor(max_workers=j) as ex:
        obs = list(ex.map(lambda nc: run_case(lib, base, nc[0], nc[1]), enumerate(cases)))
    timeouts = [o for o in obs if o.get("timeout")]
    if timeouts:
        raise Infra("%d hook runs did not finish within 120 s (first: case %d)" % (len(timeouts), timeouts[0]["n"]))
    by = {}
    nontrivial = set()
    invocations = 0
    bad = 0
    for case, o in zip(cases, obs):
        key = "len%d/%s%s" % (case["n"], case["class"], "/config" if case["arg"] else "")
        by[key] = by.get(key, 0) + 1
        invocations += len(o["log"])
        if case["log"]:
            nontrivial.add(json.dumps([case["ctxs"], sorted(case["defined"]), sorted(case["failing"])], sort_keys=True))
        v = judge(case, o)
        if v is None:
            continue
        bad += 1
        what, where, detail = v
        ctx.fail(signature(case, what, where),
                 "contexts %s, defined %s, failing %s%s: %s" % (json.dumps(case["ctxs"])[:400], sorted(case["defined"]), sorted(case["failing"]),
                                                            " (--config)" if case["arg"] else "", detail),
                 {"case": case, "observed": {k: o[k] for k in ("rc", "log", "stdout", "stderr")},
                  "how": "generate the hook as checks/shellfw.py:hook_script does and run it with BINDING_CONTEXT_PATH set to the contexts"})
    ctx.log("executed %d cases (%s): %d handler invocations observed, %d cases differ from the specification" % (len(cases), by, invocations, bad))
    ctx.cov["traces_validated_against_impl"] = len(cases)
    ctx.cov["evaluations"] = len(cases)
    ctx.cov["distinct_nontrivial"] = len(nontrivial)
    ctx.cov["cases_by_stratum"] = by
    ctx.cov["handler_invocations_observed"] = invocations
    ctx.cov["parallel_jobs"] = j
    def show(case, o):
        ctx.sample({"contexts": case["ctxs"], "defined": sorted(case["defined"]), "failing": sorted(case["failing"]), "arg": case["arg"],
                    "expected_by_TLC": {"log": case["log"], "exit": case["exit"], "out": case["out"]},
                    "observed": {"log": [[e["h"], e["idx"]] for e in o["log"]], "rc": o["rc"]}})

    pairs = list(zip(cases, obs))
    wanted = [lambda c: c["n"] == 3 and len(c["log"]) == 3, lambda c: c["n"] == 2 and c["exit"] == "nonzero" and len(c["log"]) == 2,
              lambda c: c["n"] == 1 and c["kinds"] == ["Modified"] and c["log"] and c["log"][0]["h"].endswith("added_or_modified"),
              lambda c: c["n"] == 2 and len(c["log"]) == 1 and not c["failing"], lambda c: c["arg"] == "--config"]
    for w in wanted:
        for case, o in pairs:
            if w(case):
                show(case, o)
                break
    ctx.assumptions += ["the handler-name table of the spec header is the documented one (the repository documents the binding contexts, "
                        "not the handler names; the table follows the property statement and DESIGN 5/C19)",
                        "a failing handler is a function returning 3 or (every other case) a function with a failing command in its middle (strict mode); "
                        "in every third case the succeeding handlers end with `exit 0`; only zero / non-zero is compared",
                        "bash and jq of the sandbox (bash 5.2, jq 1.6) are the interpreter of the code under test"]
    vlib.finish(ctx, rule="cases = finished runs of spec/ShellFramework enumerated exhaustively by TLC (quick: seeded stratified sample), each executed "
                          "once on the real framework; distinct_nontrivial = distinct (contexts, defined, failing) whose expected log has at least "
                          "one handler invocation")


CHECKS = {"C19": check_c19}

MANIFEST = {
    "C19": dict(
        text="TLC exhaustively checks spec/ShellFramework (handler-name table Candidates(ctx) by type/binding/event followed by __main__; "
             "Run(ctxs, defined, failing) as reference function and as a machine with one dispatch action per binding context) for "
             "ExactlyOnePerContext, MostSpecificFirst, StopsAtFirstFailure, ConfigOnly and machine = function, over every context kind x "
             "every subset of its candidates + __main__ + near-miss handlers x failing sets x arrays of <= 3 contexts, and emits every case "
             "with the expected invocation log and exit class. Each case is executed on the real shell_lib.sh + frameworks/shell with bash "
             "and jq through a generated hook that defines exactly the chosen handlers; the observed (handler, current index, current "
             "binding) sequence, the exit class and the `--config` output are compared with TLC's expectation.",
        note="Trusts TLC, bash 5.2 and jq 1.6 of the sandbox. The repository has no documentation of the handler names; the reference table is "
             "taken from the property statement / DESIGN 5/C19. Bounds: arrays <= 3 contexts, binding names b1 / monitor-pods.v2 plus two documented names "
             "with spaces and the name onStartup on typed contexts; arrays >= 2: <= 2 handlers defined, at most one failing. Not covered: "
             "unknown context types, binding names with quotes or glob characters.",
        technique="TLA+ spec + TLC exhaustive check; TLC-generated cases replayed on the real bash framework (bash + jq)",
        design="5/C19"),
}
