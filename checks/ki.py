"""C01 (no cluster change lost between Synchronization and later Events), informer level: spec/KubeInformer
bound to pkg/kube_events_manager/resource_informer.go by gate-scheduled schedule replay."""
import glob
import json
import os

import tlaparse
import vlib
from vlib import Infra

SPEC = "KubeInformer"


def gen(ctx, num, depth, consts, cfg="Sim.cfg"):
    d = os.path.dirname(ctx.path("kibeh", "x"))
    vlib.tlc(ctx, SPEC, "KubeInformer", cfg, mode="sim", sim_num=num, sim_depth=depth, timeout=600,
             want_prints=False, consts=consts, simfile=os.path.join(d, "b"))
    behs = []
    for f in sorted(glob.glob(os.path.join(d, "b_*"))):
        sts = tlaparse.parse_behaviour_file(f)
        os.unlink(f)
        if len(sts) > 1:
            behs.append(sts)
    if not behs:
        raise Infra("no behaviours generated")
    return behs


def event_types(beh):
    et = beh[0]["cfgv"]["et"]
    return [t for t in ("A", "M", "D") if t in et]


def replay(ctx, binary, cases, prefixes):
    inp, outp = ctx.path("ki_in.jsonl"), ctx.path("ki_out.jsonl")
    vlib.write_jsonl(inp, cases)
    r = vlib.run_bin(ctx, binary, ["replay", "-in", inp, "-out", outp], timeout=1500)
    if r["rc"] != 0:
        raise Infra("ki replay failed: " + r["stderr"][-2000:])
    res = vlib.read_jsonl(outp)
    if len(res) != len(cases):
        raise Infra("ki replay: %d results for %d cases" % (len(res), len(cases)))
    stats = {"steps": 0, "quiet": 0, "fired": 0, "diverged": 0}
    for c, rr in zip(cases, res):
        stats["steps"] += rr["steps"]
        stats["quiet"] += 1 if rr.get("quiet") else 0
        stats["fired"] += rr.get("fired", 0)
        if not rr["ok"]:
            sigs = rr.get("lost") or [rr["sig"]]
            hit = False
            for sig in sigs:
                if any(sig.startswith(p) for p in prefixes):
                    hit = True
                    ctx.fail(sig, rr["detail"], vlib.replay_payload("ki", ["replay", "-in", "{in}", "-out", "{out}"], c, human={"eventTypes": c["eventTypes"], "actions": [s["act"] for s in c["steps"][1:rr.get("bad_step") or len(c["steps"])]]}))
            if not hit:
                stats["diverged"] += 1
                ctx.notes.append("DIVERGENCE %s at step %s: %s" % (rr["sig"], rr.get("bad_step"), rr["detail"][:300]))
    return stats


def ns_monitor(ctx):
    """namespace.labelSelector bindings: the unlock racing with the namespace informer's add callback (spec/NsMonitor)."""
    asis = bool(os.environ.get("VERIF_KI_ASIS"))
    r = vlib.tlc(ctx, "NsMonitor", "NsMonitor", "MC.cfg", timeout=300, expect_violation=False, workers=4)
    vlib.tlc(ctx, "NsMonitor", "NsMonitor", "MC_asis_f4.cfg", timeout=300, expect_violation="AllEnabled", workers=4)
    vlib.tlc(ctx, "NsMonitor", "NsMonitor", "MC_f5.cfg", timeout=300, expect_violation="AllDelivered", workers=4)
    ctx.log("TLC NsMonitor: %d distinct states; pinned-commit model never enables late-stored informers (F4); preloaded objects of a new namespace are never delivered (F5)" % r["distinct"])
    d = os.path.dirname(ctx.path("nsbeh", "x"))
    vlib.tlc(ctx, "NsMonitor", "NsMonitor", "Sim.cfg", mode="sim", sim_num=ctx.pick(150, 1500), sim_depth=30, timeout=300, want_prints=False,
             consts={"FixF4": "FALSE" if asis else "TRUE", "FixF5": "FALSE" if asis else "TRUE"}, simfile=os.path.join(d, "b"))
    cases = []
    for f in sorted(glob.glob(os.path.join(d, "b_*"))):
        sts = tlaparse.parse_behaviour_file(f)
        os.unlink(f)
        if len(sts) > 3:
            cases.append({"steps": sts})
    binary = vlib.go_build(ctx, "nsmon")
    inp, outp = ctx.path("ns_in.jsonl"), ctx.path("ns_out.jsonl")
    vlib.write_jsonl(inp, cases)
    rr = vlib.run_bin(ctx, binary, ["-in", inp, "-out", outp], timeout=1500)
    if rr["rc"] != 0:
        raise Infra("nsmon failed: " + rr["stderr"][-1500:])
    res = vlib.read_jsonl(outp)
    if len(res) != len(cases):
        raise Infra("nsmon: %d results for %d cases" % (len(res), len(cases)))
    stats = {"cases": len(cases), "quiet": 0, "diverged": 0}
    for c, o in zip(cases, res):
        stats["quiet"] += 1 if o.get("quiet") else 0
        if o["ok"]:
            continue
        sigs = o.get("sigs") or [o["sig"]]
        hit = False
        for sig in sigs:
            if sig.startswith("C01/"):
                hit = True
                ctx.fail(sig, o["detail"], vlib.replay_payload("nsmon", ["-in", "{in}", "-out", "{out}"], c, human={"spec": "NsMonitor", "actions": [s["act"] for s in c["steps"][1:]]}))
        if not hit:
            stats["diverged"] += 1
            ctx.notes.append("DIVERGENCE %s (NsMonitor step %s): %s" % (o["sig"], o.get("bad_step"), o["detail"][:300]))
    ctx.log("NsMonitor: replayed %d schedules on the real monitor: %s" % (len(cases), stats))
    return len(cases), stats


def check_c01(ctx):
    r = vlib.tlc(ctx, SPEC, "KubeInformer", "MC_quick.cfg", timeout=600, expect_violation=False)
    ctx.log("TLC MC_quick: %d generated / %d distinct, %.0fs" % (r["generated"], r["distinct"], r["wall_s"]))
    vlib.tlc(ctx, SPEC, "KubeInformer", "MC_noother.cfg", timeout=300, expect_violation=False)
    a = vlib.tlc(ctx, SPEC, "KubeInformer", "MC_asis.cfg", timeout=300, expect_violation="NoLossExceptSecondReader")
    vlib.tlc(ctx, SPEC, "KubeInformer", "MC_f3.cfg", timeout=300, expect_violation="NoLoss")
    ctx.log("TLC: the pinned-commit model loses events (F1/F2); with those repaired it still loses through the reset by a second reader (F3); "
            "the reference model (only the Synchronization read drops the saved events) loses nothing")
    binary = vlib.go_build(ctx, "ki")
    cases = []
    num = ctx.pick(400, 4000)
    for consts in ({}, {"Others": "{}", "MaxOtherReads": "0"}):
        n = num if not consts else num // 4
        consts = dict(consts)
        if os.environ.get("VERIF_KI_ASIS"):
            # development aid: drive the pinned-commit code with the pinned-commit model
            consts.update({"FixF1": "FALSE", "FixF2": "FALSE", "FixF3": "FALSE"})
        for b in gen(ctx, n, 90, consts):
            cases.append({"eventTypes": event_types(b), "steps": b})
    stats = replay(ctx, binary, cases, ("C01/",))
    ctx.log("replayed %d schedules on the real informer: %s" % (len(cases), stats))
    ns_cases, ns_stats = ns_monitor(ctx)
    # (T) manager level: free-running runs through client-go informers, the monitor callback and the capacity-1 channel
    runs = ctx.pick(150, 1500)
    tr = ctx.path("delivery.ndjson")
    rr = vlib.run_bin(ctx, binary, ["stress", "-out", tr, "-n", str(runs), "-seed", str(ctx.seed)], timeout=900)
    if rr["rc"] != 0:
        raise Infra("ki stress failed: " + rr["stderr"][-1500:])
    events = vlib.read_jsonl(tr)
    t = vlib.tlc(ctx, SPEC, "KubeDelivery", "Delivery.cfg", mode="mc", workers=1, timeout=900, files={"delivery.ndjson": tr})
    if t["violated"]:
        et = tlaparse.parse_error_trace(t["out"])
        last = et[-1][1] if et else {}
        l = last.get("l", 0)
        why = last.get("why", "?")
        win = events[max(0, l - 12):l]
        ctx.fail("C01/delivery/" + str(why), "manager-level run: the consumer saw %s; record %d of the trace: %s" % (why, l - 1, json.dumps(events[l - 2] if 2 <= l <= len(events) + 1 else {})),
                 {"trace_window": win})
    # (T) operator level: free-running operator, every created object must end up in a successful execution, in order
    import op
    nlog = op.oplog(ctx, "C01")
    # (S) operator level: behaviours of spec/Operator with failing and retried Synchronizations of grouped bindings: every
    # monitor of a combined Synchronization is unlocked by the successful retry, and no Event task exists before that
    ne2e, e2e_stats = op.e2e(ctx, ("C01/",), ["B", "C", "G", "K", "L"], ctx.pick(15, 250), depth=50, nrandom=ctx.pick(4, 40))
    ctx.log("operator level: %d behaviours replayed on the real operator (Synchronization -> unlock -> Events): %s" % (ne2e, e2e_stats))
    ctx.cov["operator_level_replay"] = e2e_stats
    nlog += ne2e
    # bindings that watch the same objects share one client-go informer (FactoryStore): spec/SharedInformers
    import shared
    nlog += shared.run(ctx, ("C01/",), mc=False)
    # namespace.labelSelector bindings: namespaces start and stop matching, are deleted and come back (spec/Snapshot/SnapshotNs):
    # the Synchronization view plus the events passed on must reproduce the matching objects
    import snap
    nlog += snap.namespaces(ctx, vlib.go_build(ctx, "snap"), prefixes=("C01/",), mc=False)
    ctx.cov["delivery_runs"] = runs
    ctx.cov["delivery_events"] = len(events)
    ctx.log("manager level: %d free-running runs (%d trace records) validated by TLC against KubeDelivery: %s" % (runs, len(events), t["violated"] or "accepted"))
    ctx.cov["traces_validated_against_impl"] = len(cases) + ns_cases + runs + nlog
    ctx.cov["evaluations"] = len(cases) + ns_cases
    ctx.cov["distinct_nontrivial"] = len({json.dumps([s["act"] for s in c["steps"]]) for c in cases if len(c["steps"]) > 8})
    ctx.cov["replay"] = stats
    ctx.cov["ns_monitor_replay"] = ns_stats
    ctx.sample({"schedule": [s["act"] for s in cases[0]["steps"][1:]]})
    ctx.sample({"schedule": [s["act"] for s in cases[-1]["steps"][1:25]]})
    vlib.finish(ctx, rule="schedules = TLC simulation behaviours of spec/KubeInformer (4 configurations); "
                          "non-trivial = more than 8 steps; distinct = distinct action sequences")


SUBSETS = ['{"A", "M", "D"}', '{"A", "M"}', '{"A", "D"}', '{"M", "D"}', '{"A"}', '{"M"}', '{"D"}', '{}']
FILTERS = [("object", "p"), ("nested", "p"), ("wide", "p"), ("func", "p"), ("none", "whole"), ("string", "p"), ("array", "p"), ("number", "p"), ("bool", "p"), ("const", "const")]


def check_c08(ctx):
    """C08: fire decisions (event type listed, projection changed, Deleted always) and the cache following suppressed changes."""
    r = vlib.tlc(ctx, SPEC, "KubeInformer", ctx.pick("MC_c08.cfg", "MC_c08_thorough.cfg"), timeout=900, expect_violation=False)
    ctx.log("TLC MC_c08 (3 projection modes x 8 event-type subsets chosen in Init): %d generated / %d distinct states, %.0fs" % (r["generated"], r["distinct"], r["wall_s"]))
    binary = vlib.go_build(ctx, "ki")
    cases = []
    behs = gen(ctx, ctx.pick(300, 3000), 90, {}, cfg="Sim_c08.cfg")
    byfilter = {"p": ["object", "wide", "func", "nested", "string", "array", "number", "bool"], "whole": ["none"], "const": ["const"]}
    for i, b in enumerate(behs):
        mode = b[0]["cfgv"]["pm"]
        fl = byfilter[mode]
        # every behaviour runs under the object-valued filter of its mode and one more filter of the catalogue
        for fname in sorted({fl[0], fl[i % len(fl)]}):
            cases.append({"filter": fname, "proj": mode, "eventTypes": event_types(b), "steps": b})
    stats = replay(ctx, binary, cases, ("C08/",))
    ctx.log("replayed %d per-object histories on the real informer (10 projections x 8 event-type subsets): %s" % (len(cases), stats))
    ctx.cov["traces_validated_against_impl"] = len(cases)
    ctx.cov["evaluations"] = len(cases)
    ctx.cov["distinct_nontrivial"] = len({c["filter"] + json.dumps([s["act"] for s in c["steps"] if s["act"][0] in ("Change", "Resync", "HW_UpdateCache")]) for c in cases})
    ctx.cov["replay"] = stats
    ctx.cov["filters"] = [f for f, _ in FILTERS]
    ctx.sample({"filter": cases[0]["filter"], "eventTypes": cases[0]["eventTypes"], "history": [s["act"] for s in cases[0]["steps"] if s["act"][0] in ("Change", "Resync", "HW_UpdateCache")]})
    ctx.assumptions += ["gojq is trusted for the ground-truth value of a filter; objects are built so that the filter result differs exactly when the abstract projection differs",
                        "watch events are injected by calling OnAdd/OnUpdate/OnDelete as client-go's delivery goroutine does"]
    vlib.finish(ctx, rule="histories = TLC simulation behaviours (cluster changes + re-deliveries + handler steps) for every filter of the catalogue and every subset of event types; "
                          "distinct = distinct (filter, change/handler sequence)")


CHECKS = {"C01": check_c01, "C08": check_c08}

MANIFEST = {
    "C01": dict(
        text="TLC exhaustively checks spec/KubeInformer (handleWatchEvent, dropSavedEvents / getCachedObjects, enableKubeEventCb at lock granularity, "
             "the Synchronization run with failures, other snapshot readers, the capacity-1 event channel and its consumer) for NoEarlyEvent, NoLoss, "
             "NoStrandedEvent, per-object order and reconstruction of the cluster state; TLC behaviours are replayed as schedules on the real "
             "resourceInformer with real goroutines parked at gate hooks, state compared after every step, and the property oracle evaluated on what "
             "the real code delivered. Further machines of the same property: spec/NsMonitor (namespaces appearing around the unlock), "
             "spec/KubeInformer/KubeDelivery (manager callback and channel, trace validation of free runs), spec/SharedInformers (bindings sharing "
             "one client-go informer), spec/Operator (Synchronization -> unlock -> Events on the real operator, incl. retried and combined "
             "Synchronizations) and OperatorLog (trace validation of free-running operators).",
        note="Informer level: one resourceInformer, client-go delivery injected through OnAdd/OnUpdate/OnDelete; 1-2 objects, 3 projections, <= 5 "
             "changes, <= 2 extra readers, <= 1 failed Synchronization. Manager/operator levels run on kube-client's fake cluster.",
        technique="TLA+ specs + TLC exhaustive check; gate-scheduled schedule replay of TLC behaviours on the real informer, monitor and operator; TLC trace validation of free runs",
        design="5/C01"),
    "C08": dict(
        text="spec/KubeInformer's fire decision (FireOnlyIf / FireIf / CacheFollows) checked exhaustively by TLC over projection modes and all subsets of "
             "event types; per-object histories with re-deliveries are replayed on the real informer for a catalogue of 10 projections "
             "(jq: object, several-key object with nested maps, nested, none, string, array, number, boolean, constant results; a Go FilterFunc).",
        note="The jq semantics come from gojq (trusted); objects are constructed so that the filter result differs exactly when the abstract projection differs.",
        technique="TLA+ spec + TLC exhaustive check; replay of TLC-generated histories on the real informer",
        design="5/C08"),
}
