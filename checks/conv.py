"""C15 (conversion webhook: a valid rule chain is found iff one exists, and it is applied step by step):
spec/Conversion bound to pkg/webhook/conversion (chain.go, handler.go, response.go), pkg/hook (hook manager,
conversion bindings controller, Hook.Run) and conversionEventHandler in pkg/shell-operator/operator.go.

What is modelled
  Part 1 (ConvRef/ConvSearch): versions are abstract identities, the spelling ("v1" / "stable.example.com/v1") is
  surface syntax. `Reachable(R,a,b)` = some non-empty sequence of declared rules leads from a to b;
  `IsChain` = starts at a, ends at b, every step declared, every step starts where the previous ended;
  `Sound` / `Complete` / `Accept` (the acceptance criterion mentions rules and request only: cache independence).
  TLC enumerates rule graphs (every subset of a candidate universe = conversions x spellings, up to MaxRules) and
  sequences of requests, checks that the loop-free chains (`Admissible`) are exactly the accepted answers
  (AdmissibleSound, AdmissibleIffReachable, AdmissibleAccepted) and prints one case per (graph, request sequence)
  with `reach` and the admissible chains of every request.
  Part 1b (ConvAlgo): FindConversionChain transcribed step by step (paths cache persisting over requests, the
  extension loop, loop guards, NextRules, Go slices as backing array + length + capacity, map iteration order as
  interleaving); TLC checks AnswerSound, AnswerComplete, CacheValid, Terminates on the model of the code after the
  proposed fixes and finds F14/F15/F24 in the as-it-was variants (Algo_asis_*.cfg). Design check only: the binding
  to the code is the case replay of part 1.
  Part 2 (ConvApply): one action per step of the event-handler loop; hook outcome per step in {exit1, empty,
  malformed, failmsg, failobj, ok, drop, extra} ("failobj" = the response carries a failedMessage AND every object
  converted to the promised version: a failed step exactly like failmsg - Failed, with that hook's message, no later
  step, whatever the objects look like); invariants InChainOrder, StopsAtFirstFailure, FailedCarriesHookMessage,
  SuccessOnlyIfAllOkAndCountMatches, ServedWhenAllOk; Apply_asis_*.cfg show TLC finding F16/F17 in the model of the
  code as it was. Two more dimensions of a case are chosen by TLC and do not influence the expected run: `variant`
  (how the rules are spelled, rules that are not on the chain in a third hook) and `layout` (how the rules of the
  chain are spread over hooks and bindings: "perhook" = hook-a / hook-b alternating with one conversion binding each,
  "split" = ONE hook with TWO conversion bindings for the same crdName - the documented up/down layout - odd steps in
  the first binding, even steps in the second, for a chain of one step the rule in the first binding and an unrelated
  rule in the second, so that a rule of the non-last binding is needed by every request).

Binding / what the oracle demands (verdicts only from executions of the real code)
  (R) search cases: one real conversion.ChainStorage per case (the paths cache persists over the requests of the
      case), every answer of FindConversionChain must be empty iff TLC says unreachable, and otherwise be one of the
      admissible chains TLC listed.
  (T) answers that are not in the listed set (and a seeded sample of those that are) go back to TLC
      (ConvSearchTrace): TLC evaluates Sound/Complete of ConvRef on the real answer and names the failing clause.
      A sound chain that visits a version twice is accepted (note, no failure).
  (R) application cases: HTTP POST of a ConversionReview to the real conversion.NewWebhookHandler() router
      (httptest, no TLS), the real ShellOperator.conversionEventHandler (verif_export.go shim), the real
      hook.Manager (hooks directory as the case's layout says: two chain hooks with one binding each, or one chain
      hook with two conversion bindings for the CRD; optionally a third hook serving rules that are not on the
      chain), real Hook.Run with hook processes (cmd/convhook) that log what they received. Compared with the TLC
      behaviour: which hooks ran in which order on which input, result.status, the hook's message inside
      result.message when the failing hook gave one (with or without converted objects next to it), uid echo, on
      Success n objects of the desired version that went through every rule of the chain in order.

Excluded from the generated domain (statement silent / unsatisfiable), never counted as violations
  * a version name that exists in two API groups is only ever written with its group (written short it would be
    ambiguous which version is meant); requests never have from = to; no rule converts a version to itself;
  * application: all objects of a request share one source version (quantifier of the property); at most one step
    changes the number of objects and a hook is never handed zero objects; hooks always produce the version their
    rule promises (also when they fail with a message and objects);
  * result.status of a failed review is accepted as "Failed" or "Failure" (the API server only tests for "Success").
"""
import concurrent.futures
import json
import os
import random

import vlib
from vlib import Infra

SPEC = "Conversion"

SEARCH_CFGS = {
    "quick": ["MC_spell_quick.cfg", "MC_names.cfg", "MC_groups.cfg", "MC_deep_quick.cfg"],
    "thorough": ["MC_spell.cfg", "MC_spell_q.cfg", "MC_names_thorough.cfg", "MC_groups_thorough.cfg", "MC_deep.cfg",
                 "MC_deep3.cfg", "MC_deepmix.cfg"],
}
APPLY_CFG = {"quick": "Apply_quick.cfg", "thorough": "Apply_thorough.cfg"}
ALGO_CFGS = {"quick": ["Algo_quick.cfg"], "thorough": ["Algo_names.cfg", "Algo_spell.cfg", "Algo_groups.cfg", "Algo_deep.cfg"]}
ALGO_ASIS = [("Algo_asis_substr.cfg", "AnswerSound"), ("Algo_asis_alias.cfg", "CacheValid"), ("Algo_asis_loopguard.cfg", "AnswerComplete")]
ECHO_SAMPLE = {"quick": 1500, "thorough": 6000}
FAIL_KINDS = ("exit1", "empty", "malformed", "failmsg", "failobj")


# ------------------------------------------------------------------------------------------------
# harness
# ------------------------------------------------------------------------------------------------
def run_cases(ctx, bins, cases, tag, timeout=1500):
    inp = ctx.path("cases_%s.jsonl" % tag)
    outp = ctx.path("results_%s.jsonl" % tag)
    work = ctx.path("work_%s" % tag, "x")
    work = os.path.dirname(work)
    vlib.write_jsonl(inp, cases)
    r = vlib.run_bin(ctx, bins["conv"], ["run", "-in", inp, "-out", outp, "-work", work], timeout=timeout,
                     env={"VERIF_CONV_HOOKBIN": bins["convhook"]})
    if r["rc"] != 0:
        raise Infra("conv run (%s) failed: %s" % (tag, r["stderr"][-2000:]))
    res = vlib.read_jsonl(outp)
    if len(res) != len(cases):
        raise Infra("conv run (%s) returned %d results for %d cases" % (tag, len(res), len(cases)))
    os.unlink(inp)
    os.unlink(outp)
    for c, rr in zip(cases, res):
        if not rr["ok"] and rr.get("sig", "").startswith("harness/"):
            raise Infra("harness problem in %s: %s %s" % (tag, rr.get("sig"), rr.get("detail")))
    return res


def strip_search(c, echo=False):
    d = {"kind": "search", "rules": c["rules"],
         "qs": [{"from": q["from"], "to": q["to"], "reach": q["reach"], "adm": q["adm"]} for q in c["qs"]]}
    if echo:
        d["echo"] = True
    return d


# ------------------------------------------------------------------------------------------------
# part 1
# ------------------------------------------------------------------------------------------------
def judge_with_tlc(ctx, records):
    """records: list of dict(id, ar, f, t, ans). TLC (ConvSearchTrace) evaluates Sound/Complete on each."""
    if not records:
        return {}
    tr = ctx.path("answers_%d.ndjson" % len(ctx.cov["tlc_runs"]))
    vlib.write_jsonl(tr, records)
    t = vlib.tlc(ctx, SPEC, "ConvSearchTrace", "Trace.cfg", mode="mc", workers=1, timeout=900, files={"answers.ndjson": tr})
    if t["violated"]:
        raise Infra("ConvSearchTrace reported %s" % t["violated"])
    out = {v["id"]: v for v in t["prints"]}
    if len(out) != len(records):
        raise Infra("ConvSearchTrace judged %d of %d answers" % (len(out), len(records)))
    return out


def nontrivial_search(c):
    for q in c["qs"]:
        if len(q["adm"]) >= 2 or (q["adm"] and min(len(a) for a in q["adm"]) >= 2):
            return True
    return False


def search_batch(ctx, bins, cfg, cases, rnd, stats):
    n_echo = max(1, ECHO_SAMPLE[ctx.tier] // len(SEARCH_CFGS[ctx.tier]))
    echo = set(rnd.sample(range(len(cases)), min(n_echo, len(cases))))
    res = run_cases(ctx, bins, [strip_search(c, i in echo) for i, c in enumerate(cases)], cfg[:-4])
    records = []   # for TLC
    origin = []    # (case index, query index, pending?, text, hint)
    for i, (c, rr) in enumerate(zip(cases, res)):
        stats["cases"] += 1
        stats["requests"] += len(c["qs"])
        stats["found"] += rr.get("found", 0)
        if nontrivial_search(c):
            stats["nontrivial"] += 1
        if not rr["ok"]:
            ctx.fail(rr.get("sig", "C15/crash"), rr.get("detail", ""), {"kind": "search", "cfg": cfg, "case": strip_search(c)})
            stats["failed"] += 1
            continue
        notfound = set(rr.get("notfound") or [])
        for qi in sorted(notfound):
            q = c["qs"][qi]
            sig = "C15/search/not-found" + ("/same-name-two-groups" if c.get("dupname") else "")
            earlier = ["%s->%s" % (x["from"], x["to"]) for x in c["qs"][:qi]]
            ctx.fail(sig, "rules %s: request %d %s->%s got no chain although one exists (e.g. %s); earlier requests on the same storage: %s"
                     % (c["rules"], qi + 1, q["from"], q["to"], [c["rules"][i - 1] for i in q["adm"][0]], earlier),
                     {"kind": "search", "cfg": cfg, "case": strip_search(c)})
            stats["failed"] += 1
        pend = {p["q"]: p for p in rr.get("pending", [])}
        for p in pend.values():
            q = c["qs"][p["q"]]
            records.append({"id": len(records), "ar": c["arules"], "f": q["f"], "t": q["t"], "ans": p["ans"]})
            origin.append((i, p["q"], True, p["text"], p.get("hint", "")))
        for qi, ans in enumerate(rr.get("answers") or []):
            if qi in pend or qi in notfound:
                continue
            q = c["qs"][qi]
            records.append({"id": len(records), "ar": c["arules"], "f": q["f"], "t": q["t"], "ans": ans})
            origin.append((i, qi, False, "", ""))
    verdicts = judge_with_tlc(ctx, records)
    for rec, (i, qi, pending, text, hint) in zip(records, origin):
        v = verdicts[rec["id"]]
        stats["judged_by_tlc"] += 1
        c = cases[i]
        q = c["qs"][qi]
        if not pending:
            # the harness accepted this answer by membership (or it is a justified "no chain"): TLC must agree
            if not (v["sound"] and v["complete"]):
                raise Infra("spec inconsistency: answer %s to %s->%s over %s accepted by membership but judged %s by ConvSearchTrace"
                            % (rec["ans"], q["from"], q["to"], c["rules"], v))
            continue
        if v["sound"] and v["complete"]:
            stats["sound_not_loopfree"] += 1
            ctx.notes.append("DIVERGENCE answer %s to %s->%s is a valid chain but visits a version twice (accepted)" % (text, q["from"], q["to"]))
            continue
        sig = "C15/search/" + v["clause"] + ("/" + hint if hint else "")
        earlier = ["%s->%s" % (x["from"], x["to"]) for x in c["qs"][:qi]]
        ctx.fail(sig, "rules %s: request %d %s->%s answered %s: %s (TLC: Sound=%s Complete=%s); earlier requests on the same storage: %s"
                 % (c["rules"], qi + 1, q["from"], q["to"], text, v["clause"], v["sound"], v["complete"], earlier),
                 {"kind": "search", "cfg": cfg, "case": strip_search(c)})
        stats["failed"] += 1
    return res


# ------------------------------------------------------------------------------------------------
# part 2
# ------------------------------------------------------------------------------------------------
def apply_cases(ctx, bins, cases, stats):
    for c in cases:
        c["kind"] = "apply"
    cases.sort(key=lambda c: (c["variant"], c.get("layout", "perhook"), c["len"]))
    shards = 3 if ctx.quick() else 6
    parts = [cases[i::shards] for i in range(shards)]
    with concurrent.futures.ThreadPoolExecutor(max_workers=shards) as ex:
        futs = [ex.submit(run_cases, ctx, bins, p, "apply%d" % i, 3000) for i, p in enumerate(parts) if p]
        results = [f.result() for f in futs]
    kinds = {}
    layouts = stats.setdefault("apply_layouts", {})
    for p, res in zip([p for p in parts if p], results):
        for c, rr in zip(p, res):
            stats["apply_cases"] += 1
            stats["hook_runs"] += rr.get("steps", 0)
            if c["len"] >= 2 or any(k != "ok" for k in c["outc"]):
                stats["apply_nontrivial"] += 1
            for k in c["outc"][:len(c["invoked"])]:
                kinds[k] = kinds.get(k, 0) + 1
            if c["invoked"]:   # expected by TLC (not what the real code did): a request that needs the hooks of this layout
                lay = c.get("layout", "perhook")
                layouts[lay] = layouts.get(lay, 0) + 1
            if not rr["ok"]:
                stats["failed"] += 1
                ctx.fail(rr["sig"], rr["detail"], {"kind": "apply", "case": c, "observed": rr.get("obs")})
    return kinds


# ------------------------------------------------------------------------------------------------
def replay_one(ctx, bins):
    rp = json.load(open(ctx.replay))
    data = rp.get("replay") or {}
    c = data.get("case")
    if not c:
        raise Infra("replay file has no case")
    stats = new_stats()
    if data.get("kind") == "apply":
        apply_cases(ctx, bins, [c], stats)
    else:
        # a stored search case has no identities: re-generate its configuration and look the case up
        cfg = data.get("cfg")
        r = vlib.tlc(ctx, SPEC, "ConvSearchMC", cfg, timeout=1800, workers=4, expect_violation=False)
        key = json.dumps([c["rules"], [(q["from"], q["to"]) for q in c["qs"]]])
        hit = [x for x in r["prints"] if json.dumps([x["rules"], [(q["from"], q["to"]) for q in x["qs"]]]) == key]
        if not hit:
            raise Infra("replay case not found in %s" % cfg)
        for _ in range(8):   # map iteration order varies from run to run
            search_batch(ctx, bins, cfg, hit[:1], random.Random(ctx.seed), stats)
            if ctx.failures:
                break
    ctx.cov["traces_validated_against_impl"] = 1
    vlib.finish(ctx, rule="replay of one stored case")


def new_stats():
    return {"cases": 0, "requests": 0, "found": 0, "nontrivial": 0, "failed": 0, "judged_by_tlc": 0, "sound_not_loopfree": 0,
            "apply_cases": 0, "hook_runs": 0, "apply_nontrivial": 0}


def check_c15(ctx):
    rnd = random.Random(ctx.seed)
    stats = new_stats()
    pool = concurrent.futures.ThreadPoolExecutor(max_workers=3)
    if getattr(ctx, "replay", None):
        bins = {"conv": vlib.go_build(ctx, "conv"), "convhook": vlib.go_build(ctx, "convhook")}
        return replay_one(ctx, bins)

    # TLC runs are started in the background (3 at a time, 4 workers each) while the harness is being built
    def tlc_search(cfg):
        return vlib.tlc(ctx, SPEC, "ConvSearchMC", cfg, timeout=ctx.pick(300, 1800), workers=4, expect_violation=False)

    f_apply = pool.submit(vlib.tlc, ctx, SPEC, "ConvApply", APPLY_CFG[ctx.tier], timeout=ctx.pick(300, 1200), workers=4,
                          expect_violation=False, coverage=not ctx.quick())
    f_search = [(cfg, pool.submit(tlc_search, cfg)) for cfg in SEARCH_CFGS[ctx.tier]]
    f_asis1 = pool.submit(vlib.tlc, ctx, SPEC, "ConvApply", "Apply_asis_failmsg.cfg", timeout=300, workers=2, expect_violation=True,
                          want_prints=False)
    f_asis2 = pool.submit(vlib.tlc, ctx, SPEC, "ConvApply", "Apply_asis_count.cfg", timeout=300, workers=2,
                          expect_violation="SuccessOnlyIfAllOkAndCountMatches", want_prints=False)
    f_algo = [(cfg, pool.submit(vlib.tlc, ctx, SPEC, "ConvAlgoMC", cfg, timeout=ctx.pick(300, 1800), workers=4, expect_violation=False,
                                want_prints=False)) for cfg in ALGO_CFGS[ctx.tier]]
    f_algo_asis = [(cfg, inv, pool.submit(vlib.tlc, ctx, SPEC, "ConvAlgoMC", cfg, timeout=300, workers=2, expect_violation=inv,
                                          want_prints=False)) for cfg, inv in ALGO_ASIS]
    bins = {"conv": vlib.go_build(ctx, "conv"), "convhook": vlib.go_build(ctx, "convhook")}

    # ---- part 2: application protocol ----
    r = f_apply.result()
    ctx.log("TLC %s: %d distinct states, %d cases, %.0fs; invariants InChainOrder/StopsAtFirstFailure/FailedCarriesHookMessage/"
            "SuccessOnlyIfAllOkAndCountMatches/ServedWhenAllOk hold" % (r["cfg"], r["distinct"], len(r["prints"]), r["wall_s"]))
    acases = r["prints"]
    if not acases:
        raise Infra("ConvApply produced no cases")
    kinds = apply_cases(ctx, bins, acases, stats)
    ctx.log("replayed %d application cases end to end (%d hook processes); outcomes of the steps that ran: %s; failures so far: %d"
            % (stats["apply_cases"], stats["hook_runs"], kinds, stats["failed"]))
    ctx.log("application cases in which a hook has to run, by hook layout: %s" % stats["apply_layouts"])
    ctx.cov["apply_step_outcomes"] = kinds
    ctx.cov["apply_layouts"] = stats["apply_layouts"]
    for want in ("ok", "failmsg", "failobj", "exit1", "empty", "malformed", "drop", "extra"):
        if not kinds.get(want):
            raise Infra("vacuous: no application case exercised outcome %s" % want)
    for want in ("perhook", "split"):
        if not stats["apply_layouts"].get(want):
            raise Infra("vacuous: no application case needs a hook of layout %s" % want)
    if not any(c["len"] >= 1 and c["outc"][c["len"] - 1] == "failobj" and len(c["invoked"]) == c["len"] for c in acases):
        raise Infra("vacuous: no application case in which the LAST step fails with a message and objects of the desired version")
    ex = [c for c in acases if c["len"] == 3 and c["outc"][1] == "failmsg" and c["outc"][0] == "ok"]
    if ex:
        ctx.sample({"apply": {"len": 3, "n": ex[0]["n"], "variant": ex[0]["variant"], "outc": ex[0]["outc"],
                              "expected": {"invoked": ex[0]["invoked"], "status": ex[0]["status"], "msg": ex[0]["msg"]}}})
    ex = [c for c in acases if c["len"] == 2 and c["outc"] == ["ok", "failobj"] and c.get("layout") == "split"]
    if ex:
        ctx.sample({"apply": {"len": 2, "n": ex[0]["n"], "variant": ex[0]["variant"], "layout": ex[0]["layout"], "outc": ex[0]["outc"],
                              "expected": {"invoked": ex[0]["invoked"], "status": ex[0]["status"], "msg": ex[0]["msg"]}}})
    ex = [c for c in acases if c["len"] == 2 and c["outc"] == ["ok", "drop"]]
    if ex:
        ctx.sample({"apply": {"len": 2, "n": ex[0]["n"], "outc": ex[0]["outc"], "expected": {"status": ex[0]["status"], "cnt": ex[0]["cnt"]}}})

    # ---- part 1: chain search ----
    for cfg, fut in f_search:
        r = fut.result()
        cases = r["prints"]
        r["prints"] = None
        if not cases:
            raise Infra("ConvSearch %s produced no cases" % cfg)
        before = stats["failed"]
        search_batch(ctx, bins, cfg, cases, rnd, stats)
        ctx.log("TLC %s: %d distinct states, %.0fs; %d cases replayed on the real ChainStorage, %d new failure(s)"
                % (cfg, r["distinct"], r["wall_s"], len(cases), stats["failed"] - before))
        deep = [c for c in cases if any(len(q["adm"]) >= 2 for q in c["qs"])]
        if deep and len(ctx.cov["samples"]) < 5:
            c = deep[rnd.randrange(len(deep))]
            ctx.sample({"search": {"cfg": cfg, "rules": c["rules"],
                                   "requests": [{"from": q["from"], "to": q["to"], "reach": q["reach"], "admissible": len(q["adm"])} for q in c["qs"]]}})
        del cases
    a1, a2 = f_asis1.result(), f_asis2.result()
    ctx.log("TLC as-it-was models: Apply_asis_failmsg violates %s, Apply_asis_count violates %s (as expected)" % (a1["violated"], a2["violated"]))
    # ---- the search as an algorithm (design check of chain.go's loop, cache and slices) ----
    for cfg, fut in f_algo:
        r = fut.result()
        ctx.log("TLC %s (algorithm model, after the fixes): %d distinct states, depth %d, %.0fs; AnswerSound/AnswerComplete/CacheValid/Terminates hold"
                % (cfg, r["distinct"], r["depth"], r["wall_s"]))
    for cfg, inv, fut in f_algo_asis:
        r = fut.result()
        ctx.log("TLC %s (algorithm model, as it was) violates %s as expected" % (cfg, r["violated"]))
    pool.shutdown()

    if stats["found"] == 0 or stats["nontrivial"] == 0:
        raise Infra("vacuous: no search case with a chain")
    ctx.cov["traces_validated_against_impl"] = stats["cases"] + stats["apply_cases"]
    ctx.cov["evaluations"] = stats["requests"] + stats["apply_cases"]
    ctx.cov["distinct_nontrivial"] = stats["nontrivial"] + stats["apply_nontrivial"]
    ctx.cov["search"] = {k: stats[k] for k in ("cases", "requests", "found", "nontrivial", "judged_by_tlc", "sound_not_loopfree")}
    ctx.cov["apply"] = {k: stats[k] for k in ("apply_cases", "hook_runs", "apply_nontrivial")}
    ctx.assumptions += [
        "version identity = (group, name); a name that exists in two groups is never written without its group",
        "the application cases drive the production conversionEventHandler through pkg/shell-operator/verif_export.go "
        "(build tag verif, forwarding only) behind the real conversion.NewWebhookHandler() router; TLS listener, certificates "
        "and the CRD clientConfig update of WebhookManager.Start are not part of the property and are not started",
        "Go map iteration order makes FindConversionChain nondeterministic: an answer is accepted when it is any admissible chain",
    ]
    vlib.finish(ctx, rule="search: cases = (rule graph, request sequence) states of spec/Conversion/ConvSearch enumerated exhaustively by TLC for the "
                          "listed cfgs; non-trivial = some request has >= 2 admissible chains or needs >= 2 steps; "
                          "apply: cases = terminal states of ConvApply (chain length x objects x outcome per step x rule spelling x hook layout); non-trivial = chain of >= 2 steps or a step that is not plain ok; "
                          "evaluations = requests answered by the real FindConversionChain + reviews answered by the real handler")


CHECKS = {"C15": check_c15}

MANIFEST = {
    "C15": dict(
        text="TLC enumerates rule graphs (chains, forks after three steps, diamonds, cycles, Kubernetes-style names where one is a prefix "
             "of another, one name in two API groups, every short/full spelling of every rule) x request sequences, checks on the "
             "reference notions that the loop-free chains are exactly the Sound-and-Complete answers, and emits every case with "
             "Reachable and the admissible chains; each case is replayed on one real conversion.ChainStorage (cache persists over the "
             "requests), answers outside the listed set are judged by TLC (ConvSearchTrace). The application protocol (ConvApply: "
             "InChainOrder, StopsAtFirstFailure, FailedCarriesHookMessage, SuccessOnlyIfAllOkAndCountMatches, ServedWhenAllOk) is "
             "model-checked and every terminal behaviour is replayed end to end: ConversionReview over HTTP into the real handler, "
             "the production conversionEventHandler, real hook manager and hook processes with scripted outcomes (exit 1, empty, "
             "malformed, failedMessage, failedMessage together with converted objects, all / one missing / one extra object), the "
             "rules of the chain declared either by two hooks or by one hook with two conversion bindings for the same CRD.",
        note="Trusts TLC, the verif_export.go forwarding shim and the hook helper. Bounds: search <= 7 versions, <= 10 candidate "
             "conversions, <= 3 requests per storage; application chains of <= 3 (thorough 4) steps, <= 2 (3) objects, 8 outcomes per "
             "step, 2 hook layouts (two hooks with one binding each; one hook with two bindings for the CRD), 2 (5) rule-spelling "
             "variants. A hook that fails with a message never has its objects used, whatever they are; hooks always produce the "
             "version their rule promises. TLS listener / CRD clientConfig patching are not exercised. A name used in two API groups is always written with "
             "its group.",
        technique="TLA+ reference specification + TLC exhaustive enumeration; case replay into the real ChainStorage and the real HTTP "
                  "handler/operator/hook processes; TLC evaluation of recorded answers",
        design="5/C15"),
}
