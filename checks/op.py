"""C03, C04, C06 (and the end-to-end part of C07): spec/Operator bound to the real ShellOperator by step-by-step
replay of TLC behaviours (gated queue workers, blocking hook processes, fake cluster)."""
import ast
import glob
import json
import os
import random

import tlaparse
import vlib
from vlib import Infra

SPEC = "Operator"


def tla_value(v):
    if isinstance(v, bool):
        return "TRUE" if v else "FALSE"
    if isinstance(v, int):
        return str(v)
    if isinstance(v, str):
        return '"%s"' % v
    if isinstance(v, list):
        return "<<" + ", ".join(tla_value(x) for x in v) + ">>"
    if isinstance(v, dict):
        return "[" + ", ".join("%s |-> %s" % (k, tla_value(x)) for k, x in v.items()) + "]"
    raise ValueError(v)


def random_configs(ctx, n):
    """Hook configurations drawn from the documented grammar (seeded): 1-3 hooks, 0-3 kubernetes and 0-2 schedule bindings each,
    queues {main, q1, q2}, groups {none, g1, g2}, executeHookOnSynchronization, allowFailure, onStartup order, an occasional v0 hook.
    They complement the hand-written configurations A.. of configs.json ("all sets of hooks, any mix of binding kinds, groups,
    queues and synchronization flags")."""
    rnd = random.Random(ctx.seed * 7919 + 13)
    cfgs = {}
    for k in range(n):
        hooks = []
        for name in sorted(rnd.sample(["ha", "hb", "hc", "hd"], rnd.choice([1, 1, 2, 2, 3]))):
            v0 = rnd.random() < 0.1
            kube, sched = [], []
            for j in range(rnd.choice([0, 1, 2, 2, 3])):
                kube.append({"name": "k%d" % (j + 1), "queue": "main" if v0 else rnd.choice(["main", "main", "q1", "q2"]),
                             "group": "" if v0 else rnd.choice(["", "", "g1", "g2"]), "sync": rnd.random() < 0.8, "af": rnd.random() < 0.3})
            for j in range(rnd.choice([0, 0, 1, 2])):
                sb = {"name": "s%d" % (j + 1), "crontab": rnd.choice(["c1", "c2"]), "queue": "main" if v0 else rnd.choice(["main", "q1", "q2"]),
                      "group": "" if v0 else rnd.choice(["", "", "g1", "g2"]), "af": rnd.random() < 0.3}
                # the order of the tasks ONE tick produces for several bindings of ONE hook is not specified (the controller
                # ranges over a map): configurations in which it would be observable (same crontab, same queue) are not generated
                for o in sched:
                    if o["crontab"] == sb["crontab"] and o["queue"] == sb["queue"]:
                        sb["crontab"] = "c2" if o["crontab"] == "c1" else "c1"
                sched.append(sb)
            order = rnd.choice([0, 0, 1, 2])
            if not kube and not sched and order == 0:
                order = 1  # a hook must declare something
            hooks.append({"name": name, "order": order, "v0": v0, "kube": kube, "sched": sched})
        cfgs["R%d" % k] = hooks
    return cfgs


def gen_module(ctx, extra=None):
    """configs.json is the single source of the hook configurations: the TLA+ module is generated from it."""
    cfgs = json.load(open(os.path.join(vlib.SPEC, SPEC, "configs.json")))
    cfgs.update(extra or {})
    lines = ["----------------------------- MODULE OpConfigs -----------------------------", "EXTENDS Operator"]
    for name, hooks in sorted(cfgs.items()):
        # the specification takes Hooks in the order of their paths (plain string order, as sort.Strings gives it)
        hooks.sort(key=lambda h: h["name"])
        hs = [{k: h[k] for k in ("name", "order", "v0", "kube", "sched")} for h in hooks]
        lines.append("Hooks%s == %s" % (name, tla_value(hs)))
    lines.append("=============================================================================")
    p = ctx.path("opmod", "OpConfigs.tla")
    open(p, "w").write("\n".join(lines) + "\n")
    return p, cfgs


MC_CFG = """SPECIFICATION Spec
CONSTANTS
  Hooks <- Hooks%(cfg)s
  MaxEvents = %(ev)d
  MaxTicks = %(ticks)d
  MaxFails = %(fails)d
  FixF8 = %(f8)s
  FixF11 = %(f11)s
  WithShutdown = %(sd)s
  ShutdownAfter = 0
INVARIANTS %(inv)s
CHECK_DEADLOCK FALSE
"""
ALL_INV = "TypeOK StartupFirst StartupOrder NoSyncForDisabled SyncInMain NeverDiscardStrict RetrySame NoEarlyEventTask NothingHeldBackAfterUnlock"
SIM_CFG = """SPECIFICATION SimSpec
CONSTANTS
  Hooks <- Hooks%(cfg)s
  MaxEvents = 9
  MaxTicks = 3
  MaxFails = 3
  FixF8 = %(f8)s
  FixF11 = %(f11)s
  WithShutdown = TRUE
  ShutdownAfter = %(sdafter)d
CHECK_DEADLOCK FALSE
"""


def model_checks(ctx, mod, quick_cfgs, asis):
    for cfg, ev, ticks, fails in quick_cfgs:
        r = vlib.tlc(ctx, SPEC, "OpConfigs", MC_CFG % dict(cfg=cfg, ev=ev, ticks=ticks, fails=fails, f8="TRUE", f11="TRUE", inv=ALL_INV, sd="TRUE" if cfg == "B" else "FALSE"),
                     timeout=900, expect_violation=False, files={"OpConfigs.tla": mod}, workers=8)
        ctx.log("TLC Operator/Hooks%s: %d generated / %d distinct states, %.0fs" % (cfg, r["generated"], r["distinct"], r["wall_s"]))
    for cfg, inv, f8, f11 in asis:
        vlib.tlc(ctx, SPEC, "OpConfigs", MC_CFG % dict(cfg=cfg, ev=2, ticks=1, fails=2, f8=f8, f11=f11, inv=inv, sd="FALSE"), timeout=300,
                 expect_violation=inv, files={"OpConfigs.tla": mod}, workers=4)


def pairfn(v):
    """a TLA+ function over <<hook, binding>> pairs as a dict keyed "hook/binding" (the empty function prints as <<>>)"""
    if not isinstance(v, dict):
        return {}
    return {"/".join(ast.literal_eval(k)): x for k, x in v.items()}


def gen(ctx, mod, cfg, num, depth, asis=False, sdafter=9999):
    d = os.path.dirname(ctx.path("opbeh", "x"))
    vlib.tlc(ctx, SPEC, "OpConfigs", SIM_CFG % dict(cfg=cfg, f8="FALSE" if asis else "TRUE", f11="FALSE" if asis else "TRUE", sdafter=sdafter), mode="sim",
             sim_num=num, sim_depth=depth, timeout=600, want_prints=False, files={"OpConfigs.tla": mod}, simfile=os.path.join(d, "b"))
    behs = []
    for f in sorted(glob.glob(os.path.join(d, "b_*"))):
        sts = tlaparse.parse_behaviour_file(f)
        os.unlink(f)
        if len(sts) > 3:
            behs.append([{k: s[k] for k in ("act", "queues", "run", "backoff", "down")} | {"buffered": pairfn(s["buffered"]), "mstate": pairfn(s["mstate"]), "schedOn": sorted(s["schedOn"])} for s in sts])
    if not behs:
        raise Infra("no behaviours")
    return behs


def replay(ctx, cases, prefixes):
    binary = vlib.go_build(ctx, "op")
    hookbin = vlib.go_build(ctx, "hookbin")
    res = vlib.run_sharded(ctx, binary, cases, lambda i, o: ["replay", "-in", i, "-out", o, "-hookbin", hookbin], shards=10, timeout=2400, tag="op")
    stats = {"steps": 0, "execs": 0, "diverged": 0, "complete": 0}
    for c, rr in zip(cases, res):
        stats["steps"] += rr["steps"]
        stats["execs"] += rr.get("execs", 0)
        if rr["ok"]:
            stats["complete"] += 1
            continue
        sig, det = rr["sig"], rr["detail"]
        for o in rr.get("also") or []:
            # the step left several queues different from the specification: take the mismatch that belongs to this property
            if not any(sig.startswith(p) for p in prefixes) and any(o["sig"].startswith(p) for p in prefixes):
                sig, det = o["sig"], o["detail"]
        rr["detail"] = det
        if any(sig.startswith(p) for p in prefixes):
            ctx.fail(sig, rr["detail"], vlib.replay_payload("op", ["replay", "-in", "{in}", "-out", "{out}", "-hookbin", "{hookbin}"], c, human={"config": c["config"], "actions": [s["act"] for s in c["steps"][1:rr.get("bad_step", 0) + 1]]}))
        else:
            stats["diverged"] += 1
            ctx.notes.append("DIVERGENCE %s (config %s, step %s): %s" % (sig, c["config"], rr.get("bad_step"), rr["detail"][:300]))
    return stats


def run(ctx, prefixes, what, configs=None):
    rcfgs = random_configs(ctx, ctx.pick(6, 60))
    mod, cfgs = gen_module(ctx, rcfgs)
    asis_env = bool(os.environ.get("VERIF_OP_ASIS"))
    quick = [("A", 2, 1, 1), ("B", 2, 0, 2)] if ctx.quick() else [("A", 2, 1, 2), ("B", 3, 0, 2), ("D", 2, 1, 1)]
    model_checks(ctx, mod, quick, [("A", "NoSyncForDisabled", "TRUE", "FALSE"), ("B", "NeverDiscardStrict", "FALSE", "TRUE")])
    cases = []
    per = ctx.pick(20, 400)
    for cfg in sorted(configs or [c for c in cfgs if c not in rcfgs]):
        for b in gen(ctx, mod, cfg, per, ctx.pick(45, 70), asis=asis_env):
            cases.append({"config": cfg, "hooks": cfgs[cfg], "steps": b})
    # configurations drawn from the grammar: fewer behaviours each, other ones for every seed
    for cfg in sorted(rcfgs):
        for b in gen(ctx, mod, cfg, ctx.pick(6, 25), ctx.pick(45, 70), asis=asis_env):
            cases.append({"config": cfg, "hooks": cfgs[cfg], "steps": b})
    ctx.cov["random_configurations"] = len(rcfgs)
    stats = replay(ctx, cases, prefixes)
    ctx.log("replayed %d behaviours on the real operator (%s): %s" % (len(cases), what, stats))
    nlog = oplog(ctx, ctx.pid) if ctx.pid in ("C03", "C04") else 0
    ctx.cov["traces_validated_against_impl"] = len(cases) + nlog
    ctx.cov["evaluations"] = len(cases)
    ctx.cov["distinct_nontrivial"] = len({c["config"] + json.dumps([s["act"] for s in c["steps"]]) for c in cases})
    ctx.cov["replay"] = stats
    ctx.cov["configurations"] = sorted(configs or cfgs)
    ctx.sample({"config": cases[0]["config"], "actions": [s["act"] for s in cases[0]["steps"][1:30]]})
    ctx.assumptions += ["hook processes are the hookbin helper (blocks until released, exit code scripted); objects are ConfigMaps on kube-client's fake cluster",
                        "queue workers are parked at gate hooks between their steps; gating only adds delay"]
    vlib.finish(ctx, rule="behaviours = TLC simulation of spec/Operator for each hook configuration of configs.json; every step compares all queues, "
                          "the contexts received by the hook process and the task status; distinct = distinct (configuration, action sequence)")


def e2e(ctx, prefixes, configs, per, depth=50, sdafter=9999, nrandom=0):
    """operator-level behaviours for the checks of other machines (C01, C02, C17): returns (number of cases, stats)."""
    rcfgs = random_configs(ctx, nrandom) if nrandom else {}
    mod, cfgs = gen_module(ctx, rcfgs)
    cases = []
    for cfg in list(configs) + sorted(rcfgs):
        for b in gen(ctx, mod, cfg, per if cfg not in rcfgs else max(6, per // 3), depth, sdafter=sdafter):
            if sdafter < 9999 and not any(s["act"][0] == "Shutdown" for s in b):
                continue
            cases.append({"config": cfg, "hooks": cfgs[cfg], "steps": b})
    if not cases:
        raise Infra("no operator-level behaviours")
    stats = replay(ctx, cases, prefixes)
    return len(cases), stats


WHY_PROP = {"overlap": "C03", "out-of-order": "C03", "out-of-order-lost-or-duplicated": "C07", "retry-different": "C04", "lost": "C01",
            "end-without-start": "C03", "still-running": "C04"}
# a reason may speak about more than one property
WHY_ALSO = {"out-of-order": {"C07"}, "out-of-order-lost-or-duplicated": {"C01"}}


def oplog(ctx, pid):
    """(T) free-running executions of the real operator validated by TLC against spec/Operator/OperatorLog.tla."""
    binary = vlib.go_build(ctx, "op")
    hookbin = vlib.go_build(ctx, "hookbin")
    runs = ctx.pick(30, 400)
    tr = ctx.path("oplog.ndjson")
    rr = vlib.run_bin(ctx, binary, ["stress", "-out", tr, "-hookbin", hookbin, "-n", str(runs), "-seed", str(ctx.seed)], timeout=1800)
    if rr["rc"] != 0:
        raise Infra("op stress failed: " + rr["stderr"][-1500:])
    events = vlib.read_jsonl(tr)
    t = vlib.tlc(ctx, SPEC, "OperatorLog", "Log.cfg", mode="mc", workers=1, timeout=900, files={"oplog.ndjson": tr})
    if t["violated"]:
        et = tlaparse.parse_error_trace(t["out"])
        last = et[-1][1] if et else {}
        l, why = last.get("l", 0), str(last.get("why", "?"))
        prop = WHY_PROP.get(why, "DIV")
        detail = "free-running operator: %s at record %d: %s; pending %s" % (why, l - 1, json.dumps(events[l - 2] if 2 <= l <= len(events) + 1 else {})[:400], json.dumps(last.get("pending"))[:300])
        if prop == pid or pid in WHY_ALSO.get(why, ()):
            ctx.fail("%s/oplog/%s" % (pid, why), detail, {"trace_window": events[max(0, l - 15):l]})
        else:
            ctx.notes.append("DIVERGENCE %s/oplog/%s: %s" % (prop, why, detail[:300]))
    n_exec = sum(1 for e in events if e["e"] == "start")
    n_obj = sum(1 for e in events if e["e"] == "ev")
    ctx.log("free-running operator: %d runs, %d objects, %d hook executions; log validated by TLC against OperatorLog: %s" % (runs, n_obj, n_exec, t["violated"] or "accepted"))
    ctx.cov["oplog_runs"] = runs
    ctx.cov["oplog_records"] = len(events)
    return runs


def check_c03(ctx):
    # queue level: TLC behaviours of spec/TaskQueue (public operations interleaved with the worker, no Stop) replayed on the
    # real queue, judging only which task the handler is given next (HeadFirst is an action property of that spec)
    import tq
    vlib.tlc(ctx, "TaskQueue", "TaskQueue", "MC_quick.cfg", timeout=600, expect_violation=False)
    tqbin = vlib.go_build(ctx, "tq")
    behs = tq.gen_behaviours(ctx, ctx.pick(300, 4000), 60, consts={"WithStop": "FALSE"})
    inp, outp = ctx.path("tq_in.jsonl"), ctx.path("tq_out.jsonl")
    vlib.write_jsonl(inp, behs)
    rr = vlib.run_bin(ctx, tqbin, ["replay", "-mode", "c03", "-in", inp, "-out", outp], timeout=1500)
    if rr["rc"] != 0:
        raise Infra("tq replay failed: " + rr["stderr"][-1500:])
    picks = 0
    for b, o in zip(behs, vlib.read_jsonl(outp)):
        picks += sum(1 for s in b if s["act"][0] == "W_Get")
        if not o["ok"]:
            if o["sig"].startswith("C03/"):
                ctx.fail(o["sig"], o["detail"], vlib.replay_payload("tq", ["replay", "-mode", "c03", "-in", "{in}", "-out", "{out}"], b, human={"actions": [s["act"] for s in b[1:o.get("bad_step", 0) + 1]]}))
            else:
                ctx.notes.append("DIVERGENCE %s: %s" % (o["sig"], o["detail"][:200]))
    ctx.log("queue level: %d behaviours (%d picks) replayed on the real queue, executed task = head of the list" % (len(behs), picks))
    ctx.cov["queue_level_behaviours"] = len(behs)
    run(ctx, ("C03/",), "placement, head-first, one execution per queue", configs=["A", "B", "D", "H", "I"])


def backoff_bounds(ctx):
    """the back-off delay as a function of the failure count, sampled on the real code against spec/Operator/Backoff.tla"""
    r = vlib.tlc(ctx, SPEC, "Backoff", "Backoff.cfg", timeout=300, expect_violation=False, workers=2)
    cases = r["prints"]
    if len(cases) != 40:
        raise Infra("Backoff: %d cases instead of 40" % len(cases))
    binary = vlib.go_build(ctx, "combine")
    inp, outp = ctx.path("bo_in.jsonl"), ctx.path("bo_out.jsonl")
    vlib.write_jsonl(inp, cases)
    rr = vlib.run_bin(ctx, binary, ["-mode", "backoff", "-in", inp, "-out", outp], timeout=300)
    if rr["rc"] != 0:
        raise Infra("backoff sampling failed: " + rr["stderr"][-1500:])
    for c, o in zip(cases, vlib.read_jsonl(outp)):
        if not o["ok"]:
            if o["sig"].startswith("C04/"):
                ctx.fail(o["sig"], o["detail"], vlib.replay_payload("combine", ["-mode", "backoff", "-in", "{in}", "-out", "{out}"], c, human=c))
            else:
                ctx.notes.append("DIVERGENCE %s: %s" % (o["sig"], o["detail"]))
    ctx.log("back-off bounds: %d (initial delay, failure count) pairs x 200 samples on CalculateDelay and the queue's ExponentialBackoffFn" % len(cases))
    ctx.cov["backoff_cases"] = len(cases)


def check_c04(ctx):
    backoff_bounds(ctx)
    run(ctx, ("C04/",), "retry, back-off, allowFailure, discarded contexts", configs=["A", "B", "C", "F", "G"])


def check_c06(ctx):
    run(ctx, ("C06/",), "bootstrap order, Synchronization delivery", configs=["A", "B", "C", "E", "G", "I", "J", "K", "M"])


def check_c07(ctx):
    """function level: all layouts through both twins; end to end: the operator replay with the C07 oracles."""
    binary = vlib.go_build(ctx, "combine")
    total = 0
    for cfg in (["Combine_quick.cfg", "Combine_two.cfg", "Combine_stop.cfg"] if ctx.quick() else ["Combine_thorough.cfg", "Combine_two.cfg", "Combine_stop.cfg"]):
        r = vlib.tlc(ctx, SPEC, "Combine", cfg, timeout=1500, expect_violation=False, workers=4)
        cases = r["prints"]
        if not cases:
            raise Infra("no layouts from " + cfg)
        inp, outp = ctx.path("cmb_in.jsonl"), ctx.path("cmb_out.jsonl")
        vlib.write_jsonl(inp, cases)
        # Combine_stop: the caller's stopCombineFn rejects some tasks, and a task is appended while the combination is under way
        margs = ["-mode", "stop"] if cfg == "Combine_stop.cfg" else []
        rr = vlib.run_bin(ctx, binary, margs + ["-in", inp, "-out", outp], timeout=900)
        if rr["rc"] != 0:
            raise Infra("combine harness failed: " + rr["stderr"][-1500:])
        res = vlib.read_jsonl(outp)
        if len(res) != len(cases):
            raise Infra("combine: %d results for %d cases" % (len(res), len(cases)))
        for c, o in zip(cases, res):
            if not o["ok"]:
                ctx.fail(o["sig"], o["detail"], vlib.replay_payload("combine", margs + ["-in", "{in}", "-out", "{out}"], c, human={"layout": c["layout"], "expected": c["res"]}))
        total += len(cases)
        ctx.log("%s: %d layouts enumerated by TLC, all replayed through both combine functions" % (cfg, len(cases)))
        ctx.sample({"layout": cases[len(cases) // 2]["layout"], "expected": cases[len(cases) // 2]["res"]})
    ctx.cov["layouts"] = total
    ctx.cov["exhaustive"] = True
    # end to end
    rcfgs = random_configs(ctx, ctx.pick(4, 40))
    mod, cfgs = gen_module(ctx, rcfgs)
    cases = []
    for cfg in ("A", "C", "G", "K", "M"):
        for b in gen(ctx, mod, cfg, ctx.pick(15, 300), ctx.pick(45, 70)):
            cases.append({"config": cfg, "hooks": cfgs[cfg], "steps": b})
    for cfg in sorted(rcfgs):
        for b in gen(ctx, mod, cfg, ctx.pick(8, 25), ctx.pick(45, 70)):
            cases.append({"config": cfg, "hooks": cfgs[cfg], "steps": b})
    stats = replay(ctx, cases, ("C07/",))
    ctx.log("end to end: %d operator behaviours replayed: %s" % (len(cases), stats))
    nlog = oplog(ctx, "C07")
    ctx.cov["traces_validated_against_impl"] = total + len(cases) + nlog
    ctx.cov["evaluations"] = total + len(cases)
    ctx.cov["distinct_nontrivial"] = total
    ctx.cov["replay"] = stats
    vlib.finish(ctx, rule="every queue layout within the bounds (one TLC state per layout) is replayed through CombineBindingContextForHook and its internal twin; "
                          "non-trivial/distinct = number of distinct layouts; plus operator behaviours with combination steps")


CHECKS = {"C03": check_c03, "C04": check_c04, "C06": check_c06, "C07": check_c07}

_common = ("spec/Operator (bootstrap of main, per-queue workers, combination, result application, Synchronization unlock, event and schedule "
           "task placement) is checked exhaustively by TLC for small hook configurations; TLC behaviours are replayed step by step on the real "
           "ShellOperator (fake cluster, generated hooks, queue workers parked at gates, hook processes blocked until released) with all queues, "
           "the contexts received by the hook and the task status compared after every step. ")
MANIFEST = {
    "C03": dict(text=_common + "C03 oracles: task placement per binding queue in arrival order, executed hook = head task's hook, no execution without a scheduled pick.",
                note="Queue-level HeadFirst/NoOverlap are additionally checked in spec/TaskQueue (C05/C17 replay). Independence of queues is exercised by "
                     "blocking one queue's hook while others progress; liveness itself is checked on the specification only.",
                technique="TLA+ spec + TLC exhaustive check; step-by-step replay of TLC behaviours on the real operator", design="5/C03"),
    "C04": dict(text=_common + "C04 oracles: Fail keeps the (combined) task at the head, retry not before the initial delay, allowFailure turns failure into Success, "
                               "contexts of strict bindings are never dropped (NeverDiscardStrict, RetrySame checked by TLC).",
                note="Failures are hook exit codes; the back-off lower bound is measured with gating only adding delay (initial delay 20 ms in the fixture).",
                technique="TLA+ spec + TLC exhaustive check; step-by-step replay of TLC behaviours on the real operator", design="5/C04"),
    "C06": dict(text=_common + "C06 oracles: main queue after bootstrap equals the specified order (onStartup by order then name, Enable* per hook), "
                               "Synchronization tasks at the head of main in binding order, no execution for executeHookOnSynchronization:false / v0.",
                note="11 hook configurations in spec/Operator/configs.json (equal onStartup orders, hook paths in sub-directories, groups, groups led by a binding without Synchronization, snapshot-only bindings, v0 hook, named queues with and without groups); each check replays the ones that matter for it.",
                technique="TLA+ spec + TLC exhaustive check; step-by-step replay of TLC behaviours on the real operator", design="5/C06"),
    "C07": dict(text="TLC enumerates every queue layout within the bounds (spec/Operator/Combine.tla, reference semantics in CombineOps.tla) and each layout is "
                     "replayed through the exported CombineBindingContextForHook and the internal twin: returned contexts (origin-tagged), monitor ids and "
                     "queue remainder compared; a second pass (Combine_stop.cfg) marks tasks that the caller's stopCombineFn rejects and appends a task "
                     "from another goroutine between the two critical sections of the combination (it must stay, unmerged, at the end); "
                     "operator-level behaviours check what the hook process receives, and free-running operators are validated against OperatorLog.tla.",
                note="Layouts: length <= 3 (quick) / 4 (thorough) over 2 hooks, 2 task types, metadata-less tasks, groups {'', g1, g2}, 1-2 contexts per task; "
                     "stop flags on layouts of length <= 3. The concurrent append is ordered by the queue's RWMutex (a writer that waits while Iterate "
                     "holds the read lock goes ahead of Filter's write lock); should it ever come later the expected result is the same.",
                technique="TLA+ reference function enumerated by TLC; case replay on both combine functions; operator-level behaviour replay", design="5/C07"),
}
