"""Shared informer factories (pkg/kube_events_manager/factory.go): monitors that watch the same kind in the same namespace
with the same selectors share one client-go informer and are counted by their handler registrations.

spec/SharedInformers/SharedInformers.tla: AddMonitor (own preload) / StartMonitor (factory created or joined, Added replay of
the shared store to the new handler, stale preloaded objects dropped) / StopMonitor + StopStep (handler removed, the last
user drops the factory) of several monitors, interleaved with cluster changes and the steps of the shared informer and of
every handler. Invariants: QuietConverges (every started monitor follows the cluster whatever its neighbours do),
FactoryRefCount, UsersAreLive, StartedRegistered.

Binding: TLC simulation behaviours are executed through the public KubeEventsManager API (AddMonitor, StartMonitor,
EnableKubeEventCb, StopMonitor) on the fake cluster; wherever the specification says a started monitor is quiet its
Snapshot() is compared with the cluster and with the specification's cache, and the number of events it passed on with
the specification's count of changes (fewer = a change lost, C01; more = an unchanged object passed on).
This is a section of the C01 and C02 checks: it is the part of their quantifier ("all binding configurations") in which
two bindings watch the same objects.
"""
import ast
import glob
import json
import os

import tlaparse
import vlib
from vlib import Infra

SPEC = "SharedInformers"


def norm(fn):
    out = {}
    for k, v in fn.items():
        ns, name = ast.literal_eval(k)
        out["%s/%s" % (ns, name)] = v
    return out


def gen(ctx, num, depth):
    d = os.path.dirname(ctx.path("sharedbeh", "x"))
    vlib.tlc(ctx, SPEC, "SharedInformers", "Sim.cfg", mode="sim", sim_num=num, sim_depth=depth, timeout=600, want_prints=False, simfile=os.path.join(d, "b"))
    behs = []
    for f in sorted(glob.glob(os.path.join(d, "b_*"))):
        sts = tlaparse.parse_behaviour_file(f)
        os.unlink(f)
        if len(sts) > 4 and any(s["act"][0] == "StartMonitor" for s in sts):
            behs.append([{"act": s["act"], "idxOf": s["idxOf"], "mst": s["mst"], "cache": s["cache"], "inbox": s["inbox"], "passed": s["passed"],
                          "fpending": s["fpending"], "fstore": s["fstore"], "reg": {k: sorted(v) for k, v in s["reg"].items()}, "cluster": norm(s["cluster"])} for s in sts])
    if not behs:
        raise Infra("no behaviours")
    return behs


def run(ctx, prefixes, mc=True):
    """model check + replay; failures whose signature starts with one of `prefixes` count for the calling check."""
    q = ctx.quick()
    if mc:  # the exhaustive run belongs to C02's check; C01 reuses the behaviours and the harness only
        r = vlib.tlc(ctx, SPEC, "SharedInformers", "MC.cfg", timeout=3000, expect_violation=False, workers=12,
                     consts={"MaxStarts": "2"} if q else None)
        ctx.log("TLC SharedInformers/MC (2 monitors over 2 factory indices): %d generated / %d distinct states, %.0fs" % (r["generated"], r["distinct"], r["wall_s"]))
    binary = vlib.go_build(ctx, "shared")
    behs = gen(ctx, ctx.pick(140, 2400), 50)
    cases = [{"steps": b} for b in behs]
    rows = vlib.run_sharded(ctx, binary, cases, lambda i, o: ["-in", i, "-out", o], shards=8, timeout=1800, tag="shared")
    quiet = shared = 0
    acts = {}
    for c, o in zip(cases, rows):
        quiet += o.get("quiet_points", 0)
        shared += o.get("shared_starts", 0)
        for s in c["steps"][1:]:
            acts[s["act"][0]] = acts.get(s["act"][0], 0) + 1
        if not o["ok"]:
            if any(o["sig"].startswith(p) for p in prefixes):
                ctx.fail(o["sig"], o["detail"], vlib.replay_payload("shared", ["-in", "{in}", "-out", "{out}"], c,
                         human={"actions": [s["act"] for s in c["steps"][1:o.get("bad_step", 0) + 1]], "monitor_namespaces": c["steps"][0]["idxOf"], "initial": c["steps"][0]["cluster"]}))
            else:
                ctx.notes.append("DIVERGENCE %s: %s" % (o["sig"], o["detail"][:300]))
    ctx.log("shared informers: %d behaviours on the real KubeEventsManager, %d quiet monitor states compared, %d starts joined a running factory; actions %s"
            % (len(cases), quiet, shared, acts))
    ctx.cov["shared_informer_behaviours"] = len(cases)
    ctx.cov["shared_informer_quiet_points"] = quiet
    ctx.cov["shared_informer_joined_starts"] = shared
    return len(cases)
