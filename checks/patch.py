"""C13 (kubernetes patch file: validated as a whole, applied in order, JSON and YAML agree): spec/Patch bound to
pkg/kube/object_patch (+ handleRunHook in pkg/shell-operator/operator.go).

What is modelled (spec/Patch/Patch.tla)
  * REFERENCE semantics written from docs/src/KUBERNETES.md and the property statement: an abstract cluster
    (2 object names -> <<v, w, n>> | absent; v, w = two labels of a Deployment, n = carries an integer field), a stream of
    <= 3 documents, every operation with its documented effect (Create fails on an existing object, CreateIfNotExists
    ignores it, CreateOrUpdate replaces it; the three deletes remove the object and ignore a missing one; MergePatch /
    JSONPatch / JQPatch change an existing object, a missing one is an error unless ignoreMissingObject; a failing
    operation does not stop the later ones; the execution fails iff some operation failed), payloads inline or
    stringified (JSON text / YAML text), `subresource` on the three patches, eight single-fault classes of invalid
    documents (no operation, unknown operation, unknown key, payload missing / empty / of the wrong shape, name or kind
    missing), and one stream-level fault: a stray closing bracket (`]` or `}`) before, between or after complete
    documents (stream element op "Stray", fault strayClose) - a syntax error of the stream in both syntaxes, so nothing
    may be applied, neither the documents before it nor those after it.
  * PIPELINE, structured like the code: Decode (per syntax: unknown keys, Go number types) -> SchemaOk -> Parse (stop at
    the first error) -> NewOp -> ExecOp in terms of API calls -> ExecAll (slice order, errors aggregated) -> RunHook
    (parse error => nothing executed).
  * TLC checks AllOrNothingValidation, InOrderOnce, SyntaxAgnostic and NoCrash on every stream x initial cluster of the
    bounded domain (one state per case) and prints the cases with the final cluster / success / number of failing
    operations / per-step trace demanded by the REFERENCE. MC_asis_unknown.cfg / MC_asis_yamlint.cfg show TLC finding the
    two defects in the as-it-was model; MC_asis_more.cfg shows TLC finding the seeded change C13-m6 (JSON decode loop
    `for dec.More()`: a stray closing bracket ends the stream silently) as a violation of AllOrNothingValidation.

Binding (R): harness/cmd/patch renders every case as a JSON stream and as a YAML stream (a stray bracket: JSON - glued to
the end of the previous document `{...}}` or on a line of its own; YAML - a document of its own `---\n]` or a line after
the previous document) and runs both through the real
ParseOperations + ObjectPatcher.ExecuteOperations on a fresh kube-client/fake cluster pre-loaded with the initial state
("direct"), and a sample through the real ShellOperator.handleRunHook with a real hook process writing the file ("hook":
the decision not to execute after a parse error is then the repository's own).

Oracle (exactly the statement)
  * invalid document in the stream => the execution fails and the cluster is unchanged;
  * otherwise: final cluster, success/failure and the number of aggregated operation errors equal the reference; every
    document that changes an object is seen on the wire with its subresource / its propagation policy, and no API call
    carries a subresource or policy no document asked for;
  * the JSON and the YAML rendering parse to the same operations (every field of the operation structs, payloads
    JSON-normalised) and have the same outcome;
  * a panic inside the repository's code is a failure; a panic inside the test double is not (stack origin).
  The exact sequence of API calls predicted by the PIPELINE is compared too, but only as conformance (DIVERGENCE note).

Excluded, and why
  * The fake dynamic client deep-copies the caller's Go values and panics on Go `int` (a real client serialises). The
    harness puts a JSON "wire" between the patcher and the fake (Create/Update objects are encoded and decoded as
    client-go's dynamic client does), so a `cannot deep copy` panic can only come from the code under test. Integers occur
    only in the dedicated family MC_num.cfg (F22); all other executed documents carry strings and one boolean.
  * The fake applies a subresource request to the whole object; `subresource` is therefore checked on the wire, not
    through a separate status.
  * Foreground delete polls with a 1 s interval in the real code: cases with a successful foreground delete are sampled
    (quick: 8, thorough: 300).
  * Statement silent: scalars of the wrong YAML type in typed fields (`name: 5`, `ignoreMissingObject: yes` are accepted
    by the YAML decoder), a jsonPatch whose second or later item is malformed (the schema constrains the first item
    only) or has no "value" ("remove" is rejected inline but accepted as a string), jq programs failing at run time,
    unknown kinds, `subresource` on create/delete documents (dropped by NewFromOperationSpec), ignoreHookError
    (belongs to C12), case-insensitive key matching of encoding/json.
"""
import concurrent.futures
import json
import os
import random

import vlib
from vlib import Infra

SPEC = "Patch"
WORKERS = min(8, os.cpu_count() or 4)


def _cases(ctx, cfg, consts, timeout, label):
    r = vlib.tlc(ctx, SPEC, "Patch", cfg, workers=6, timeout=timeout, expect_violation=False, consts=consts, heap="4g")
    cases = r["prints"]
    if not cases:
        raise Infra("TLC printed no cases for %s" % cfg)
    # exhaustive mode with several workers prints in arbitrary order: make it deterministic
    cases.sort(key=lambda c: json.dumps(c, sort_keys=True))
    ctx.log("TLC %s (%s): %d distinct states, invariants hold, %d cases printed, %.0fs" % (cfg, label, r["distinct"], len(cases), r["wall_s"]))
    return cases


def _asis(ctx, cfg, inv):
    a = vlib.tlc(ctx, SPEC, "Patch", cfg, workers=2, timeout=300, expect_violation=inv, want_prints=False, heap="2g")
    ctx.log("TLC %s: the %s model violates %s as expected (%d states)"
            % (cfg, "seeded-change" if cfg == "MC_asis_more.cfg" else "as-it-was", inv, a["generated"]))


def _nontrivial(c):
    return (c["valid"] and any(c["changes"])) or (not c["valid"] and len(c["stream"]) >= 2)


def _select(ctx, cases, n_all_len1, n_more, n_fg, rnd):
    """len-1 cases first (every document form on every initial cluster), then a seeded sample of the longer ones;
    cases with a successful foreground delete (1 s each in the real code) are capped."""
    fg = [c for c in cases if c["fgdel"] > 0]
    rest = [c for c in cases if c["fgdel"] == 0]
    one = [c for c in rest if len(c["stream"]) == 1]
    more = [c for c in rest if len(c["stream"]) > 1]
    rnd.shuffle(one)
    rnd.shuffle(more)
    rnd.shuffle(fg)
    fg.sort(key=lambda c: c["fgdel"])       # cheap ones first
    return one[:n_all_len1] + more[:n_more], fg[:n_fg]


def _run(ctx, binary, cases, mode, workers, tag):
    if not cases:
        return []
    inp = ctx.path("%s_in.jsonl" % tag)
    outp = ctx.path("%s_out.jsonl" % tag)
    vlib.write_jsonl(inp, cases)
    args = ["run", "-in", inp, "-out", outp, "-workers", str(workers)]
    if mode == "hook":
        args.append("-hook")
    r = vlib.run_bin(ctx, binary, args, timeout=ctx.pick(300, 1500))
    if r["rc"] != 0:
        raise Infra("patch harness (%s) failed: %s" % (tag, r["stderr"][-3000:]))
    res = vlib.read_jsonl(outp)
    if len(res) != len(cases):
        raise Infra("patch harness (%s) returned %d results for %d cases" % (tag, len(res), len(cases)))
    ctx.log("%s: %d cases (%d runs of the real code) in %.0fs" % (tag, len(cases), sum(x["executed"] for x in res), r["wall_s"]))
    return res


def _judge(ctx, cases, results, stats):
    for c, r in zip(cases, results):
        stats["runs"] += r.get("executed", 0)
        stats["cases"] += 1
        stats["by_mode"][r["mode"]] = stats["by_mode"].get(r["mode"], 0) + 1
        if r.get("numtype_diff"):
            stats["numtype_diff"] += 1
        if r.get("calls_match"):
            stats["calls_match"] += 1
        for n in r.get("notes") or []:
            ctx.notes.append(n[:600])
        key = json.dumps([c["init"], c["stream"]], sort_keys=True)
        if _nontrivial(c):
            stats["distinct"].add(key)
        if not c["valid"]:
            stats["invalid"] += 1
        for d in c["stream"]:
            stats["ops"][d["op"]] = stats["ops"].get(d["op"], 0) + 1
            if d["fault"] != "none":
                stats["faults"][d["fault"]] = stats["faults"].get(d["fault"], 0) + 1
        if r["ok"]:
            continue
        sig = r.get("sig", "")
        if sig.startswith("HARNESS/"):
            raise Infra("patch harness problem on case %s: %s %s" % (json.dumps(c)[:400], sig, (r.get("detail") or "")[:1500]))
        ctx.fail(sig, r.get("detail"), {"case": c, "mode": r["mode"], "json_stream": r.get("json_text"), "yaml_stream": r.get("yaml_text"),
                                        "how": "harness/cmd/patch run -in <file with this case> -out r.jsonl" + (" -hook" if r["mode"] == "hook" else "")})


def check_c13(ctx):
    rnd = random.Random(ctx.seed)
    # the Go build runs while TLC works
    pool = concurrent.futures.ThreadPoolExecutor(max_workers=1)
    build = pool.submit(vlib.go_build, ctx, "patch")

    if getattr(ctx, "replay", None):
        rp = json.load(open(ctx.replay))["replay"]
        binary = build.result()
        res = _run(ctx, binary, [rp["case"]], rp.get("mode", "direct"), 1, "replay")
        stats = _new_stats()
        _judge(ctx, [rp["case"]], res, stats)
        ctx.cov["traces_validated_against_impl"] = 1
        vlib.finish(ctx, rule="replay of one stored case")

    # 1. model checking + case generation (the independent TLC runs side by side)
    main_cfg = ctx.pick("MC_quick.cfg", "MC_thorough.cfg")
    side = concurrent.futures.ThreadPoolExecutor(max_workers=1)

    def _side():
        n = _cases(ctx, "MC_num.cfg", None, 600, "integer-bearing family")
        _asis(ctx, "MC_asis_unknown.cfg", "AllOrNothingValidation")
        _asis(ctx, "MC_asis_yamlint.cfg", "NoCrash")
        _asis(ctx, "MC_asis_more.cfg", "AllOrNothingValidation")
        return n
    side_f = side.submit(_side)
    main = _cases(ctx, main_cfg, {"SampleMod": ctx.pick("8", "2"), "Seed": str(ctx.seed)}, ctx.pick(400, 1800),
                  "len 1 rich / len 2 %s / len 3 order" % ctx.pick("medium", "rich"))
    num = side_f.result()
    # vlib.tlc adds to these counters from two threads: recompute them from the per-run records
    ctx.cov["states"] = sum(r["distinct"] for r in ctx.cov["tlc_runs"] if r["mode"] == "mc")
    ctx.cov["transitions"] = sum(r["generated"] for r in ctx.cov["tlc_runs"] if r["mode"] == "mc")
    for i, c in enumerate(main):
        c["id"] = i + 1
    for i, c in enumerate(num):
        c["id"] = 1000000 + i + 1

    # 2. selection
    d_main, d_fg = _select(ctx, main, 10 ** 9, ctx.pick(2400, 10 ** 9), ctx.pick(8, 300), rnd)
    d_num, _ = _select(ctx, num, 10 ** 9, ctx.pick(450, 10 ** 9), 0, rnd)
    inval = [c for c in d_main if not c["valid"]]
    val = [c for c in d_main if c["valid"] and any(c["changes"])]
    n_hook = ctx.pick(180, 3000)
    h_cases = inval[:n_hook] + val[:n_hook] + [c for c in d_num if len(c["stream"]) == 2][:ctx.pick(40, 600)]

    # 3. the real code
    binary = build.result()
    stats = _new_stats()
    batches = [(d_main + d_num, "direct", WORKERS, "direct"), (d_fg, "direct", 32, "foreground-delete"), (h_cases, "hook", WORKERS, "hook")]
    for cases, mode, workers, tag in batches:
        res = _run(ctx, binary, cases, mode, workers, tag)
        _judge(ctx, cases, res, stats)

    ctx.cov["traces_validated_against_impl"] = stats["cases"]
    ctx.cov["evaluations"] = stats["runs"]
    ctx.cov["distinct_nontrivial"] = len(stats["distinct"])
    ctx.cov["cases_by_mode"] = stats["by_mode"]
    ctx.cov["cases_with_invalid_document"] = stats["invalid"]
    ctx.cov["documents_by_operation"] = stats["ops"]
    ctx.cov["documents_by_fault"] = stats["faults"]
    ctx.cov["cases_api_calls_equal_to_pipeline_model"] = stats["calls_match"]
    ctx.cov["cases_json_yaml_equal_only_after_number_normalisation"] = stats["numtype_diff"]
    ctx.cov["cases_printed_by_tlc"] = len(main) + len(num)
    for c in (d_main[:1] + val[:1] + inval[:1] + d_num[-1:] + d_fg[:1]):
        ctx.sample({"init": c["init"], "stream": [{k: v for k, v in d.items() if v not in ("", False, "none", "-")} for d in c["stream"]],
                    "expected_final": c["final"], "expected_ok": c["ok"], "failing_operations": c["nerr"]})
    ctx.assumptions += [
        "objects are apps/v1 Deployments in namespace default; v, w = metadata.labels.v / .w, n = spec.replicas present",
        "a JSON wire (encode + decode, as client-go's dynamic client does) sits between the ObjectPatcher and the fake cluster, so the fake's own deep copy of caller values is not exercised",
        "the fake applies subresource requests to the whole object; subresource and propagationPolicy are observed on the API calls",
        "the specification models the code after tools/proposed_fixes/C13-*.diff (MC_asis_*.cfg are the as-it-was variants)",
    ]
    vlib.finish(ctx, rule="cases = states of spec/Patch printed by TLC (all of length 1; a seed-selected 1/%s of the longer ones), executed twice each "
                          "(JSON and YAML rendering) on the real code; distinct_nontrivial = distinct (initial cluster, stream) executed where a valid stream "
                          "changes the cluster or an invalid stream has >= 2 documents; evaluations = runs of ParseOperations/ExecuteOperations or handleRunHook"
                          % ctx.pick("8", "2"))


def _new_stats():
    return {"runs": 0, "cases": 0, "by_mode": {}, "numtype_diff": 0, "calls_match": 0, "distinct": set(), "invalid": 0, "ops": {}, "faults": {}}


CHECKS = {"C13": check_c13}

MANIFEST = {
    "C13": dict(
        text="TLC exhaustively checks spec/Patch - reference semantics of the kubernetes patch file from the documentation next to a model of the "
             "decode/validate/construct/execute pipeline - for AllOrNothingValidation, InOrderOnce, SyntaxAgnostic and NoCrash over streams of <= 3 "
             "documents (9 operations, payload forms, subresource, ignoreMissingObject, 8 document fault classes, stray closing brackets between "
             "the documents) x initial clusters over 2 objects; the cases "
             "printed by TLC are rendered as JSON and as YAML streams and run through the real ParseOperations + ObjectPatcher.ExecuteOperations on a "
             "fake cluster (final cluster, success, error count, subresource and propagation policy on the wire, parsed operations JSON vs YAML), a "
             "sample through the real handleRunHook with a hook process writing $KUBERNETES_PATCH_PATH.",
        note="Trusts TLC, kube-client/fake (with a JSON wire in front of it so that its deep copy of caller values is not exercised) and the rendering "
             "of abstract documents in harness/cmd/patch/render.go. Bounds: 2 object names, streams <= 3 documents (length 3 with the reduced 'order' "
             "document set), integers only in the dedicated family MC_num.cfg, successful foreground deletes sampled (1 s each). The spec models the "
             "code after tools/proposed_fixes/C13-yaml-number-types.diff and C13-unknown-field-accepted.diff.",
        technique="TLA+ spec + TLC exhaustive check (one state per case); TLC-computed cases replayed on the real parser/patcher and through handleRunHook",
        design="5/C13"),
}
