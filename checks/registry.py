"""Property id -> check function. Every module checks/*.py may define CHECKS = {pid: fn} and
MANIFEST = {pid: dict(text=..., note=..., technique=..., design=..., category=...)}."""
import glob
import importlib
import os

CHECKS = {}
MANIFEST = {}
for _f in sorted(glob.glob(os.path.join(os.path.dirname(os.path.abspath(__file__)), "*.py"))):
    _n = os.path.basename(_f)[:-3]
    if _n in ("registry",) or _n.startswith("_"):
        continue
    _m = importlib.import_module(_n)
    CHECKS.update(getattr(_m, "CHECKS", {}))
    MANIFEST.update(getattr(_m, "MANIFEST", {}))

# checks whose replay files carry a re-runnable case (vlib.do_replay); the others implement --replay themselves
GENERIC_REPLAY = {"C01", "C02", "C03", "C04", "C05", "C06", "C07", "C08", "C17"}
