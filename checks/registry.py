"""Property id -> check function."""
import tq

CHECKS = {
    "C05": tq.check_c05,
    "C17": tq.check_c17,
}
