"""C09 (binding context JSON follows the documented contract, incl. filterResult): spec/BindingContext bound to the
real binding-context pipeline.

What is modelled (spec/BindingContext/BindingContext.tla, written from docs/src/HOOKS.md "Binding context",
"Snapshots", "Binding context of grouped bindings", BINDING_VALIDATING.md, BINDING_CONVERSION.md -- not from MapV1):
one hook with a kubernetes binding "main", optionally a second kubernetes binding "aux" and optionally one more
binding (schedule / kubernetesValidating / kubernetesMutating / kubernetesCustomResourceConversion / onStartup);
options name given or default, jqFilter, keepFullObjectsInMemory, group, includeSnapshotsFrom, configVersion v0/v1.
The state machine is the life of the hook (objects existing before, Synchronization, cluster changes, crontab ticks,
admission / conversion requests - the last two also BEFORE the kubernetes bindings are enabled: BootTick / BootRequest,
a context that carries `snapshots` rendered while the named kubernetes bindings have no monitor, e.g. a webhook request
answered while the hook's EnableKubernetesBindings task is still queued or keeps failing); every state with a non-empty list of queued contexts is one case, and the
reference function Render gives the file the hook must read in that state: the set of keys of every array item and
the abstract values (binding, type, watchEvent, groupName, which object in which state an `object` shows, that
`filterResult` is the projection of that very object, which objects `objects` and every snapshot list at the moment
of the run; for a binding that is not enabled: the key is present and the list is EMPTY, never null).  TLC checks DocumentedKeysOnly, RequiredKeysPresent, TypePerKind, SnapshotsIff, SnapshotKeys,
ObjectOmittedIff, FilterResultIff, FilterResultIsJqOfObject, SnapshotsAreCurrent, SnapshotsBeforeEnable,
EventObjectIsEventTime, NoCrash on
every state and prints every case with the expected file (never recomputed here or in Go).

Binding (R): `bctx run` executes every case on the real code: generated hook config -> LoadAndValidate ->
HookController with the real kube events manager and real client-go informers on a kube-client/fake cluster ->
objects created/updated/deleted in the cluster -> the informer's KubeEvent -> HandleKubeEvent /
HandleEnableKubernetesBindings / HandleScheduleEvent / HandleAdmissionEvent / HandleConversionEvent -> tasks in a real
queue -> CombineBindingContextForHook -> UpdateSnapshots -> ConvertBindingContextList(version).Json(); for a sample
(quick) / a larger sample (thorough) the last steps are Hook.Run with a recording hook process and the JSON is what
that process read from $BINDING_CONTEXT_PATH.  The abstract option "jqFilter is set" is instantiated with the filters
of CATALOGUE (object-, array-, string-, number-, boolean-, null-valued results, nested paths, constructed objects and
arrays); filterResult is compared with an independent gojq evaluation of the filter on the delivered `object` (on the
object the harness created when the full object is omitted).

What the oracle demands: exactly the keys Render gives (documented keys only, required keys present, `snapshots`
iff group/includeSnapshotsFrom give a non-empty list, `object` iff keepFullObjectsInMemory, `filterResult` iff
jqFilter), the values above, `objects` / snapshot lists as multisets (the order is C02's business). `objects` and every
value of `snapshots` must be a JSON array: `null` (a nil Go slice) is a failure, signature .../not-an-array.

Excluded and why:
  * the number of array items (combining / group compaction is C07): a different length is a DIVERGENCE note;
  * cases in which the informer emitted no event for a cluster change (event suppression is C08): counted as
    "unsteerable"; on the unchanged tree this happens only for Modified events of bindings whose filter result is not
    a JSON object (finding F12 makes every such result `{}` and the change invisible);
  * jq filters with several outputs or none (the documentation does not say what filterResult is then);
  * Synchronization for configVersion v0 ("No first Synchronization, only Event"), webhooks in v0;
  * `groupName` is demanded for Group contexts: the statement says "(and the group name)", the shipped shell
    framework reads `.groupName`; HOOKS.md itself does not list it;
  * kubernetesMutating has no BINDING_MUTATING.md in the repository; type "Mutating" + `review` as the statement,
    the example 206 and frameworks/shell say;
  * the v0 shape is not documented in this tree any more; the reference is the v1.0.0-beta documentation
    (binding, resourceEvent add|update|delete, resourceNamespace, resourceKind, resourceName).
"""
import collections
import json
import os
import threading

import vlib
from vlib import Infra

SPEC = "BindingContext"

# (jq expression, what its result is) -- single-output filters whose result differs between the two states an object
# of the harness can be in (so that a Modified event is a meaningful change for every filter)
CATALOGUE = [
    (".spec", "object"),
    ("{rev: .spec.rev, name: .metadata.name}", "constructed object"),
    (".metadata.labels", "object"),
    (".spec.nested.deep", "object, nested path"),
    ("[.spec.rev, .metadata.name]", "constructed array"),
    (".spec.list", "array"),
    (".spec.rev", "string"),
    (".spec.nested.deep.leaf", "string, nested path"),
    (".spec.num", "number"),
    (".spec.list | length", "number, computed"),
    (".spec.flag", "boolean"),
    (".spec.num > 1", "boolean, computed"),
    (".spec.maybe", "null in one state, string in the other"),
]
OBJECT_VALUED = {f for f, k in CATALOGUE if "object" in k}

INVS = ("DocumentedKeysOnly RequiredKeysPresent TypePerKind SnapshotsIff SnapshotKeys ObjectOmittedIff FilterResultIff "
        "FilterResultIsJqOfObject SnapshotsAreCurrent SnapshotsBeforeEnable EventObjectIsEventTime NoCrash")


def case_key(c):
    return json.dumps([c["cfg"], c["init"], c["steps"]], sort_keys=True)


def generate(ctx):
    """TLC: check the invariants on every state of the tier's domain and collect the printed cases."""
    module = ctx.pick("MC_quick", "MC_thorough")
    r = vlib.tlc(ctx, SPEC, module, module + ".cfg", timeout=ctx.pick(240, 1500), expect_violation=False,
                 workers=ctx.pick(4, 8), consts={"Seed": str(ctx.seed % 4)}, heap=ctx.pick(None, "6g"))
    ctx.log("TLC %s: %d distinct states, %d cases printed, %.0fs" % (module, r["distinct"], len(r["prints"]), r["wall_s"]))
    seen = {}
    for c in r["prints"]:
        seen.setdefault(case_key(c), c)
    cases = [seen[k] for k in sorted(seen)]
    if not cases:
        raise Infra("TLC printed no cases")
    return cases


def asis_models(ctx):
    """The model of the code as it was at the pinned commit must violate the property (the model can see the defects)."""
    for cfg, inv in (("MC_asis_f13.cfg", "FilterResultIsJqOfObject"), ("MC_asis_f12.cfg", "FilterResultIsJqOfObject"),
                     ("MC_asis_v0.cfg", "NoCrash")):
        a = vlib.tlc(ctx, SPEC, "MC_asis", cfg, timeout=240, expect_violation=inv, workers=2, want_prints=False)
        ctx.log("TLC %s: as-it-was model violates %s as expected (%d states)" % (cfg, inv, a["generated"]))


def has_mod(c, role):
    return any(st[0] == "Mod" and st[1].startswith("a" if role == "main" else "b") for st in c["steps"])


def instantiate(ctx, cases):
    """Choose concrete jq filters for the abstract option "jqFilter is set" and the cases that go through a real hook
    process: every case gets two filter pairs, rotating through the catalogue (offset by the seed), so every filter
    meets every context shape many times.  Where the case modifies an
    object of a binding, three of four instances use an object-valued filter for that binding: with finding F12 open
    the informer does not see a change of a result that is not an object, and the case could not be steered."""
    out = []
    n = len(CATALOGUE)
    objs = [f for f, _ in CATALOGUE if f in OBJECT_VALUED]
    reps = 2
    file_every = ctx.pick(23, 11)
    for i, c in enumerate(cases):
        for rep in range(reps):
            j = i * reps + rep
            k = (j + ctx.seed * 5) % n
            d = dict(c)
            d["id"] = len(out)
            d["filterMain"] = CATALOGUE[k][0]
            d["filterAux"] = CATALOGUE[(k + 1 + (i // n) % (n - 1)) % n][0]
            if j % 4 != 3:
                if has_mod(c, "main"):
                    d["filterMain"] = objs[(j + ctx.seed) % len(objs)]
                if has_mod(c, "aux"):
                    d["filterAux"] = objs[(j // 2 + ctx.seed) % len(objs)]
            d["file"] = (len(out) + ctx.seed) % file_every == 0
            out.append(d)
    return out


def run_cases(ctx, binary, cases, shards=None):
    shards = shards or ctx.pick(4, 8)
    parts = [cases[i::shards] for i in range(shards)]
    results = [None] * shards
    errors = []

    def work(k):
        try:
            inp = ctx.path("shard%d" % k, "in.jsonl")
            outp = ctx.path("shard%d" % k, "out.jsonl")
            vlib.write_jsonl(inp, parts[k])
            r = vlib.run_bin(ctx, binary, ["run", "-in", inp, "-out", outp, "-work", os.path.dirname(inp)],
                             timeout=ctx.pick(600, 3000))
            if r["rc"] != 0:
                raise Infra("bctx run failed: " + r["stderr"][-2000:])
            results[k] = vlib.read_jsonl(outp)
        except Exception as e:  # noqa: BLE001
            errors.append(e)

    ts = [threading.Thread(target=work, args=(k,)) for k in range(shards) if parts[k]]
    for t in ts:
        t.start()
    for t in ts:
        t.join()
    if errors:
        e = errors[0]
        raise e if isinstance(e, Infra) else Infra("bctx run: %r" % (e,))
    by_id = {}
    for k in range(shards):
        if not parts[k]:
            continue
        if len(results[k]) != len(parts[k]):
            raise Infra("bctx run returned %d results for %d cases" % (len(results[k]), len(parts[k])))
        for c, r in zip(parts[k], results[k]):
            by_id[c["id"]] = r
    return [by_id[c["id"]] for c in cases]


def shape(c):
    """The non-trivial content of a case: context types with their key sets, per binding options."""
    return json.dumps([[e["type"], sorted(e["keys"])] for e in c["expect"]] + [c["cfg"]["ver"]])


def uses_non_object_filter(c):
    fs = []
    if c["cfg"]["main"]["jq"] != "none":
        fs.append(c["filterMain"])
    if c["cfg"]["aux"].get("on") and c["cfg"]["aux"]["jq"] != "none":
        fs.append(c["filterAux"])
    return any(f not in OBJECT_VALUED for f in fs)


def replay_one(ctx, binary):
    rp = json.load(open(ctx.replay))
    c = rp.get("replay", {}).get("case")
    if not c:
        raise Infra("replay file has no case")
    res = run_cases(ctx, binary, [c])[0]
    if res.get("sig", "").startswith("INFRA/"):
        raise Infra("the stored case could not be executed: %s" % res.get("detail"))
    if not res["ok"]:
        for s, d in [(res["sig"], res["detail"])] + [(m["sig"], m["detail"]) for m in res.get("more", [])]:
            ctx.fail(s, d, {"case": c, "rendered": res.get("rendered")})
    ctx.cov["traces_validated_against_impl"] = 1
    ctx.cov["evaluations"] = 1
    ctx.cov["distinct_nontrivial"] = 1
    ctx.sample({"replayed": c["steps"], "result": res})
    vlib.finish(ctx, rule="replay of one stored case")


def check_c09(ctx):
    if getattr(ctx, "replay", None):
        return replay_one(ctx, vlib.go_build(ctx, "bctx"))
    # the Go build, the enumeration and the three small as-it-was models are independent: run them side by side
    box = {}

    def job(name, fn):
        try:
            box[name] = fn()
        except Exception as e:  # noqa: BLE001
            box[name] = e

    jobs = [threading.Thread(target=job, args=("bin", lambda: vlib.go_build(ctx, "bctx"))),
            threading.Thread(target=job, args=("cases", lambda: generate(ctx))),
            threading.Thread(target=job, args=("asis", lambda: asis_models(ctx)))]
    for t in jobs:
        t.start()
    for t in jobs:
        t.join()
    for k in ("bin", "cases", "asis"):
        if isinstance(box.get(k), Exception):
            raise box[k]
    binary, abstract = box["bin"], box["cases"]
    cases = instantiate(ctx, abstract)
    results = run_cases(ctx, binary, cases)
    # a case the harness could not execute (child killed from outside, a stalled machine) gets one more chance, alone
    again = [i for i, r in enumerate(results) if r.get("sig", "").startswith("INFRA/")]
    if again and len(again) <= max(20, len(cases) // 50):
        ctx.log("re-running %d case(s) the harness could not execute: %s" % (len(again), sorted({results[i]["sig"] for i in again})))
        for i, r in zip(again, run_cases(ctx, binary, [cases[i] for i in again], shards=1)):
            results[i] = r

    unsteer, unsteer_obj, diverge, infra = 0, [], 0, []
    items = filters = via_file = executed = 0
    types = collections.Counter()
    shapes = set()
    filt_used = collections.Counter()
    for c, r in zip(cases, results):
        sig = r.get("sig", "")
        if sig.startswith("INFRA/"):
            infra.append("%s: %s" % (sig, r.get("detail", "")[:300]))
            continue
        if r.get("skipped"):
            unsteer += 1
            if not uses_non_object_filter(c):
                unsteer_obj.append("%s steps=%s filters=%s/%s" % (r["skipped"], c["steps"], c["filterMain"], c["filterAux"]))
            continue
        if r.get("diverge"):
            diverge += 1
            ctx.notes.append("DIVERGENCE C09 array length (C07 territory): %s; steps=%s" % (r["diverge"], json.dumps(c["steps"])))
            continue
        executed += 1
        items += r.get("items", 0)
        filters += r.get("filters", 0)
        via_file += 1 if r.get("via_file") else 0
        shapes.add(shape(c))
        for e in c["expect"]:
            types[("onStartup" if e["type"] == "-" else e["type"]) if c["cfg"]["ver"] == "v1" else "v0"] += 1
        if c["cfg"]["main"]["jq"] != "none":
            filt_used[c["filterMain"]] += 1
        if not r["ok"]:
            for s, d in [(sig, r["detail"])] + [(m["sig"], m["detail"]) for m in r.get("more", [])]:
                ctx.fail(s, d, {"case": c, "rendered": r.get("rendered")})
    if infra:
        if len(infra) > max(3, len(cases) // 100):
            raise Infra("%d cases could not be executed: %s" % (len(infra), infra[:3]))
        for x in infra[:5]:
            ctx.notes.append("DIVERGENCE C09 case not executed: " + x)
    for x in unsteer_obj[:5]:
        ctx.notes.append("DIVERGENCE C09 case not steerable although every filter result is an object (C08 territory): " + x)
    if executed < len(cases) // 2:
        raise Infra("only %d of %d cases could be executed" % (executed, len(cases)))

    ctx.log("executed %d of %d cases on the real pipeline (%d through a hook process), %d contexts %s, %d object/filterResult "
            "pairs, %d filterResult values checked against gojq; %d unsteerable (event suppressed), %d array-length divergences"
            % (executed, len(cases), via_file, sum(types.values()), dict(types), items, filters, unsteer, diverge))
    ctx.cov["traces_validated_against_impl"] = executed
    ctx.cov["evaluations"] = executed
    ctx.cov["distinct_nontrivial"] = len(shapes)
    ctx.cov["cases_generated"] = len(cases)
    ctx.cov["abstract_cases"] = len(abstract)
    ctx.cov["cases_via_hook_process"] = via_file
    ctx.cov["contexts_by_type"] = dict(types)
    ctx.cov["items_compared"] = items
    ctx.cov["filter_results_compared_with_gojq"] = filters
    ctx.cov["filters_used_on_main"] = dict(filt_used)
    ctx.cov["unsteerable_event_suppressed"] = unsteer
    ctx.cov["array_length_divergences"] = diverge
    before = sum(1 for c, r in zip(cases, results) if not c.get("enabled", True) and r.get("ok") is not None
                 and any("snapshots" in e["keys"] for e in c["expect"]))
    ctx.cov["cases_with_snapshots_rendered_before_kubernetes_bindings_are_enabled"] = before
    if not before:
        raise Infra("no case renders `snapshots` while the kubernetes bindings are not enabled")
    for c, r in list(zip(cases, results))[:: max(1, len(cases) // 5)][:5]:
        ctx.sample({"cfg": c["cfg"], "init": c["init"], "steps": c["steps"], "filterMain": c["filterMain"],
                    "expect": [{"type": e["type"], "keys": e["keys"]} for e in c["expect"]],
                    "ok": r.get("ok"), "sig": r.get("sig"), "skipped": r.get("skipped")})
    ctx.assumptions += [
        "filterResult ground truth = github.com/itchyny/gojq evaluated by the harness on the JSON of the delivered object",
        "objects / snapshot lists are compared as multisets; the number of array items is left to C07",
        "the fake API server cannot resume a watch: the harness changes the cluster only after the informers watch",
    ]
    vlib.finish(ctx, rule="cases = states with queued contexts of spec/BindingContext (exhaustive over the tier's slices), each "
                          "instantiated with jq filters of the catalogue; distinct_nontrivial = distinct (context types, key "
                          "sets, version) shapes executed; every case compares every key and value of the file with TLC's Render")


CHECKS = {"C09": check_c09}

MANIFEST = {
    "C09": dict(
        text="TLC enumerates spec/BindingContext (reference rendering of the binding context file transcribed from HOOKS.md / "
             "BINDING_*.md: binding kind x group x includeSnapshotsFrom x jqFilter x keepFullObjectsInMemory x v0/v1 x context type x "
             "0-2 objects x arrays of 1-3 contexts, with cluster changes between event and run, schedule / admission / conversion "
             "contexts with snapshots also before the kubernetes bindings are enabled: every key present, empty arrays) and checks DocumentedKeysOnly, "
             "RequiredKeysPresent, SnapshotsIff, ObjectOmittedIff, FilterResultIsJqOfObject and companions on every state; every state "
             "with queued contexts is replayed through the real pipeline (LoadAndValidate, HookController, real informers on a fake "
             "cluster, CombineBindingContextForHook, UpdateSnapshots, ConvertBindingContextList.Json, for a sample Hook.Run with a "
             "recording hook process) and the JSON is compared key by key and value by value with TLC's expectation; filterResult is "
             "compared with an independent gojq evaluation for a catalogue of 13 filters (object, array, string, number, boolean, null).",
        note="Trusts TLC, gojq as jq ground truth, and the kube-client fake cluster (watch cannot resume: the harness waits for the "
             "watch). Bounds: one hook, <= 2 kubernetes bindings + 1 other binding, 2+1 objects with two states each, <= 3 queued contexts. "
             "Array length (compaction) is C07's, event suppression C08's, list order C02's. groupName is demanded for Group contexts; "
             "v0 shape from the v1.0.0-beta documentation.",
        technique="TLA+ reference function + TLC exhaustive enumeration of the bounded domain; case replay through the real pipeline "
                  "with an independent jq oracle",
        design="5/C09"),
}
