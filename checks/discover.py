"""C20 (hook discovery and the --config round at start): spec/HookDiscovery bound to pkg/utils/file/file.go,
pkg/hook/hook_manager.go (Init, loadHook) and pkg/hook/hook.go (LoadConfig).

What is modelled
  spec/HookDiscovery/HookDiscovery.tla is the reference function written from the property statement. File names
  are sequences of characters, so "starts with a dot", "ends in .yaml|.json|.md|.txt" and the lexical order are
  predicates on characters. A tree is a set of entries [path, kind dir|file, execute-bit set]; names come from
  {a, b, a.sh, a-b, .h, x.yaml, x.json, x.md, x.txt, lib, X.YAML, x.yaml.sh} for files and {a, .g, lib, libs} for
  sub-directories (the same basenames repeat in different directories; `lib` is also a FILE name; `a.sh`/`a-b`
  next to a directory `a` separate byte-wise order of the paths from component-wise order). The hooks directory
  itself is called hooks, lib or .hooks: the statement excludes only SUB-directories, so its own name must not
  matter. TLC enumerates every tree within the bounds on line 1 of each MC_*.cfg, every name of the hooks
  directory and every choice of at most one bad hook, checks the reference's own invariants (TypeOK, HooksExact,
  OrderSorted, NamesUnique, ConfigRound, RootNameIrrelevant, AddIsLocal) on every case and prints one JSON record
  per case with the expected result. MC_asis.cfg (the walk also tests the hooks directory's own name) must
  violate RootNameIrrelevant: the model can see defect F21.

Binding (R)
  harness/cmd/discover materialises each case below the scratch directory (every file, hook or not, is an sh
  script that appends "<relative path>|<arguments>" to a log outside the tree and prints
  {"configVersion":"v1","onStartup":1}; three of four of these scripts -- chosen by a hash of the path and the tree
  size, so that a replay reproduces it -- also write a warning line to stderr before and/or after the configuration:
  what a hook says on stderr is not its configuration, the expectation "it loads" is the same; the bad hook exits
  non-zero -- with or without having printed a valid config -- or prints an invalid configuration), runs the REAL hook.Manager.Init (constructed like
  pkg/hook/hook_manager_test.go does) and compares with what TLC computed. Quick: a seeded, stratified sample of
  the quick configurations; thorough: every case of the thorough configurations.

Oracle (exactly the statement)
  * no bad hook: Init succeeds and GetHookNames() equals the expected names in the expected order;
  * --config round: every file in `once` was started exactly once, every file in `atmost` (hooks that load after
    the bad one: the statement does not say whether initialization goes on after the first bad hook) at most once,
    every other file never; every start had exactly the argument --config;
  * a bad hook: Init returns an error whose text names that hook (its relative path appears as a delimited
    token: `a` is not named by `.../a.sh'` or `.../a/b'`).
  The order of the invocation log is not compared (the statement orders loading; GetHookNames() and the
  once/atmost split observe it), nor is GetHookNames() after a failed Init.

Excluded from the generated domain, because the statement is silent
  symbolic links, unreadable directories, special files, two bad hooks at once (which one is named is open),
  empty --config output, hooks directories given as relative paths. "Lexical order of their paths" is read as
  byte-wise order of the relative path string ('/' is an ordinary character, as sort(1) under LC_ALL=C and Go's
  string comparison order them). When the harness does not run as root, files whose only execute bits are g/o
  additionally get the owner bit (the owner could not execute them otherwise).
"""
import collections
import json
import os
import random
import re
import threading
from concurrent.futures import ThreadPoolExecutor

import vlib
from vlib import Infra

SPEC = "HookDiscovery"
MODULE = "HookDiscovery"

QUICK_CFGS = ["MC_quick_wide.cfg", "MC_quick_deep.cfg", "MC_quick_mode.cfg"]
THOROUGH_CFGS = ["MC_thorough_wide.cfg", "MC_thorough_deep.cfg", "MC_thorough_roots.cfg", "MC_thorough_mode.cfg"]
QUICK_SAMPLE = 3000


class _Sub:
    """Private view of the context for one worker thread (vlib updates ctx.cov without a lock)."""

    def __init__(self, ctx):
        self.pid, self.tier, self.seed, self.scratch, self.t0 = ctx.pid, ctx.tier, ctx.seed, ctx.scratch, ctx.t0
        self.cov = {"states": 0, "transitions": 0, "tlc_runs": [], "harness_runs": []}
        self._ctx = ctx

    def path(self, *p):
        return self._ctx.path(*p)

    def log(self, *a):
        self._ctx.log(*a)


def _merge(ctx, subs):
    for s in subs:
        ctx.cov["states"] += s.cov["states"]
        ctx.cov["transitions"] += s.cov["transitions"]
        ctx.cov["tlc_runs"] += s.cov["tlc_runs"]
        ctx.cov["harness_runs"] += s.cov["harness_runs"]


def _canon(c):
    return json.dumps({k: c[k] for k in ("root", "entries", "bad", "kind")}, sort_keys=True)


def _features(c):
    """Descriptive classes of a case, for coverage reporting and stratified sampling only (never for verdicts)."""
    f = set()
    hooks = set(c["once"]) | set(c["atmost"])
    f.add("root:" + c["root"])
    f.add("hooks:%d" % min(len(hooks), 3))
    f.add("bad:" + (c["kind"] or "none"))
    for e in c["entries"]:
        comps = e["path"].split("/")
        base = comps[-1]
        if e["kind"] == "dir":
            if base == "lib":
                f.add("dir-lib")
            elif base.startswith("."):
                f.add("dir-hidden")
            continue
        if not e["x"]:
            f.add("file-without-x-bit")
            continue
        if e["x"] not in ("ugo",):
            f.add("file-x-bit-" + e["x"])
        if e["path"] in hooks:
            if len(comps) > 1:
                f.add("hook-in-subdir")
            if base in ("lib", "X.YAML", "x.yaml.sh"):
                f.add("hook-named-" + base)
            if "libs" in comps[:-1]:
                f.add("hook-below-libs")
        else:
            if base.startswith("."):
                f.add("executable-hidden-file")
            elif base.rsplit(".", 1)[-1] in ("yaml", "json", "md", "txt") and "." in base:
                f.add("executable-" + base.rsplit(".", 1)[-1])
    f |= _shape(c)
    names = c["once"] + c["atmost"]
    bases = [n.split("/")[-1] for n in names]
    if len(set(bases)) < len(bases):
        f.add("same-basename-in-different-dirs")
    # byte-wise order differs from component-wise order
    if names != sorted(names, key=lambda n: n.split("/")):
        f.add("string-order-differs-from-component-order")
    if c["bad"] and c["atmost"]:
        f.add("hooks-behind-the-bad-one")
    if c["bad"] and len(c["once"]) > 1:
        f.add("hooks-before-the-bad-one")
    return f


def _nontrivial(c):
    """A case is non-trivial when the tree has a hook AND (an executable file that is not a hook, or a bad hook
    with at least one other hook, or at least two hooks whose order is observable)."""
    hooks = set(c["once"]) | set(c["atmost"])
    if not hooks:
        return False
    exe_nonhook = any(e["kind"] == "file" and e["x"] and e["path"] not in hooks for e in c["entries"])
    return exe_nonhook or len(hooks) >= 2


def gen_cases(ctx, cfgs, binary_future=None):
    """Run TLC on every configuration (in parallel), return the de-duplicated list of cases."""
    subs = [_Sub(ctx) for _ in cfgs]
    per = max(2, min(6, (os.cpu_count() or 4) // max(1, len(cfgs))))

    def one(i):
        # quick configurations export one residue class of trees (EmitMod in the cfg); the seed picks the class
        text = open(os.path.join(vlib.SPEC, SPEC, cfgs[i])).read()
        mod = int(re.search(r"(?m)^\s*EmitMod\s*=\s*(\d+)", text).group(1))
        return vlib.tlc(subs[i], SPEC, MODULE, cfgs[i], workers=per, timeout=ctx.pick(400, 1500), expect_violation=False,
                        heap=ctx.pick("2g", "6g"), consts={"EmitRem": str(ctx.seed % mod)})

    with ThreadPoolExecutor(max_workers=len(cfgs)) as ex:
        rs = list(ex.map(one, range(len(cfgs))))
    _merge(ctx, subs)
    seen = {}
    for cfg, r in zip(cfgs, rs):
        ctx.log("TLC %s: %d generated / %d distinct states, %d cases, invariants hold, %.0fs" %
                (cfg, r["generated"], r["distinct"], len(r["prints"]), r["wall_s"]))
        if r["rc"] != 0 or "Model checking completed. No error has been found." not in r["out"] or not r["generated"]:
            # e.g. the JVM was killed from outside: the case list would be silently incomplete
            raise Infra("TLC did not complete on %s (rc=%s): %s" % (cfg, r["rc"], "\n".join(r["out"].splitlines()[-5:])[-600:]))
        if not r["prints"]:
            raise Infra("TLC printed no cases for %s" % cfg)
        for c in r["prints"]:
            k = _canon(c)
            if k not in seen:
                c["dom"] = cfg[3:-4]
                seen[k] = c
    cases = [seen[k] for k in sorted(seen)]
    return cases


def _shape(c):
    """Where executable files sit relative to lib/hidden sub-directories (sampling strata and coverage only)."""
    out = set()
    for e in c["entries"]:
        if e["kind"] != "file" or not e["x"]:
            continue
        dirs = e["path"].split("/")[:-1]
        for i, d in enumerate(dirs):
            if d == "lib" or d.startswith("."):
                what = "lib" if d == "lib" else "hidden-dir"
                out.add("executable-below-%s%s" % ("nested-" if i > 0 else "", what))
                if i + 1 < len(dirs):
                    out.add("executable-deeper-below-" + what)
    return out


def sample(ctx, cases, n):
    """Seeded stratified sample: round-robin over (domain, name of the hooks directory, bad kind, #hooks, whether the
    load order separates byte-wise from component-wise order, position of executable files relative to lib/hidden
    sub-directories), so that rare shapes are not left to chance."""
    rnd = random.Random(ctx.seed)
    strata = collections.OrderedDict()
    for c in cases:
        nh = len(c["once"]) + len(c["atmost"])
        names = c["once"] + c["atmost"]
        order = names != sorted(names, key=lambda x: x.split("/"))   # byte-wise order differs from component-wise order
        strata.setdefault((c["dom"], c["root"], c["kind"], min(nh, 3), order, ",".join(sorted(_shape(c)))), []).append(c)
    for v in strata.values():
        rnd.shuffle(v)
    keys = list(strata)
    rnd.shuffle(keys)
    out = []
    while len(out) < n and keys:
        for k in list(keys):
            if strata[k]:
                out.append(strata[k].pop())
                if len(out) >= n:
                    break
            else:
                keys.remove(k)
    return out


def run_cases(ctx, binary, cases):
    """Run the cases on the real code in parallel shards; returns the result records in case-id order."""
    # cases that share the tree and the name of the hooks directory stay together and in sequence: the harness
    # then materialises the tree once and only swaps the bad hook's script
    cases.sort(key=lambda c: (c["root"], json.dumps(c["entries"], sort_keys=True), c["bad"], c["kind"]))
    nshards = max(1, min(ctx.pick(8, 12), os.cpu_count() or 4, (len(cases) + 49) // 50))
    shards = [[] for _ in range(nshards)]
    gi, prev = -1, None
    for i, c in enumerate(cases):
        c["id"] = i
        k = (c["root"], json.dumps(c["entries"], sort_keys=True))
        if k != prev:
            gi, prev = gi + 1, k
        shards[gi % nshards].append(c)
    shards = [s for s in shards if s]
    nshards = len(shards)
    subs = [_Sub(ctx) for _ in shards]

    def one(i):
        inp = ctx.path("shard%d" % i, "cases.jsonl")
        outp = ctx.path("shard%d" % i, "results.jsonl")
        vlib.write_jsonl(inp, shards[i])
        r = vlib.run_bin(subs[i], binary, ["run", "-in", inp, "-out", outp, "-scratch", os.path.dirname(ctx.path("shard%d" % i, "trees", "x"))],
                         timeout=ctx.pick(600, 3000))
        if r["rc"] != 0:
            raise Infra("discover run failed (shard %d): %s" % (i, r["stderr"][-2000:]))
        res = vlib.read_jsonl(outp)
        if len(res) != len(shards[i]):
            raise Infra("discover returned %d results for %d cases (shard %d)" % (len(res), len(shards[i]), i))
        return res

    with ThreadPoolExecutor(max_workers=nshards) as ex:
        parts = list(ex.map(one, range(nshards)))
    _merge(ctx, subs)
    by_id = {}
    for part in parts:
        for r in part:
            by_id[r["case"]] = r
    if len(by_id) != len(cases):
        raise Infra("results cover %d of %d cases" % (len(by_id), len(cases)))
    return [by_id[i] for i in range(len(cases))]


def _path_class(c, path):
    """Label for failure signatures: which clause of the statement decides about this file (labelling only)."""
    comps = path.split("/")
    base = comps[-1]
    ent = {e["path"]: e for e in c["entries"]}.get(path, {})
    if any(d == "lib" for d in comps[:-1]):
        return "below-lib"
    if any(d.startswith(".") for d in comps[:-1]):
        return "below-hidden-dir"
    if base.startswith("."):
        return "hidden-file"
    if "." in base and base.rsplit(".", 1)[-1] in ("yaml", "json", "md", "txt"):
        return "excluded-extension"
    if ent.get("kind") == "file" and not ent.get("x"):
        return "no-x-bit"
    if ent.get("x") not in (None, "", "ugo"):
        return "x-bit-" + ent["x"]
    if base in ("lib", "X.YAML", "x.yaml.sh"):
        return "file-named-" + base
    if len(comps) > 1:
        return "hook-in-" + ("libs" if "libs" in comps[:-1] else "subdir")
    return "plain"


def _refine(c, r):
    """Make the harness' signature specific to the failing input class."""
    sig = r["sig"]
    got = r.get("got") or {}
    if sig == "C20/hook-set":
        exp, have = set(c["names"]), set(got.get("names") or [])
        extra, missing = sorted(have - exp), sorted(exp - have)
        if extra:
            return "%s/extra/%s" % (sig, _path_class(c, extra[0]))
        if missing:
            return "%s/missing/%s" % (sig, _path_class(c, missing[0]))
    if sig in ("C20/not-a-hook-executed", "C20/config-not-run", "C20/config-run-twice"):
        counts = got.get("counts") or {}
        hooks = set(c["once"]) | set(c["atmost"])
        if sig == "C20/not-a-hook-executed":
            bad = sorted(n for n in counts if n not in hooks)
        elif sig == "C20/config-not-run":
            bad = [n for n in c["once"] if not counts.get(n)]
        else:
            bad = sorted(n for n, k in counts.items() if k > 1)
        if bad:
            return "%s/%s" % (sig, _path_class(c, bad[0]))
    return sig


def verdicts(ctx, cases, results):
    sigs = collections.Counter()
    # smallest failing tree of every signature first: that is the one reported and stored as replay
    for c, r in sorted(zip(cases, results), key=lambda cr: (len(cr[0]["entries"]), len(json.dumps(cr[0]["entries"])), cr[0]["id"])):
        if r["ok"]:
            continue
        if r.get("sig") == "INFRA":
            raise Infra("harness could not run case %d: %s" % (c["id"], r.get("detail")))
        r["sig"] = _refine(c, r)
        sigs[r["sig"]] += 1
        rep = {k: c[k] for k in ("root", "entries", "bad", "kind", "ok", "names", "once", "atmost", "errname")}
        ctx.fail(r["sig"], r["detail"] + " | tree: %s" % json.dumps(c["entries"]), {"case": rep, "observed": r.get("got")})
    return sigs


def replay_one(ctx, binary):
    doc = json.load(open(ctx.replay))
    case = (doc.get("replay") or {}).get("case")
    if not case:
        raise Infra("replay file has no case")
    case = dict(case)
    res = run_cases(ctx, binary, [case])
    verdicts(ctx, [case], res)
    ctx.cov["traces_validated_against_impl"] = 1
    ctx.cov["evaluations"] = 1
    ctx.sample({"replayed": case, "result": res[0]})
    ctx.log("replayed 1 stored case: %s" % ("ok" if res[0]["ok"] else res[0]["sig"]))
    vlib.finish(ctx, rule="replay of one stored case")


def check_c20(ctx):
    sub_build = _Sub(ctx)
    if getattr(ctx, "replay", None):
        binary = vlib.go_build(ctx, "discover")
        replay_one(ctx, binary)
        return
    cfgs = ctx.pick(QUICK_CFGS, THOROUGH_CFGS)
    build_res = {}

    def build():
        try:
            build_res["bin"] = vlib.go_build(sub_build, "discover")
        except BaseException as e:  # re-raised in the main thread
            build_res["err"] = e

    bt = threading.Thread(target=build)
    bt.start()
    try:
        # the as-it-was model must expose the defect (cheap: 50 states)
        a = vlib.tlc(ctx, SPEC, MODULE, "MC_asis.cfg", workers=1, timeout=300, expect_violation="RootNameIrrelevant", want_prints=False)
        ctx.log("TLC MC_asis.cfg: as-it-was model violates RootNameIrrelevant as expected (%d states)" % a["generated"])
        # do not count the as-is run as explored property states
        ctx.cov["states"] -= a["distinct"]
        ctx.cov["transitions"] -= a["generated"]
        allcases = gen_cases(ctx, cfgs)
    finally:
        bt.join()
    if "err" in build_res:
        raise build_res["err"]
    binary = build_res["bin"]

    if ctx.quick():
        cases = sample(ctx, allcases, QUICK_SAMPLE)
    else:
        cases = allcases
    ctx.log("%d distinct cases from TLC, %d selected for the real code" % (len(allcases), len(cases)))

    results = run_cases(ctx, binary, cases)
    sigs = verdicts(ctx, cases, results)

    feats = collections.Counter()
    for c in cases:
        for f in _features(c):
            feats[f] += 1
    spawns = sum(r.get("spawns", 0) for r in results)
    ctx.cov["cases_from_tlc"] = len(allcases)
    ctx.cov["traces_validated_against_impl"] = len(cases)
    ctx.cov["evaluations"] = len(cases)
    ctx.cov["distinct_nontrivial"] = sum(1 for c in cases if _nontrivial(c))
    ctx.cov["hook_processes_started"] = spawns
    ctx.cov["loadable_hooks_that_also_write_to_stderr"] = sum(r.get("noisy", 0) for r in results)
    if not ctx.cov["loadable_hooks_that_also_write_to_stderr"]:
        raise Infra("no generated hook writes to stderr during --config")
    ctx.cov["case_features"] = dict(sorted(feats.items()))
    ctx.cov["failure_signatures"] = dict(sigs)
    need = ["root:lib", "root:.hooks", "dir-lib", "dir-hidden", "executable-below-lib", "executable-below-hidden-dir",
            "executable-below-nested-lib", "executable-below-nested-hidden-dir", "executable-deeper-below-lib",
            "executable-hidden-file", "executable-yaml", "hook-in-subdir", "same-basename-in-different-dirs",
            "string-order-differs-from-component-order", "hooks-behind-the-bad-one", "hooks-before-the-bad-one",
            "file-without-x-bit", "hook-named-lib", "hook-named-X.YAML", "hook-named-x.yaml.sh", "hook-below-libs",
            "executable-json", "executable-md", "executable-txt", "file-x-bit-o", "file-x-bit-u"]
    missing = [f for f in need if not feats.get(f)]
    if missing:
        raise Infra("the selected cases do not cover: %s" % ", ".join(missing))
    ctx.log("ran %d cases on the real hook.Manager.Init (%d hook processes): %d failed %s" %
            (len(cases), spawns, sum(sigs.values()), dict(sigs) if sigs else ""))
    nt = [c for c in cases if _nontrivial(c)]
    rnd = random.Random(ctx.seed)
    for c in rnd.sample(nt, min(4, len(nt))):
        ctx.sample({"hooks_dir": c["root"], "tree": ["%s%s" % (e["path"], "/" if e["kind"] == "dir" else (" [x:%s]" % e["x"] if e["x"] else " [no x bit]")) for e in c["entries"]],
                    "bad": c["bad"], "bad_kind": c["kind"], "expected_names": c["names"], "config_once": c["once"],
                    "config_at_most_once": c["atmost"], "error_names": c["errname"], "real_code": "ok" if results[c["id"]]["ok"] else results[c["id"]]["sig"]})
    ctx.assumptions += [
        "'lexical order of their paths' = byte-wise order of the relative path string",
        "hooks that load after the bad hook may or may not have been asked for --config (the statement is silent)",
        "the error 'names the hook' when the relative path occurs in the text as a delimited token",
        "symlinks, unreadable directories, two bad hooks, empty --config output are outside the statement and not generated",
    ]
    vlib.finish(ctx, rule="cases = TLC states with phase=done of spec/HookDiscovery (bounds: line 1 of each MC_*.cfg), de-duplicated; "
                          "quick = seeded stratified sample, thorough = all; distinct_nontrivial = cases whose tree has a hook and "
                          "(an executable non-hook file or >= 2 hooks); every case runs the real hook.Manager.Init on a materialised tree")


CHECKS = {"C20": check_c20}

MANIFEST = {
    "C20": dict(
        text="spec/HookDiscovery is the reference function written from the statement (names as character sequences; hooks = "
             "executable files whose name is allowed and that do not lie below a sub-directory named lib or a hidden one; names = "
             "relative paths; load order = byte-wise order; --config exactly once per discovered file up to the first bad hook, "
             "error naming it). TLC enumerates every tree within the bounds (depth <= 3; <= 3 entries over 12 file and 4 directory "
             "names, <= 5 entries over 5 and 3; execute-bit sets {}, ugo, u, o; hooks directory named hooks, lib, .hooks; <= 1 bad "
             "hook of 4 kinds), checks the reference's invariants and emits the expected result of every case; each case is "
             "materialised on disk and the real hook.Manager.Init is run on it: GetHookNames(), the invocation log written by the "
             "generated scripts and the error text are compared with TLC's result.",
        note="Generated hooks print their configuration on stdout; three of four also write a warning line to stderr (before / after / both). "
             "Trusts TLC, /bin/sh and the file system. Quick tier runs a seeded stratified sample (1200 of ~100 k cases), thorough "
             "all (~300 k). Symlinks, unreadable directories, two bad hooks at once and relative hooks directories are outside "
             "the statement and not generated. 'Lexical order' is read as byte-wise order of the relative path; hooks behind the "
             "first bad one may or may not be asked for --config.",
        technique="TLA+ reference function + TLC exhaustive case enumeration; case replay into the real hook.Manager.Init on materialised trees",
        design="5/C20"),
}
