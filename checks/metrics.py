"""C16 (hook metrics: batch validated as a whole; grouped metrics replaced, not accumulated):
spec/Metrics bound to pkg/metric_storage (+ vault, pkg/metric collectors, operation parsing/validation).

What is modelled (spec/Metrics/Metrics.tla, written from the property statement and
docs/src/metrics/METRICS_FROM_HOOKS.md, structured like MetricStorage.SendBatch):
  registry  (name, labelset incl. the added `hook` label) -> [kind, value, histogram count, group | none]
  SendBatch(ops, hook): any invalid operation => registry unchanged + error; otherwise per group mentioned:
  expire every series of the group, apply the group's operations in order (explicit `expire` wipes again);
  then the ungrouped add/set/observe operations.  Values are integers in units of 0.5.

  1. TLC checks AtomicValidation, GroupReplaced, OthersUntouched, ValueRules, GroupOrderIrrelevant (action
     properties, stated declaratively over reg -> reg') and TypeOK
       - exhaustively over every history with exactly two operations ([op,op] and [op][op]; Cases.cfg, every
         history is a state and is exported with the registry TLC expects after each batch) and over every single
         batch of three operations on one name with four label sets (Cases3.cfg, label-shape changes inside a batch),
       - exhaustively with the history hidden by a VIEW over <= 2 batches x <= 2 operations (MC_quick: one name,
         <= 3 operations per history; MC_thorough: two names, <= 3 operations; MC_thorough_b: two names, one hook,
         all <= 4 operations),
       - along simulated behaviours of 4 batches x <= 3 operations (Sim.cfg), which are exported as well, in two
         families: `full` (whole domain) and `clean` (AvoidOpen: histories stay clear of the input classes of the
         open findings, so that they are compared over their whole length).
     MC_asis_*.cfg: the as-it-was variants of the model (AsIs = F18/F19/F23/F24) violate the properties.
  2. harness/cmd/metrics replays every exported history on the REAL metric_storage.MetricStorage (private
     registry) three times - constructed operations, file syntax through operation.MetricOperationsFromBytes, file
     syntax with the deprecated add/set shortcuts - and after every batch compares Gatherer.Gather(), projected to
     the abstract registry, and the error result with TLC's expectation.  A history stops at its first difference.

Truncated files: an operation with `cut` = string | colon | labels is the LAST operation of its batch and stands for a
metrics file that ends in the middle of that JSON document (inside the name string, right after a colon, inside the
labels object).  It is an invalid operation in the reference (Valid demands cut = ""), so TLC's expectation is "error,
registry unchanged" - also when valid operations (a group's replacement) precede it in the file.  The harness writes
such a batch as a file in all three renderings (constructed operations cannot express it).

Oracle (exactly the statement): error iff the batch contains an invalid operation, and then nothing changed;
otherwise the set of series (name, non-empty labels incl. hook), their kind and value (histograms: count and sum)
equal the reference registry.  The group of a series is not observable through Gather and is not compared.
A label with an empty value is the same series as the label being absent (Prometheus semantics; the grouped
collectors pad label sets this way).

Excluded from the generated domain (no implementation exposing one Prometheus registry can satisfy the statement,
or the statement is silent):
  - two groups, or a group and an ungrouped operation, claiming the same (name, labelset);
  - one metric name used with two kinds (counter/gauge/histogram) anywhere in a history;
  - negative values, operations carrying their own `hook` label, empty label values, `expire` with a name,
    unparsable JSON other than a truncated last operation (the decoder's business, C12).
  - For a batch with an ungrouped operation whose label *names* differ from the first ungrouped use of that name the
    statement allows two readings (valid: it is applied; invalid: the whole batch is refused, nothing changes); both
    outcomes are accepted, anything else (op dropped, success reported) is a failure.

Signatures name the class of the first differing series of a history (computed from TLC's tags `shape`, `mixed`,
`frac` and the kind of difference), e.g. C16/grouped-add-shortcut-doubled, C16/ungrouped-label-names-differ,
C16/group-replaced/stale-series, C16/atomic-validation/partially-applied/<rule>.
"""
import concurrent.futures
import glob
import json
import os
import re

import tlaparse
import vlib
from vlib import Infra

SPEC = "Metrics"
PROPS = "AtomicValidation GroupReplaced OthersUntouched ValueRules GroupOrderIrrelevant"
ASIS = {  # cfg -> (defect, properties one of which TLC must report)
    "MC_asis_f18.cfg": ("F18", ("ValueRules",)),
    "MC_asis_f19.cfg": ("F19", ("ValueRules",)),
    "MC_asis_f23.cfg": ("F23", ("ValueRules",)),
    "MC_asis_f24.cfg": ("F24", ("ValueRules", "GroupReplaced")),
}
_LAST_STATE = re.compile(r"^STATE_(\d+) ==\s*$", re.M)


def _tlc_workers():
    return max(2, min(4, (os.cpu_count() or 4) // 4))


def gen_sim(ctx, family, num):
    d = os.path.dirname(ctx.path("beh_" + family, "x"))
    vlib.tlc(ctx, SPEC, "Metrics", "Sim.cfg", mode="sim", sim_num=num, sim_depth=17, timeout=ctx.pick(300, 1500),
             want_prints=False, consts={"AvoidOpen": "TRUE" if family == "clean" else "FALSE"},
             simfile=os.path.join(d, "b"), expect_violation=False)
    out = []
    for f in sorted(glob.glob(os.path.join(d, "b_*"))):
        txt = open(f, errors="replace").read()
        ms = list(_LAST_STATE.finditer(txt))
        if not ms:
            continue
        body = re.split(r"^\\\*|^====", txt[ms[-1].end():], flags=re.M)[0]
        st = tlaparse.parse_state(body)
        if st.get("h"):
            out.append(st["h"])
        os.unlink(f)
    if not out:
        raise Infra("TLC simulation produced no behaviours (%s)" % family)
    return out


def gen_cases(ctx):
    r = vlib.tlc(ctx, SPEC, "Metrics", ctx.pick("Cases.cfg", "Cases_thorough.cfg"), timeout=ctx.pick(300, 900), workers=_tlc_workers(),
                 expect_violation=False)
    hs = [h for h in r["prints"] if h]
    if not hs:
        raise Infra("Cases.cfg exported no history")
    return hs, r


def gen_triples(ctx):
    r = vlib.tlc(ctx, SPEC, "Metrics", ctx.pick("Cases3.cfg", "Cases3_thorough.cfg"), timeout=ctx.pick(300, 900), workers=2,
                 expect_violation=False)
    hs = [h for h in r["prints"] if h]
    if not hs:
        raise Infra("Cases3.cfg exported no history")
    return hs, r


def model_check(ctx, cfg):
    return vlib.tlc(ctx, SPEC, "Metrics", cfg, timeout=ctx.pick(300, 1700), workers=ctx.pick(_tlc_workers(), 6),
                    expect_violation=False, want_prints=False, coverage=False)


def asis(ctx, cfg):
    defect, prop = ASIS[cfg]
    r = vlib.tlc(ctx, SPEC, "Metrics", cfg, timeout=300, workers=2, expect_violation=True, want_prints=False)
    return cfg, defect, prop, r


def _run_shard(ctx, binary, cases, n):
    inp = ctx.path("shard%d" % n, "cases.jsonl")
    outp = ctx.path("shard%d" % n, "results.jsonl")
    vlib.write_jsonl(inp, cases)
    r = vlib.run_bin(ctx, binary, ["replay", "-in", inp, "-out", outp], timeout=1500)
    if r["rc"] != 0:
        raise Infra("metrics replay failed: " + r["stderr"][-2000:])
    res = vlib.read_jsonl(outp)
    if len(res) != len(cases):
        raise Infra("metrics replay returned %d results for %d cases" % (len(res), len(cases)))
    return res


def run_harness(ctx, binary, cases, shards=4):
    """Replay the cases on the real code, in `shards` supervised processes; results in case order."""
    shards = max(1, min(shards, len(cases) // 500 + 1))
    parts = [cases[i::shards] for i in range(shards)]
    with concurrent.futures.ThreadPoolExecutor(max_workers=shards) as ex:
        outs = list(ex.map(lambda a: _run_shard(ctx, binary, a[1], a[0]), enumerate(parts)))
    by_id = {}
    for part in outs:
        for r in part:
            by_id[r["case"]] = r
    if len(by_id) != len(cases):
        raise Infra("metrics replay: %d distinct results for %d cases" % (len(by_id), len(cases)))
    return [by_id[c["id"]] for c in cases]


def short_op(o):
    if o["action"] == "expire":
        return "%s:expire" % o["group"]
    s = "%s%s %s{%s}" % ((o["group"] + ":") if o["group"] else "", o["action"] or "<no action>", o["name"] or "<no name>",
                         ",".join("%s=%s" % (p[0], p[1]) for p in o["labels"]))
    if o["value"] >= 0:
        s += " %g" % (o["value"] / 2.0)
    if o.get("cut"):
        s += " <file ends inside this operation: %s>" % o["cut"]
    return s


def short_post(post):
    return sorted("%s{%s} %s %g%s" % (s["name"], ",".join("%s=%s" % (p[0], p[1]) for p in sorted(s["labels"])), s["kind"], s["val"] / 2.0,
                                       (" n=%d" % s["cnt"]) if s["kind"] == "histogram" else "") for s in post)


def verdicts(ctx, cases, res):
    nbatches = 0
    applied = rejected = alt = 0
    by_sig = {}
    for c, r in zip(cases, res):
        nbatches += r.get("batches", 0)
        applied += r.get("applied", 0)
        rejected += r.get("rejected", 0)
        alt += r.get("alt_ok", 0)
        if r.get("ok"):
            continue
        for f in r.get("fails") or [{"sig": r.get("sig", "C16/unknown"), "detail": r.get("detail", ""), "batch": 0, "rendering": "?"}]:
            by_sig[f["sig"]] = by_sig.get(f["sig"], 0) + 1
            cut = dict(c)
            cut["batches"] = c["batches"][:f.get("batch", 0) + 1]
            ctx.fail(f["sig"], f["detail"], {"case": cut, "rendering": f.get("rendering"), "bad_batch": f.get("batch")})
    return nbatches, applied, rejected, alt, by_sig


def coverage_stats(ctx, cases):
    distinct = set()
    nontrivial = set()
    feat = {"batches": 0, "rejected_batches": 0, "group_replacing_batches": 0, "explicit_expire_ops": 0,
            "batches_with_two_groups": 0, "names_shared_across_groups": 0, "histories_with_two_hooks": 0,
            "fractional_results": 0, "label_shapes_mixed_under_one_name": 0, "open_finding_input_classes": 0,
            "truncated_files": 0, "truncated_files_with_operations_before_the_cut": 0}
    for c in cases:
        key = json.dumps(c["batches"], sort_keys=True)
        if key in distinct:
            continue
        distinct.add(key)
        pre = []
        changed = False
        hooks = set()
        for b in c["batches"]:
            feat["batches"] += 1
            hooks.add(b["hook"])
            if b["err"]:
                feat["rejected_batches"] += 1
            if b["ops"] and b["ops"][-1].get("cut"):
                feat["truncated_files"] += 1
                if len(b["ops"]) > 1:
                    feat["truncated_files_with_operations_before_the_cut"] += 1
            groups = {o["group"] for o in b["ops"] if o["group"]}
            if not b["err"]:
                if any(s["group"] in groups for s in pre):
                    feat["group_replacing_batches"] += 1
                if len(groups) > 1:
                    feat["batches_with_two_groups"] += 1
                feat["explicit_expire_ops"] += sum(1 for o in b["ops"] if o["action"] == "expire")
                if b["shape"] or b["mixed"]:
                    feat["open_finding_input_classes"] += 1
            post = b["post"]
            if sorted(json.dumps(s, sort_keys=True) for s in post) != sorted(json.dumps(s, sort_keys=True) for s in pre):
                changed = True
            byname = {}
            for s in post:
                byname.setdefault(s["name"], []).append(s)
            for n, ss in byname.items():
                if len({s["group"] for s in ss if s["group"]}) > 1:
                    feat["names_shared_across_groups"] += 1
                if len({tuple(sorted(p[0] for p in s["labels"])) for s in ss}) > 1:
                    feat["label_shapes_mixed_under_one_name"] += 1
            feat["fractional_results"] += sum(1 for s in post if s["val"] % 2 == 1)
            pre = post
        if len(hooks) > 1:
            feat["histories_with_two_hooks"] += 1
        if changed:
            nontrivial.add(key)
    return len(distinct), len(nontrivial), feat


def replay_only(ctx):
    data = json.load(open(ctx.replay))
    case = (data.get("replay") or {}).get("case")
    if not case:
        raise Infra("replay file has no case")
    binary = vlib.go_build(ctx, "metrics")
    res = run_harness(ctx, binary, [case])
    verdicts(ctx, [case], res)
    ctx.cov["traces_validated_against_impl"] = 1
    ctx.cov["evaluations"] = res[0].get("batches", 0)
    ctx.cov["distinct_nontrivial"] = 1
    ctx.sample({"replayed": [[short_op(o) for o in b["ops"]] for b in case["batches"]]})
    vlib.finish(ctx, rule="replay of one recorded history")


def check_c16(ctx):
    if getattr(ctx, "replay", None):
        return replay_only(ctx)
    nsim = ctx.pick(200, 2500)
    asis_cfgs = sorted(ASIS) if not ctx.quick() else [sorted(ASIS)[(ctx.seed - 1) % len(ASIS)]]
    with concurrent.futures.ThreadPoolExecutor(max_workers=8) as ex:
        f_build = ex.submit(vlib.go_build, ctx, "metrics")
        f_cases = ex.submit(gen_cases, ctx)
        f_triples = ex.submit(gen_triples, ctx)
        f_full = ex.submit(gen_sim, ctx, "full", nsim)
        f_clean = ex.submit(gen_sim, ctx, "clean", nsim)
        f_mc = [ex.submit(model_check, ctx, c) for c in ctx.pick(["MC_quick.cfg"], ["MC_thorough.cfg", "MC_thorough_b.cfg"])]
        f_asis = [ex.submit(asis, ctx, c) for c in asis_cfgs]
        binary = f_build.result()
        pairs, rc = f_cases.result()
        triples, rt = f_triples.result()
        full = f_full.result()
        clean = f_clean.result()
        mcs_done = [f.result() for f in f_mc]
        asis_res = [f.result() for f in f_asis]
    ctx.log("TLC %s: %d histories of two operations, every one a state (%d states), properties hold, %.0fs" %
            (rc["cfg"], len(pairs), rc["distinct"], rc["wall_s"]))
    ctx.log("TLC %s: %d single batches of three operations on one name (%d states), properties hold, %.0fs" %
            (rt["cfg"], len(triples), rt["distinct"], rt["wall_s"]))
    for mc in mcs_done:
        ctx.log("TLC %s: %d generated / %d distinct states, depth %d, properties hold, %.0fs" %
                (mc["cfg"], mc["generated"], mc["distinct"], mc["depth"], mc["wall_s"]))
    for cfg, defect, prop, r in asis_res:
        if r["violated"] not in prop:
            raise Infra("as-it-was model %s (%s): TLC reports %s, expected one of %s" % (cfg, defect, r["violated"], prop))
        ctx.log("TLC %s: the as-it-was model (%s) violates %s (%d states)" % (cfg, defect, r["violated"], r["generated"]))
    ctx.log("TLC Sim.cfg: %d + %d behaviours of 4 batches (full / clean family), properties hold along them" % (len(full), len(clean)))
    # recompute the exhaustive totals (the TLC runs were concurrent)
    mcs = [t for t in ctx.cov["tlc_runs"] if t["mode"] == "mc" and not t["violated"]]
    ctx.cov["states"] = sum(t["distinct"] for t in mcs)
    ctx.cov["transitions"] = sum(t["generated"] for t in mcs)

    cases = []
    for fam, hs in (("pairs", pairs), ("triples", triples), ("full", full), ("clean", clean)):
        for h in hs:
            cases.append({"id": len(cases), "family": fam, "batches": h})
    res = run_harness(ctx, binary, cases)
    nbatches, applied, rejected, alt, by_sig = verdicts(ctx, cases, res)
    distinct, nontrivial, feat = coverage_stats(ctx, cases)
    ok_by_family = {}
    for c, r in zip(cases, res):
        k = ok_by_family.setdefault(c["family"], [0, 0])
        k[0] += 1
        k[1] += 1 if r.get("ok") else 0
    ctx.log("replayed %d histories x 3 syntaxes on the real MetricStorage: %d batches compared (%d applied, %d rejected, %d refused-as-a-whole "
            "accepted); agreeing histories per family %s; differences by signature %s" %
            (len(cases), nbatches, applied, rejected, alt, {k: "%d/%d" % (v[1], v[0]) for k, v in ok_by_family.items()}, by_sig))
    ctx.cov["traces_validated_against_impl"] = len(cases)
    ctx.cov["evaluations"] = nbatches
    ctx.cov["distinct_nontrivial"] = nontrivial
    ctx.cov["distinct_histories"] = distinct
    ctx.cov["histories_by_family"] = {k: v[0] for k, v in ok_by_family.items()}
    ctx.cov["histories_agreeing_by_family"] = {k: v[1] for k, v in ok_by_family.items()}
    ctx.cov["batches_compared"] = {"applied": applied, "rejected": rejected, "refused_as_a_whole_accepted": alt}
    ctx.cov["features"] = feat
    ctx.cov["differences_by_signature"] = by_sig
    for h in (clean[0], clean[len(clean) // 2], full[0], pairs[len(pairs) // 3], triples[len(triples) // 2], pairs[-1]):
        ctx.sample({"batches": [{"hook": b["hook"], "ops": [short_op(o) for o in b["ops"]], "rejected": b["err"],
                                 "registry_after": short_post(b["post"])} for b in h]})
    ctx.assumptions += [
        "the group of a series is not observable through Gatherer.Gather(); group membership is checked through what later batches expire",
        "a label with an empty value is the same series as the label being absent (Prometheus data model)",
        "histograms are compared by sample count and sum (buckets [1,2] fixed)",
        "excluded: two claimants of one (name, labelset); one name with two kinds; negative values; own `hook` label; empty label values",
        "a batch with an ungrouped operation whose label names differ from the first ungrouped use of the name may either be applied "
        "or be refused as a whole",
    ]
    vlib.finish(ctx, rule="histories: every admissible history with exactly two operations and every batch of three operations on one name "
                          "(TLC exhaustive, Cases.cfg / Cases3.cfg) plus TLC-simulated "
                          "behaviours of 4 batches x <= 3 operations (full and clean family, seed); each replayed in 3 syntaxes; "
                          "evaluations = batches whose error result and gathered registry were compared with TLC's expectation; "
                          "distinct_nontrivial = distinct histories in which at least one batch changes the expected registry")


CHECKS = {"C16": check_c16}

MANIFEST = {
    "C16": dict(
        text="TLC checks spec/Metrics (registry (name, labelset) -> kind/value/group; SendBatch = validate all, per group expire then "
             "apply, then ungrouped operations) for AtomicValidation, GroupReplaced, OthersUntouched, ValueRules and GroupOrderIrrelevant: "
             "exhaustively over all histories of two operations, all single batches of three operations on one name and <= 2 batches x <= 2 "
             "operations (history hidden by a VIEW), and along simulated behaviours of "
             "4 batches x <= 3 operations (2 names, 3 label shapes, 2 groups, 2 hooks, values in halves, 14 kinds of invalid operation and a "
             "metrics file whose last operation is cut off inside a string / after a colon / inside the labels object). "
             "Every exported history is replayed on the real metric_storage.MetricStorage (private registry) in three syntaxes "
             "(constructed operations, file syntax via MetricOperationsFromBytes, deprecated add/set shortcuts); after every batch the "
             "error result and Gatherer.Gather(), projected to the abstract registry, are compared with the registry TLC computed.",
        note="Trusts TLC, the Prometheus client's Gather and the projection (empty label value = absent label; histograms by count and "
             "sum; the group of a series is not observable and is checked through later expiry). Excluded: two claimants of one "
             "(name, labelset), one name with two kinds, negative values, own hook label. Bounds: histories <= 4 batches x <= 3 ops; "
             "the exhaustive part stops at 4 operations per history, longer histories are sampled (seeded).",
        technique="TLA+ spec + TLC exhaustive check and simulation; history replay into the real MetricStorage with state comparison after every batch",
        design="5/C16"),
}
