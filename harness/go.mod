module verifharness

go 1.23.8

require github.com/flant/shell-operator v0.0.0

require (
	github.com/DataDog/gostackparse v0.7.0 // indirect
	github.com/beorn7/perks v1.0.1 // indirect
	github.com/cespare/xxhash/v2 v2.3.0 // indirect
	github.com/davecgh/go-spew v1.1.1 // indirect
	github.com/deckhouse/deckhouse/pkg/log v0.0.0-20241205040953-7b376bae249c // indirect
	github.com/gofrs/uuid/v5 v5.3.2 // indirect
	github.com/gojuno/minimock/v3 v3.4.5 // indirect
	github.com/hashicorp/errwrap v1.1.0 // indirect
	github.com/hashicorp/go-multierror v1.1.1 // indirect
	github.com/munnerz/goautoneg v0.0.0-20191010083416-a7dc8b61c822 // indirect
	github.com/pmezard/go-difflib v1.0.0 // indirect
	github.com/prometheus/client_golang v1.20.5 // indirect
	github.com/prometheus/client_model v0.6.1 // indirect
	github.com/prometheus/common v0.55.0 // indirect
	github.com/prometheus/procfs v0.15.1 // indirect
	golang.org/x/sys v0.31.0 // indirect
	google.golang.org/protobuf v1.36.5 // indirect
	gopkg.in/yaml.v3 v3.0.1 // indirect
)

replace github.com/flant/shell-operator => /repo

replace github.com/go-openapi/validate => github.com/flant/go-openapi-validate v0.19.12-flant.0
