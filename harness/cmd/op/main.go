//go:build verif

// Command op binds spec/Operator to the real ShellOperator.
//
//	op replay -in cases.jsonl -out results.jsonl -hookbin path
//
// A case is a hook configuration plus a TLC behaviour of spec/Operator (Pick / Finish(ok) / BackoffElapsed /
// KubeEvent / Tick). The real operator runs on a fake cluster with generated hooks; queue workers are parked at
// their gates and hook processes block until the harness lets them finish, so the real run takes exactly the
// steps TLC chose. After every step all queues (task type, hook, binding contexts, allowFailure) are compared
// with the specification's queues, the contexts a hook process received with the specification's execution,
// and the task status with the specified result.
package main

import (
	"bufio"
	"encoding/json"
	"flag"
	"fmt"
	"os"
	"reflect"
	"sort"
	"strings"
	"time"

	"github.com/deckhouse/deckhouse/pkg/log"

	"verifharness/internal/opfix"
	"verifharness/internal/supervise"
)

type State map[string]interface{}

type Case struct {
	Config string          `json:"config"`
	Hooks  []opfix.HookCfg `json:"hooks"`
	Steps  []State         `json:"steps"`
}

type Result struct {
	Case    int      `json:"case"`
	OK      bool     `json:"ok"`
	Steps   int      `json:"steps"`
	Sig     string   `json:"sig,omitempty"`
	Detail  string   `json:"detail,omitempty"`
	BadStep int      `json:"bad_step,omitempty"`
	Execs   int      `json:"execs"`
	Extra   []string `json:"extra,omitempty"`
	Also    []SigDet `json:"also,omitempty"` // further mismatches of the same step (other queues): each belongs to its own property
}

type SigDet struct {
	Sig    string `json:"sig"`
	Detail string `json:"detail"`
}

const initialDelay = 20 * time.Millisecond

type specTask struct {
	Type string
	Hook string
	Kind string
	Ctxs []opfix.CtxDesc
	Af   bool
}

func toTask(v interface{}) specTask {
	m := v.(map[string]interface{})
	t := specTask{Type: fmt.Sprint(m["type"]), Hook: fmt.Sprint(m["hook"]), Kind: fmt.Sprint(m["kind"]), Ctxs: []opfix.CtxDesc{}}
	t.Af, _ = m["af"].(bool)
	if cs, ok := m["ctxs"].([]interface{}); ok {
		for _, c := range cs {
			cm := c.(map[string]interface{})
			t.Ctxs = append(t.Ctxs, opfix.CtxDesc{B: fmt.Sprint(cm["b"]), K: fmt.Sprint(cm["k"]), G: fmt.Sprint(cm["g"])})
		}
	}
	if t.Type == "HookRun" && len(t.Ctxs) > 0 {
		t.Kind = t.Ctxs[0].K // the kind of a combined task is that of its first context
	}
	return t
}

// earlyEvents reports Event tasks sitting in a real queue for a binding that the specification still holds locked
// (monitor started, Synchronization not completed successfully).
func earlyEvents(st State, got map[string][]specTask) string {
	ms, ok := st["mstate"].(map[string]interface{})
	if !ok {
		return ""
	}
	for q, l := range got {
		for _, t := range l {
			if t.Type != "HookRun" {
				continue
			}
			for _, cx := range t.Ctxs {
				if cx.K == "Event" && fmt.Sprint(ms[t.Hook+"/"+cx.B]) == "started" {
					return fmt.Sprintf("queue %s holds an Event task of binding %s/%s although the Synchronization of that binding has not completed", q, t.Hook, cx.B)
				}
			}
		}
	}
	return ""
}

// earlySchedule reports a Schedule task of a hook that the specification has not yet enabled schedules for.
func earlySchedule(st State, got map[string][]specTask) string {
	on := map[string]bool{}
	if l, ok := st["schedOn"].([]interface{}); ok {
		for _, h := range l {
			on[fmt.Sprint(h)] = true
		}
	} else {
		return ""
	}
	for q, l := range got {
		for _, t := range l {
			if t.Type != "HookRun" {
				continue
			}
			for _, cx := range t.Ctxs {
				if cx.K == "Schedule" && !on[t.Hook] {
					return fmt.Sprintf("queue %s holds a Schedule task of hook %s although its schedule bindings are not enabled yet (EnableScheduleBindings comes after the hook's Synchronizations)", q, t.Hook)
				}
			}
		}
	}
	return ""
}

// heldAfterUnlock reports a binding that the specification has unlocked (Synchronization completed successfully)
// while the real monitor still holds events back or is not enabled.
func heldAfterUnlock(st State, f *opfix.Fixture) string {
	ms, ok := st["mstate"].(map[string]interface{})
	if !ok {
		return ""
	}
	for p, v := range ms {
		if fmt.Sprint(v) != "unlocked" {
			continue
		}
		k := strings.LastIndex(p, "/")
		if k < 0 {
			continue
		}
		if got := f.Buffered(p[:k], p[k+1:]); got > 0 {
			return fmt.Sprintf("binding %s still holds back %d Events although its Synchronization has completed successfully", p, got)
		}
	}
	return ""
}

func specQueues(st State) map[string][]specTask {
	out := map[string][]specTask{}
	for q, v := range st["queues"].(map[string]interface{}) {
		l := []specTask{}
		for _, t := range v.([]interface{}) {
			l = append(l, toTask(t))
		}
		out[q] = l
	}
	return out
}

func realQueues(f *opfix.Fixture) map[string][]specTask {
	out := map[string][]specTask{}
	for q, l := range f.Queues() {
		r := []specTask{}
		for _, d := range l {
			t := specTask{Type: d.Type, Hook: d.Hook, Kind: d.Kind, Ctxs: d.Ctxs, Af: d.Af}
			if t.Type != "HookRun" {
				t.Kind, t.Ctxs, t.Af = "Enable", []opfix.CtxDesc{}, false
			} else if len(t.Ctxs) > 0 {
				t.Kind = t.Ctxs[0].K
			}
			r = append(r, t)
		}
		out[q] = r
	}
	return out
}

// classify a queue mismatch by property
// actq is the queue whose worker made the step (Pick, Finish); "" for environment steps.
// finType: type of the task whose run ended (Finish steps), "" otherwise.
func classifyAll(op, actq, finType string, want, got map[string][]specTask) []SigDet {
	var out []SigDet
	add := func(sig, d string) { out = append(out, SigDet{sig, d}) }
	qs := []string{}
	for q := range want {
		qs = append(qs, q)
	}
	sort.Strings(qs)
	for _, q := range qs {
		w, g := want[q], got[q]
		if reflect.DeepEqual(w, g) {
			continue
		}
		d := fmt.Sprintf("queue %s holds %v, specification %v", q, brief(g), brief(w))
		if len(w) == len(g) {
			onlyAf := true
			for i := range w {
				a, b := w[i], g[i]
				a.Af, b.Af = false, false
				if !reflect.DeepEqual(a, b) {
					onlyAf = false
				}
			}
			if onlyAf {
				add("C04/combined-allow-failure", d)
				continue
			}
		}
		if actq != "" && q != actq {
			switch op {
			case "Pick":
				// a pick works on its own queue only
				add("C03/other-queue-changed", d+fmt.Sprintf("; the step was a pick of queue %s", actq))
				continue
			case "Finish":
				// the only effect of a finished run on another queue is the release of held-back events at the unlock
				add("C01/released-events", d+fmt.Sprintf("; the step was the end of a run of queue %s", actq))
				continue
			}
		}
		if op == "Finish" && (finType == "EnableKube" || finType == "EnableSched") {
			// what enabling the bindings of a hook leaves in main (its Synchronization tasks at the head, then the rest)
			add("C06/startup-sequence", d+fmt.Sprintf("; the step was the end of %s", finType))
			continue
		}
		if op == "Pick" && len(w) == len(g) && len(w) > 0 && len(g[0].Ctxs) < len(w[0].Ctxs) && reflect.DeepEqual(g[0].Ctxs, w[0].Ctxs[:len(g[0].Ctxs)]) && reflect.DeepEqual(g[1:], w[1:]) {
			// the merged tasks left the queue but the head does not carry their contexts: a failed run would lose them
			add("C04/merged-contexts-not-kept-for-retry", d)
			add("C07/combine", d)
			continue
		}
		switch op {
		case "Pick":
			add("C07/combine", d) // combining changed the queue differently
			continue
		case "Finish":
			// allowFailure / retry / removal / head tasks
			if len(g) < len(w) {
				add("C04/task-dropped", d)
				continue
			}
			add("C04/result-application", d)
			continue
		case "KubeEvent", "Tick":
			add("C03/placement", d)
			continue
		}
		add("DIV/queues/"+op, d)
		continue
	}
	for q := range got {
		if _, ok := want[q]; !ok && len(got[q]) > 0 {
			add("C03/placement", fmt.Sprintf("unexpected queue %s with %v", q, brief(got[q])))
			continue
		}
	}
	return out
}

func classify(op, actq string, want, got map[string][]specTask) (string, string) {
	if all := classifyAll(op, actq, "", want, got); len(all) > 0 {
		return all[0].Sig, all[0].Detail
	}
	return "", ""
}

func brief(l []specTask) string {
	s := "["
	for i, t := range l {
		if i > 0 {
			s += " "
		}
		s += t.Type + ":" + t.Hook
		if t.Type == "HookRun" {
			s += "{"
			for j, c := range t.Ctxs {
				if j > 0 {
					s += ","
				}
				s += c.B + "/" + c.K
				if c.G != "" {
					s += "/" + c.G
				}
			}
			s += fmt.Sprintf("}af=%v", t.Af)
		}
	}
	return s + "]"
}

// the contexts a hook process received, as (binding, type) pairs
func execCtxs(e *opfix.ExecStart) []string {
	out := []string{}
	for _, c := range e.Contexts {
		b := fmt.Sprint(c["binding"])
		t, _ := c["type"].(string)
		out = append(out, b+"/"+t)
	}
	return out
}

// snapCounts: a Synchronization (or Group) execution must show, for each binding it synchronises, exactly the
// objects that existed when the execution started.
func snapCounts(e *opfix.ExecStart, snap interface{}) (string, string) {
	sn, ok := snap.([]interface{})
	if !ok {
		return "", ""
	}
	want := map[string]int{}
	for _, x := range sn {
		m := x.(map[string]interface{})
		want[fmt.Sprint(m["b"])] = int(m["n"].(float64))
	}
	for _, cx := range e.Contexts {
		b := fmt.Sprint(cx["binding"])
		t, _ := cx["type"].(string)
		if t == "Synchronization" {
			if n, has := want[b]; has {
				objs, _ := cx["objects"].([]interface{})
				if len(objs) != n {
					return "C02/synchronization-objects", fmt.Sprintf("Synchronization of binding %s lists %d objects, %d matching objects existed when it started", b, len(objs), n)
				}
			}
		}
		// every context that carries snapshots (Group, Event/Schedule with includeSnapshotsFrom): each list shows the
		// objects existing when the execution started
		if sm, ok := cx["snapshots"].(map[string]interface{}); ok {
			for bn, lst := range sm {
				l, _ := lst.([]interface{})
				if n, has := want[bn]; has && len(l) != n {
					return "C02/snapshots-not-current", fmt.Sprintf("%s context of binding %s: snapshot of %s lists %d objects, %d existed when the execution started", t, b, bn, len(l), n)
				}
			}
		}
	}
	return "", ""
}

func wantExecCtxs(t specTask) []string {
	out := []string{}
	for _, c := range t.Ctxs {
		switch {
		case c.K == "OnStartup":
			out = append(out, "onStartup/")
		case c.G != "":
			out = append(out, c.B+"/Group")
		default:
			out = append(out, c.B+"/"+c.K)
		}
	}
	return out
}

// settle waits until every queue has the specified length and every started monitor holds back the specified number
// of Events (event delivery and unlock replay are asynchronous).
func settle(f *opfix.Fixture, c Case, st State, max time.Duration) {
	want := specQueues(st)
	buf, _ := st["buffered"].(map[string]interface{})
	ms, _ := st["mstate"].(map[string]interface{})
	deadline := time.Now().Add(max)
	for time.Now().Before(deadline) {
		ok := true
		for q, l := range want {
			if f.QueueLen(q) != len(l) {
				ok = false
			}
		}
		for p, n := range buf {
			if fmt.Sprint(ms[p]) != "started" {
				continue
			}
			hb := strings.SplitN(p, "/", 2)
			if got := f.Buffered(hb[0], hb[1]); got >= 0 && got != int(n.(float64)) {
				ok = false
			}
		}
		if ok {
			return
		}
		time.Sleep(200 * time.Microsecond)
	}
}

func replayCase(n int, c Case, hookbin string) Result {
	res := Result{Case: n, OK: true}
	f, err := opfix.New(c.Hooks, hookbin, "block", true)
	defer func() {
		if f != nil {
			f.Close()
		}
	}()
	bad := func(i int, sig, detail string) Result {
		res.OK, res.Sig, res.Detail, res.BadStep = false, sig, detail, i
		return res
	}
	if err != nil {
		return bad(0, "DIV/assemble", err.Error())
	}
	if err := f.Bootstrap(true); err != nil {
		return bad(0, "DIV/bootstrap", err.Error())
	}
	// the bootstrap content of main is state 1 of the behaviour
	{
		want, got := specQueues(c.Steps[0]), realQueues(f)
		for q := range want {
			if _, ok := got[q]; !ok {
				// the bootstrap content may differ too: keep both statements
				if _, d := classify("Init", "", want, got); d != "" {
					res.Also = []SigDet{{"C06/bootstrap-order", d}}
				}
				return bad(0, "C03/queue-missing", fmt.Sprintf("no queue %s exists after the start although a binding names it: its tasks have nowhere to go", q))
			}
		}
		for q := range want {
			if len(want[q]) == 0 && len(got[q]) == 0 {
				got[q] = want[q]
			}
		}
		if sig, d := classify("Init", "", want, got); sig != "" {
			return bad(0, "C06/bootstrap-order", d)
		}
	}
	execID := map[string]string{}
	lastFail := map[string]time.Time{}
	running := map[string]string{} // queue -> hook of the process in progress
	shut := false
	handled := map[string]string{} // queue -> status of a handler that already returned (tasks without a hook process)
	for i := 1; i < len(c.Steps); i++ {
		st := c.Steps[i]
		a := st["act"].([]interface{})
		op := fmt.Sprint(a[0])
		res.Steps = i
		finType := ""
		switch op {
		case "Pick":
			q := fmt.Sprint(a[1])
			run := st["run"].(map[string]interface{})[q].(map[string]interface{})
			t := toTask(run["task"])
			if _, err := f.RunToHandler(q, 6*time.Second); err != nil {
				return bad(i, "DIV/steer/Pick", err.Error())
			}
			if tf, ok := lastFail[q]; ok {
				if gap := time.Since(tf); gap < initialDelay {
					return bad(i, "C04/backoff-too-short", fmt.Sprintf("queue %s: retry started %s after the failed run, initial delay is %s", q, gap, initialDelay))
				}
				delete(lastFail, q)
			}
			if ex, _ := run["exec"].(bool); ex {
				e, err := f.WaitExec(4 * time.Second)
				if err != nil {
					return bad(i, "C03/no-execution", fmt.Sprintf("queue %s head %s: %v", q, brief([]specTask{t}), err))
				}
				res.Execs++
				execID[q] = e.ID
				running[q] = e.Hook
				if e.Hook != t.Hook {
					return bad(i, "C03/head-first", fmt.Sprintf("queue %s: hook %s was executed, the head task is for hook %s", q, e.Hook, t.Hook))
				}
				got, want := execCtxs(e), wantExecCtxs(t)
				for _, h := range c.Hooks {
					if h.Name == e.Hook && h.V0 {
						// configVersion v0 contexts have their own shape (no type field): compare the binding names
						for k := range got {
							got[k] = got[k][:strings.Index(got[k], "/")]
						}
						for k := range want {
							want[k] = want[k][:strings.Index(want[k], "/")]
						}
					}
				}
				if sig, d := snapCounts(e, run["snap"]); sig != "" {
					return bad(i, sig, d)
				}
				if !reflect.DeepEqual(got, want) {
					sig := "C07/contexts"
					for _, h := range c.Hooks {
						if h.Name != e.Hook {
							continue
						}
						for _, kb := range h.Kube {
							for _, g := range got {
								if !kb.Sync && (g == kb.Name+"/Synchronization") {
									sig = "C06/sync-delivered-although-disabled"
								}
							}
						}
					}
					if len(got) != len(want) && sig == "C07/contexts" && t.Kind == "Synchronization" {
						sig = "C06/sync-combination"
					}
					// the same pick may also have changed queues differently (e.g. taken tasks of another queue)
					settle(f, c, st, 500*time.Millisecond)
					res.Also = classifyAll(op, q, "", specQueues(st), realQueues(f))
					return bad(i, sig, fmt.Sprintf("hook %s received contexts %v, specification %v", e.Hook, got, want))
				}
			} else {
				// no hook process for this task: the handler returns by itself; what it did (monitors started,
				// schedules enabled, monitors unlocked) is done when it has returned
				status, err := f.WaitHandlerReturn(q, 8*time.Second)
				if err != nil {
					// the handler does not return: is a hook process running (blocked, as every hook process of the fixture is)?
					if xs := f.NewExecs(); len(xs) > 0 {
						return bad(i, "C06/unexpected-execution", fmt.Sprintf("hook %s was executed with %v for a task that must not run the hook (%s)", xs[0].Hook, execCtxs(&xs[0]), brief([]specTask{t})))
					}
					return bad(i, "DIV/steer/Pick", err.Error())
				}
				handled[q] = status
				if t.Type == "EnableKube" {
					if err := f.WaitWatches(t.Hook); err != nil {
						return bad(i, "DIV/watch", err.Error())
					}
				}
				if xs := f.NewExecs(); len(xs) > 0 {
					return bad(i, "C06/unexpected-execution", fmt.Sprintf("hook %s was executed with %v for a task that must not run the hook (%s)", xs[0].Hook, execCtxs(&xs[0]), brief([]specTask{t})))
				}
			}
		case "Finish":
			q := fmt.Sprint(a[1])
			ok, _ := a[2].(bool)
			prev := c.Steps[i-1]["run"].(map[string]interface{})[q].(map[string]interface{})
			t := toTask(prev["task"])
			finType = t.Type
			wantStatus := "Success"
			if id := execID[q]; id != "" {
				outcome := map[string]interface{}{"exit": 0}
				if !ok {
					if !t.Af {
						wantStatus = "Fail"
					}
					// the ways an execution can fail: exit code, unparsable metrics, unparsable patch, a patch that cannot be applied
					switch (n + i) % 4 {
					case 0:
						outcome["exit"] = 1
					case 1:
						outcome["metrics"] = `{"name":"m","action":"set","value": oops`
					case 2:
						outcome["patch"] = `{"operation":"NoSuchOperation","kind":"ConfigMap","name":"x"}`
					case 3:
						outcome["patch"] = `{"operation":"MergePatch","kind":"ConfigMap","namespace":"default","name":"does-not-exist","mergePatch":{"data":{"a":"b"}}}`
					}
				}
				f.FinishExec(id, outcome)
				delete(execID, q)
			}
			var status string
			var err error
			if st0, done := handled[q]; done {
				delete(handled, q)
				status = st0
				if shut {
					var id string
					id, err = f.DrainToExit(q, 5*time.Second)
					if err == nil && id != "" {
						return bad(i, "C17/start-after-shutdown", fmt.Sprintf("queue %s started task %s after Shutdown", q, id))
					}
				} else {
					err = f.WalkToTop(q)
				}
			} else if shut {
				status, err = f.WaitHandlerReturn(q, 8*time.Second)
				if err == nil {
					var id string
					id, err = f.DrainToExit(q, 5*time.Second)
					if err == nil && id != "" {
						return bad(i, "C17/start-after-shutdown", fmt.Sprintf("queue %s started task %s after its handler returned although Shutdown had been requested", q, id))
					}
				}
			} else {
				status, err = f.WaitHandled(q, 8*time.Second)
			}
			if err != nil {
				return bad(i, "DIV/steer/Finish", err.Error())
			}

			if status != wantStatus {
				sig := "C04/status"
				return bad(i, sig, fmt.Sprintf("queue %s task %s: hook ok=%v allowFailure=%v, task status %s, specification %s", q, brief([]specTask{t}), ok, t.Af, status, wantStatus))
			}
			if status == "Fail" {
				lastFail[q] = time.Now()
				// a free-running worker spends the back-off inside waitForTask's wait loop: put it there, so that what
				// happens during the back-off (tasks appended to the queue) meets a wait in progress
				if !shut {
					if err := f.WalkIntoWait(q); err != nil {
						return bad(i, "DIV/steer/Finish", err.Error())
					}
				}
			}
			delete(running, q)
		case "BackoffElapsed":
			// the delay is measured by the worker from the moment it re-enters waitForTask (at the next Pick)
		case "KubeEvent":
			hi, bj := int(a[1].(float64)), int(a[2].(float64))
			h := c.Hooks[hi-1]
			b := h.Kube[bj-1]
			if err := f.KubeEvent(h.Name, b.Name); err != nil {
				return bad(i, "DIV/kube-event", err.Error())
			}
			if d, _ := st["down"].(bool); d {
				time.Sleep(3 * time.Millisecond) // event handling is paused: nothing may happen
			}
		case "Tick":
			if _, err := f.Tick(fmt.Sprint(a[1])); err != nil {
				return bad(i, "DIV/tick", err.Error())
			}
		case "Shutdown":
			done := make(chan struct{})
			go func() { f.Op.Shutdown(); close(done) }()
			select {
			case <-done:
			case <-time.After(3 * time.Second):
				return bad(i, "DIV/shutdown", "Shutdown did not return")
			}
			shut = true
			// every worker that is not inside a handler must exit without starting anything
			for q, r := range st["run"].(map[string]interface{}) {
				if _, none := r.(map[string]interface{})["none"]; !none {
					continue
				}
				if _, parked := handled[q]; parked {
					continue
				}
				id, err := f.DrainToExit(q, 5*time.Second)
				if err != nil {
					return bad(i, "DIV/steer/Shutdown", err.Error())
				}
				if id != "" {
					return bad(i, "C17/start-after-shutdown", fmt.Sprintf("queue %s started task %s after Shutdown had returned", q, id))
				}
			}
		case "DebugRead":
			// what the debug endpoint does: dump the snapshots of every kubernetes binding of the hook
			if h := f.Op.HookManager.GetHook(fmt.Sprint(a[1])); h != nil {
				h.HookController.SnapshotsDump()
			}
		default:
			return bad(i, "DIV/unknown-action", op)
		}
		settle(f, c, st, 3*time.Second)
		actq := ""
		if (op == "Pick" || op == "Finish") && len(a) > 1 {
			actq = fmt.Sprint(a[1])
		}
		if all := classifyAll(op, actq, finType, specQueues(st), realQueues(f)); len(all) > 0 {
			// an Event task of a binding whose Synchronization has not completed yet is a statement of its own
			if early := earlyEvents(st, realQueues(f)); early != "" {
				all = append([]SigDet{{"C06/event-before-synchronization", early}, {"C01/event-before-synchronization", early}}, all...)
			}
			// ... and a Schedule task of a hook whose schedule bindings are not enabled yet (its Synchronizations come first)
			if op == "Tick" {
				if early := earlySchedule(st, realQueues(f)); early != "" {
					all = append([]SigDet{{"C06/schedule-task-before-enable", early}}, all...)
				}
			}
			// ... and so are Events still held back for a binding whose Synchronization has completed
			if held := heldAfterUnlock(st, f); held != "" {
				all = append(all, SigDet{"C01/held-back-after-unlock", held})
			}
			res.Also = all[1:]
			return bad(i, all[0].Sig, all[0].Detail+fmt.Sprintf(" (after %v)", a))
		}
		if bufm, ok := st["buffered"].(map[string]interface{}); ok {
			ms := st["mstate"].(map[string]interface{})
			for p, nn := range bufm {
				if fmt.Sprint(ms[p]) != "started" {
					continue
				}
				hb := strings.SplitN(p, "/", 2)
				if got := f.Buffered(hb[0], hb[1]); got >= 0 && got != int(nn.(float64)) {
					return bad(i, "C01/held-back-events", fmt.Sprintf("binding %s holds back %d Events, specification %d (after %v)", p, got, int(nn.(float64)), a))
				}
			}
		}
		if held := heldAfterUnlock(st, f); held != "" {
			return bad(i, "C01/held-back-after-unlock", held+fmt.Sprintf(" (after %v)", a))
		}
		// no two hook processes of one queue at the same time: by construction of the stepping, a second process
		// would have shown up as an unexpected execution
		if xs := f.NewExecs(); len(xs) > 0 {
			return bad(i, "C03/overlap-or-unexpected-execution", fmt.Sprintf("hook %s started with %v although no pick was scheduled (after %v)", xs[0].Hook, execCtxs(&xs[0]), a))
		}
	}
	return res
}

func main() {
	os.Setenv("QUEUE_ACTIONS_METRICS", "no")
	fs := flag.NewFlagSet("op", flag.ExitOnError)
	in := fs.String("in", "", "")
	out := fs.String("out", "", "")
	hookbin := fs.String("hookbin", "", "")
	runs := fs.Int("n", 10, "")
	seed := fs.Int64("seed", 1, "")
	if len(os.Args) < 2 || (os.Args[1] != "replay" && os.Args[1] != "stress") {
		fmt.Fprintln(os.Stderr, "usage: op replay -in f -out f -hookbin path | op stress -out f -hookbin path -n N -seed S")
		os.Exit(2)
	}
	fs.Parse(os.Args[2:])
	if os.Args[1] == "stress" {
		opfix.Knobs(initialDelay)
		log.SetDefault(log.NewNop())
		if err := cmdStress(*out, *hookbin, *runs, *seed); err != nil {
			fmt.Fprintln(os.Stderr, "op stress:", err)
			os.Exit(2)
		}
		return
	}
	fh, err := os.Open(*in)
	if err != nil {
		fmt.Fprintln(os.Stderr, err)
		os.Exit(2)
	}
	var cases []Case
	sc := bufio.NewScanner(fh)
	sc.Buffer(make([]byte, 1<<20), 1<<28)
	for sc.Scan() {
		var c Case
		if err := json.Unmarshal(sc.Bytes(), &c); err != nil {
			fmt.Fprintln(os.Stderr, err)
			os.Exit(2)
		}
		cases = append(cases, c)
	}
	if !supervise.IsChild() {
		err := supervise.Run(len(cases), *out, 60*time.Second, func(idx int, why string) interface{} {
			return Result{Case: idx, OK: false, Sig: "DIV/crash", Detail: why}
		})
		if err != nil {
			fmt.Fprintln(os.Stderr, "op:", err)
			os.Exit(2)
		}
		return
	}
	opfix.Knobs(initialDelay)
	log.SetDefault(log.NewNop())
	of, err := os.OpenFile(*out, os.O_APPEND|os.O_WRONLY|os.O_CREATE, 0o644)
	if err != nil {
		fmt.Fprintln(os.Stderr, err)
		os.Exit(2)
	}
	defer of.Close()
	for n := supervise.Skip(); n < len(cases); n++ {
		r := replayCase(n, cases[n], *hookbin)
		b, _ := json.Marshal(r)
		of.Write(append(b, '\n'))
	}
}
