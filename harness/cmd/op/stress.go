//go:build verif

package main

import (
	"bufio"
	"encoding/json"
	"fmt"
	"math/rand"
	"os"
	"path/filepath"
	"sort"
	"strings"
	"time"

	kem "github.com/flant/shell-operator/pkg/kube_events_manager"

	"verifharness/internal/opfix"
)

var stressHooks = []opfix.HookCfg{
	{Name: "a", Kube: []opfix.KubeB{{Name: "k1", Queue: "main", Sync: true}, {Name: "k2", Queue: "q1", Sync: true}}},
	{Name: "b", Kube: []opfix.KubeB{{Name: "k1", Queue: "q2", Sync: true}}},
	{Name: "c", Kube: []opfix.KubeB{{Name: "k1", Queue: "q3", Sync: true}, {Name: "k2", Queue: "q1", Sync: true}}},
}

type rec struct {
	t int64
	m map[string]interface{}
}

// cmdStress runs the real operator freely (no gates): bursts of objects for bindings in several queues, hook
// processes that succeed or fail according to a random plan (never two failures in a row), and writes the log of
// created objects and hook process starts/ends in real-time order for TLC (spec/Operator/OperatorLog.tla).
func cmdStress(out, hookbin string, runs int, seed int64) error {
	of, err := os.Create(out)
	if err != nil {
		return err
	}
	defer of.Close()
	w := bufio.NewWriter(of)
	defer w.Flush()
	rng := rand.New(rand.NewSource(seed))
	queueOf := map[string]string{}
	for _, h := range stressHooks {
		for _, k := range h.Kube {
			queueOf[h.Name+"/"+k.Name] = k.Queue
		}
	}
	for run := 0; run < runs; run++ {
		f, err := opfix.New(stressHooks, hookbin, "plan", false)
		if err != nil {
			if f != nil {
				f.Close()
			}
			return err
		}
		// plans: outcome per execution of each hook
		for _, h := range stressHooks {
			var plan []map[string]interface{}
			prevFail := true // the first executions are the Synchronizations: let them pass
			for k := 0; k < 400; k++ {
				o := map[string]interface{}{"exit": 0, "sleep_ms": rng.Intn(3)}
				if k > 3 && !prevFail && rng.Intn(4) == 0 {
					o["exit"] = 1
					prevFail = true
				} else {
					prevFail = false
				}
				plan = append(plan, o)
			}
			b, _ := json.Marshal(plan)
			os.WriteFile(filepath.Join(f.CtlDir, "plan", h.Name+".json"), b, 0o644)
		}
		if err := f.Bootstrap(false); err != nil {
			f.Close()
			return err
		}
		idle := func() bool {
			for _, l := range f.Queues() {
				if len(l) > 0 {
					return false
				}
			}
			return true
		}
		unlocked := func() bool {
			for _, h := range stressHooks {
				hk := f.Op.HookManager.GetHook(h.Name)
				if hk == nil {
					return false
				}
				for _, kc := range hk.GetConfig().OnKubernetesEvents {
					if !f.Op.KubeEventsManager.HasMonitor(kc.Monitor.Metadata.MonitorId) {
						return false
					}
					if _, en := kem.VerifBufferedEvents(f.Op.KubeEventsManager.GetMonitor(kc.Monitor.Metadata.MonitorId)); !en {
						return false
					}
				}
			}
			return true
		}
		deadline := time.Now().Add(20 * time.Second)
		for !(idle() && unlocked()) && time.Now().Before(deadline) {
			time.Sleep(time.Millisecond)
		}
		if !(idle() && unlocked()) {
			f.Close()
			return fmt.Errorf("run %d: the operator did not finish its start-up", run)
		}
		for _, h := range stressHooks {
			if err := f.WaitWatches(h.Name); err != nil {
				f.Close()
				return err
			}
		}
		var recs []rec
		recs = append(recs, rec{0, map[string]interface{}{"e": "reset", "run": run}})
		total := 15 + rng.Intn(35)
		keys := []string{"a/k1", "a/k2", "b/k1", "c/k1", "c/k2"}
		for n := 0; n < total; n++ {
			k := keys[rng.Intn(len(keys))]
			hb := strings.SplitN(k, "/", 2)
			name := fmt.Sprintf("cm-%d", n+1) // opfix names objects cm-<seq>
			recs = append(recs, rec{time.Now().UnixNano(), map[string]interface{}{"e": "ev", "k": k, "name": name}})
			if err := f.KubeEvent(hb[0], hb[1]); err != nil {
				f.Close()
				return err
			}
			if rng.Intn(3) == 0 {
				time.Sleep(time.Duration(rng.Intn(1500)) * time.Microsecond)
			}
		}
		// wait until everything is executed (a failed run is retried after the initial delay)
		deadline = time.Now().Add(30 * time.Second)
		quiet := 0
		for time.Now().Before(deadline) && quiet < 20 {
			if idle() {
				quiet++
			} else {
				quiet = 0
			}
			time.Sleep(2 * time.Millisecond)
		}
		// collect the hook process records
		ents, _ := os.ReadDir(filepath.Join(f.CtlDir, "exec"))
		starts := map[string]opfix.ExecStart{}
		for _, e := range ents {
			if strings.HasSuffix(e.Name(), ".start") {
				var s opfix.ExecStart
				b, _ := os.ReadFile(filepath.Join(f.CtlDir, "exec", e.Name()))
				if json.Unmarshal(b, &s) == nil {
					starts[s.ID] = s
				}
			}
		}
		for id, s := range starts {
			ctxs := []map[string]interface{}{}
			q := "main"
			for _, c := range s.Contexts {
				if t, _ := c["type"].(string); t == "Event" {
					b := fmt.Sprint(c["binding"])
					name := ""
					if o, ok := c["object"].(map[string]interface{}); ok {
						if md, ok := o["metadata"].(map[string]interface{}); ok {
							name = fmt.Sprint(md["name"])
						}
					}
					ctxs = append(ctxs, map[string]interface{}{"b": b, "name": name})
					q = queueOf[s.Hook+"/"+b]
				}
			}
			recs = append(recs, rec{s.Start, map[string]interface{}{"e": "start", "id": id, "hook": s.Hook, "q": q, "ctxs": ctxs}})
			var end struct {
				End  int64 `json:"end"`
				Exit int   `json:"exit"`
			}
			b, err := os.ReadFile(filepath.Join(f.CtlDir, "exec", id+".end"))
			if err == nil && json.Unmarshal(b, &end) == nil {
				recs = append(recs, rec{end.End, map[string]interface{}{"e": "end", "id": id, "hook": s.Hook, "q": q, "ctxs": ctxs, "exit": end.Exit}})
			}
		}
		sort.SliceStable(recs, func(i, j int) bool { return recs[i].t < recs[j].t })
		recs = append(recs, rec{1 << 62, map[string]interface{}{"e": "endrun", "run": run, "objects": total, "executions": len(starts)}})
		for _, r := range recs {
			b, _ := json.Marshal(r.m)
			w.Write(append(b, '\n'))
		}
		f.Close()
	}
	return nil
}
