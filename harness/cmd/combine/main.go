//go:build verif

// Command combine replays the layouts enumerated by spec/Operator/Combine.tla on the real
// CombineBindingContextForHook (exported twin) and combineBindingContextForHook (used by taskHandleHookRun).
package main

import (
	"bufio"
	"context"
	"encoding/json"
	"flag"
	"fmt"
	"os"
	"reflect"
	"time"

	"github.com/deckhouse/deckhouse/pkg/log"

	bctx "github.com/flant/shell-operator/pkg/hook/binding_context"
	"github.com/flant/shell-operator/pkg/hook/task_metadata"
	shell_operator "github.com/flant/shell-operator/pkg/shell-operator"
	"github.com/flant/shell-operator/pkg/task"
	"github.com/flant/shell-operator/pkg/task/queue"
	"github.com/flant/shell-operator/pkg/utils/exponential_backoff"
)

type Ctx struct {
	B string `json:"b"`
	G string `json:"g"`
}
type Task struct {
	Type string `json:"type"`
	Hook string `json:"hook"`
	Meta bool   `json:"meta"`
	Ctxs []Ctx  `json:"ctxs"`
	Mon  int    `json:"mon"`
	Stop bool   `json:"stop"`
}
type TCtx struct {
	T int    `json:"t"`
	J int    `json:"j"`
	G string `json:"g"`
}
type Res struct {
	Combined bool   `json:"combined"`
	Ctxs     []TCtx `json:"ctxs"`
	Mons     []int  `json:"mons"`
	Rest     []int  `json:"rest"`
}
type Case struct {
	Layout []Task `json:"layout"`
	Res    Res    `json:"res"`
}
type Out struct {
	Case   int    `json:"case"`
	OK     bool   `json:"ok"`
	Sig    string `json:"sig,omitempty"`
	Detail string `json:"detail,omitempty"`
}

func build(c Case) (*shell_operator.ShellOperator, *queue.TaskQueue, []task.Task) {
	op := shell_operator.NewShellOperator(context.Background(), shell_operator.WithLogger(log.NewNop()))
	op.TaskQueues = queue.NewTaskQueueSet()
	op.TaskQueues.WithContext(context.Background())
	op.TaskQueues.NewNamedQueue("main", nil)
	q := op.TaskQueues.GetByName("main")
	var ts []task.Task
	for i, t := range c.Layout {
		var nt *task.BaseTask
		if t.Type == "HookRun" {
			nt = task.NewTask(task_metadata.HookRun)
		} else {
			nt = task.NewTask(task_metadata.EnableKubernetesBindings)
		}
		nt.Id = fmt.Sprintf("t%d", i+1)
		nt.WithQueueName("main")
		if t.Meta {
			hm := task_metadata.HookMetadata{HookName: t.Hook}
			for j, cx := range t.Ctxs {
				bc := bctx.BindingContext{Binding: fmt.Sprintf("%d.%d", i+1, j+1)}
				bc.Metadata.Group = cx.G
				hm.BindingContext = append(hm.BindingContext, bc)
			}
			if t.Mon == 1 {
				hm.MonitorIDs = []string{fmt.Sprintf("m%d", i+1)}
			}
			nt.WithMetadata(hm)
		}
		q.AddLast(nt)
		ts = append(ts, nt)
	}
	return op, q, ts
}

// check runs one combination. withStop: the caller's stopCombineFn rejects the tasks marked `stop` in the layout, and
// while the combination is between its two critical sections (Iterate under the read lock, Filter under the write
// lock) another goroutine appends a task for the same hook: it must stay in the queue, unmerged, behind everything else.
func check(c Case, exported, withStop bool) (string, string) {
	op, q, ts := build(c)
	var r *shell_operator.CombineResult
	var perr interface{}
	appended := false
	done := make(chan struct{})
	var stop func(task.Task) bool
	if withStop {
		stops := map[string]bool{}
		for i, t := range c.Layout {
			if t.Stop {
				stops[fmt.Sprintf("t%d", i+1)] = true
			}
		}
		stop = func(t task.Task) bool {
			if !appended {
				appended = true
				started := make(chan struct{})
				go func() {
					nt := task.NewTask(task_metadata.HookRun)
					nt.Id = "t99"
					nt.WithQueueName("main")
					hm := task_metadata.HookMetadata{HookName: c.Layout[0].Hook}
					hm.BindingContext = append(hm.BindingContext, bctx.BindingContext{Binding: "99.1"})
					nt.WithMetadata(hm)
					close(started)
					q.AddLast(nt) // blocks until Iterate has released the read lock, then goes ahead of Filter's write lock
					close(done)
				}()
				<-started
				time.Sleep(300 * time.Microsecond)
			}
			return stops[t.GetId()]
		}
	}
	func() {
		defer func() { perr = recover() }()
		if exported {
			r = op.CombineBindingContextForHook(q, ts[0], stop)
		} else {
			r = op.VerifCombineStop(q, ts[0], stop)
		}
	}()
	if appended {
		select {
		case <-done:
		case <-time.After(2 * time.Second):
			return "DIV/append-never-finished", "AddLast started during the combination did not return"
		}
		c.Res.Rest = append(append([]int{}, c.Res.Rest...), 99)
	}
	which := "internal"
	if exported {
		which = "exported"
	}
	if withStop {
		which += "/stop+append"
	}
	if perr != nil {
		return "C07/panic/" + which, fmt.Sprint(perr)
	}
	// queue remainder
	var rest []int
	q.Iterate(func(t task.Task) {
		var n int
		fmt.Sscanf(t.GetId(), "t%d", &n)
		rest = append(rest, n)
	})
	if !reflect.DeepEqual(rest, c.Res.Rest) {
		return "C07/queue-remainder/" + which, fmt.Sprintf("tasks left in the queue %v, specification %v", rest, c.Res.Rest)
	}
	if !c.Res.Combined {
		if r != nil {
			return "C07/combined-nothing/" + which, fmt.Sprintf("a result was returned although no task follows for the same hook: %+v", r.BindingContexts)
		}
		return "", ""
	}
	if r == nil {
		return "C07/not-combined/" + which, "nil result although followers of the same hook and type exist"
	}
	var got []string
	for _, bc := range r.BindingContexts {
		got = append(got, bc.Binding+"/"+bc.Metadata.Group)
	}
	var want []string
	for _, x := range c.Res.Ctxs {
		want = append(want, fmt.Sprintf("%d.%d/%s", x.T, x.J, x.G))
	}
	if !reflect.DeepEqual(got, want) {
		return "C07/contexts/" + which, fmt.Sprintf("combined contexts %v, specification %v", got, want)
	}
	var wantM []string
	for _, m := range c.Res.Mons {
		wantM = append(wantM, fmt.Sprintf("m%d", m))
	}
	if !(len(r.MonitorIDs) == 0 && len(wantM) == 0) && !reflect.DeepEqual(r.MonitorIDs, wantM) {
		return "C07/monitor-ids/" + which, fmt.Sprintf("monitor ids %v, specification %v", r.MonitorIDs, wantM)
	}
	return "", ""
}

type BackoffCase struct {
	Initial int `json:"initial"`
	N       int `json:"n"`
	Lo      int `json:"lo"`
	Hi      int `json:"hi"`
}

// backoff samples the real delay computation (it has a random part) against the bounds of spec/Operator/Backoff.tla,
// both directly and through the back-off function a new queue is wired with.
func backoff(in, out string) error {
	f, err := os.Open(in)
	if err != nil {
		return err
	}
	of, _ := os.Create(out)
	w := bufio.NewWriter(of)
	defer func() { w.Flush(); of.Close() }()
	sc := bufio.NewScanner(f)
	n := 0
	for sc.Scan() {
		var c BackoffCase
		if err := json.Unmarshal(sc.Bytes(), &c); err != nil {
			return err
		}
		o := Out{Case: n, OK: true}
		initial := time.Duration(c.Initial) * time.Millisecond
		queue.DefaultInitialDelayOnFailedTask = initial
		q := queue.NewTasksQueue()
		for k := 0; k < 200 && o.OK; k++ {
			for which, d := range []time.Duration{exponential_backoff.CalculateDelay(initial, c.N), q.ExponentialBackoffFn(c.N)} {
				ms := int(d / time.Millisecond)
				if ms < c.Lo {
					o.OK, o.Sig = false, "C04/backoff-shorter-than-initial-delay"
					o.Detail = fmt.Sprintf("failure count %d, initial delay %s: delay %s (source %d: 0 = CalculateDelay, 1 = the queue's ExponentialBackoffFn)", c.N, initial, d, which)
				} else if ms > c.Hi {
					o.OK, o.Sig = false, "DIV/backoff-above-maximum"
					o.Detail = fmt.Sprintf("failure count %d, initial delay %s: delay %s", c.N, initial, d)
				}
			}
		}
		b, _ := json.Marshal(o)
		w.Write(append(b, '\n'))
		n++
	}
	return nil
}

func main() {
	os.Setenv("QUEUE_ACTIONS_METRICS", "no")
	in := flag.String("in", "", "")
	out := flag.String("out", "", "")
	mode := flag.String("mode", "combine", "combine | stop | backoff")
	flag.Parse()
	if *mode == "backoff" {
		if err := backoff(*in, *out); err != nil {
			fmt.Fprintln(os.Stderr, err)
			os.Exit(2)
		}
		return
	}
	f, err := os.Open(*in)
	if err != nil {
		fmt.Fprintln(os.Stderr, err)
		os.Exit(2)
	}
	of, _ := os.Create(*out)
	w := bufio.NewWriter(of)
	defer func() { w.Flush(); of.Close() }()
	sc := bufio.NewScanner(f)
	sc.Buffer(make([]byte, 1<<20), 1<<26)
	n := 0
	for sc.Scan() {
		var c Case
		if err := json.Unmarshal(sc.Bytes(), &c); err != nil {
			fmt.Fprintln(os.Stderr, err)
			os.Exit(2)
		}
		o := Out{Case: n, OK: true}
		for _, exported := range []bool{false, true} {
			if sig, d := check(c, exported, *mode == "stop"); sig != "" {
				o.OK, o.Sig, o.Detail = false, sig, d
				break
			}
		}
		b, _ := json.Marshal(o)
		w.Write(append(b, '\n'))
		n++
	}
}
