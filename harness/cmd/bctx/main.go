//go:build verif

// Command bctx binds spec/BindingContext to the real binding-context pipeline of shell-operator.
//
//	bctx run -in cases.jsonl -out results.jsonl [-hookdir DIR]
//
// Every input line is one case printed by TLC (configuration of one hook, objects existing before the hook starts,
// the steps that queue contexts, and the expected file computed by TLC) plus the concrete jq filters chosen for
// the abstract "jqFilter is set" option. The case is executed on the real code:
//
//	generated hook config -> config.LoadAndValidate -> controller.HookController with the real kube events manager
//	on a kube-client/fake cluster (real client-go informers) -> objects created / updated / deleted in the cluster,
//	the real informer produces the KubeEvent -> HandleKubeEvent / HandleEnableKubernetesBindings /
//	HandleScheduleEvent / HandleAdmissionEvent / HandleConversionEvent -> tasks in a real queue ->
//	ShellOperator.CombineBindingContextForHook -> HookController.UpdateSnapshots ->
//	ConvertBindingContextList(version, list).Json()
//	(with "file": true the last three steps are Hook.Run and the JSON is what a real hook process read from
//	$BINDING_CONTEXT_PATH).
//
// The JSON is parsed and compared key by key with the expectation; filterResult is compared with an independent
// gojq evaluation of the filter on the delivered object (on the object the harness put into the cluster when the
// full object is omitted).
package main

import (
	"bufio"
	"bytes"
	"context"
	"encoding/json"
	"flag"
	"fmt"
	"os"
	"path/filepath"
	"sort"
	"strings"
	"sync"
	"time"

	"github.com/deckhouse/deckhouse/pkg/log"
	"github.com/itchyny/gojq"
	admv1 "k8s.io/api/admission/v1"
	apixv1 "k8s.io/apiextensions-apiserver/pkg/apis/apiextensions/v1"
	metav1 "k8s.io/apimachinery/pkg/apis/meta/v1"
	"k8s.io/apimachinery/pkg/apis/meta/v1/unstructured"
	"k8s.io/apimachinery/pkg/runtime"
	"k8s.io/apimachinery/pkg/runtime/schema"
	"k8s.io/apimachinery/pkg/types"
	"k8s.io/apimachinery/pkg/watch"
	"k8s.io/client-go/dynamic"
	dynfake "k8s.io/client-go/dynamic/fake"
	clienttesting "k8s.io/client-go/testing"

	"github.com/flant/kube-client/fake"
	"github.com/flant/shell-operator/pkg/hook"
	bctx "github.com/flant/shell-operator/pkg/hook/binding_context"
	"github.com/flant/shell-operator/pkg/hook/config"
	"github.com/flant/shell-operator/pkg/hook/controller"
	"github.com/flant/shell-operator/pkg/hook/task_metadata"
	htypes "github.com/flant/shell-operator/pkg/hook/types"
	kem "github.com/flant/shell-operator/pkg/kube_events_manager"
	kemtypes "github.com/flant/shell-operator/pkg/kube_events_manager/types"
	metricstorage "github.com/flant/shell-operator/pkg/metric_storage"
	schedulemanager "github.com/flant/shell-operator/pkg/schedule_manager"
	shell_operator "github.com/flant/shell-operator/pkg/shell-operator"
	"github.com/flant/shell-operator/pkg/task"
	"github.com/flant/shell-operator/pkg/task/queue"
	"github.com/flant/shell-operator/pkg/webhook/admission"
	"github.com/flant/shell-operator/pkg/webhook/conversion"

	"verifharness/internal/supervise"
)

// ---------------------------------------------------------------------------------------------------------
// case format (see spec/BindingContext/BindingContext.tla, Emit)
// ---------------------------------------------------------------------------------------------------------

type KubeOpt struct {
	On    *bool  `json:"on"`
	Named bool   `json:"named"`
	Jq    string `json:"jq"`
	Keep  bool   `json:"keep"`
	Grp   string `json:"grp"`
	Inc   string `json:"inc"`
}

type OtherOpt struct {
	Kind  string `json:"kind"`
	Named bool   `json:"named"`
	Grp   string `json:"grp"`
	Inc   string `json:"inc"`
}

type Cfg struct {
	Ver   string   `json:"ver"`
	Main  KubeOpt  `json:"main"`
	Aux   KubeOpt  `json:"aux"`
	Other OtherOpt `json:"other"`
}

type Item struct {
	Name        string `json:"name"`
	State       string `json:"state"`
	HasObject   bool   `json:"hasObject"`
	HasFilter   bool   `json:"hasFilter"`
	FilterValue string `json:"filterValue"`
}

type Exp struct {
	Keys              []string        `json:"keys"`
	Binding           string          `json:"binding"`
	Type              string          `json:"type"`
	WatchEvent        string          `json:"watchEvent"`
	GroupName         string          `json:"groupName"`
	HasItem           bool            `json:"hasItem"`
	Item              Item            `json:"item"`
	Objects           []Item          `json:"objects"`
	Snapshots         json.RawMessage `json:"snapshots"` // {} of binding name -> []Item; TLC prints [] for the empty function
	FromVersion       string          `json:"fromVersion"`
	ToVersion         string          `json:"toVersion"`
	Review            string          `json:"review"`
	ResourceEvent     string          `json:"resourceEvent"`
	ResourceName      string          `json:"resourceName"`
	ResourceKind      string          `json:"resourceKind"`
	ResourceNamespace string          `json:"resourceNamespace"`
}

type Case struct {
	Id         int               `json:"id"`
	Cfg        Cfg               `json:"cfg"`
	Names      map[string]string `json:"names"`
	Init       map[string]string `json:"init"`
	Steps      [][]interface{}   `json:"steps"`
	Queued     int               `json:"queued"`
	Expect     []Exp             `json:"expect"`
	FilterMain string            `json:"filterMain"` // concrete jq expression used where cfg.main.jq != "none"
	FilterAux  string            `json:"filterAux"`
	File       bool              `json:"file"` // run a real hook process and read what it got in $BINDING_CONTEXT_PATH
}

type Extra struct {
	Sig    string `json:"sig"`
	Detail string `json:"detail"`
}

type Result struct {
	Case     int     `json:"case"`
	OK       bool    `json:"ok"`
	Sig      string  `json:"sig,omitempty"`
	Detail   string  `json:"detail,omitempty"`
	Skipped  string  `json:"skipped,omitempty"` // the case could not be steered (reason); no verdict
	Diverge  string  `json:"diverge,omitempty"` // behaviour outside C09 that differs from the model (array length)
	More     []Extra `json:"more,omitempty"`    // further distinct failures of the same case
	Contexts int     `json:"contexts"`
	Items    int     `json:"items"`   // object/filterResult pairs compared
	Filters  int     `json:"filters"` // filterResult values compared with the independent jq evaluation
	Rendered string  `json:"rendered,omitempty"`
	ViaFile  bool    `json:"via_file,omitempty"`
}

// ---------------------------------------------------------------------------------------------------------
// concrete world
// ---------------------------------------------------------------------------------------------------------

const (
	apiGroup   = "verif.example.com"
	apiVersion = "verif.example.com/v1"
	namespace  = "ns1"
	crontab    = "*/5 * * * *"
	convFrom   = "verif.example.com/v1alpha1"
	convTo     = "verif.example.com/v1"
	crdName    = "alphas.verif.example.com"
)

var kindOf = map[string]string{"main": "Alpha", "aux": "Beta"}
var gvrOf = map[string]schema.GroupVersionResource{
	"main": {Group: apiGroup, Version: "v1", Resource: "alphas"},
	"aux":  {Group: apiGroup, Version: "v1", Resource: "betas"},
}

func roleOfObj(name string) string {
	if strings.HasPrefix(name, "a") {
		return "main"
	}
	return "aux"
}

// concrete returns the object the harness puts into the cluster for abstract (name, state). Everything a filter of
// the catalogue looks at differs between s1 and s2, so a Modified event is never suppressed for an unchanged result.
func concrete(name, state string) *unstructured.Unstructured {
	n := int64(1)
	flag := true
	var maybe interface{}
	list := []interface{}{"x-" + state, int64(1)}
	if state == "s2" {
		n = 2
		flag = false
		maybe = "now-set"
		list = []interface{}{"x-" + state, int64(2), "more"}
	}
	return &unstructured.Unstructured{Object: map[string]interface{}{
		"apiVersion": apiVersion,
		"kind":       kindOf[roleOfObj(name)],
		"metadata": map[string]interface{}{
			"name":        name,
			"namespace":   namespace,
			"labels":      map[string]interface{}{"app": "verif", "rev": state},
			"annotations": map[string]interface{}{"verif/note": "object " + name},
		},
		"spec": map[string]interface{}{
			"rev":    state,
			"num":    n,
			"flag":   flag,
			"maybe":  maybe,
			"list":   list,
			"nested": map[string]interface{}{"deep": map[string]interface{}{"leaf": "leaf-" + state, "k": n}},
		},
		"status": map[string]interface{}{"phase": "Ready"},
	}}
}

func jsonRoundTrip(v interface{}) interface{} {
	b, err := json.Marshal(v)
	if err != nil {
		panic(err)
	}
	var out interface{}
	if err := json.Unmarshal(b, &out); err != nil {
		panic(err)
	}
	return out
}

func canon(v interface{}) string {
	b, _ := json.Marshal(jsonRoundTrip(v))
	return string(b)
}

// jqTruth evaluates expr on obj (a JSON-decoded value) with gojq, independently of pkg/filter/jq.
func jqTruth(expr string, obj interface{}) (interface{}, error) {
	q, err := gojq.Parse(expr)
	if err != nil {
		return nil, err
	}
	it := q.Run(jsonRoundTrip(obj))
	var outs []interface{}
	for {
		v, ok := it.Next()
		if !ok {
			break
		}
		if e, isErr := v.(error); isErr {
			return nil, e
		}
		outs = append(outs, v)
	}
	if len(outs) != 1 {
		return nil, fmt.Errorf("filter %q has %d outputs; the catalogue must contain single-output filters only", expr, len(outs))
	}
	return outs[0], nil
}

func jsonKind(v interface{}) string {
	switch v.(type) {
	case nil:
		return "null"
	case map[string]interface{}:
		return "object"
	case []interface{}:
		return "array"
	case string:
		return "string"
	case bool:
		return "boolean"
	default:
		return "number"
	}
}

// ---------------------------------------------------------------------------------------------------------
// hook config generation
// ---------------------------------------------------------------------------------------------------------

func includes(inc, self string, names map[string]string) []string {
	switch inc {
	case "self":
		return []string{names[self]}
	case "main":
		return []string{names["main"]}
	case "aux":
		return []string{names["aux"]}
	case "both":
		return []string{names["main"], names["aux"]}
	}
	return nil
}

func (c *Case) filterOf(role string) string {
	o := c.Cfg.Main
	f := c.FilterMain
	if role == "aux" {
		o = c.Cfg.Aux
		f = c.FilterAux
	}
	if o.Jq == "none" {
		return ""
	}
	return f
}

func (c *Case) hookConfig() []byte {
	cfg := c.Cfg
	m := map[string]interface{}{}
	if cfg.Ver == "v0" {
		k := map[string]interface{}{"kind": kindOf["main"], "event": []string{"add", "update", "delete"}}
		if cfg.Main.Named {
			k["name"] = c.Names["main"]
		}
		if f := c.filterOf("main"); f != "" {
			k["jqFilter"] = f
		}
		m["onKubernetesEvent"] = []interface{}{k}
		if cfg.Other.Kind == "schedule" {
			s := map[string]interface{}{"crontab": crontab}
			if cfg.Other.Named {
				s["name"] = c.Names["other"]
			}
			m["schedule"] = []interface{}{s}
		}
		if cfg.Other.Kind == "onStartup" {
			m["onStartup"] = 5
		}
		b, _ := json.Marshal(m)
		return b
	}
	m["configVersion"] = "v1"
	kube := func(role string, o KubeOpt, named bool) map[string]interface{} {
		k := map[string]interface{}{"apiVersion": apiVersion, "kind": kindOf[role]}
		if named {
			k["name"] = c.Names[role]
		}
		if f := c.filterOf(role); f != "" {
			k["jqFilter"] = f
		}
		if !o.Keep {
			k["keepFullObjectsInMemory"] = false
		}
		if o.Grp != "" {
			k["group"] = o.Grp
		}
		if inc := includes(o.Inc, role, c.Names); inc != nil {
			k["includeSnapshotsFrom"] = inc
		}
		return k
	}
	ks := []interface{}{kube("main", cfg.Main, cfg.Main.Named)}
	if cfg.Aux.On != nil && *cfg.Aux.On {
		ks = append(ks, kube("aux", cfg.Aux, true))
	}
	m["kubernetes"] = ks
	common := func(o OtherOpt, b map[string]interface{}) map[string]interface{} {
		if o.Grp != "" {
			b["group"] = o.Grp
		}
		if inc := includes(o.Inc, "other", c.Names); inc != nil {
			b["includeSnapshotsFrom"] = inc
		}
		return b
	}
	rules := []interface{}{map[string]interface{}{"apiGroups": []string{apiGroup}, "apiVersions": []string{"v1"},
		"operations": []string{"CREATE", "UPDATE"}, "resources": []string{"alphas"}, "scope": "Namespaced"}}
	switch cfg.Other.Kind {
	case "schedule":
		s := map[string]interface{}{"crontab": crontab}
		if cfg.Other.Named {
			s["name"] = c.Names["other"]
		}
		m["schedule"] = []interface{}{common(cfg.Other, s)}
	case "onStartup":
		m["onStartup"] = 5
	case "validating":
		m["kubernetesValidating"] = []interface{}{common(cfg.Other, map[string]interface{}{"name": c.Names["other"], "rules": rules})}
	case "mutating":
		m["kubernetesMutating"] = []interface{}{common(cfg.Other, map[string]interface{}{"name": c.Names["other"], "rules": rules})}
	case "conversion":
		m["kubernetesCustomResourceConversion"] = []interface{}{common(cfg.Other, map[string]interface{}{"name": c.Names["other"],
			"crdName": crdName, "conversions": []interface{}{map[string]interface{}{"fromVersion": convFrom, "toVersion": convTo}}})}
	}
	b, _ := json.Marshal(m)
	return b
}

// ---------------------------------------------------------------------------------------------------------
// the real pipeline
// ---------------------------------------------------------------------------------------------------------

type world struct {
	ctx     context.Context
	cancel  context.CancelFunc
	fc      *fake.Cluster
	dyn     *dynfake.FakeDynamicClient
	mgr     kem.KubeEventsManager
	hc      *config.HookConfig
	ctrl    *controller.HookController
	h       *hook.Hook
	op      *shell_operator.ShellOperator
	q       *queue.TaskQueue
	wmu     sync.Mutex
	watches map[string]int
	opened  []watch.Interface
	barrier int
}

const hookName = "verif-hook"
const queueName = "main"

var nop = log.NewNop()

func newWorld(c *Case, hookPath, tmpDir string) (*world, error) {
	w := &world{watches: map[string]int{}}
	w.ctx, w.cancel = context.WithCancel(context.Background())
	w.fc = fake.NewFakeCluster(fake.ClusterVersionV121)
	w.fc.RegisterCRD(apiGroup, "v1", "Alpha", true)
	w.fc.RegisterCRD(apiGroup, "v1", "Beta", true)
	dyn, ok := w.fc.Client.Dynamic().(*dynfake.FakeDynamicClient)
	if !ok {
		return nil, fmt.Errorf("fake cluster does not use the fake dynamic client")
	}
	w.dyn = dyn
	// The fake API server cannot resume a watch from a resource version: an object created between the informer's
	// list and its watch would be lost (a test-double artefact). Count established watches so that the harness
	// changes the cluster only after the informers really watch.
	dyn.PrependWatchReactor("*", func(action clienttesting.Action) (bool, watch.Interface, error) {
		gvr := action.GetResource()
		wi, err := dyn.Tracker().Watch(gvr, action.GetNamespace())
		if err == nil {
			w.wmu.Lock()
			w.watches[gvr.Resource]++
			w.opened = append(w.opened, wi)
			w.wmu.Unlock()
		}
		return true, wi, err
	})
	kem.DefaultFactoryStore.Reset()
	w.mgr = kem.NewKubeEventsManager(w.ctx, w.fc.Client, nop)
	mstor := metricstorage.NewMetricStorage(w.ctx, "verif_", true, nop)
	w.mgr.WithMetricStorage(mstor)

	w.h = hook.NewHook(hookName, hookPath, false, false, "", nop)
	if _, err := w.h.LoadConfig(c.hookConfig()); err != nil {
		return nil, fmt.Errorf("the generated hook config was rejected: %v", err)
	}
	w.h.WithTmpDir(tmpDir)
	w.hc = w.h.GetConfig()
	// as hook.Manager.loadHook does
	for _, v := range w.hc.KubernetesValidating {
		v.Webhook.UpdateIds("", v.BindingName)
	}
	for _, v := range w.hc.KubernetesMutating {
		v.Webhook.UpdateIds("", v.BindingName)
	}
	w.ctrl = controller.NewHookController()
	w.ctrl.InitKubernetesBindings(w.hc.OnKubernetesEvents, w.mgr, nop)
	w.ctrl.InitScheduleBindings(w.hc.Schedules, schedulemanager.NewScheduleManager(w.ctx, nop))
	cm := conversion.NewWebhookManager()
	cm.Settings = &conversion.WebhookSettings{}
	w.ctrl.InitConversionBindings(w.hc.KubernetesConversion, cm)
	am := admission.NewWebhookManager(w.fc.Client)
	am.Settings = &admission.WebhookSettings{ConfigurationName: "verif"}
	am.DefaultConfigurationId = admission.DefaultConfigurationId
	w.ctrl.InitAdmissionBindings(w.hc.KubernetesValidating, w.hc.KubernetesMutating, am)
	w.h.WithHookController(w.ctrl)

	w.op = &shell_operator.ShellOperator{}
	w.op.MetricStorage = mstor
	w.op.TaskQueues = queue.NewTaskQueueSet().WithMetricStorage(mstor)
	w.op.TaskQueues.WithContext(w.ctx)
	w.op.TaskQueues.NewNamedQueue(queueName, nil)
	w.q = w.op.TaskQueues.GetByName(queueName)
	return w, nil
}

// close stops the monitors and waits until the informers have really stopped watching: the factory store stops an
// informer asynchronously, and the next case resets the store -- an informer that has not been stopped by then would run
// (and hold its cluster) for the rest of the process.
func (w *world) close() {
	if w.ctrl != nil {
		w.ctrl.StopMonitors()
	}
	w.cancel()
	deadline := time.Now().Add(2 * time.Second)
	for time.Now().Before(deadline) {
		open := 0
		w.wmu.Lock()
		for _, wi := range w.opened {
			if f, ok := wi.(*watch.RaceFreeFakeWatcher); ok && !f.IsStopped() {
				open++
			}
		}
		w.wmu.Unlock()
		if open == 0 {
			return
		}
		time.Sleep(20 * time.Microsecond)
	}
}

func (w *world) res(role string) dynamic.ResourceInterface {
	return w.dyn.Resource(gvrOf[role]).Namespace(namespace)
}

func (w *world) enqueue(bt htypes.BindingType, info controller.BindingExecutionInfo) {
	t := task.NewTask(task_metadata.HookRun)
	t.WithMetadata(task_metadata.HookMetadata{
		HookName:       hookName,
		Binding:        info.Binding,
		Group:          info.Group,
		BindingType:    bt,
		BindingContext: info.BindingContext,
		AllowFailure:   info.AllowFailure,
	})
	t.WithQueueName(queueName)
	w.q.AddLast(t)
}

func isBarrier(ev kemtypes.KubeEvent) bool {
	for _, o := range ev.Objects {
		if strings.Contains(o.Metadata.ResourceId, "zz-barrier-") {
			return true
		}
	}
	return false
}

// next returns the next kube event within d, or false.
func (w *world) next(d time.Duration) (kemtypes.KubeEvent, bool) {
	select {
	case ev := <-w.mgr.Ch():
		return ev, true
	case <-time.After(d):
		return kemtypes.KubeEvent{}, false
	}
}

// flush creates and deletes a marker object of the role's kind and returns every other event the role's informer
// delivered before the marker's own events: informer notifications are FIFO, so afterwards nothing caused by earlier
// changes of that kind is still on its way and the informer cache is current.
func (w *world) flush(role string) ([]kemtypes.KubeEvent, error) {
	w.barrier++
	name := fmt.Sprintf("zz-barrier-%d", w.barrier)
	marker := &unstructured.Unstructured{Object: map[string]interface{}{"apiVersion": apiVersion, "kind": kindOf[role],
		"metadata": map[string]interface{}{"name": name, "namespace": namespace}, "spec": map[string]interface{}{"rev": name}}}
	var got []kemtypes.KubeEvent
	if _, err := w.res(role).Create(w.ctx, marker, metav1.CreateOptions{}); err != nil {
		return nil, err
	}
	wait := func(what kemtypes.WatchEventType) error {
		deadline := time.Now().Add(10 * time.Second)
		for {
			ev, ok := w.next(time.Until(deadline))
			if !ok {
				return fmt.Errorf("marker event %s of %s did not arrive within 10s", what, name)
			}
			if isBarrier(ev) {
				if len(ev.WatchEvents) == 1 && ev.WatchEvents[0] == what {
					return nil
				}
				continue
			}
			got = append(got, ev)
		}
	}
	if err := wait(kemtypes.WatchEventAdded); err != nil {
		return got, err
	}
	if err := w.res(role).Delete(w.ctx, name, metav1.DeleteOptions{}); err != nil {
		return got, err
	}
	if err := wait(kemtypes.WatchEventDeleted); err != nil {
		return got, err
	}
	return got, nil
}

func (w *world) waitWatches(roles []string) error {
	deadline := time.Now().Add(10 * time.Second)
	for {
		ok := true
		w.wmu.Lock()
		for _, r := range roles {
			if w.watches[gvrOf[r].Resource] < 1 {
				ok = false
			}
		}
		w.wmu.Unlock()
		if ok {
			return nil
		}
		if time.Now().After(deadline) {
			return fmt.Errorf("informers did not start watching within 10s")
		}
		time.Sleep(50 * time.Microsecond)
	}
}

type steerError struct{ why string }

func (e steerError) Error() string { return e.why }

// run executes the steps of the case and returns the JSON the hook gets.
func (w *world) run(c *Case) (data []byte, viaFile bool, err error) {
	roles := []string{"main"}
	if c.Cfg.Aux.On != nil && *c.Cfg.Aux.On {
		roles = append(roles, "aux")
	}
	// objects existing before the hook starts
	names := make([]string, 0, len(c.Init))
	for n := range c.Init {
		names = append(names, n)
	}
	sort.Strings(names)
	for _, n := range names {
		if st := c.Init[n]; st != "absent" {
			if _, err := w.res(roleOfObj(n)).Create(w.ctx, concrete(n, st), metav1.CreateOptions{}); err != nil {
				return nil, false, err
			}
		}
	}
	var lastType htypes.BindingType = htypes.OnKubernetesEvent
	suppressed := 0
	// A Tick / Request step that comes before any Enable step: the schedule / webhook bindings are enabled (as
	// ShellOperator does independently of the kubernetes bindings), the kubernetes bindings are not - no monitor exists.
	othersEnabled := false
	enableOthers := func() {
		if !othersEnabled {
			w.ctrl.EnableScheduleBindings()
			w.ctrl.EnableConversionBindings()
			w.ctrl.EnableAdmissionBindings()
			othersEnabled = true
		}
	}
	for _, st := range c.Steps {
		op := fmt.Sprint(st[0])
		switch op {
		case "StartUp":
			// as ShellOperator.bootstrapMainQueue does
			bc := bctx.BindingContext{Binding: string(htypes.OnStartup)}
			bc.Metadata.BindingType = htypes.OnStartup
			w.enqueue(htypes.OnStartup, controller.BindingExecutionInfo{BindingContext: []bctx.BindingContext{bc}, Binding: bc.Binding})
			lastType = htypes.OnStartup
		case "Enable":
			sel := map[string]bool{}
			if l, ok := st[1].([]interface{}); ok {
				for _, x := range l {
					sel[fmt.Sprint(x)] = true
				}
			}
			enableOthers()
			err := w.ctrl.HandleEnableKubernetesBindings(func(info controller.BindingExecutionInfo) {
				for role := range sel {
					if info.Binding == c.Names[role] {
						w.enqueue(htypes.OnKubernetesEvent, info)
					}
				}
			})
			if err != nil {
				return nil, false, err
			}
			w.ctrl.UnlockKubernetesEvents()
			if err := w.waitWatches(roles); err != nil {
				return nil, false, err
			}
		case "Add", "Mod", "Del":
			name, state := fmt.Sprint(st[1]), fmt.Sprint(st[2])
			role := roleOfObj(name)
			var err error
			switch op {
			case "Add":
				_, err = w.res(role).Create(w.ctx, concrete(name, state), metav1.CreateOptions{})
			case "Mod":
				_, err = w.res(role).Update(w.ctx, concrete(name, state), metav1.UpdateOptions{})
			case "Del":
				err = w.res(role).Delete(w.ctx, name, metav1.DeleteOptions{})
			}
			if err != nil {
				return nil, false, err
			}
			// every event the change caused has arrived when the marker's events have (FIFO per informer)
			evs, err := w.flush(role)
			if err != nil {
				return nil, false, err
			}
			if len(evs) == 0 {
				suppressed++
			}
			for _, ev := range evs {
				w.ctrl.HandleKubeEvent(ev, func(info controller.BindingExecutionInfo) { w.enqueue(htypes.OnKubernetesEvent, info) })
			}
		case "Tick":
			enableOthers()
			w.ctrl.HandleScheduleEvent(crontab, func(info controller.BindingExecutionInfo) { w.enqueue(htypes.Schedule, info) })
		case "Request":
			enableOthers()
			switch c.Cfg.Other.Kind {
			case "validating", "mutating":
				bt := htypes.KubernetesValidating
				var confID, hookID string
				if c.Cfg.Other.Kind == "validating" {
					confID, hookID = w.hc.KubernetesValidating[0].Webhook.Metadata.ConfigurationId, w.hc.KubernetesValidating[0].Webhook.Metadata.WebhookId
				} else {
					bt = htypes.KubernetesMutating
					confID, hookID = w.hc.KubernetesMutating[0].Webhook.Metadata.ConfigurationId, w.hc.KubernetesMutating[0].Webhook.Metadata.WebhookId
				}
				raw, _ := json.Marshal(concrete("a9", "s1").Object)
				ev := admission.Event{WebhookId: hookID, ConfigurationId: confID, Request: &admv1.AdmissionRequest{
					UID: types.UID("uid-verif-1"), Name: "a9", Namespace: namespace, Operation: admv1.Create,
					Kind:     metav1.GroupVersionKind{Group: apiGroup, Version: "v1", Kind: "Alpha"},
					Resource: metav1.GroupVersionResource{Group: apiGroup, Version: "v1", Resource: "alphas"},
					Object:   runtime.RawExtension{Raw: raw}}}
				if !w.ctrl.CanHandleAdmissionEvent(ev) {
					return nil, false, fmt.Errorf("the hook controller does not accept the admission event %s/%s", confID, hookID)
				}
				w.ctrl.HandleAdmissionEvent(ev, func(info controller.BindingExecutionInfo) { w.enqueue(bt, info) })
				lastType = bt
			case "conversion":
				raw, _ := json.Marshal(concrete("a9", "s1").Object)
				req := &apixv1.ConversionRequest{UID: types.UID("uid-verif-2"), DesiredAPIVersion: convTo, Objects: []runtime.RawExtension{{Raw: raw}}}
				rule := conversion.Rule{FromVersion: convFrom, ToVersion: convTo}
				if !w.ctrl.CanHandleConversionEvent(crdName, req, rule) {
					return nil, false, fmt.Errorf("the hook controller does not accept the conversion event")
				}
				w.ctrl.HandleConversionEvent(crdName, req, rule, func(info controller.BindingExecutionInfo) { w.enqueue(htypes.KubernetesConversion, info) })
				lastType = htypes.KubernetesConversion
			}
		default:
			return nil, false, fmt.Errorf("unknown step %v", st)
		}
	}
	if suppressed > 0 {
		return nil, false, steerError{fmt.Sprintf("%d cluster change(s) produced no kube event (suppressed by the informer)", suppressed)}
	}

	// what the task handler does with the head task of the queue
	head := w.q.GetFirst()
	if head == nil {
		return nil, false, steerError{"no task was queued"}
	}
	list := task_metadata.HookMetadataAccessor(head).BindingContext
	if comb := w.op.CombineBindingContextForHook(w.q, head, nil); comb != nil {
		list = comb.BindingContexts
	}
	if c.File {
		out := filepath.Join(w.h.TmpDir, fmt.Sprintf("seen-%d.json", c.Id))
		os.Setenv("VERIF_BCTX_OUT", out)
		defer os.Remove(out)
		if _, err := w.h.Run(lastType, list, map[string]string{}); err != nil {
			return nil, true, fmt.Errorf("hook run failed: %v", err)
		}
		data, err := os.ReadFile(out)
		if err != nil {
			return nil, true, fmt.Errorf("the hook process left no copy of its binding context: %v", err)
		}
		return data, true, nil
	}
	list = w.ctrl.UpdateSnapshots(list)
	data, err = bctx.ConvertBindingContextList(w.hc.Version, list).Json()
	return data, false, err
}

// ---------------------------------------------------------------------------------------------------------
// oracle
// ---------------------------------------------------------------------------------------------------------

type verdict struct {
	sigs    []string
	details []string
	items   int
	filters int
}

func (v *verdict) fail(sig, detail string) {
	for _, s := range v.sigs {
		if s == sig {
			return
		}
	}
	v.sigs = append(v.sigs, sig)
	v.details = append(v.details, detail)
}

func typeLabel(e Exp, ver string) string {
	if ver == "v0" {
		if e.ResourceEvent != "-" {
			return "v0Event"
		}
		return "v0"
	}
	if e.Type == "-" {
		return "onStartup"
	}
	return e.Type
}

// checkItem compares one object/filterResult pair. where = Event | objects | snapshots.
func (c *Case) checkItem(v *verdict, where, tl, role string, want Item, got map[string]interface{}) {
	v.items++
	obj, hasObj := got["object"]
	fr, hasFr := got["filterResult"]
	for k := range got {
		if k != "object" && k != "filterResult" {
			v.fail(fmt.Sprintf("C09/%s/%s/extra-key:%s", tl, where, k), fmt.Sprintf("item of %s has the undocumented key %q", where, k))
		}
	}
	if hasObj != want.HasObject {
		if hasObj {
			v.fail(fmt.Sprintf("C09/%s/%s/object-kept-without-keepFullObjectsInMemory", tl, where),
				fmt.Sprintf("binding %s has keepFullObjectsInMemory=false but the %s item of %s carries the full object", c.Names[role], where, want.Name))
		} else {
			v.fail(fmt.Sprintf("C09/%s/%s/object-missing", tl, where),
				fmt.Sprintf("binding %s keeps full objects but the %s item of %s has no `object`", c.Names[role], where, want.Name))
		}
	}
	truthObj := jsonRoundTrip(concrete(want.Name, want.State).Object)
	if hasObj && want.HasObject {
		if canon(obj) != canon(truthObj) {
			v.fail(fmt.Sprintf("C09/%s/%s/object-state", tl, where),
				fmt.Sprintf("%s must show %s in state %s (%s), got %s", where, want.Name, want.State, canon(truthObj), canon(obj)))
		}
	}
	if hasFr != want.HasFilter {
		if hasFr {
			v.fail(fmt.Sprintf("C09/%s/%s/filterResult-without-jqFilter", tl, where),
				fmt.Sprintf("binding %s has no jqFilter but the %s item carries filterResult %s", c.Names[role], where, canon(fr)))
		} else {
			v.fail(fmt.Sprintf("C09/%s/%s/filterResult-missing", tl, where),
				fmt.Sprintf("binding %s has jqFilter %q but the %s item of %s has no filterResult", c.Names[role], c.filterOf(role), where, want.Name))
		}
	}
	if hasFr && want.HasFilter {
		v.filters++
		expr := c.filterOf(role)
		base := truthObj
		if hasObj {
			base = obj // "the result of jq execution with specified jqFilter on the above mentioned object"
		}
		truth, err := jqTruth(expr, base)
		if err != nil {
			v.fail("INFRA/jq", err.Error())
			return
		}
		if canon(fr) != canon(truth) {
			kind := jsonKind(jsonRoundTrip(truth))
			detail := fmt.Sprintf("jqFilter %q on %s (state %s) yields %s, %s shows filterResult %s", expr, want.Name, want.State, canon(truth), where, canon(fr))
			switch {
			case fr == nil && kind != "null":
				v.fail(fmt.Sprintf("C09/filterResult/null-instead-of-%s-result", kind), detail)
			case kind != "object" && canon(fr) == "{}":
				v.fail(fmt.Sprintf("C09/filterResult/empty-object-instead-of-%s-result", kind), detail)
			default:
				// is it the result for the other state of the object?
				other := "s1"
				if want.State == "s1" {
					other = "s2"
				}
				if t2, err := jqTruth(expr, jsonRoundTrip(concrete(want.Name, other).Object)); err == nil && canon(t2) == canon(fr) {
					v.fail(fmt.Sprintf("C09/%s/%s/filterResult-of-another-object-state", tl, where), detail)
				} else {
					v.fail(fmt.Sprintf("C09/%s/%s/filterResult-differs/%s", tl, where, kind), detail)
				}
			}
		}
	}
}

func itemKey(c *Case, role string, it Item) string {
	// identify an item by what is visible of it
	parts := []string{}
	if it.HasObject {
		parts = append(parts, "o:"+canon(concrete(it.Name, it.State).Object))
	}
	if it.HasFilter {
		t, err := jqTruth(c.filterOf(role), jsonRoundTrip(concrete(it.Name, it.State).Object))
		if err == nil {
			parts = append(parts, "f:"+canon(t))
		}
	}
	return strings.Join(parts, "|")
}

func gotKey(m map[string]interface{}) (string, string) {
	o, f := "", ""
	if v, ok := m["object"]; ok {
		o = "o:" + canon(v)
	}
	if v, ok := m["filterResult"]; ok {
		f = "f:" + canon(v)
	}
	return o, f
}

// checkList compares a list of items (objects of a Synchronization, one snapshot) as a multiset: the order is not
// part of C09. Items are matched by object when it is shown, else by filterResult, else by count.
func (c *Case) checkList(v *verdict, where, tl, role string, want []Item, gotRaw interface{}) {
	arr, ok := gotRaw.([]interface{})
	if !ok {
		v.fail(fmt.Sprintf("C09/%s/%s/not-an-array", tl, where), fmt.Sprintf("%s must be a JSON array (empty when there are no objects), got %s", where, canon(gotRaw)))
		return
	}
	if len(arr) != len(want) {
		v.fail(fmt.Sprintf("C09/%s/%s/object-count", tl, where), fmt.Sprintf("%s of binding %s must list %d object(s) (%v), got %d: %s",
			where, c.Names[role], len(want), want, len(arr), canon(gotRaw)))
		return
	}
	used := make([]bool, len(arr))
	gots := make([]map[string]interface{}, len(arr))
	for i, x := range arr {
		m, ok := x.(map[string]interface{})
		if !ok {
			v.fail(fmt.Sprintf("C09/%s/%s/item-not-an-object", tl, where), canon(x))
			return
		}
		gots[i] = m
	}
	sort.Slice(want, func(i, j int) bool { return want[i].Name < want[j].Name })
	for _, it := range want {
		// prefer the entry whose object names the same object; else the first unused one with an equal
		// filterResult; else the first unused one
		pick := -1
		for pass := 0; pass < 3 && pick < 0; pass++ {
			for i, g := range gots {
				if used[i] {
					continue
				}
				switch pass {
				case 0:
					if o, ok := g["object"].(map[string]interface{}); ok {
						if md, ok := o["metadata"].(map[string]interface{}); ok && md["name"] == it.Name {
							pick = i
						}
					}
				case 1:
					if it.HasFilter {
						if t, err := jqTruth(c.filterOf(role), jsonRoundTrip(concrete(it.Name, it.State).Object)); err == nil {
							if f, ok := g["filterResult"]; ok && canon(f) == canon(t) {
								pick = i
							}
						}
					}
				case 2:
					pick = i
				}
				if pick >= 0 {
					break
				}
			}
		}
		used[pick] = true
		c.checkItem(v, where, tl, role, it, gots[pick])
	}
}

func (c *Case) roleByName(name string) string {
	for _, r := range []string{"main", "aux"} {
		if c.Names[r] == name {
			return r
		}
	}
	return ""
}

func (c *Case) check(data []byte) (*verdict, string) {
	v := &verdict{}
	var arr []map[string]interface{}
	dec := json.NewDecoder(bytes.NewReader(data))
	if err := dec.Decode(&arr); err != nil {
		v.fail("C09/file/not-a-json-array", fmt.Sprintf("%v: %.300s", err, data))
		return v, ""
	}
	if len(arr) != len(c.Expect) {
		// the number of contexts is the business of combining/compaction (C07), not of C09
		types := []string{}
		for _, m := range arr {
			types = append(types, fmt.Sprintf("%v/%v", m["binding"], m["type"]))
		}
		return v, fmt.Sprintf("the file has %d contexts %v, the model expects %d", len(arr), types, len(c.Expect))
	}
	for i, e := range c.Expect {
		got := arr[i]
		tl := typeLabel(e, c.Cfg.Ver)
		wantKeys := map[string]bool{}
		for _, k := range e.Keys {
			wantKeys[k] = true
		}
		for k := range wantKeys {
			if _, ok := got[k]; !ok {
				v.fail(fmt.Sprintf("C09/%s/missing-key:%s", tl, k), fmt.Sprintf("context %d (%s of binding %s) lacks %q: %s", i, tl, e.Binding, k, short(got)))
			}
		}
		for k := range got {
			if !wantKeys[k] {
				v.fail(fmt.Sprintf("C09/%s/extra-key:%s", tl, k), fmt.Sprintf("context %d (%s of binding %s) carries %q which the contract does not give it: %s", i, tl, e.Binding, k, short(got)))
			}
		}
		str := func(key, want string) {
			if !wantKeys[key] {
				return
			}
			if g, ok := got[key]; ok && g != want {
				v.fail(fmt.Sprintf("C09/%s/value:%s", tl, key), fmt.Sprintf("context %d: %s must be %q, got %s", i, key, want, canon(g)))
			}
		}
		str("binding", e.Binding)
		str("type", e.Type)
		str("watchEvent", e.WatchEvent)
		str("groupName", e.GroupName)
		if wantKeys["fromVersion"] {
			str("fromVersion", convFrom)
			str("toVersion", convTo)
		}
		if c.Cfg.Ver == "v0" && wantKeys["resourceEvent"] {
			str("resourceEvent", e.ResourceEvent)
			str("resourceName", e.ResourceName)
			str("resourceKind", kindOf["main"])
			str("resourceNamespace", namespace)
		}
		if wantKeys["review"] {
			if rv, ok := got["review"].(map[string]interface{}); ok {
				req, _ := rv["request"].(map[string]interface{})
				wantUID := "uid-verif-1"
				if e.Review == "conversion" {
					wantUID = "uid-verif-2"
				}
				if req == nil || req["uid"] != wantUID {
					v.fail(fmt.Sprintf("C09/%s/value:review", tl), fmt.Sprintf("review.request must be the request that arrived (uid %s), got %s", wantUID, short(rv)))
				} else if e.Review == "admission" {
					if o, _ := req["object"].(map[string]interface{}); canon(o) != canon(concrete("a9", "s1").Object) {
						v.fail(fmt.Sprintf("C09/%s/value:review", tl), "review.request.object is not the object of the request: "+short(rv))
					}
				} else {
					objs, _ := req["objects"].([]interface{})
					if len(objs) != 1 || canon(objs[0]) != canon(concrete("a9", "s1").Object) || req["desiredAPIVersion"] != convTo {
						v.fail(fmt.Sprintf("C09/%s/value:review", tl), "review.request does not carry the objects / desiredAPIVersion of the request: "+short(rv))
					}
				}
			} else if _, present := got["review"]; present {
				v.fail(fmt.Sprintf("C09/%s/value:review", tl), "review is not an object: "+canon(got["review"]))
			}
		}
		if e.HasItem {
			c.checkItem(v, "Event", tl, c.roleByName(e.Binding), e.Item, pick(got, "object", "filterResult"))
		}
		if wantKeys["objects"] {
			if g, ok := got["objects"]; ok {
				c.checkList(v, "objects", tl, c.roleByName(e.Binding), e.Objects, g)
			}
		}
		if wantKeys["snapshots"] {
			if g, ok := got["snapshots"]; ok {
				want := map[string][]Item{}
				if err := json.Unmarshal(e.Snapshots, &want); err != nil {
					v.fail("INFRA/case", "snapshots expectation: "+err.Error())
					continue
				}
				gm, ok := g.(map[string]interface{})
				if !ok {
					v.fail(fmt.Sprintf("C09/%s/snapshots/not-an-object", tl), canon(g))
					continue
				}
				for b := range want {
					if _, ok := gm[b]; !ok {
						v.fail(fmt.Sprintf("C09/%s/snapshots/missing-binding", tl), fmt.Sprintf("snapshots of %s must have the key %q (includeSnapshotsFrom / group), has %v", e.Binding, b, keysOf(gm)))
					}
				}
				for b, gl := range gm {
					wl, ok := want[b]
					if !ok {
						v.fail(fmt.Sprintf("C09/%s/snapshots/extra-binding", tl), fmt.Sprintf("snapshots of %s has the key %q which is neither included nor in its group", e.Binding, b))
						continue
					}
					c.checkList(v, "snapshots", tl, c.roleByName(b), wl, gl)
				}
			}
		}
	}
	return v, ""
}

func pick(m map[string]interface{}, keys ...string) map[string]interface{} {
	out := map[string]interface{}{}
	for _, k := range keys {
		if v, ok := m[k]; ok {
			out[k] = v
		}
	}
	return out
}

func keysOf(m map[string]interface{}) []string {
	out := []string{}
	for k := range m {
		out = append(out, k)
	}
	sort.Strings(out)
	return out
}

func short(v interface{}) string {
	s := canon(v)
	if len(s) > 700 {
		s = s[:700] + "..."
	}
	return s
}

// ---------------------------------------------------------------------------------------------------------

func runCase(c *Case, hookPath, tmpDir string) Result {
	r := Result{Case: c.Id, Contexts: len(c.Expect)}
	w, err := newWorld(c, hookPath, tmpDir)
	if err != nil {
		r.Sig, r.Detail = "INFRA/setup", err.Error()
		return r
	}
	defer w.close()
	data, viaFile, err := w.run(c)
	r.ViaFile = viaFile
	if err != nil {
		if se, ok := err.(steerError); ok {
			r.OK, r.Skipped = true, se.why
			return r
		}
		r.Sig, r.Detail = "INFRA/run", err.Error()
		return r
	}
	v, diverge := c.check(data)
	r.Items, r.Filters = v.items, v.filters
	if diverge != "" {
		r.OK, r.Diverge = true, diverge
		return r
	}
	if len(v.sigs) == 0 {
		r.OK = true
		return r
	}
	r.Sig, r.Detail = v.sigs[0], v.details[0]
	for i := 1; i < len(v.sigs); i++ {
		r.More = append(r.More, Extra{v.sigs[i], v.details[i]})
	}
	r.Rendered = string(data)
	if len(r.Rendered) > 6000 {
		r.Rendered = r.Rendered[:6000] + "..."
	}
	return r
}

func readCases(path string) ([]*Case, error) {
	f, err := os.Open(path)
	if err != nil {
		return nil, err
	}
	defer f.Close()
	var out []*Case
	sc := bufio.NewScanner(f)
	sc.Buffer(make([]byte, 1<<20), 1<<28)
	for sc.Scan() {
		line := bytes.TrimSpace(sc.Bytes())
		if len(line) == 0 {
			continue
		}
		c := &Case{}
		if err := json.Unmarshal(line, c); err != nil {
			return nil, fmt.Errorf("case %d: %v", len(out), err)
		}
		out = append(out, c)
	}
	return out, sc.Err()
}

func main() {
	os.Setenv("QUEUE_ACTIONS_METRICS", "no")
	kem.DefaultSyncTime = time.Microsecond
	log.SetDefaultLevel(log.LevelFatal)
	if len(os.Args) < 2 || os.Args[1] != "run" {
		fmt.Fprintln(os.Stderr, "usage: bctx run -in cases.jsonl -out results.jsonl -work DIR")
		os.Exit(2)
	}
	fs := flag.NewFlagSet("run", flag.ExitOnError)
	in := fs.String("in", "", "cases")
	out := fs.String("out", "", "results")
	work := fs.String("work", "", "scratch directory for the recording hook and its temporary files")
	fs.Parse(os.Args[2:])
	cases, err := readCases(*in)
	if err != nil {
		fmt.Fprintln(os.Stderr, err)
		os.Exit(2)
	}
	if !supervise.IsChild() {
		err := supervise.Run(len(cases), *out, 60*time.Second, func(idx int, why string) interface{} {
			r := Result{Case: -1, Sig: "C09/crash", Detail: why}
			if idx < len(cases) {
				r.Case = cases[idx].Id
				r.Contexts = len(cases[idx].Expect)
				switch {
				case strings.Contains(why, "no progress"):
					r.Sig = "INFRA/hang"
				case !strings.Contains(why, "panic:") && !strings.Contains(why, "fatal error:") && !strings.Contains(why, "goroutine "):
					// killed from outside (e.g. by the kernel's OOM killer): nothing the code under test did
					r.Sig = "INFRA/child-killed"
				case strings.Contains(why, "BindingContext.MapV0"):
					r.Sig = "C09/crash/MapV0"
				case strings.Contains(why, "BindingContext.MapV1"), strings.Contains(why, "ObjectAndFilterResult"):
					r.Sig = "C09/crash/MapV1"
				}
			}
			return r
		})
		if err != nil {
			fmt.Fprintln(os.Stderr, err)
			os.Exit(2)
		}
		return
	}
	hookPath := filepath.Join(*work, "recording-hook.sh")
	tmpDir := filepath.Join(*work, "tmp")
	os.MkdirAll(tmpDir, 0o755)
	if _, err := os.Stat(hookPath); err != nil {
		os.WriteFile(hookPath, []byte("#!/bin/sh\ncat \"$BINDING_CONTEXT_PATH\" > \"$VERIF_BCTX_OUT\"\n"), 0o755)
	}
	of, err := os.OpenFile(*out, os.O_APPEND|os.O_WRONLY|os.O_CREATE, 0o644)
	if err != nil {
		fmt.Fprintln(os.Stderr, err)
		os.Exit(2)
	}
	defer of.Close()
	for n := supervise.Skip(); n < len(cases); n++ {
		r := runCase(cases[n], hookPath, tmpDir)
		b, _ := json.Marshal(r)
		of.Write(append(b, '\n'))
	}
}
