//go:build verif

// Command nsmon binds spec/NsMonitor to the real monitor (pkg/kube_events_manager/monitor.go) for bindings with
// namespace.labelSelector: the unlock (EnableKubeEventCb) and the namespace informer's add callback are two real
// goroutines released from gate to gate in the order TLC chose; objects are created on the fake cluster.
package main

import (
	"bufio"
	"context"
	"encoding/json"
	"flag"
	"fmt"
	"os"
	"reflect"
	"sort"
	"strings"
	"sync"
	"time"

	"github.com/deckhouse/deckhouse/pkg/log"
	corev1 "k8s.io/api/core/v1"
	metav1 "k8s.io/apimachinery/pkg/apis/meta/v1"
	"k8s.io/apimachinery/pkg/apis/meta/v1/unstructured"
	"k8s.io/apimachinery/pkg/runtime/schema"

	"github.com/flant/kube-client/fake"
	kem "github.com/flant/shell-operator/pkg/kube_events_manager"
	kemtypes "github.com/flant/shell-operator/pkg/kube_events_manager/types"
	metricstorage "github.com/flant/shell-operator/pkg/metric_storage"
	"github.com/flant/shell-operator/pkg/verifhook"

	"verifharness/internal/fakewatch"
	"verifharness/internal/gate"
	"verifharness/internal/supervise"
)

type State map[string]interface{}
type Case struct {
	Steps []State `json:"steps"`
}
type Result struct {
	Case    int      `json:"case"`
	OK      bool     `json:"ok"`
	Sig     string   `json:"sig,omitempty"`
	Detail  string   `json:"detail,omitempty"`
	BadStep int      `json:"bad_step,omitempty"`
	Quiet   bool     `json:"quiet"`
	Sigs    []string `json:"sigs,omitempty"`
}

var gvr = schema.GroupVersionResource{Group: "", Version: "v1", Resource: "configmaps"}

func pairs(v interface{}) []string {
	out := []string{}
	for _, p := range v.([]interface{}) {
		pp := p.([]interface{})
		out = append(out, fmt.Sprint(pp[0])+"/"+fmt.Sprint(pp[1]))
	}
	sort.Strings(out)
	return out
}

func replayCase(n int, c Case, ms *metricstorage.MetricStorage) Result {
	res := Result{Case: n, OK: true}
	kem.DefaultFactoryStore.Reset()
	fc := fake.NewFakeCluster(fake.ClusterVersionV121)
	wt, werr := fakewatch.Track(fc)
	ctx, cancel := context.WithCancel(context.Background())
	defer cancel()
	cfg := &kem.MonitorConfig{}
	cfg.Metadata.MonitorId = "mon"
	cfg.Metadata.DebugName = "verif"
	cfg.Metadata.LogLabels = map[string]string{}
	cfg.Metadata.MetricLabels = map[string]string{"hook": "h", "binding": "b", "queue": "q", "kind": "ConfigMap"}
	cfg.Kind, cfg.ApiVersion = "ConfigMap", "v1"
	cfg.KeepFullObjectsInMemory = true
	cfg.Logger = log.NewNop()
	cfg.WithEventTypes(nil)
	cfg.WithNamespaceSelector(&kemtypes.NamespaceSelector{LabelSelector: &metav1.LabelSelector{MatchLabels: map[string]string{"w": "1"}}})
	var mu sync.Mutex
	delivered := map[string]bool{}
	vm := kem.VerifNewMonitor(ctx, fc.Client, ms, cfg, func(ev kemtypes.KubeEvent) {
		mu.Lock()
		for _, o := range ev.Objects {
			if ev.WatchEvents[0] == kemtypes.WatchEventAdded {
				delivered[o.Object.GetNamespace()+"/"+o.Object.GetName()] = true
			}
		}
		mu.Unlock()
	})
	bad := func(i int, sig, d string) Result {
		res.OK, res.Sig, res.Detail, res.BadStep = false, sig, d, i
		return res
	}
	if werr != nil {
		return bad(0, "DIV/fake", werr.Error())
	}
	if err := vm.Monitor().CreateInformers(); err != nil {
		return bad(0, "DIV/create-informers", err.Error())
	}
	vm.Monitor().Start(ctx)
	s := gate.New()
	verifhook.Set(func(point string, args ...interface{}) {
		if strings.HasPrefix(point, "mon.") && len(args) > 0 && vm.Is(args[0]) {
			s.Hook(point)
		}
	})
	defer verifhook.Set(nil)
	var enabler *gate.Proc
	nsProc := map[string]*gate.Proc{}
	var procs []*gate.Proc
	defer func() { s.Abandon(procs...) }()
	cluster := map[string]bool{}
	preloaded := map[string]bool{}
	getDelivered := func() []string {
		mu.Lock()
		defer mu.Unlock()
		out := []string{}
		for k := range delivered {
			out = append(out, k)
		}
		sort.Strings(out)
		return out
	}
	// a state that differs from the specification is a divergence, not a verdict: the behaviour is driven to its end
	// without further comparisons and the property oracle judges what the consumer got
	divSig, divDetail, divStep := "", "", 0
	diverge := func(i int, sig, d string) {
		if divSig == "" {
			divSig, divDetail, divStep = sig, d, i
		}
	}
	for i := 1; i < len(c.Steps); i++ {
		st := c.Steps[i]
		a := st["act"].([]interface{})
		op := fmt.Sprint(a[0])
		switch op {
		case "EN_Range", "EN_Flag":
			if enabler == nil {
				enabler = s.Spawn("enabler", func() { vm.Monitor().EnableKubeEventCb() })
				procs = append(procs, enabler)
				if g := s.Step(enabler); !strings.HasPrefix(g, "mon.") {
					return bad(i, "DIV/steer/"+op, "enabler arrived at "+g)
				}
			} else {
				if g := s.Step(enabler); g != "done" {
					return bad(i, "DIV/steer/"+op, "enabler arrived at "+g)
				}
			}
		case "NS_CreateStore":
			ns := fmt.Sprint(a[1])
			for k := range cluster {
				if strings.HasPrefix(k, ns+"/") {
					preloaded[k] = true
				}
			}
			p := s.Spawn("ns:"+ns, func() {
				vm.NsAdd(&corev1.Namespace{ObjectMeta: metav1.ObjectMeta{Name: ns, Labels: map[string]string{"w": "1"}}})
			})
			nsProc[ns] = p
			procs = append(procs, p)
			if g := s.Step(p); g != "mon.nsAfterStore" {
				return bad(i, "DIV/steer/"+op, "namespace callback arrived at "+g)
			}
		case "NS_FlagStart":
			ns := fmt.Sprint(a[1])
			if g := s.Step(nsProc[ns]); g != "done" {
				return bad(i, "DIV/steer/"+op, "namespace callback arrived at "+g)
			}
			if err := wt.Wait("configmaps", ns, 1, 5*time.Second); err != nil {
				return bad(i, "DIV/watch", err.Error())
			}
		case "CreateObj":
			ns, o := fmt.Sprint(a[1]), fmt.Sprint(a[2])
			u := &unstructured.Unstructured{Object: map[string]interface{}{"apiVersion": "v1", "kind": "ConfigMap",
				"metadata": map[string]interface{}{"name": o, "namespace": ns}, "data": map[string]interface{}{"v": "1"}}}
			if _, err := fc.Client.Dynamic().Resource(gvr).Namespace(ns).Create(context.Background(), u, metav1.CreateOptions{}); err != nil {
				return bad(i, "DIV/create", err.Error())
			}
			cluster[ns+"/"+o] = true
		default:
			return bad(i, "DIV/unknown-action", op)
		}
		if divSig != "" {
			continue
		}
		// compare (asynchronous informer deliveries: wait until the specified state is reached)
		wantDel, wantBuf := pairs(st["delivered"]), pairs(st["buffered"])
		wantEn := map[string]bool{}
		for k, v := range st["enabledInf"].(map[string]interface{}) {
			b, _ := v.(bool)
			wantEn[k] = b
		}
		wantFlag, _ := st["flag"].(bool)
		deadline := time.Now().Add(1500 * time.Millisecond)
		var gotDel []string
		gotBufN := 0
		for {
			gotDel = getDelivered()
			gotBufN = 0
			for _, nb := range vm.VaryingBuffered() {
				gotBufN += nb
			}
			if (reflect.DeepEqual(gotDel, wantDel) && gotBufN == len(wantBuf)) || time.Now().After(deadline) {
				break
			}
			time.Sleep(300 * time.Microsecond)
		}
		if vm.EventsEnabled() != wantFlag {
			diverge(i, "DIV/state/flag", fmt.Sprintf("eventsEnabled %v, specification %v", vm.EventsEnabled(), wantFlag))
			continue
		}
		gotEn := vm.VaryingEnabled()
		for ns, en := range gotEn {
			if wantEn[ns] != en {
				diverge(i, "DIV/state/enabled", fmt.Sprintf("informers of %s enabled=%v, specification %v (after %v)", ns, en, wantEn[ns], a))
			}
		}
		if !reflect.DeepEqual(gotDel, wantDel) || gotBufN != len(wantBuf) {
			diverge(i, "DIV/state/events", fmt.Sprintf("delivered %v buffered %d, specification delivered %v buffered %v (after %v)", gotDel, gotBufN, wantDel, wantBuf, a))
		}
	}
	// oracle at quiescence
	last := c.Steps[len(c.Steps)-1]
	quiet := fmt.Sprint(last["epc"]) == "done"
	for _, v := range last["npc"].(map[string]interface{}) {
		if fmt.Sprint(v) != "started" {
			quiet = false
		}
	}
	res.Quiet = quiet
	if !quiet {
		if divSig != "" {
			return bad(divStep, divSig, divDetail)
		}
		return res
	}
	if divSig != "" {
		// let the asynchronous deliveries settle before judging
		prev, stable := -1, 0
		for k := 0; k < 400 && stable < 40; k++ {
			n := len(getDelivered())
			if n == prev {
				stable++
			} else {
				prev, stable = n, 0
			}
			time.Sleep(5 * time.Millisecond)
		}
	}
	for ns, en := range vm.VaryingEnabled() {
		if !en {
			res.Sigs = append(res.Sigs, "C01/ns-informer-never-enabled")
			res.Detail = fmt.Sprintf("the informers of namespace %s were stored after the unlock ranged over the informers and read eventsEnabled before it was set: their events are buffered forever", ns)
		}
	}
	if n := len(vm.VaryingBuffered()); n >= 0 {
		for ns, nb := range vm.VaryingBuffered() {
			if nb > 0 && vm.VaryingEnabled()[ns] {
				res.Sigs = append(res.Sigs, "C01/stranded")
				res.Detail = fmt.Sprintf("%d events left in the buffer of enabled informers of %s", nb, ns)
			}
		}
	}
	del := getDelivered()
	dset := map[string]bool{}
	for _, d := range del {
		dset[d] = true
	}
	for k := range cluster {
		if !dset[k] {
			ns := strings.SplitN(k, "/", 2)[0]
			if !vm.VaryingEnabled()[ns] {
				continue // already reported as never-enabled
			}
			if preloaded[k] {
				res.Sigs = append(res.Sigs, "C01/loss/preloaded-in-new-namespace")
				if res.Detail == "" {
					res.Detail = fmt.Sprintf("object %s existed when the informers of its (new) namespace were created: it was cached silently and never reaches the hook as Added", k)
				}
			} else {
				res.Sigs = append(res.Sigs, "C01/loss/unexplained")
				res.Detail = fmt.Sprintf("object %s never delivered (delivered %v)", k, del)
			}
		}
	}
	if len(res.Sigs) > 0 {
		res.OK = false
		sort.Strings(res.Sigs)
		res.Sig = res.Sigs[0]
		if divSig != "" {
			res.Detail += " (the run left the specification at step " + fmt.Sprint(divStep) + ": " + divDetail + ")"
		}
		return res
	}
	if divSig != "" {
		return bad(divStep, divSig, divDetail)
	}
	return res
}

func main() {
	in := flag.String("in", "", "")
	out := flag.String("out", "", "")
	flag.Parse()
	f, err := os.Open(*in)
	if err != nil {
		fmt.Fprintln(os.Stderr, err)
		os.Exit(2)
	}
	var cases []Case
	sc := bufio.NewScanner(f)
	sc.Buffer(make([]byte, 1<<20), 1<<28)
	for sc.Scan() {
		var c Case
		if err := json.Unmarshal(sc.Bytes(), &c); err != nil {
			fmt.Fprintln(os.Stderr, err)
			os.Exit(2)
		}
		cases = append(cases, c)
	}
	if !supervise.IsChild() {
		if err := supervise.Run(len(cases), *out, 30*time.Second, func(idx int, why string) interface{} {
			return Result{Case: idx, OK: false, Sig: "C01/crash", Detail: why}
		}); err != nil {
			fmt.Fprintln(os.Stderr, "nsmon:", err)
			os.Exit(2)
		}
		return
	}
	kem.DefaultSyncTime = 50 * time.Microsecond
	log.SetDefault(log.NewNop())
	ms := metricstorage.NewMetricStorage(context.Background(), "verif_", true, log.NewNop())
	of, _ := os.OpenFile(*out, os.O_APPEND|os.O_WRONLY|os.O_CREATE, 0o644)
	defer of.Close()
	for n := supervise.Skip(); n < len(cases); n++ {
		r := replayCase(n, cases[n], ms)
		b, _ := json.Marshal(r)
		of.Write(append(b, '\n'))
	}
}
