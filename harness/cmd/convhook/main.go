//go:build verif

// Command convhook is the hook process of the C15 application cases (kept free of heavy imports: it is started
// once per conversion step). It logs what it received (rule, objects) to the per-case log and answers as the
// per-case plan says: exit 1, empty response, malformed response, failedMessage, failedMessage together with
// the converted objects ("failobj"), or converted objects (all / one missing / one duplicated). Shared shapes: Plan, HookLog, RecvObj in cmd/conv/apply.go.
package main

import (
	"encoding/json"
	"fmt"
	"os"
	"path/filepath"
)

type Plan struct {
	Outcomes map[string]string `json:"outcomes"`
	Full     map[string]string `json:"full"`
	Log      string            `json:"log"`
}

type HookLog struct {
	Hook    string    `json:"hook"`
	From    string    `json:"from"`
	To      string    `json:"to"`
	Desired string    `json:"desired"`
	Recv    []RecvObj `json:"recv"`
	Kind    string    `json:"kind"`
}

type RecvObj struct {
	APIVersion string   `json:"apiVersion"`
	Name       string   `json:"name"`
	Trail      []string `json:"trail"`
}

func failMessage(rule string) string { return "verif hook refuses " + rule }

func parseObj(raw []byte) RecvObj {
	var o struct {
		APIVersion string `json:"apiVersion"`
		Metadata   struct {
			Name string `json:"name"`
		} `json:"metadata"`
		Spec struct {
			Trail []string `json:"trail"`
		} `json:"spec"`
	}
	_ = json.Unmarshal(raw, &o)
	return RecvObj{APIVersion: o.APIVersion, Name: o.Metadata.Name, Trail: o.Spec.Trail}
}

func main() { os.Exit(hookMain()) }

func hookMain() int {
	die := func(msg string) int {
		fmt.Fprintln(os.Stderr, "conv hook:", msg)
		return 97
	}
	pb, err := os.ReadFile(os.Getenv("VERIF_CONV_PLAN"))
	if err != nil {
		return die(err.Error())
	}
	var plan Plan
	if err := json.Unmarshal(pb, &plan); err != nil {
		return die(err.Error())
	}
	cb, err := os.ReadFile(os.Getenv("BINDING_CONTEXT_PATH"))
	if err != nil {
		return die(err.Error())
	}
	var bcs []struct {
		FromVersion string `json:"fromVersion"`
		ToVersion   string `json:"toVersion"`
		Review      struct {
			Request struct {
				Desired string            `json:"desiredAPIVersion"`
				Objects []json.RawMessage `json:"objects"`
			} `json:"request"`
		} `json:"review"`
	}
	if err := json.Unmarshal(cb, &bcs); err != nil || len(bcs) != 1 {
		return die(fmt.Sprintf("binding context: %v %.200s", err, cb))
	}
	bc := bcs[0]
	key := bc.FromVersion + "->" + bc.ToVersion
	kind, known := plan.Outcomes[key]
	if !known {
		kind = "ok" // a rule that is not on the chain: recorded, the oracle reports the run
	}
	hl := HookLog{Hook: filepath.Base(os.Args[len(os.Args)-1]), From: bc.FromVersion, To: bc.ToVersion, Desired: bc.Review.Request.Desired, Kind: kind, Recv: []RecvObj{}}
	for _, o := range bc.Review.Request.Objects {
		hl.Recv = append(hl.Recv, parseObj(o))
	}
	lb, _ := json.Marshal(hl)
	f, err := os.OpenFile(plan.Log, os.O_APPEND|os.O_WRONLY|os.O_CREATE, 0o644)
	if err != nil {
		return die(err.Error())
	}
	f.Write(append(lb, '\n'))
	f.Close()

	out := os.Getenv("CONVERSION_RESPONSE_PATH")
	switch kind {
	case "exit1":
		return 1
	case "empty":
		return 0
	case "malformed":
		os.WriteFile(out, []byte(`{"convertedObjects": [ this is not json`), 0o644)
		return 0
	case "failmsg":
		b, _ := json.Marshal(map[string]string{"failedMessage": failMessage(key)})
		os.WriteFile(out, b, 0o644)
		return 0
	}
	target := plan.Full[key]
	if target == "" {
		target = bc.ToVersion
	}
	conv := []json.RawMessage{}
	for _, raw := range bc.Review.Request.Objects {
		var o map[string]interface{}
		if err := json.Unmarshal(raw, &o); err != nil {
			return die(err.Error())
		}
		o["apiVersion"] = target
		spec, _ := o["spec"].(map[string]interface{})
		if spec == nil {
			spec = map[string]interface{}{}
		}
		trail, _ := spec["trail"].([]interface{})
		spec["trail"] = append(trail, key)
		o["spec"] = spec
		b, _ := json.Marshal(o)
		conv = append(conv, b)
	}
	switch kind {
	case "drop":
		if len(conv) > 0 {
			conv = conv[:len(conv)-1]
		}
	case "extra":
		if len(conv) > 0 {
			conv = append(conv, conv[len(conv)-1])
		}
	}
	resp := map[string]interface{}{"convertedObjects": conv}
	if kind == "failobj" {
		// the hook reports a failure although it wrote every object converted to the promised version
		resp["failedMessage"] = failMessage(key)
	}
	b, _ := json.Marshal(resp)
	os.WriteFile(out, b, 0o644)
	return 0
}
