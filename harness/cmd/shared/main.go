//go:build verif

// Command shared binds spec/SharedInformers to the real KubeEventsManager on kube-client's fake cluster: monitors that
// watch the same kind in the same namespace share one client-go informer through the FactoryStore. Every TLC behaviour
// (AddMonitor / StartMonitor / StopMonitor of several monitors interleaved with cluster changes) is executed through
// the public manager API; at every point where the specification says a started monitor is quiet, its Snapshot() is
// compared with the cluster and the number of events it passed on with the specification's count.
package main

import (
	"bufio"
	"context"
	"encoding/json"
	"flag"
	"fmt"
	"os"
	"reflect"
	"sort"
	"strings"
	"sync"
	"time"

	"github.com/deckhouse/deckhouse/pkg/log"
	metav1 "k8s.io/apimachinery/pkg/apis/meta/v1"
	"k8s.io/apimachinery/pkg/apis/meta/v1/unstructured"
	"k8s.io/apimachinery/pkg/runtime/schema"

	"github.com/flant/kube-client/fake"
	kem "github.com/flant/shell-operator/pkg/kube_events_manager"
	kemtypes "github.com/flant/shell-operator/pkg/kube_events_manager/types"
	metricstorage "github.com/flant/shell-operator/pkg/metric_storage"

	"verifharness/internal/supervise"
)

type State map[string]interface{}
type Case struct {
	Steps []State `json:"steps"`
}
type Result struct {
	Case    int    `json:"case"`
	OK      bool   `json:"ok"`
	Sig     string `json:"sig,omitempty"`
	Detail  string `json:"detail,omitempty"`
	BadStep int    `json:"bad_step,omitempty"`
	Quiet   int    `json:"quiet_points"`
	Shared  int    `json:"shared_starts"` // StartMonitor calls that joined a running factory
}

var gvr = schema.GroupVersionResource{Group: "", Version: "v1", Resource: "configmaps"}

func obj(ns, name, v string) *unstructured.Unstructured {
	return &unstructured.Unstructured{Object: map[string]interface{}{"apiVersion": "v1", "kind": "ConfigMap",
		"metadata": map[string]interface{}{"name": name, "namespace": ns}, "data": map[string]interface{}{"v": v}}}
}

type world struct {
	fc   *fake.Cluster
	mgr  kem.KubeEventsManager
	mu   sync.Mutex
	seen map[string]int               // monitor id -> events passed on since its AddMonitor (probe objects excluded)
	view map[string]map[string]string // monitor id -> Synchronization view + the events passed on since (what the hook knows)
	dup  map[string]string            // monitor id -> first event that told the hook nothing new
	inc  map[string]int               // monitor -> incarnation: every AddMonitor uses a fresh monitor id, late events of a stopped one do not count
}

func (w *world) id(m string) string { return fmt.Sprintf("%s-%d", m, w.inc[m]) }

func (w *world) config(m, ns string) *kem.MonitorConfig {
	cfg := &kem.MonitorConfig{}
	cfg.Metadata.MonitorId = w.id(m)
	cfg.Metadata.DebugName = "verif-" + m
	cfg.Metadata.LogLabels = map[string]string{}
	cfg.Metadata.MetricLabels = map[string]string{"hook": "h", "binding": m, "queue": "q", "kind": "ConfigMap"}
	cfg.Kind, cfg.ApiVersion = "ConfigMap", "v1"
	cfg.KeepFullObjectsInMemory = true
	cfg.Logger = log.NewNop()
	cfg.WithEventTypes(nil)
	cfg.WithNamespaceSelector(&kemtypes.NamespaceSelector{NameSelector: &kemtypes.NameSelector{MatchNames: []string{ns}}})
	return cfg
}

func (w *world) snapshot(m string) map[string]string {
	out := map[string]string{}
	if !w.mgr.HasMonitor(w.id(m)) {
		return out
	}
	mon := w.mgr.GetMonitor(w.id(m))
	for _, o := range mon.Snapshot() {
		d, _, _ := unstructured.NestedString(o.Object.Object, "data", "v")
		out[o.Object.GetName()] = d
	}
	return out
}

func (w *world) clusterOf(ns string) map[string]string {
	out := map[string]string{}
	l, err := w.fc.Client.Dynamic().Resource(gvr).Namespace(ns).List(context.Background(), metav1.ListOptions{})
	if err != nil {
		return out
	}
	for _, it := range l.Items {
		d, _, _ := unstructured.NestedString(it.Object, "data", "v")
		out[it.GetName()] = d
	}
	return out
}

func noProbes(m map[string]string) map[string]string {
	out := map[string]string{}
	for k, v := range m {
		if !strings.HasPrefix(k, "zz-probe-") {
			out[k] = v
		}
	}
	return out
}

// waitWatch: the fake cluster has no resource versions, a change between an informer's LIST and its WATCH is lost (a
// real API server replays it). Probe objects are created in the namespace until one shows up in the monitor's snapshot.
func (w *world) waitWatch(m, ns string) error {
	cl := w.fc.Client.Dynamic().Resource(gvr).Namespace(ns)
	seen := false
	var probes []string
	deadline := time.Now().Add(5 * time.Second)
	for n := 0; !seen && time.Now().Before(deadline); n++ {
		name := fmt.Sprintf("zz-probe-%s-%d", m, n)
		if _, err := cl.Create(context.Background(), obj(ns, name, "probe"), metav1.CreateOptions{}); err == nil {
			probes = append(probes, name)
		}
		for k := 0; k < 10 && !seen; k++ {
			time.Sleep(200 * time.Microsecond)
			for key := range w.snapshot(m) {
				if strings.HasPrefix(key, "zz-probe-"+m+"-") {
					seen = true
				}
			}
		}
	}
	for _, name := range probes {
		cl.Delete(context.Background(), name, metav1.DeleteOptions{})
	}
	if !seen {
		return fmt.Errorf("no probe object of namespace %s reached monitor %s", ns, m)
	}
	return nil
}

// storeOf reads the store of the shared informer of a namespace (nil: no factory).
func storeOf(ns string) map[string]string {
	for idx := range kem.VerifFactoryUsers() {
		if idx.Namespace == ns {
			out := map[string]string{}
			for _, x := range kem.DefaultFactoryStore.Objects(idx) {
				if u, ok := x.(*unstructured.Unstructured); ok {
					d, _, _ := unstructured.NestedString(u.Object, "data", "v")
					out[u.GetName()] = d
				}
			}
			return noProbes(out)
		}
	}
	return nil
}

func usersOf(ns string) int {
	n := 0
	for idx, c := range kem.VerifFactoryUsers() {
		if idx.Namespace == ns {
			n += c
		}
	}
	return n
}

func strMap(v interface{}) map[string]string {
	out := map[string]string{}
	if m, ok := v.(map[string]interface{}); ok {
		for k, x := range m {
			out[k] = fmt.Sprint(x)
		}
	}
	return out
}

func replayCase(n int, c Case, ms *metricstorage.MetricStorage) Result {
	res := Result{Case: n, OK: true}
	kem.DefaultFactoryStore.Reset()
	ctx, cancel := context.WithCancel(context.Background())
	defer cancel()
	w := &world{fc: fake.NewFakeCluster(fake.ClusterVersionV121), seen: map[string]int{}, inc: map[string]int{}, view: map[string]map[string]string{}, dup: map[string]string{}}
	m := kem.NewKubeEventsManager(ctx, w.fc.Client, log.NewNop())
	m.WithMetricStorage(ms)
	w.mgr = m
	go func() {
		for {
			select {
			case ev := <-m.Ch():
				w.mu.Lock()
				if os.Getenv("VERIF_DEBUG") != "" {
					fmt.Fprintln(os.Stderr, "event", ev.MonitorId, ev.String())
				}
				for k, o := range ev.Objects {
					if o.Object == nil || strings.HasPrefix(o.Object.GetName(), "zz-probe-") {
						continue
					}
					w.seen[ev.MonitorId]++
					v := w.view[ev.MonitorId]
					if v == nil {
						continue
					}
					name := o.Object.GetName()
					d, _, _ := unstructured.NestedString(o.Object.Object, "data", "v")
					if k < len(ev.WatchEvents) && ev.WatchEvents[k] == kemtypes.WatchEventDeleted {
						if _, has := v[name]; !has && w.dup[ev.MonitorId] == "" {
							w.dup[ev.MonitorId] = "Deleted " + name + " (not known to the hook)"
						}
						delete(v, name)
					} else {
						if v[name] == d && w.dup[ev.MonitorId] == "" {
							w.dup[ev.MonitorId] = fmt.Sprintf("%s %s=%s (the hook already knows this state)", ev.WatchEvents[k], name, d)
						}
						v[name] = d
					}
				}
				w.mu.Unlock()
			case <-ctx.Done():
				return
			}
		}
	}()
	bad := func(i int, sig, d string) Result {
		res.OK, res.Sig, res.Detail, res.BadStep = false, sig, d, i
		return res
	}
	divStep, divSig, divDetail := 0, "", ""
	idxOf := strMap(c.Steps[0]["idxOf"])
	for k, v := range c.Steps[0]["cluster"].(map[string]interface{}) {
		if fmt.Sprint(v) == "none" {
			continue
		}
		ns, name := splitKey(k)
		if _, err := w.fc.Client.Dynamic().Resource(gvr).Namespace(ns).Create(context.Background(), obj(ns, name, fmt.Sprint(v)), metav1.CreateOptions{}); err != nil {
			return bad(0, "DIV/setup", err.Error())
		}
	}
	for i := 1; i < len(c.Steps); i++ {
		st := c.Steps[i]
		a := st["act"].([]interface{})
		if os.Getenv("VERIF_DEBUG") != "" {
			fmt.Fprintln(os.Stderr, "step", i, a)
		}
		switch fmt.Sprint(a[0]) {
		case "Mutate":
			ns, name, v := fmt.Sprint(a[1]), fmt.Sprint(a[2]), fmt.Sprint(a[3])
			cl := w.fc.Client.Dynamic().Resource(gvr).Namespace(ns)
			cur := w.clusterOf(ns)
			var err error
			switch {
			case v == "none":
				err = cl.Delete(context.Background(), name, metav1.DeleteOptions{})
			case cur[name] == "":
				_, err = cl.Create(context.Background(), obj(ns, name, v), metav1.CreateOptions{})
			default:
				_, err = cl.Update(context.Background(), obj(ns, name, v), metav1.UpdateOptions{})
			}
			if err != nil {
				return bad(i, "DIV/mutate", err.Error())
			}
		case "AddMonitor":
			mon := fmt.Sprint(a[1])
			w.inc[mon]++
			if err := w.mgr.AddMonitor(w.config(mon, idxOf[mon])); err != nil {
				return bad(i, "DIV/add-monitor", err.Error())
			}
		case "StartMonitor":
			mon := fmt.Sprint(a[1])
			if usersOf(idxOf[mon]) > 0 {
				res.Shared++
			}
			w.mgr.StartMonitor(w.id(mon))
			// as the operator does: the Synchronization view is read, then events are passed on
			w.mu.Lock()
			w.view[w.id(mon)] = noProbes(w.snapshot(mon))
			w.mu.Unlock()
			w.mgr.GetMonitor(w.id(mon)).EnableKubeEventCb()
			if err := w.waitWatch(mon, idxOf[mon]); err != nil {
				return bad(i, "C01/shared-informer/monitor-does-not-follow-the-watch", err.Error()+fmt.Sprintf(" (factory users of %s: %d)", idxOf[mon], usersOf(idxOf[mon])))
			}
		case "StopMonitor":
			if err := w.mgr.StopMonitor(w.id(fmt.Sprint(a[1]))); err != nil {
				return bad(i, "DIV/stop-monitor", err.Error())
			}
		case "StopStep", "StopBoth":
			if fmt.Sprint(a[0]) == "StopBoth" {
				if err := w.mgr.StopMonitor(w.id(fmt.Sprint(a[1]))); err != nil {
					return bad(i, "DIV/stop-monitor", err.Error())
				}
			}
			// FactoryStore.Stop runs in a goroutine of the stopped informer, at any time after StopMonitor: the handlers of
			// the started monitors are registered, those of the monitors being stopped may or may not be
			mon := fmt.Sprint(a[1])
			lo, hi := 0, 0
			for m2, s2 := range strMap(st["mst"]) {
				if idxOf[m2] != idxOf[mon] {
					continue
				}
				if s2 == "started" {
					lo, hi = lo+1, hi+1
				} else if s2 == "stopping" {
					hi++
				}
			}
			deadline := time.Now().Add(3 * time.Second)
			for usersOf(idxOf[mon]) > hi && time.Now().Before(deadline) {
				time.Sleep(200 * time.Microsecond)
			}
			if got := usersOf(idxOf[mon]); (got > hi || got < lo) && divSig == "" {
				// not a verdict by itself: go on and let the monitors that should still follow the cluster show whether they do
				divStep, divSig, divDetail = i, "DIV/factory-users", fmt.Sprintf("the factory of %s has %d registered handlers after monitor %s was stopped, specification between %d and %d", idxOf[mon], got, mon, lo, hi)
			}
		case "InformerStep":
			// the shared informer works on its own: wait until its store shows what the specification's store shows
			x := fmt.Sprint(a[1])
			want := map[string]string{}
			for o, v := range strMap(st["fstore"].(map[string]interface{})[x]) {
				if v != "none" {
					want[o] = v
				}
			}
			deadline := time.Now().Add(2 * time.Second)
			for time.Now().Before(deadline) {
				if got := storeOf(x); got == nil || reflect.DeepEqual(got, want) {
					break
				}
				time.Sleep(200 * time.Microsecond)
			}
		case "HandlerStep":
		}
		// quiet monitors
		mst := strMap(st["mst"])
		fp := st["fpending"].(map[string]interface{})
		ib := st["inbox"].(map[string]interface{})
		mons := []string{}
		for mon := range mst {
			mons = append(mons, mon)
		}
		sort.Strings(mons)
		for _, mon := range mons {
			if mst[mon] != "started" || len(fp[idxOf[mon]].([]interface{})) > 0 || len(ib[mon].([]interface{})) > 0 {
				continue
			}
			res.Quiet++
			wantCache := map[string]string{}
			for o, v := range strMap(st["cache"].(map[string]interface{})[mon]) {
				if v != "none" {
					wantCache[o] = v
				}
			}
			var got, view map[string]string
			var dup string
			cluster := noProbes(w.clusterOf(idxOf[mon]))
			deadline := time.Now().Add(1500 * time.Millisecond)
			for {
				got = noProbes(w.snapshot(mon))
				w.mu.Lock()
				view = map[string]string{}
				for k, v := range w.view[w.id(mon)] {
					view[k] = v
				}
				dup = w.dup[w.id(mon)]
				w.mu.Unlock()
				if (reflect.DeepEqual(got, wantCache) && reflect.DeepEqual(view, cluster)) || time.Now().After(deadline) {
					break
				}
				time.Sleep(300 * time.Microsecond)
			}
			if !reflect.DeepEqual(got, cluster) {
				return bad(i, "C02/shared-informer/snapshot-differs-from-cluster", fmt.Sprintf("monitor %s (namespace %s, %d users of the shared informer): snapshot %v, cluster %v (after %v)", mon, idxOf[mon], usersOf(idxOf[mon]), got, cluster, a))
			}
			if !reflect.DeepEqual(got, wantCache) && divSig == "" {
				return bad(i, "DIV/cache", fmt.Sprintf("monitor %s: snapshot %v, specification %v", mon, got, wantCache))
			}
			if !reflect.DeepEqual(view, cluster) {
				return bad(i, "C01/shared-informer/events-do-not-reproduce-the-cluster", fmt.Sprintf("monitor %s (namespace %s, %d users of the shared informer): Synchronization view + the events passed on give %v, the cluster holds %v (after %v)", mon, idxOf[mon], usersOf(idxOf[mon]), view, cluster, a))
			}
			// an event that tells the hook nothing new is no violation: a change handled between the cache update and the
			// buffer append of its handler is in the Synchronization view and is still delivered afterwards (see KubeInformer.tla)
			_ = dup
		}
	}
	if divSig != "" {
		return bad(divStep, divSig, divDetail)
	}
	return res
}

func splitKey(k string) (string, string) {
	var parts []string
	cur := ""
	for _, r := range k {
		if (r >= 'a' && r <= 'z') || (r >= '0' && r <= '9') {
			cur += string(r)
		} else if cur != "" {
			parts = append(parts, cur)
			cur = ""
		}
	}
	if cur != "" {
		parts = append(parts, cur)
	}
	if len(parts) >= 2 {
		return parts[0], parts[1]
	}
	return k, ""
}

func main() {
	in := flag.String("in", "", "")
	out := flag.String("out", "", "")
	flag.Parse()
	f, err := os.Open(*in)
	if err != nil {
		fmt.Fprintln(os.Stderr, err)
		os.Exit(2)
	}
	var cases []Case
	sc := bufio.NewScanner(f)
	sc.Buffer(make([]byte, 1<<20), 1<<28)
	for sc.Scan() {
		var c Case
		if err := json.Unmarshal(sc.Bytes(), &c); err != nil {
			fmt.Fprintln(os.Stderr, err)
			os.Exit(2)
		}
		cases = append(cases, c)
	}
	if !supervise.IsChild() {
		if err := supervise.Run(len(cases), *out, 30*time.Second, func(idx int, why string) interface{} {
			return Result{Case: idx, OK: false, Sig: "C02/shared-informer/crash", Detail: why}
		}); err != nil {
			fmt.Fprintln(os.Stderr, "shared:", err)
			os.Exit(2)
		}
		return
	}
	kem.DefaultSyncTime = 50 * time.Microsecond
	ms := metricstorage.NewMetricStorage(context.Background(), "verif_", true, log.NewNop())
	of, _ := os.OpenFile(*out, os.O_APPEND|os.O_WRONLY|os.O_CREATE, 0o644)
	defer of.Close()
	for n := supervise.Skip(); n < len(cases); n++ {
		r := replayCase(n, cases[n], ms)
		b, _ := json.Marshal(r)
		of.Write(append(b, '\n'))
	}
}
