//go:build verif

// Command sched binds spec/ScheduleManager (ScheduleManager.tla, ScheduleHooks.tla) to the real schedule code.
//
//	sched replay -in cases.jsonl -out results.jsonl -work dir
//
// Every input line is one TLC-generated history {"level": L, "started": bool, "h": [step...]}; a step carries
// the operation and the observation the specification expects after it (keys and ids of the Entries map,
// registrations per crontab in the cron library, tasks per tick). Nothing expected is computed here.
//
// Levels (what is real):
//
//	mgr       schedule_manager.NewScheduleManager: Add / Remove / Tick histories
//	ctrl      the same manager + one controller.HookController per hook built from ScheduleConfig values
//	manager   the same manager + hook.Manager over a generated hooks directory (hooks are shell scripts that
//	          print their config; ids are the uuids the loader generates)
//	operator  shell_operator.Init on such a directory: the real schedule handler of operator.go, the real
//	          ManagerEventsHandler goroutine and real (not started) task queues
//
// After every step the harness reads the Entries map and the cron library's entry list (verif_export.go),
// identifies the crontab of every registered entry by its parsed schedule, and injects one tick per registration by
// running the registered cron Job (exactly what the cron goroutine calls), observing the events on Ch() (levels
// mgr/ctrl/manager) or the tasks appended to the queues (level operator).
package main

import (
	"bufio"
	"context"
	"encoding/json"
	"flag"
	"fmt"
	"os"
	"path/filepath"
	"reflect"
	"sort"
	"strings"
	"time"

	"github.com/deckhouse/deckhouse/pkg/log"
	"gopkg.in/robfig/cron.v2"

	"github.com/flant/shell-operator/pkg/app"
	"github.com/flant/shell-operator/pkg/hook"
	"github.com/flant/shell-operator/pkg/hook/controller"
	"github.com/flant/shell-operator/pkg/hook/task_metadata"
	htypes "github.com/flant/shell-operator/pkg/hook/types"
	schedulemanager "github.com/flant/shell-operator/pkg/schedule_manager"
	smtypes "github.com/flant/shell-operator/pkg/schedule_manager/types"
	shop "github.com/flant/shell-operator/pkg/shell-operator"
	"github.com/flant/shell-operator/pkg/task"
	"github.com/flant/shell-operator/pkg/task/queue"
	"github.com/flant/shell-operator/pkg/webhook/admission"
	"github.com/flant/shell-operator/pkg/webhook/conversion"

	"verifharness/internal/supervise"
)

// ---------------------------------------------------------------------------------------------
// case format
// ---------------------------------------------------------------------------------------------

type Binding struct {
	Name    string   `json:"name"`
	Group   string   `json:"group"`
	Af      bool     `json:"af"`
	Snap    []string `json:"snap"`
	Crontab string   `json:"crontab"`
	Queue   string   `json:"queue"`
	Id      string   `json:"id"`
}

type HookCfg struct {
	Name     string    `json:"name"`
	Bindings []Binding `json:"bindings"`
}

// Task is the projection of one created task (expected: computed by TLC; actual: read from the real objects).
type Task struct {
	Hook    string   `json:"hook"`
	Binding string   `json:"binding"`
	Group   string   `json:"group"`
	Af      bool     `json:"af"`
	Snap    []string `json:"snap"`
	Queue   string   `json:"queue"`
	Bid     string   `json:"bid,omitempty"` // expected side only (which binding), never compared
	Extra   string   `json:"extra,omitempty"`
}

type Step struct {
	Op    []string            `json:"op"`
	Keys  []string            `json:"keys"`
	Ent   map[string][]string `json:"ent"`
	Cron  map[string]int      `json:"cron"`
	Ticks map[string][]Task   `json:"ticks"`
	Hooks []HookCfg           `json:"hooks"`
}

type Case struct {
	Level   string `json:"level"`
	Started bool   `json:"started"`
	H       []Step `json:"h"`
}

type Result struct {
	Case    int      `json:"case"`
	OK      bool     `json:"ok"`
	Level   string   `json:"level"`
	Steps   int      `json:"steps"`
	Sig     string   `json:"sig,omitempty"`
	Detail  string   `json:"detail,omitempty"`
	BadStep int      `json:"bad_step"`
	Div     []string `json:"div,omitempty"`
	Events  int      `json:"events"` // tick events injected and observed
	Tasks   int      `json:"tasks"`  // tasks compared
}

type violation struct{ sig, detail string }

// ---------------------------------------------------------------------------------------------
// crontabs: abstract names -> real crontab strings far away from now (the cron goroutine of a started
// manager must not fire by itself during a run)
// ---------------------------------------------------------------------------------------------

var crontabOf = map[string]string{}
var scheduleOf = map[string]cron.Schedule{}
var nameOfCrontab = map[string]string{}

func initCrontabs() {
	m := int(time.Now().Month())
	for i, c := range []string{"c1", "c2", "c3", "c4"} {
		month := (m+2+i)%12 + 1 // 3..6 months ahead
		s := fmt.Sprintf("%d 3 %d %d *", 7+i, 9+i, month)
		sch, err := cron.Parse(s)
		if err != nil {
			panic(err)
		}
		crontabOf[c] = s
		scheduleOf[c] = sch
		nameOfCrontab[s] = c
	}
}

func absCrontab(real string) string {
	if n, ok := nameOfCrontab[real]; ok {
		return n
	}
	return "?" + real
}

// ---------------------------------------------------------------------------------------------
// observation of the real manager
// ---------------------------------------------------------------------------------------------

type regs map[string][]cron.Entry // abstract crontab -> registered entries

func readCron(sm schedulemanager.ScheduleManager) (regs, error) {
	es, ok := schedulemanager.VerifCronEntries(sm)
	if !ok {
		return nil, fmt.Errorf("not the package's scheduleManager")
	}
	out := regs{}
	for _, e := range es {
		name := "?"
		for c, sch := range scheduleOf {
			if reflect.DeepEqual(e.Schedule, sch) {
				name = c
			}
		}
		out[name] = append(out[name], e)
	}
	return out, nil
}

func sorted(a []string) []string {
	b := append([]string{}, a...)
	sort.Strings(b)
	return b
}

// compareEntries: Entries map of the real manager against keys/ent of the step. idName maps real ids to the
// specification's ids (identity when nil).
func compareEntries(sm schedulemanager.ScheduleManager, st *Step, idName map[string]string) string {
	ents, ok := schedulemanager.VerifEntries(sm)
	if !ok {
		return "cannot read Entries"
	}
	var keys []string
	got := map[string][]string{}
	for k, ce := range ents {
		c := absCrontab(k)
		keys = append(keys, c)
		for id := range ce.Ids {
			if n, ok := idName[id]; ok {
				id = n
			}
			got[c] = append(got[c], id)
		}
	}
	if !reflect.DeepEqual(sorted(keys), sorted(st.Keys)) {
		return fmt.Sprintf("Entries has keys %v, specification %v", sorted(keys), sorted(st.Keys))
	}
	for c, ids := range st.Ent {
		if !reflect.DeepEqual(sorted(got[c]), sorted(ids)) {
			return fmt.Sprintf("Entries[%s].Ids = %v, specification %v", c, sorted(got[c]), sorted(ids))
		}
	}
	return ""
}

// fire runs one registered cron job the way the cron goroutine does and collects what arrives on ch until the
// job has returned.
func fire(job cron.Job, ch chan string) ([]string, error) {
	done := make(chan struct{})
	go func() {
		defer close(done)
		job.Run()
	}()
	var evs []string
	timeout := time.After(15 * time.Second)
	for {
		select {
		case e := <-ch:
			evs = append(evs, e)
		case <-done:
			for {
				select {
				case e := <-ch:
					evs = append(evs, e)
				default:
					return evs, nil
				}
			}
		case <-timeout:
			return evs, fmt.Errorf("the cron job did not return within 15s")
		}
	}
}

func cronViolation(level, c string, want, got int) *violation {
	kind := "registrations"
	switch {
	case want >= 1 && got == 0:
		kind = "stopped-while-referenced"
	case want == 0 && got >= 1:
		kind = "fires-after-last-removed"
	case got > want:
		kind = "duplicate-firing"
	}
	return &violation{"C11/" + level + "/cron/" + kind,
		fmt.Sprintf("crontab %s (%s): one tick delivers %d event(s); the specification says %d (one per crontab with at least one registered id, none otherwise)", c, crontabOf[c], got, want)}
}

// ---------------------------------------------------------------------------------------------
// system under test, per level
// ---------------------------------------------------------------------------------------------

type sut struct {
	level   string
	sm      schedulemanager.ScheduleManager
	cancel  context.CancelFunc
	hooks   []HookCfg
	ctrls   map[string]*controller.HookController // ctrl
	hm      *hook.Manager                         // manager, operator
	op      *shop.ShellOperator                   // operator
	idName  map[string]string                     // real binding id -> specification id
	queues  []string
	dir     string
	started bool
}

func (s *sut) close() {
	if s.op != nil {
		s.op.Stop()
	}
	if s.cancel != nil {
		s.cancel()
	}
	if s.dir != "" {
		os.RemoveAll(s.dir)
	}
	if s.started {
		// let the goroutine that stops the cron library run
		time.Sleep(50 * time.Microsecond)
	}
}

func hookScript(h HookCfg) string {
	var sch []map[string]interface{}
	for i, b := range h.Bindings {
		m := map[string]interface{}{"crontab": crontabOf[b.Crontab]}
		if b.Name != "schedule" { // an unnamed binding is called "schedule"
			m["name"] = b.Name
		}
		if b.Af || i%2 == 0 {
			m["allowFailure"] = b.Af
		}
		if len(b.Snap) > 0 {
			m["includeSnapshotsFrom"] = b.Snap
		}
		if b.Queue != "main" || i%2 == 0 { // the default queue is "main"
			m["queue"] = b.Queue
		}
		if b.Group != "" {
			m["group"] = b.Group
		}
		sch = append(sch, m)
	}
	cfg := map[string]interface{}{
		"configVersion": "v1",
		"kubernetes": []map[string]interface{}{
			{"name": "k1", "kind": "ConfigMap"},
			{"name": "k2", "kind": "Secret"},
		},
	}
	if len(sch) > 0 {
		cfg["schedule"] = sch
	}
	b, _ := json.Marshal(cfg)
	return "#!/bin/sh\nif [ \"$1\" = \"--config\" ]; then\ncat <<'VERIF_EOF'\n" + string(b) + "\nVERIF_EOF\nfi\n"
}

func writeHooks(dir string, hooks []HookCfg) error {
	if err := os.MkdirAll(filepath.Join(dir, "hooks"), 0o755); err != nil {
		return err
	}
	if err := os.MkdirAll(filepath.Join(dir, "tmp"), 0o755); err != nil {
		return err
	}
	for _, h := range hooks {
		if err := os.WriteFile(filepath.Join(dir, "hooks", h.Name), []byte(hookScript(h)), 0o755); err != nil {
			return err
		}
	}
	return nil
}

const kubeconfig = `apiVersion: v1
kind: Config
clusters:
- name: c
  cluster:
    server: http://127.0.0.1:1
contexts:
- name: c
  context:
    cluster: c
    user: u
current-context: c
users:
- name: u
  user: {}
`

var sutSeq = 0

func newSut(level string, started bool, hooks []HookCfg, work string) (*sut, error) {
	s := &sut{level: level, hooks: hooks, started: started, idName: map[string]string{}}
	qs := map[string]bool{"main": true}
	for _, h := range hooks {
		for _, b := range h.Bindings {
			qs[b.Queue] = true
		}
	}
	for q := range qs {
		s.queues = append(s.queues, q)
	}
	sort.Strings(s.queues)
	sutSeq++
	switch level {
	case "mgr", "ctrl", "manager":
		ctx, cancel := context.WithCancel(context.Background())
		s.cancel = cancel
		s.sm = schedulemanager.NewScheduleManager(ctx, log.NewNop())
	}
	switch level {
	case "ctrl":
		s.ctrls = map[string]*controller.HookController{}
		for _, h := range hooks {
			var cfgs []htypes.ScheduleConfig
			for _, b := range h.Bindings {
				c := htypes.ScheduleConfig{}
				c.BindingName = b.Name
				c.AllowFailure = b.Af
				c.ScheduleEntry = smtypes.ScheduleEntry{Crontab: crontabOf[b.Crontab], Id: b.Id}
				c.IncludeSnapshotsFrom = append([]string{}, b.Snap...)
				c.Queue = b.Queue
				c.Group = b.Group
				cfgs = append(cfgs, c)
			}
			hc := controller.NewHookController()
			hc.InitScheduleBindings(cfgs, s.sm)
			s.ctrls[h.Name] = hc
		}
	case "manager":
		s.dir = filepath.Join(work, fmt.Sprintf("m%d", sutSeq))
		if err := writeHooks(s.dir, hooks); err != nil {
			return nil, err
		}
		cm := conversion.NewWebhookManager()
		cm.Settings = app.ConversionWebhookSettings
		am := admission.NewWebhookManager(nil)
		am.Settings = app.ValidatingWebhookSettings
		s.hm = hook.NewHookManager(&hook.ManagerConfig{WorkingDir: filepath.Join(s.dir, "hooks"), TempDir: filepath.Join(s.dir, "tmp"),
			Kmgr: nil, Smgr: s.sm, Wmgr: am, Cmgr: cm, Logger: log.NewNop()})
		if err := s.hm.Init(); err != nil {
			return nil, fmt.Errorf("hook manager Init: %w", err)
		}
	case "operator":
		s.dir = filepath.Join(work, fmt.Sprintf("o%d", sutSeq))
		if err := writeHooks(s.dir, hooks); err != nil {
			return nil, err
		}
		kc := filepath.Join(s.dir, "kubeconfig")
		if err := os.WriteFile(kc, []byte(kubeconfig), 0o644); err != nil {
			return nil, err
		}
		app.HooksDir = filepath.Join(s.dir, "hooks")
		app.TempDir = filepath.Join(s.dir, "tmp")
		app.KubeConfig = kc
		app.DebugUnixSocket = filepath.Join(s.dir, "debug.sock")
		app.DebugHttpServerAddr = ""
		op, err := shop.Init(log.NewNop())
		if err != nil {
			return nil, fmt.Errorf("shell_operator.Init: %w", err)
		}
		s.op = op
		s.hm = op.HookManager
		s.sm = op.ScheduleManager
		// the queues bootstrapMainQueue / initAndStartHookQueues create; not started: tasks stay where they are put
		op.TaskQueues.WithMainName("main")
		for _, q := range s.queues {
			op.TaskQueues.NewNamedQueue(q, func(task.Task) queue.TaskResult { return queue.TaskResult{Status: queue.Success} })
		}
		op.ManagerEventsHandler.Start()
	}
	if s.hm != nil {
		names := s.hm.GetHookNames()
		var want []string
		for _, h := range hooks {
			want = append(want, h.Name)
		}
		if !reflect.DeepEqual(names, want) {
			return nil, fmt.Errorf("hook manager loaded hooks %v, fixture has %v", names, want)
		}
		for _, h := range hooks {
			cfgs := s.hm.GetHook(h.Name).GetConfig().Schedules
			if len(cfgs) != len(h.Bindings) {
				return nil, fmt.Errorf("hook %s: loader produced %d schedule bindings, fixture has %d", h.Name, len(cfgs), len(h.Bindings))
			}
			for i, c := range cfgs {
				s.idName[c.ScheduleEntry.Id] = h.Bindings[i].Id
			}
		}
	}
	if started {
		s.sm.Start()
	}
	return s, nil
}

func (s *sut) enable(hookName string, on bool) {
	var hc *controller.HookController
	if s.ctrls != nil {
		hc = s.ctrls[hookName]
	} else {
		hc = s.hm.GetHook(hookName).HookController
	}
	if on {
		hc.EnableScheduleBindings() // what the EnableScheduleBindings task does
	} else {
		hc.DisableScheduleBindings()
	}
}

func infoTask(hookName string, info controller.BindingExecutionInfo) Task {
	t := Task{Hook: hookName, Binding: info.Binding, Group: info.Group, Af: info.AllowFailure, Queue: info.QueueName,
		Snap: append([]string{}, info.IncludeSnapshots...)}
	t.Extra = contextProblems(info.Binding, info.Group, info.IncludeSnapshots, htypes.Schedule, bcOf(info))
	return t
}

type bcView struct {
	n       int
	binding string
	group   string
	snap    []string
	btype   htypes.BindingType
}

func bcOf(info controller.BindingExecutionInfo) bcView {
	v := bcView{n: len(info.BindingContext)}
	if v.n > 0 {
		bc := info.BindingContext[0]
		v.binding, v.group, v.snap, v.btype = bc.Binding, bc.Metadata.Group, bc.Metadata.IncludeSnapshots, bc.Metadata.BindingType
	}
	return v
}

// contextProblems: the binding context inside the task must say the same as the task fields.
func contextProblems(binding, group string, snap []string, btype htypes.BindingType, v bcView) string {
	var p []string
	if v.n != 1 {
		p = append(p, fmt.Sprintf("%d binding contexts", v.n))
		return strings.Join(p, "; ")
	}
	if v.binding != binding {
		p = append(p, fmt.Sprintf("binding context names %q", v.binding))
	}
	if v.group != group {
		p = append(p, fmt.Sprintf("binding context group %q", v.group))
	}
	if !sameList(v.snap, snap) {
		p = append(p, fmt.Sprintf("binding context snapshot list %v", v.snap))
	}
	if v.btype != btype || btype != htypes.Schedule {
		p = append(p, fmt.Sprintf("binding type %q/%q", btype, v.btype))
	}
	return strings.Join(p, "; ")
}

func sameList(a, b []string) bool {
	if len(a) != len(b) {
		return false
	}
	for i := range a {
		if a[i] != b[i] {
			return false
		}
	}
	return true
}

// handleEvent: tasks the real code creates for one tick event of crontab c (levels ctrl, manager).
func (s *sut) handleEvent(c string) []Task {
	var out []Task
	real := crontabOf[c]
	if s.ctrls != nil {
		// hook_manager.go HandleScheduleEvent, with the controllers at hand
		for _, h := range s.hooks {
			hc := s.ctrls[h.Name]
			if hc.CanHandleScheduleEvent(real) {
				name := h.Name
				hc.HandleScheduleEvent(real, func(info controller.BindingExecutionInfo) { out = append(out, infoTask(name, info)) })
			}
		}
		return out
	}
	s.hm.HandleScheduleEvent(real, func(h *hook.Hook, info controller.BindingExecutionInfo) { out = append(out, infoTask(h.Name, info)) })
	return out
}

// barrier returns when the ManagerEventsHandler goroutine has finished every event sent before the call: the
// channel has capacity 1 and the goroutine takes the next event only after the tasks of the previous one are in
// the queues, so the second of two more sends is accepted only then. The sentinel is a crontab no hook has.
func (s *sut) barrier() error {
	for i := 0; i < 2; i++ {
		select {
		case s.sm.Ch() <- "@verif-barrier":
		case <-time.After(15 * time.Second):
			return fmt.Errorf("the events handler did not take an event from ScheduleCh within 15s")
		}
	}
	return nil
}

// drainQueues reads and removes the tasks of all queues (level operator).
func (s *sut) drainQueues() []Task {
	var out []Task
	// not TaskQueueSet.Iterate: it takes the set's read lock twice (Iterate, then GetMain -> GetByName) and
	// deadlocks when the events handler asks for the write lock (DoWithLock) in between - which the barrier's
	// second sentinel event makes likely here
	for _, name := range s.queues {
		q := s.op.TaskQueues.GetByName(name)
		if q == nil {
			continue
		}
		qn := q.Name
		q.Iterate(func(t task.Task) {
			m := task_metadata.HookMetadataAccessor(t)
			tk := Task{Hook: m.HookName, Binding: m.Binding, Group: m.Group, Af: m.AllowFailure, Queue: qn}
			v := bcView{n: len(m.BindingContext)}
			if v.n > 0 {
				bc := m.BindingContext[0]
				v.binding, v.group, v.snap, v.btype = bc.Binding, bc.Metadata.Group, bc.Metadata.IncludeSnapshots, bc.Metadata.BindingType
				tk.Snap = append([]string{}, bc.Metadata.IncludeSnapshots...)
			}
			tk.Extra = contextProblems(m.Binding, m.Group, tk.Snap, m.BindingType, v)
			if t.GetType() != task_metadata.HookRun {
				tk.Extra += fmt.Sprintf("; task type %s", t.GetType())
			}
			if t.GetQueueName() != qn {
				tk.Extra += fmt.Sprintf("; task says queue %q", t.GetQueueName())
			}
			out = append(out, tk)
		})
		q.Filter(func(task.Task) bool { return false })
	}
	return out
}

func taskKey(t Task) string {
	return fmt.Sprintf("hook=%s binding=%s group=%q allowFailure=%v snapshots=%v queue=%s", t.Hook, t.Binding, t.Group, t.Af, append([]string{}, t.Snap...), t.Queue)
}

// compareTasks: multiset comparison (the code ranges over a Go map, the statement does not order the tasks).
func compareTasks(level, c string, events int, want []Task, got []Task) *violation {
	for _, g := range got {
		if g.Extra != "" {
			return &violation{"C11/" + level + "/tasks/context", fmt.Sprintf("tick of %s: task {%s}: %s", c, taskKey(g), strings.TrimPrefix(g.Extra, "; "))}
		}
	}
	cnt := map[string]int{}
	for i := 0; i < events; i++ {
		for _, w := range want {
			cnt[taskKey(w)]++
		}
	}
	var extra []string
	for _, g := range got {
		k := taskKey(g)
		if cnt[k] > 0 {
			cnt[k]--
		} else {
			extra = append(extra, k)
		}
	}
	var missing []string
	for k, n := range cnt {
		for ; n > 0; n-- {
			missing = append(missing, k)
		}
	}
	sort.Strings(missing)
	sort.Strings(extra)
	if len(missing) == 0 && len(extra) == 0 {
		return nil
	}
	kind := "payload"
	if len(extra) == 0 {
		kind = "missing"
	} else if len(missing) == 0 {
		kind = "extra"
	}
	return &violation{"C11/" + level + "/tasks/" + kind,
		fmt.Sprintf("tick of %s (%d event(s)): expected one task per enabled binding with that crontab; not created: %v; created but not expected: %v", c, events, missing, extra)}
}

// observe compares the state after a step and injects one tick per registration. only != "": tick only that crontab.
func (s *sut) observe(st *Step, r *Result, only string) *violation {
	if d := compareEntries(s.sm, st, s.idName); d != "" && len(r.Div) < 3 {
		r.Div = append(r.Div, fmt.Sprintf("step %v: %s", st.Op, d))
	}
	rg, err := readCron(s.sm)
	if err != nil {
		return &violation{"INFRA", err.Error()}
	}
	if es := rg["?"]; len(es) > 0 {
		return &violation{"C11/" + s.level + "/cron/unknown-schedule", fmt.Sprintf("the cron library holds %d entr(y/ies) whose schedule is none of the crontabs added", len(es))}
	}
	var cs []string
	for c := range st.Cron {
		cs = append(cs, c)
	}
	sort.Strings(cs)
	for _, c := range cs {
		if len(rg[c]) != st.Cron[c] {
			return cronViolation(s.level, c, st.Cron[c], len(rg[c]))
		}
	}
	for _, c := range cs {
		if only != "" && c != only {
			continue
		}
		n := len(rg[c])
		if n == 0 {
			continue
		}
		if s.level == "operator" {
			for _, e := range rg[c] {
				done := make(chan struct{})
				go func(j cron.Job) { defer close(done); j.Run() }(e.Job)
				select {
				case <-done:
				case <-time.After(15 * time.Second):
					return &violation{"C11/operator/cron/job-blocked", "the cron job did not deliver its event within 15s"}
				}
			}
			if err := s.barrier(); err != nil {
				return &violation{"INFRA", err.Error()}
			}
			got := s.drainQueues()
			r.Events += n
			r.Tasks += len(got)
			if v := compareTasks(s.level, c, n, st.Ticks[c], got); v != nil {
				return v
			}
			continue
		}
		var evs []string
		for _, e := range rg[c] {
			ev, err := fire(e.Job, s.sm.Ch())
			if err != nil {
				return &violation{"C11/" + s.level + "/cron/job-blocked", err.Error()}
			}
			evs = append(evs, ev...)
		}
		r.Events += len(evs)
		if len(evs) != st.Cron[c] {
			return cronViolation(s.level, c, st.Cron[c], len(evs))
		}
		for _, e := range evs {
			if e != crontabOf[c] {
				return &violation{"C11/" + s.level + "/cron/wrong-event", fmt.Sprintf("the job registered for %q put %q on the channel", crontabOf[c], e)}
			}
		}
		if s.level == "mgr" {
			continue
		}
		for range evs {
			got := s.handleEvent(c)
			r.Tasks += len(got)
			if v := compareTasks(s.level, c, 1, st.Ticks[c], got); v != nil {
				return v
			}
		}
	}
	return nil
}

func replayCase(n int, c Case, work string) Result {
	r := Result{Case: n, OK: true, Level: c.Level}
	fail := func(i int, v *violation) Result {
		r.OK, r.Sig, r.Detail, r.BadStep = false, v.sig, v.detail, i
		return r
	}
	var s *sut
	defer func() {
		if s != nil {
			s.close()
		}
	}()
	for i := range c.H {
		st := &c.H[i]
		only := ""
		if i == 0 && (c.Level == "mgr" || st.Op[0] == "Init") {
			var err error
			var hooks []HookCfg
			if st.Op[0] == "Init" {
				hooks = st.Hooks
			}
			s, err = newSut(c.Level, c.Started, hooks, work)
			if err != nil {
				return fail(i, &violation{"INFRA", err.Error()})
			}
		}
		if s == nil {
			return fail(i, &violation{"INFRA", "history does not start with Init"})
		}
		switch st.Op[0] {
		case "Init":
		case "Add":
			s.sm.Add(smtypes.ScheduleEntry{Crontab: crontabOf[st.Op[1]], Id: st.Op[2]})
		case "Remove":
			s.sm.Remove(smtypes.ScheduleEntry{Crontab: crontabOf[st.Op[1]], Id: st.Op[2]})
		case "Enable":
			s.enable(st.Op[1], true)
		case "Disable":
			s.enable(st.Op[1], false)
		case "Tick":
			only = st.Op[1]
		default:
			return fail(i, &violation{"INFRA", "unknown operation " + st.Op[0]})
		}
		if v := s.observe(st, &r, only); v != nil {
			return fail(i, v)
		}
		r.Steps = i + 1
	}
	return r
}

func readCases(path string) ([]Case, error) {
	f, err := os.Open(path)
	if err != nil {
		return nil, err
	}
	defer f.Close()
	var out []Case
	sc := bufio.NewScanner(f)
	sc.Buffer(make([]byte, 1<<20), 1<<28)
	for sc.Scan() {
		if len(sc.Bytes()) == 0 {
			continue
		}
		var c Case
		if err := json.Unmarshal(sc.Bytes(), &c); err != nil {
			return nil, fmt.Errorf("case %d: %w", len(out), err)
		}
		out = append(out, c)
	}
	return out, sc.Err()
}

func replay(in, out, work string) error {
	cases, err := readCases(in)
	if err != nil {
		return err
	}
	if !supervise.IsChild() {
		return supervise.Run(len(cases), out, 30*time.Second, func(idx int, why string) interface{} {
			lvl := "?"
			if idx < len(cases) {
				lvl = cases[idx].Level
			}
			return Result{Case: idx, OK: false, Level: lvl, Sig: "C11/" + lvl + "/crash", Detail: why}
		})
	}
	log.SetDefault(log.NewNop())
	initCrontabs()
	of, err := os.OpenFile(out, os.O_APPEND|os.O_WRONLY|os.O_CREATE, 0o644)
	if err != nil {
		return err
	}
	defer of.Close()
	// one write per case: the supervisor attributes a crash to the first case without a result line
	for n := supervise.Skip(); n < len(cases); n++ {
		r := replayCase(n, cases[n], work)
		b, _ := json.Marshal(r)
		of.Write(append(b, '\n'))
	}
	return nil
}

func main() {
	os.Setenv("QUEUE_ACTIONS_METRICS", "no")
	if len(os.Args) < 2 || os.Args[1] != "replay" {
		fmt.Fprintln(os.Stderr, "usage: sched replay -in cases.jsonl -out results.jsonl -work dir")
		os.Exit(2)
	}
	fs := flag.NewFlagSet(os.Args[1], flag.ExitOnError)
	in := fs.String("in", "", "input file")
	out := fs.String("out", "", "output file")
	work := fs.String("work", "", "scratch directory for generated hooks")
	fs.Parse(os.Args[2:])
	if *work == "" {
		*work, _ = os.Getwd()
	}
	if err := replay(*in, *out, *work); err != nil {
		fmt.Fprintln(os.Stderr, "sched:", err)
		os.Exit(2)
	}
}
