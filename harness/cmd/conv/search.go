//go:build verif

package main

import (
	"fmt"
	"strings"

	"github.com/flant/shell-operator/pkg/webhook/conversion"
)

const crdName = "crontabs.stable.example.com"

func trimGroup(v string) string {
	if i := strings.IndexRune(v, '/'); i >= 0 {
		return v[i+1:]
	}
	return v
}

// replaySearch declares the rules of the case in one real ChainStorage and asks the requests in order (the
// paths cache persists over the requests). The verdict per answer is membership in the admissible set computed
// by TLC ("no chain" must coincide with TLC's unreachable); answers outside the set are handed back for judgement by
// TLC (ConvSearchTrace), never judged here.
func replaySearch(n int, c Case) Result {
	cs := conversion.NewChainStorage()
	chain := cs.Get(crdName)
	idx := map[conversion.Rule]int{}
	for i, r := range c.Rules {
		rule := conversion.Rule{FromVersion: r[0], ToVersion: r[1]}
		chain.Put(rule)
		idx[rule] = i + 1
	}
	res := Result{Case: n, OK: true}
	for qi, q := range c.Qs {
		ans := cs.FindConversionChain(crdName, conversion.Rule{FromVersion: q.From, ToVersion: q.To})
		if c.Echo && len(ans) == 0 {
			res.Answers = append(res.Answers, []int{})
		}
		if len(ans) == 0 {
			if q.Reach {
				res.NotFound = append(res.NotFound, qi)
			}
			continue
		}
		res.Found++
		ids := make([]int, len(ans))
		for i, r := range ans {
			ids[i] = idx[r]
		}
		if c.Echo {
			res.Answers = append(res.Answers, ids)
		}
		if member(ids, q.Adm) {
			continue
		}
		p := Pending{Q: qi, Ans: ids, Text: fmt.Sprint(ans)}
		for i := 0; i+1 < len(ans); i++ {
			a, b := ans[i].ToVersion, ans[i+1].FromVersion
			if a != b && !(trimGroup(a) == trimGroup(b) && (a == trimGroup(a) || b == trimGroup(b))) && strings.Contains(b, trimGroup(a)) {
				p.Hint = "substring-join"
			}
		}
		if p.Hint == "" && len(ans) >= 4 {
			p.Hint = "long-path" // four or more steps: the path was extended from a cached path with spare capacity
		}
		res.Pending = append(res.Pending, p)
	}
	return res
}

func member(ids []int, adm [][]int) bool {
	for _, a := range adm {
		if len(a) != len(ids) {
			continue
		}
		same := true
		for i := range a {
			if a[i] != ids[i] {
				same = false
				break
			}
		}
		if same {
			return true
		}
	}
	return false
}

func showChain(c Case, ids []int) string {
	var s []string
	for _, i := range ids {
		if i >= 1 && i <= len(c.Rules) {
			s = append(s, c.Rules[i-1][0]+"->"+c.Rules[i-1][1])
		}
	}
	return "[" + strings.Join(s, " ") + "]"
}

func showQueries(c Case, upto int) string {
	var s []string
	for i := 0; i < upto; i++ {
		s = append(s, c.Qs[i].From+"->"+c.Qs[i].To)
	}
	return "[" + strings.Join(s, " ") + "]"
}
