//go:build verif

// Command conv binds spec/Conversion to the real conversion webhook code (property C15).
//
//	conv run -in cases.jsonl -out results.jsonl -work dir
//	    kind "search": declared rules + a sequence of requests, replayed on one real conversion.ChainStorage
//	    (FindConversionChain); every answer is compared with the set of admissible chains computed by TLC.
//	    kind "apply": a chain of rules + one scripted outcome per hook, replayed end to end: HTTP POST of a
//	    ConversionReview to the real conversion.NewWebhookHandler() router, the real ShellOperator
//	    conversionEventHandler, the real hook.Manager / Hook.Run with hook processes (this binary, `conv hook`).
//	    The hook processes are cmd/convhook (path in $VERIF_CONV_HOOKBIN).
package main

import (
	"bufio"
	"encoding/json"
	"flag"
	"fmt"
	"os"
	"time"

	"verifharness/internal/supervise"
)

type Case struct {
	Kind string `json:"kind"`
	Echo bool   `json:"echo"` // search: report every answer (for judgement by TLC)
	// search
	Rules  [][2]string `json:"rules"`
	ARules [][2]int    `json:"arules"`
	Qs     []Query     `json:"qs"`
	// apply
	Len     int       `json:"len"`
	N       int       `json:"n"`
	Outc    []string  `json:"outc"`
	Variant string    `json:"variant"`
	Layout  string    `json:"layout"` // "perhook" (default) | "split": one hook, two conversion bindings for the CRD
	Reach   *bool     `json:"reach"`  // false: ask for a version no chain leads to
	Invoked []Invoked `json:"invoked"`
	Status  string    `json:"status"`
	Msg     Msg       `json:"msg"`
	Cnt     int       `json:"cnt"`
}

type Query struct {
	From  string  `json:"from"`
	To    string  `json:"to"`
	Reach bool    `json:"reach"`
	Adm   [][]int `json:"adm"`
}

type Invoked struct {
	Step int `json:"step"`
	Recv int `json:"recv"`
	Prod int `json:"prod"`
}

type Msg struct {
	Kind string `json:"kind"`
	Echo bool   `json:"echo"` // search: report every answer (for judgement by TLC)
	Step int    `json:"step"`
}

// Pending is an answer of the real code that is not one of the loop-free chains TLC listed; TLC judges it
// afterwards (ConvSearchTrace).
type Pending struct {
	Q    int    `json:"q"`
	Ans  []int  `json:"ans"` // indices into the declared rules (1-based), 0 = not a declared rule
	Text string `json:"text"`
	Hint string `json:"hint,omitempty"`
}

type Result struct {
	Case     int         `json:"case"`
	OK       bool        `json:"ok"`
	Sig      string      `json:"sig,omitempty"`
	Detail   string      `json:"detail,omitempty"`
	Pending  []Pending   `json:"pending,omitempty"`
	NotFound []int       `json:"notfound,omitempty"` // search: requests answered "no chain" although TLC says reachable
	Answers  [][]int     `json:"answers,omitempty"`  // search with echo: every answer as indices into the declared rules
	Found    int         `json:"found,omitempty"`    // search: number of requests answered with a chain
	Steps    int         `json:"steps,omitempty"`    // apply: hook processes run
	Obs      interface{} `json:"obs,omitempty"`
}

func readCases(path string) ([]Case, error) {
	f, err := os.Open(path)
	if err != nil {
		return nil, err
	}
	defer f.Close()
	var out []Case
	sc := bufio.NewScanner(f)
	sc.Buffer(make([]byte, 1<<20), 1<<26)
	for sc.Scan() {
		if len(sc.Bytes()) == 0 {
			continue
		}
		var c Case
		if err := json.Unmarshal(sc.Bytes(), &c); err != nil {
			return nil, err
		}
		out = append(out, c)
	}
	return out, sc.Err()
}

func cmdRun(in, out, work string) error {
	cases, err := readCases(in)
	if err != nil {
		return err
	}
	if !supervise.IsChild() {
		return supervise.Run(len(cases), out, 60*time.Second, func(idx int, why string) interface{} {
			return Result{Case: idx, OK: false, Sig: "C15/crash", Detail: why}
		})
	}
	of, err := os.OpenFile(out, os.O_APPEND|os.O_WRONLY|os.O_CREATE, 0o644)
	if err != nil {
		return err
	}
	defer of.Close()
	w := bufio.NewWriter(of)
	defer w.Flush()
	env := newApplyEnv(work)
	defer env.close()
	for n := supervise.Skip(); n < len(cases); n++ {
		var r Result
		switch cases[n].Kind {
		case "search":
			r = replaySearch(n, cases[n])
		case "apply":
			r = env.replayApply(n, cases[n])
			w.Flush()
		default:
			r = Result{Case: n, OK: false, Sig: "harness/unknown-kind"}
		}
		b, _ := json.Marshal(r)
		w.Write(append(b, '\n'))
		if cases[n].Kind != "search" || n%256 == 0 {
			w.Flush()
		}
	}
	return nil
}

func main() {
	if len(os.Args) < 2 {
		fmt.Fprintln(os.Stderr, "usage: conv run ...")
		os.Exit(2)
	}
	// the webhook handler creates loggers on os.Stdout; keep the result channel clean
	if dn, err := os.OpenFile(os.DevNull, os.O_WRONLY, 0); err == nil {
		os.Stdout = dn
	}
	os.Setenv("QUEUE_ACTIONS_METRICS", "no")
	fs := flag.NewFlagSet(os.Args[1], flag.ExitOnError)
	in := fs.String("in", "", "input file")
	out := fs.String("out", "", "output file")
	work := fs.String("work", "", "scratch directory")
	fs.Parse(os.Args[2:])
	var err error
	switch os.Args[1] {
	case "run":
		err = cmdRun(*in, *out, *work)
	default:
		err = fmt.Errorf("unknown command")
	}
	if err != nil {
		fmt.Fprintln(os.Stderr, "conv:", err)
		os.Exit(2)
	}
}
