//go:build verif

package main

import (
	"bytes"
	"context"
	"encoding/json"
	"fmt"
	"io"
	"net/http"
	"net/http/httptest"
	"os"
	"path/filepath"
	"strings"

	"github.com/deckhouse/deckhouse/pkg/log"

	"github.com/flant/shell-operator/pkg/hook"
	htypes "github.com/flant/shell-operator/pkg/hook/types"
	metricstorage "github.com/flant/shell-operator/pkg/metric_storage"
	shell_operator "github.com/flant/shell-operator/pkg/shell-operator"
	"github.com/flant/shell-operator/pkg/task/queue"
	"github.com/flant/shell-operator/pkg/webhook/conversion"
	"github.com/flant/shell-operator/pkg/webhook/server"
)

const group = "stable.example.com"

// ---------------------------------------------------------------------------------------------
// fixture: one real operator + handler per (variant, layout, chain length)
// ---------------------------------------------------------------------------------------------

type setup struct {
	rules   [][2]string // the chain, as declared
	srv     *httptest.Server
	planDir string
}

type applyEnv struct {
	work   string
	setups map[string]*setup
	seq    int
}

func newApplyEnv(work string) *applyEnv {
	return &applyEnv{work: work, setups: map[string]*setup{}}
}

func (e *applyEnv) close() {
	for _, s := range e.setups {
		s.srv.Close()
	}
}

func full(k int) string  { return fmt.Sprintf("%s/v%d", group, k) }
func short(k int) string { return fmt.Sprintf("v%d", k) }

// chainRules spells the rule of every step k (version k -> k+1) as the variant says.
func chainRules(variant string, n int) [][2]string {
	base := strings.TrimSuffix(variant, "+d")
	var out [][2]string
	for k := 1; k <= n; k++ {
		var f, t string
		switch base {
		case "ff":
			f, t = full(k), full(k+1)
		case "ss":
			f, t = short(k), short(k+1)
		default: // mixed
			if k%2 == 1 {
				f, t = short(k), full(k+1)
			} else {
				f, t = full(k), short(k+1)
			}
		}
		out = append(out, [2]string{f, t})
	}
	return out
}

// hookConfig: one kubernetesCustomResourceConversion binding per element of bindings, all for crdName.
func hookConfig(bindings [][][2]string) []byte {
	type conv struct {
		From string `json:"fromVersion"`
		To   string `json:"toVersion"`
	}
	var bs []interface{}
	for i, rules := range bindings {
		var cs []conv
		for _, r := range rules {
			cs = append(cs, conv{r[0], r[1]})
		}
		name := "conv"
		if len(bindings) > 1 {
			name = fmt.Sprintf("conv-%d", i+1)
		}
		bs = append(bs, map[string]interface{}{"name": name, "crdName": crdName, "conversions": cs})
	}
	b, _ := json.Marshal(map[string]interface{}{
		"configVersion":                      "v1",
		"kubernetesCustomResourceConversion": bs,
	})
	return b
}

// hookLayout spreads the rules of the chain over hooks and conversion bindings.
//
//	"perhook": odd steps in hook-a, even steps in hook-b, one conversion binding each;
//	"split":   ONE hook (hook-a) with TWO conversion bindings for the same crdName (the documented up/down
//	           layout): odd steps in the first binding, even steps in the second; a chain of one step has its rule
//	           in the first binding and an unrelated rule in the second. A rule of the non-last binding is needed
//	           by every request.
func hookLayout(layout string, rules [][2]string) (map[string][][][2]string, error) {
	perHook := map[string][][][2]string{}
	switch layout {
	case "", "perhook":
		for k, r := range rules {
			name := "hook-a"
			if k%2 == 1 {
				name = "hook-b"
			}
			if perHook[name] == nil {
				perHook[name] = [][][2]string{nil}
			}
			perHook[name][0] = append(perHook[name][0], r)
		}
	case "split":
		bs := [][][2]string{nil, nil}
		for k, r := range rules {
			bs[k%2] = append(bs[k%2], r)
		}
		if len(bs[1]) == 0 {
			bs[1] = [][2]string{{full(6), full(7)}} // unrelated to the chain and to the rules of hook-c
		}
		perHook["hook-a"] = bs
	default:
		return nil, fmt.Errorf("unknown layout %q", layout)
	}
	return perHook, nil
}

const stub = `#!/bin/sh
if [ "$1" = "--config" ]; then exec cat "$0.json"; fi
exec "$VERIF_CONV_HOOKBIN" "$0"
`

func (e *applyEnv) get(variant, layout string, n int) (*setup, error) {
	if layout == "" {
		layout = "perhook"
	}
	key := fmt.Sprintf("%s/%s/%d", variant, layout, n)
	if s, ok := e.setups[key]; ok {
		return s, nil
	}
	dir := filepath.Join(e.work, fmt.Sprintf("apply-%s-%s-%d-%d", strings.ReplaceAll(variant, "+", "_"), layout, n, os.Getpid()))
	hooksDir := filepath.Join(dir, "hooks")
	tmpDir := filepath.Join(dir, "tmp")
	planDir := filepath.Join(dir, "plan")
	for _, d := range []string{hooksDir, tmpDir, planDir} {
		if err := os.MkdirAll(d, 0o755); err != nil {
			return nil, err
		}
	}
	rules := chainRules(variant, n)
	perHook, err := hookLayout(layout, rules)
	if err != nil {
		return nil, err
	}
	if strings.HasSuffix(variant, "+d") {
		// rules that are not on the chain: a back edge, a dead end, an unrelated pair
		perHook["hook-c"] = [][][2]string{{
			{full(n + 1), full(1)},
			{short(2), short(8)},
			{full(8), full(9)},
		}}
	}
	for name, rs := range perHook {
		if err := os.WriteFile(filepath.Join(hooksDir, name), []byte(stub), 0o755); err != nil {
			return nil, err
		}
		if err := os.WriteFile(filepath.Join(hooksDir, name+".json"), hookConfig(rs), 0o644); err != nil {
			return nil, err
		}
	}

	logger := log.NewNop()
	log.SetDefault(logger)
	ctx := context.Background()
	op := shell_operator.NewShellOperator(ctx, shell_operator.WithLogger(logger))
	op.MetricStorage = metricstorage.NewMetricStorage(ctx, "verif_", true, logger)
	op.HookMetricStorage = metricstorage.NewMetricStorage(ctx, "verif_hook_", true, logger)
	op.TaskQueues = queue.NewTaskQueueSet()
	cm := conversion.NewWebhookManager()
	cm.Settings = &conversion.WebhookSettings{Settings: server.Settings{ServiceName: "verif"}}
	cm.Namespace = "default"
	op.ConversionWebhookManager = cm
	op.HookManager = hook.NewHookManager(&hook.ManagerConfig{
		WorkingDir: hooksDir,
		TempDir:    tmpDir,
		Cmgr:       cm,
		Logger:     logger,
	})
	if err := op.HookManager.Init(); err != nil {
		return nil, fmt.Errorf("hook manager init: %w", err)
	}
	names, _ := op.HookManager.GetHooksInOrder(htypes.KubernetesConversion)
	if len(names) != len(perHook) {
		return nil, fmt.Errorf("expected %d conversion hooks, loaded %v", len(perHook), names)
	}
	for _, name := range names {
		op.HookManager.GetHook(name).HookController.EnableConversionBindings()
	}
	// what initConversionWebhookManager + WebhookManager.Init do, without certificates and the TLS listener
	cm.EventHandlerFn = op.VerifConversionEventHandler()
	h := conversion.NewWebhookHandler()
	h.Manager = cm
	cm.Handler = h
	s := &setup{rules: rules, srv: httptest.NewServer(h.Router), planDir: planDir}
	e.setups[key] = s
	return s, nil
}

// ---------------------------------------------------------------------------------------------
// one case
// ---------------------------------------------------------------------------------------------

type Plan struct {
	Outcomes map[string]string `json:"outcomes"` // "from->to" as declared -> kind
	Full     map[string]string `json:"full"`     // "from->to" -> apiVersion the converted objects get
	Log      string            `json:"log"`
}

type HookLog struct {
	Hook    string    `json:"hook"`
	From    string    `json:"from"`
	To      string    `json:"to"`
	Desired string    `json:"desired"`
	Recv    []RecvObj `json:"recv"`
	Kind    string    `json:"kind"`
}

type RecvObj struct {
	APIVersion string   `json:"apiVersion"`
	Name       string   `json:"name"`
	Trail      []string `json:"trail"`
}

func failMessage(rule string) string { return "verif hook refuses " + rule }

type obsT struct {
	HTTP    int       `json:"http"`
	Status  string    `json:"status"`
	Message string    `json:"message"`
	Objects []RecvObj `json:"objects"`
	Calls   []HookLog `json:"calls"`
}

func (e *applyEnv) replayApply(n int, c Case) Result {
	fail := func(sig, detail string, obs interface{}) Result {
		return Result{Case: n, OK: false, Sig: sig, Detail: detail, Obs: obs}
	}
	s, err := e.get(c.Variant, c.Layout, c.Len)
	if err != nil {
		return fail("harness/setup", err.Error(), nil)
	}
	e.seq++
	planPath := filepath.Join(s.planDir, fmt.Sprintf("plan-%d.json", e.seq))
	logPath := filepath.Join(s.planDir, fmt.Sprintf("log-%d.ndjson", e.seq))
	plan := Plan{Outcomes: map[string]string{}, Full: map[string]string{}, Log: logPath}
	ruleStep := map[string]int{}
	for k, r := range s.rules {
		key := r[0] + "->" + r[1]
		plan.Outcomes[key] = c.Outc[k]
		plan.Full[key] = full(k + 2)
		ruleStep[key] = k + 1
	}
	pb, _ := json.Marshal(plan)
	if err := os.WriteFile(planPath, pb, 0o644); err != nil {
		return fail("harness/plan", err.Error(), nil)
	}
	defer os.Remove(planPath)
	defer os.Remove(logPath)
	os.Setenv("VERIF_CONV_PLAN", planPath)

	uid := fmt.Sprintf("uid-%d-%d", n, e.seq)
	var objs []json.RawMessage
	for i := 1; i <= c.N; i++ {
		objs = append(objs, json.RawMessage(fmt.Sprintf(
			`{"apiVersion":%q,"kind":"CronTab","metadata":{"name":"obj-%d","namespace":"default"},"spec":{"trail":[]}}`, full(1), i)))
	}
	desired := full(c.Len + 1)
	if c.Reach != nil && !*c.Reach {
		desired = full(c.Len + 2) // no declared rule leads to this version
	}
	body, _ := json.Marshal(map[string]interface{}{
		"apiVersion": "apiextensions.k8s.io/v1", "kind": "ConversionReview",
		"request": map[string]interface{}{"uid": uid, "desiredAPIVersion": desired, "objects": objs},
	})
	resp, err := http.Post(s.srv.URL+"/"+crdName, "application/json", bytes.NewReader(body))
	if err != nil {
		return fail("harness/http", err.Error(), nil)
	}
	rb, _ := io.ReadAll(resp.Body)
	resp.Body.Close()

	obs := obsT{HTTP: resp.StatusCode}
	if lb, err := os.ReadFile(logPath); err == nil {
		for _, line := range bytes.Split(lb, []byte("\n")) {
			if len(bytes.TrimSpace(line)) == 0 {
				continue
			}
			var hl HookLog
			if err := json.Unmarshal(line, &hl); err != nil {
				return fail("harness/hooklog", err.Error(), nil)
			}
			obs.Calls = append(obs.Calls, hl)
		}
	}
	var review struct {
		Response *struct {
			UID    string `json:"uid"`
			Result struct {
				Status  string `json:"status"`
				Message string `json:"message"`
			} `json:"result"`
			ConvertedObjects []json.RawMessage `json:"convertedObjects"`
		} `json:"response"`
	}
	if resp.StatusCode != 200 || json.Unmarshal(rb, &review) != nil || review.Response == nil {
		return fail("C15/apply/no-review-response", fmt.Sprintf("HTTP %d body %.300s", resp.StatusCode, rb), obs)
	}
	obs.Status = review.Response.Result.Status
	obs.Message = review.Response.Result.Message
	for _, o := range review.Response.ConvertedObjects {
		obs.Objects = append(obs.Objects, parseObj(o))
	}
	res := Result{Case: n, OK: true, Steps: len(obs.Calls)}
	desc := fmt.Sprintf("chain %v, %d object(s), hook outcomes %v", s.rules, c.N, c.Outc)
	if desired != full(c.Len+1) {
		desc = fmt.Sprintf("rules %v, %d object(s) of %s, desired %s (no chain exists)", s.rules, c.N, full(1), desired)
	}
	if c.Layout == "split" {
		desc += ", one hook with two conversion bindings for the CRD (odd steps / even steps)"
	}

	// (1) invocations: chain order, each on the previous output, nothing after a failed step
	firstFailKind := ""
	for _, k := range c.Outc {
		if k == "exit1" || k == "empty" || k == "malformed" || k == "failmsg" || k == "failobj" {
			firstFailKind = k
			break
		}
	}
	for k, call := range obs.Calls {
		step := ruleStep[call.From+"->"+call.To]
		if k >= len(c.Invoked) {
			if c.Status == "Failed" && firstFailKind != "" {
				return fail("C15/apply/step-after-failure/"+firstFailKind,
					fmt.Sprintf("%s: hook for %s->%s was run although step %d had failed (%s)", desc, call.From, call.To, len(c.Invoked), firstFailKind), obs)
			}
			return fail("C15/apply/extra-invocation", fmt.Sprintf("%s: unexpected run of the hook for %s->%s", desc, call.From, call.To), obs)
		}
		exp := c.Invoked[k]
		if step != exp.Step {
			return fail("C15/apply/order", fmt.Sprintf("%s: invocation %d was the hook for %s->%s, expected step %d %v", desc, k+1, call.From, call.To, exp.Step, s.rules[exp.Step-1]), obs)
		}
		if len(call.Recv) != exp.Recv {
			return fail("C15/apply/input-not-previous-output", fmt.Sprintf("%s: step %d received %d object(s), the previous output had %d", desc, step, len(call.Recv), exp.Recv), obs)
		}
		for _, o := range call.Recv {
			if o.APIVersion != full(step) || len(o.Trail) != step-1 {
				return fail("C15/apply/input-not-previous-output", fmt.Sprintf("%s: step %d received %+v, expected the output of step %d (%s)", desc, step, o, step-1, full(step)), obs)
			}
		}
		if call.Desired != desired {
			return fail("C15/apply/input-not-previous-output", fmt.Sprintf("%s: step %d saw desiredAPIVersion %q", desc, step, call.Desired), obs)
		}
	}
	if len(obs.Calls) < len(c.Invoked) {
		return fail("C15/apply/step-not-run", fmt.Sprintf("%s: %d hook run(s), expected %d", desc, len(obs.Calls), len(c.Invoked)), obs)
	}
	// (2) the answer
	if review.Response.UID != uid {
		return fail("C15/apply/uid", fmt.Sprintf("%s: response uid %q for request %q", desc, review.Response.UID, uid), obs)
	}
	switch {
	case c.Status == "Failed" && obs.Status == "Success":
		why := firstFailKind
		if desired != full(c.Len+1) {
			why = "no-chain"
		}
		if why == "" {
			for _, k := range c.Outc {
				if k == "drop" || k == "extra" {
					why = "count/" + k
				}
			}
		}
		return fail("C15/apply/success-despite/"+why, fmt.Sprintf("%s: answered Success with %d object(s) for %d requested", desc, len(obs.Objects), c.N), obs)
	case c.Status == "Success" && obs.Status != "Success":
		return fail("C15/apply/failed-although-all-ok", fmt.Sprintf("%s: answered %s %q", desc, obs.Status, obs.Message), obs)
	case c.Status == "Failed" && obs.Status != "Failure" && obs.Status != "Failed":
		return fail("C15/apply/bad-status", fmt.Sprintf("%s: result.status %q", desc, obs.Status), obs)
	}
	if c.Status == "Failed" && c.Msg.Kind == "hook" {
		r := s.rules[c.Msg.Step-1]
		want := failMessage(r[0] + "->" + r[1])
		if !strings.Contains(obs.Message, want) {
			return fail("C15/apply/hook-message-lost", fmt.Sprintf("%s: Failed with %q, the hook said %q", desc, obs.Message, want), obs)
		}
	}
	if c.Status == "Success" {
		if len(obs.Objects) != c.N {
			return fail("C15/apply/success-objects", fmt.Sprintf("%s: Success with %d object(s) for %d requested", desc, len(obs.Objects), c.N), obs)
		}
		for i, o := range obs.Objects {
			if o.APIVersion != desired || o.Name != fmt.Sprintf("obj-%d", i+1) || len(o.Trail) != c.Len {
				return fail("C15/apply/success-objects", fmt.Sprintf("%s: converted object %d is %+v", desc, i+1, o), obs)
			}
			for k, t := range o.Trail {
				if t != s.rules[k][0]+"->"+s.rules[k][1] {
					return fail("C15/apply/success-objects", fmt.Sprintf("%s: object %d was converted along %v", desc, i+1, o.Trail), obs)
				}
			}
		}
	}
	return res
}

func parseObj(raw []byte) RecvObj {
	var o struct {
		APIVersion string `json:"apiVersion"`
		Metadata   struct {
			Name string `json:"name"`
		} `json:"metadata"`
		Spec struct {
			Trail []string `json:"trail"`
		} `json:"spec"`
	}
	_ = json.Unmarshal(raw, &o)
	return RecvObj{APIVersion: o.APIVersion, Name: o.Metadata.Name, Trail: o.Spec.Trail}
}
