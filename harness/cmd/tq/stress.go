//go:build verif

package main

import (
	"bufio"
	"bytes"
	"context"
	"encoding/json"
	"fmt"
	"math/rand"
	"os"
	"runtime"
	"strconv"
	"sync"
	"time"

	"github.com/flant/shell-operator/pkg/task"
	"github.com/flant/shell-operator/pkg/task/queue"

	"verifharness/internal/qgate"
)

func goid() int64 {
	var buf [64]byte
	n := runtime.Stack(buf[:], false)
	// "goroutine 123 ["
	f := bytes.Fields(buf[:n])
	if len(f) < 2 {
		return -1
	}
	id, _ := strconv.ParseInt(string(f[1]), 10, 64)
	return id
}

type ev map[string]interface{}

// cmdStress runs n free-running scenarios: several goroutines issue public operations while the real
// worker handles tasks. Every write critical section emits one record (operation, arguments, resulting
// id list) while the queue lock is still held, so the file order is the lock order.
func cmdStress(out string, n int, seed int64) error {
	of, err := os.Create(out)
	if err != nil {
		return err
	}
	defer of.Close()
	w := bufio.NewWriter(of)
	defer w.Flush()
	var emu sync.Mutex
	emit := func(e ev) {
		emu.Lock()
		defer emu.Unlock()
		b, _ := json.Marshal(e)
		w.Write(b)
		w.WriteByte('\n')
	}
	rng := rand.New(rand.NewSource(seed))
	pool := []string{"a", "b", "c", "d", "e", "f", "g", "h"}
	for run := 0; run < n; run++ {
		emit(ev{"op": "Reset", "items": []string{}, "run": run})
		q := queue.NewTasksQueue()
		q.WithName("s")
		ctx, cancel := context.WithCancel(context.Background())
		q.WithContext(ctx)
		q.WaitLoopCheckInterval = 20 * time.Microsecond
		q.DelayOnQueueIsEmpty = time.Nanosecond
		q.DelayOnRepeat = time.Nanosecond
		c := qgate.New(q, false)
		var pmu sync.Mutex
		pending := map[int64]ev{}
		setPending := func(e ev) { pmu.Lock(); pending[goid()] = e; pmu.Unlock() }
		clearPending := func() { pmu.Lock(); delete(pending, goid()); pmu.Unlock() }
		c.OnWrite = func(ids []string) { // called under q.m
			pmu.Lock()
			e, ok := pending[goid()]
			pmu.Unlock()
			rec := ev{"items": ids}
			if !ok {
				rec["op"] = "Unknown"
			} else {
				for k, v := range e {
					rec[k] = v
				}
			}
			emit(rec)
		}
		wseed := rng.Int63()
		wr := rand.New(rand.NewSource(wseed))
		fresh := 0
		mk := func(k int) ([]task.Task, []string) {
			var ts []task.Task
			ids := []string{}
			for i := 0; i < k; i++ {
				fresh++
				id := "n" + strconv.Itoa(fresh)
				ts = append(ts, mkTask(id))
				ids = append(ids, id)
			}
			return ts, ids
		}
		q.ExponentialBackoffFn = func(int) time.Duration { return time.Nanosecond }
		q.WithHandler(func(t task.Task) queue.TaskResult {
			sts := []queue.TaskStatus{queue.Success, queue.Success, queue.Success, queue.Keep, queue.Fail, queue.Repeat}
			st := sts[wr.Intn(len(sts))]
			res := queue.TaskResult{Status: st}
			big := q.Length() > 10
			var a, h, tl []string
			if !big && (st == queue.Success || st == queue.Keep) {
				res.AfterTasks, a = mk(wr.Intn(3))
				res.HeadTasks, h = mk(wr.Intn(2))
				res.TailTasks, tl = mk(wr.Intn(2))
			}
			if big {
				res.Status = queue.Success
				st = queue.Success
			}
			if a == nil {
				a = []string{}
			}
			if h == nil {
				h = []string{}
			}
			if tl == nil {
				tl = []string{}
			}
			if wr.Intn(4) == 0 {
				runtime.Gosched()
			}
			setPending(ev{"op": "Apply", "st": string(st), "cur": t.GetId(), "after": a, "head": h, "tail": tl})
			return res
		})
		q.Start()
		var wg sync.WaitGroup
		G := 2 + rng.Intn(4)
		for g := 0; g < G; g++ {
			wg.Add(1)
			gs := rng.Int63()
			go func() {
				defer wg.Done()
				r := rand.New(rand.NewSource(gs))
				defer clearPending()
				for k := 0; k < 30; k++ {
					id := pool[r.Intn(len(pool))]
					t := pool[r.Intn(len(pool))]
					full := q.Length() > 10
					opn := r.Intn(10)
					if full && opn < 4 {
						opn = 4 + r.Intn(4)
					}
					func() {
						defer func() {
							if p := recover(); p != nil {
								pmu.Lock()
								emit(ev{"op": "Panic", "msg": fmt.Sprint(p), "items": []string{}})
								pmu.Unlock()
							}
						}()
						switch opn {
						case 0:
							setPending(ev{"op": "AddFirst", "t": t})
							q.AddFirst(mkTask(t))
						case 1:
							setPending(ev{"op": "AddLast", "t": t})
							q.AddLast(mkTask(t))
						case 2:
							setPending(ev{"op": "AddAfter", "id": id, "t": t})
							q.AddAfter(id, mkTask(t))
						case 3:
							setPending(ev{"op": "AddBefore", "id": id, "t": t})
							q.AddBefore(id, mkTask(t))
						case 4:
							setPending(ev{"op": "Remove", "id": id})
							q.Remove(id)
						case 5:
							setPending(ev{"op": "RemoveFirst"})
							q.RemoveFirst()
						case 6:
							setPending(ev{"op": "RemoveLast"})
							q.RemoveLast()
						case 7:
							keep := map[string]bool{}
							ks := []string{}
							for _, p := range pool {
								if r.Intn(3) > 0 {
									keep[p] = true
									ks = append(ks, p)
								}
							}
							setPending(ev{"op": "Filter", "keep": ks})
							q.Filter(func(t task.Task) bool { return keep[t.GetId()] })
						default:
							q.Length()
							q.GetFirst()
						}
					}()
					if r.Intn(3) == 0 {
						runtime.Gosched()
					}
				}
			}()
		}
		wg.Wait()
		q.Stop()
		cancel()
		deadline := time.Now().Add(2 * time.Second)
		for q.GetStatus() != "stop" && time.Now().Before(deadline) {
			time.Sleep(50 * time.Microsecond)
		}
		c.Close()
	}
	return nil
}
