//go:build verif

// Command tq binds spec/TaskQueue to the real queue.TaskQueue.
//
//	tq replay -in behaviours.jsonl -out results.jsonl
//	    every line of -in is one TLC behaviour (list of states with the action label that led to it);
//	    each step is executed on a real queue (public operation, Stop, or one worker stretch between
//	    two gates) and the projected state is compared with the specification's state.
//	tq stress -out trace.ndjson -n N
//	    free-running concurrent drivers; one record per write critical section, logged under the lock.
package main

import (
	"bufio"
	"context"
	"encoding/json"
	"flag"
	"fmt"
	"os"
	"reflect"
	"time"

	"github.com/flant/shell-operator/pkg/task"
	"github.com/flant/shell-operator/pkg/task/queue"

	"verifharness/internal/qgate"
	"verifharness/internal/supervise"
)

type Step struct {
	Lvl        int           `json:"lvl"`
	Act        []interface{} `json:"act"`
	Items      []string      `json:"items"`
	Wpc        string        `json:"wpc"`
	Cur        string        `json:"cur"`
	Sleep      string        `json:"sleep"`
	CtxDone    bool          `json:"ctxDone"`
	LateStart  bool          `json:"lateStart"`
	BackoffArg int           `json:"backoffArg"`
}

type Result struct {
	Case    int      `json:"case"`
	OK      bool     `json:"ok"`
	Steps   int      `json:"steps"`
	Sig     string   `json:"sig,omitempty"`
	Detail  string   `json:"detail,omitempty"`
	BadStep int      `json:"bad_step,omitempty"`
	Actions []string `json:"actions,omitempty"`
}

var allIds = []string{"a", "b", "c", "x", "y"}

func mkTask(id string) task.Task {
	t := task.NewTask("T")
	t.Id = id
	return t
}

func strs(v interface{}) []string {
	out := []string{}
	if a, ok := v.([]interface{}); ok {
		for _, x := range a {
			out = append(out, fmt.Sprint(x))
		}
	}
	return out
}

func tasks(v interface{}) []task.Task {
	var out []task.Task
	for _, id := range strs(v) {
		out = append(out, mkTask(id))
	}
	return out
}

var gatePc = map[string]string{"q.top": "top", "q.shortcut": "shortcut", "q.select": "select", "q.get": "get",
	"q.handled": "handled", "q.apply": "apply", "q.exit": "exit"}

type runner struct {
	q          *queue.TaskQueue
	tqs        *queue.TaskQueueSet
	c          *qgate.Ctl
	cancel     context.CancelFunc
	pc         string
	cur        string
	stopped    bool
	results    int  // handler results produced so far
	late       bool // the set also holds the never started original queue (lateQueue)
	unreported bool // the worker passed its last gate but the set's own WaitStopWithTimeout ran into its timeout
	poisoned   bool // a panic happened inside a critical section: the queue lock may be held forever
}

func tune(q *queue.TaskQueue) {
	q.WaitLoopCheckInterval = 50 * time.Microsecond
	q.DelayOnQueueIsEmpty = time.Nanosecond
	q.DelayOnRepeat = time.Nanosecond
}

// newRunner builds the queue under test. In set mode the queue belongs to a TaskQueueSet (as in the operator)
// and Stop is the set-level Stop that Shutdown uses.
func newRunner(setMode bool) *runner {
	ctx, cancel := context.WithCancel(context.Background())
	r := &runner{cancel: cancel, pc: "notstarted", cur: "NIL"}
	if setMode {
		r.tqs = queue.NewTaskQueueSet()
		r.tqs.WithContext(ctx)
		r.tqs.NewNamedQueue("q", nil)
		r.q = r.tqs.GetByName("q")
	} else {
		r.q = queue.NewTasksQueue()
		r.q.WithName("q")
		r.q.WithContext(ctx)
	}
	tune(r.q)
	r.c = qgate.New(r.q, true)
	return r
}

func (r *runner) stop() {
	if r.tqs != nil {
		r.tqs.Stop()
	} else {
		r.q.Stop()
	}
	r.stopped = true
}

// lateQueue: in set mode a worker started after Stop belongs to a queue that is created after Stop (queues are
// created while the operator starts; shutdown may arrive in between). The content is carried over.
func (r *runner) lateQueue() {
	var ids []string
	r.q.Iterate(func(t task.Task) { ids = append(ids, t.GetId()) })
	r.late = true
	r.c.Close()
	r.tqs.NewNamedQueue("late", nil)
	r.q = r.tqs.GetByName("late")
	tune(r.q)
	for _, id := range ids {
		r.q.AddLast(mkTask(id))
	}
	r.c = qgate.New(r.q, true)
}

// advance releases the worker and records where it arrives.
func (r *runner) advance(release bool) error {
	if release {
		if !r.c.Release() {
			return fmt.Errorf("worker not parked (pc %s)", r.pc)
		}
	}
	ev := r.c.Wait(3 * time.Second)
	switch ev.Kind {
	case "gate":
		r.pc = gatePc[ev.Gate]
	case "handler":
		r.pc = "handling"
		r.cur = ev.Task
	default:
		return fmt.Errorf("worker did not arrive anywhere after pc %s", r.pc)
	}
	return nil
}

func (r *runner) close() {
	r.cancel()
	r.q.Stop()
	if r.tqs != nil {
		r.tqs.Stop()
	}
	r.c.Gated = false
	if r.poisoned {
		r.c.Close()
		return
	}
	deadline := time.Now().Add(2 * time.Second)
	for r.pc != "notstarted" && r.q.GetStatus() != "stop" && time.Now().Before(deadline) {
		switch {
		case r.pc == "handling":
			r.c.Result(queue.TaskResult{Status: queue.Keep})
			r.pc = "free"
		case r.pc == "free":
			ev := r.c.Wait(2 * time.Millisecond)
			if ev.Kind == "handler" {
				r.pc = "handling"
			} else if ev.Kind == "gate" {
				r.c.Release()
			}
		default:
			r.c.Release()
			r.pc = "free"
		}
	}
	r.c.Close()
}

func (r *runner) apply(st Step) (err error, retMismatch string) {
	defer func() {
		if p := recover(); p != nil {
			r.poisoned = true
			err = fmt.Errorf("panic: %v", p)
		}
	}()
	a := st.Act
	op := fmt.Sprint(a[0])
	name := func(t task.Task) string {
		if t == nil || reflect.ValueOf(t).IsNil() {
			return "nil"
		}
		return t.GetId()
	}
	switch op {
	case "AddFirst":
		r.q.AddFirst(mkTask(fmt.Sprint(a[1])))
	case "AddLast":
		r.q.AddLast(mkTask(fmt.Sprint(a[1])))
	case "AddAfter":
		r.q.AddAfter(fmt.Sprint(a[1]), mkTask(fmt.Sprint(a[2])))
	case "AddBefore":
		r.q.AddBefore(fmt.Sprint(a[1]), mkTask(fmt.Sprint(a[2])))
	case "Remove":
		got := name(r.q.Remove(fmt.Sprint(a[1])))
		if got != fmt.Sprint(a[2]) {
			retMismatch = fmt.Sprintf("Remove(%v) returned %s, an ordinary list returns %v", a[1], got, a[2])
		}
	case "RemoveFirst":
		got := name(r.q.RemoveFirst())
		if got != fmt.Sprint(a[1]) {
			retMismatch = fmt.Sprintf("RemoveFirst returned %s, an ordinary list returns %v", got, a[1])
		}
	case "RemoveLast":
		got := name(r.q.RemoveLast())
		if got != fmt.Sprint(a[1]) {
			retMismatch = fmt.Sprintf("RemoveLast returned %s, an ordinary list returns %v", got, a[1])
		}
	case "Filter":
		keep := map[string]bool{}
		for _, k := range strs(a[1]) {
			keep[k] = true
		}
		r.q.Filter(func(t task.Task) bool { return keep[t.GetId()] })
	case "Stop":
		r.stop()
	case "CancelDelay":
		r.q.CancelTaskDelay()
	case "W_Start":
		if r.tqs != nil && r.stopped {
			r.lateQueue()
		}
		r.q.Start()
		err = r.advance(false)
	case "W_Handler":
		res := queue.TaskResult{Status: queue.TaskStatus(fmt.Sprint(a[1])), AfterTasks: tasks(a[2]), HeadTasks: tasks(a[3]), TailTasks: tasks(a[4])}
		r.results++
		if r.results%2 == 0 {
			// a handler may well cut its three lists out of one array (with spare capacity behind): the queue must
			// not write into what it was handed
			all := make([]task.Task, 0, len(res.AfterTasks)+len(res.HeadTasks)+len(res.TailTasks)+4)
			all = append(append(append(all, res.AfterTasks...), res.HeadTasks...), res.TailTasks...)
			la, lh := len(res.AfterTasks), len(res.HeadTasks)
			res.AfterTasks, res.HeadTasks, res.TailTasks = all[:la], all[la:la+lh], all[la+lh:]
		}
		if b, _ := a[5].(bool); b {
			res.DelayBeforeNextTask = time.Nanosecond
		}
		if !r.c.Result(res) {
			return fmt.Errorf("handler not waiting for a result"), ""
		}
		err = r.advance(false)
	case "W_Exit":
		if !r.c.Release() {
			return fmt.Errorf("worker not parked at exit"), ""
		}
		if r.tqs != nil && !r.late {
			// the code's own notion of "every worker has stopped", as Shutdown uses it
			t0 := time.Now()
			r.tqs.WaitStopWithTimeout(4 * time.Second)
			if time.Since(t0) < 3*time.Second {
				r.pc = "stopped"
			} else {
				r.unreported = true
			}
			break
		}
		deadline := time.Now().Add(2 * time.Second)
		for r.q.GetStatus() != "stop" && time.Now().Before(deadline) {
			time.Sleep(20 * time.Microsecond)
		}
		if r.q.GetStatus() == "stop" {
			r.pc = "stopped"
		}
	case "W_SelectCtx", "W_SelectTick":
		if r.stopped {
			// make both select cases ready: the ticker has fired and the context is cancelled
			time.Sleep(4 * r.q.WaitLoopCheckInterval)
		}
		err = r.advance(true)
	case "W_Top", "W_Shortcut", "W_Get", "W_Handled", "W_Apply":
		err = r.advance(true)
	default:
		err = fmt.Errorf("unknown action %s", op)
	}
	return
}

var headFirstOnly bool // -mode c03: only the order of executions is judged (list content is C05's business)

func replayCase(n int, steps []Step) Result {
	res := Result{Case: n, OK: true}
	r := newRunner(n%2 == 1)
	defer r.close()
	for i, st := range steps {
		if i == 0 {
			continue // initial state
		}
		op := fmt.Sprint(st.Act[0])
		res.Actions = append(res.Actions, fmt.Sprint(st.Act))
		res.Steps = i
		bad := func(sig, detail string) Result {
			res.OK = false
			res.Sig = sig
			res.Detail = detail
			res.BadStep = i
			return res
		}
		err, retMis := r.apply(st)
		if headFirstOnly {
			if err != nil {
				return bad("DIV/steer/"+op, err.Error())
			}
			if r.pc == "handling" && st.Wpc == "handling" && r.cur != st.Cur {
				return bad("C03/head-first", fmt.Sprintf("the handler got task %s, the task at the head of an ordinary list is %s", r.cur, st.Cur))
			}
			if (r.pc == "handling") != (st.Wpc == "handling") {
				return bad("C03/pick/"+op, fmt.Sprintf("worker at %s, specification at %s", r.pc, st.Wpc))
			}
			if r.pc != st.Wpc {
				return bad("DIV/wpc/"+op, fmt.Sprintf("worker at %s, specification at %s", r.pc, st.Wpc))
			}
			continue
		}
		if err != nil {
			if len(op) > 2 && op[:2] == "W_" {
				return bad("DIV/steer/"+op, err.Error())
			}
			return bad("C05/"+op+"/panic", err.Error())
		}
		if retMis != "" {
			return bad("C05/"+op+"/return-value", retMis)
		}
		// projected state
		items, length, first, last, gets, oerr := qgate.Snapshot(r.q, allIds)
		hasNil := false
		for _, x := range items {
			if x == "NIL" {
				hasNil = true
			}
		}
		kind := "content"
		if hasNil {
			kind = "nil-slot"
		}
		absent := ""
		if op == "AddAfter" || op == "AddBefore" {
			prev := steps[i-1].Items
			found := false
			for _, x := range prev {
				if x == fmt.Sprint(st.Act[1]) {
					found = true
				}
			}
			if !found {
				absent = "/absent-id"
			}
		}
		if oerr != nil {
			r.poisoned = true
			return bad("C05/"+op+absent+"/observer-panic", fmt.Sprintf("%v; items=%v want %v", oerr, items, st.Items))
		}
		if !reflect.DeepEqual(items, st.Items) {
			if oerr == nil && !hasNil && length == len(items) && missingIdPolicy(op, st, steps[i-1].Items, items) {
				// The statement does not say what an insertion next to a missing id does beyond "no empty slot,
				// length = number of tasks"; the specification models "no change". Another policy is a divergence.
				return bad("DIV/missing-id-policy/"+op, fmt.Sprintf("queue holds %v, spec %v", items, st.Items))
			}
			return bad("C05/"+op+absent+"/"+kind, fmt.Sprintf("queue holds %v, an ordinary list holds %v", items, st.Items))
		}
		if length != len(st.Items) {
			return bad("C05/"+op+"/length", fmt.Sprintf("Length()=%d but %d tasks", length, len(st.Items)))
		}
		wantFirst, wantLast := "nil", "nil"
		if len(st.Items) > 0 {
			wantFirst, wantLast = st.Items[0], st.Items[len(st.Items)-1]
		}
		if first != wantFirst || last != wantLast {
			return bad("C05/"+op+"/first-last", fmt.Sprintf("GetFirst=%s GetLast=%s want %s %s", first, last, wantFirst, wantLast))
		}
		for _, id := range allIds {
			want := "nil"
			for _, x := range st.Items {
				if x == id {
					want = id
				}
			}
			if gets[id] != want {
				return bad("C05/"+op+"/get", fmt.Sprintf("Get(%s)=%s want %s", id, gets[id], want))
			}
		}
		// worker position
		if r.unreported {
			return bad("C17/stop-never-reported", "the worker passed its last gate after Stop, but TaskQueueSet.WaitStopWithTimeout(4s) ran into its timeout: the queue never counts as stopped and Shutdown always waits the full timeout")
		}
		if r.pc != st.Wpc {
			if r.pc == "get" && r.stopped && st.Wpc == "exit" {
				// the wait loop took the ticker case although the context was cancelled: see whether a task starts
				if err := r.advance(true); err == nil && r.pc == "handling" {
					return bad("C17/late-start/"+op, fmt.Sprintf("handler invoked for %s after Stop returned (the wait loop's select took the ticker case)", r.cur))
				}
			}
			if r.stopped && r.pc != "handling" && r.pc != "exit" && r.pc != "stopped" {
				// the worker left the specified path after Stop: let it run on and see whether a task is started
				for k := 0; k < 12 && r.pc != "handling" && r.pc != "exit"; k++ {
					if r.pc == "select" {
						time.Sleep(4 * r.q.WaitLoopCheckInterval)
					}
					if r.advance(true) != nil {
						break
					}
				}
				if r.pc == "handling" {
					return bad("C17/late-start/"+op, fmt.Sprintf("handler invoked for %s after Stop returned (spec: worker at %s after %s)", r.cur, st.Wpc, op))
				}
			}
			if r.pc == "handling" && r.stopped {
				return bad("C17/late-start/"+op, fmt.Sprintf("handler invoked for %s after Stop (spec: worker at %s)", r.cur, st.Wpc))
			}
			if st.Wpc == "handling" || r.pc == "handling" {
				return bad("C03/pick/"+op, fmt.Sprintf("worker at %s, spec at %s", r.pc, st.Wpc))
			}
			return bad("DIV/wpc/"+op, fmt.Sprintf("worker at %s, spec at %s", r.pc, st.Wpc))
		}
		if st.Wpc == "handling" && r.cur != st.Cur {
			return bad("C03/head-first", fmt.Sprintf("handler got %s, head was %s", r.cur, st.Cur))
		}
		if op == "W_Apply" && r.c.LastBackoffArg() != st.BackoffArg {
			return bad("C04/backoff-arg", fmt.Sprintf("back-off computed for failure count %d, spec %d", r.c.LastBackoffArg(), st.BackoffArg))
		}
	}
	return res
}

// missingIdPolicy: the step inserted next to an id that is not in the queue and the result is the previous
// content plus the new tasks at one of the ends.
func missingIdPolicy(op string, st Step, prev, got []string) bool {
	has := func(l []string, id string) bool {
		for _, x := range l {
			if x == id {
				return true
			}
		}
		return false
	}
	var added []string
	switch op {
	case "AddAfter", "AddBefore":
		if has(prev, fmt.Sprint(st.Act[1])) {
			return false
		}
		added = []string{fmt.Sprint(st.Act[2])}
	default:
		return false
	}
	if len(got) != len(prev)+len(added) {
		return false
	}
	tailOK := reflect.DeepEqual(got[:len(prev)], prev) && reflect.DeepEqual(got[len(prev):], added)
	headOK := reflect.DeepEqual(got[len(added):], prev) && reflect.DeepEqual(got[:len(added)], added)
	return tailOK || headOK
}

func readCases(in string) ([][]Step, error) {
	f, err := os.Open(in)
	if err != nil {
		return nil, err
	}
	defer f.Close()
	sc := bufio.NewScanner(f)
	sc.Buffer(make([]byte, 1<<20), 1<<26)
	var cases [][]Step
	for sc.Scan() {
		var steps []Step
		if err := json.Unmarshal(sc.Bytes(), &steps); err != nil {
			return nil, fmt.Errorf("case %d: %v", len(cases), err)
		}
		cases = append(cases, steps)
	}
	return cases, sc.Err()
}

func cmdReplay(in, out string) error {
	cases, err := readCases(in)
	if err != nil {
		return err
	}
	if !supervise.IsChild() {
		return supervise.Run(len(cases), out, 20*time.Second, func(idx int, why string) interface{} {
			r := Result{Case: idx, OK: false, Sig: "C05/crash", Detail: why}
			if idx < len(cases) {
				for _, st := range cases[idx][1:] {
					r.Actions = append(r.Actions, fmt.Sprint(st.Act))
				}
				r.BadStep = len(cases[idx]) - 1
				r.Steps = r.BadStep
			}
			return r
		})
	}
	of, err := os.OpenFile(out, os.O_APPEND|os.O_WRONLY|os.O_CREATE, 0o644)
	if err != nil {
		return err
	}
	defer of.Close()
	for n := supervise.Skip(); n < len(cases); n++ {
		r := replayCase(n, cases[n])
		if r.OK {
			r.Actions = nil
		}
		b, _ := json.Marshal(r)
		of.Write(append(b, '\n'))
	}
	return nil
}

func main() {
	os.Setenv("QUEUE_ACTIONS_METRICS", "no")
	if len(os.Args) < 2 {
		fmt.Fprintln(os.Stderr, "usage: tq replay|stress ...")
		os.Exit(2)
	}
	fs := flag.NewFlagSet(os.Args[1], flag.ExitOnError)
	in := fs.String("in", "", "input file")
	out := fs.String("out", "", "output file")
	n := fs.Int("n", 100, "number of runs")
	seed := fs.Int64("seed", 1, "seed")
	mode := fs.String("mode", "", "c03: judge only which task is executed next")
	fs.Parse(os.Args[2:])
	headFirstOnly = *mode == "c03"
	var err error
	switch os.Args[1] {
	case "replay":
		err = cmdReplay(*in, *out)
	case "stress":
		err = cmdStress(*out, *n, *seed)
	default:
		err = fmt.Errorf("unknown command")
	}
	if err != nil {
		fmt.Fprintln(os.Stderr, "tq:", err)
		os.Exit(2)
	}
}
