//go:build verif

// Command ki binds spec/KubeInformer to the real resourceInformer (pkg/kube_events_manager).
//
//	ki replay -in behaviours.jsonl -out results.jsonl
//
// Every behaviour is a TLC-generated schedule of the informer protocol. Real goroutines (the delivery
// goroutine calling OnAdd/OnUpdate/OnDelete, snapshot readers, the unlock, the consumer) are released
// from gate to gate in exactly that order; after every step the informer's cache, buffer, flag, the
// event channel and the delivered list are compared with the specification's state, and at the end the
// property oracle (no early event, no loss, per-object order, reconstruction of the cluster state) is
// evaluated on what the real code delivered.
package main

import (
	"bufio"
	"context"
	"encoding/json"
	"flag"
	"fmt"
	"os"
	"reflect"
	"sort"
	"strings"
	"time"

	"github.com/deckhouse/deckhouse/pkg/log"
	"k8s.io/apimachinery/pkg/apis/meta/v1/unstructured"

	kem "github.com/flant/shell-operator/pkg/kube_events_manager"
	kemtypes "github.com/flant/shell-operator/pkg/kube_events_manager/types"
	metric_storage "github.com/flant/shell-operator/pkg/metric_storage"
	"github.com/flant/shell-operator/pkg/verifhook"

	"verifharness/internal/gate"
	"verifharness/internal/supervise"
)

type State map[string]interface{}

type Result struct {
	Case    int      `json:"case"`
	OK      bool     `json:"ok"`
	Steps   int      `json:"steps"`
	Sig     string   `json:"sig,omitempty"`
	Detail  string   `json:"detail,omitempty"`
	BadStep int      `json:"bad_step,omitempty"`
	Quiet   bool     `json:"quiet"`
	Fired   int      `json:"fired"`
	Lost    []string `json:"lost,omitempty"` // cause labels of real losses
}

type Ev struct {
	T, O, V string
	RV      string // identity of the watch event (resourceVersion), not part of the spec state
}

func (e Ev) String() string { return e.T + ":" + e.O + "=" + e.V }

func mkObj(o, v, rv string) *unstructured.Unstructured {
	u := &unstructured.Unstructured{Object: map[string]interface{}{
		"apiVersion": "v1", "kind": "ConfigMap",
		"metadata": map[string]interface{}{"name": o, "namespace": "default", "resourceVersion": rv},
		"data":     map[string]interface{}{},
	}}
	if len(v) == 4 {
		u.Object["data"] = map[string]interface{}{"p": v[:2], "r": v[2:]}
	}
	return u
}

func valOf(u *unstructured.Unstructured) string {
	if u == nil {
		return "?"
	}
	d, _, _ := unstructured.NestedStringMap(u.Object, "data")
	return d["p"] + d["r"]
}

func evOf(ke kemtypes.KubeEvent) Ev {
	t := map[kemtypes.WatchEventType]string{kemtypes.WatchEventAdded: "A", kemtypes.WatchEventModified: "M", kemtypes.WatchEventDeleted: "D"}[ke.WatchEvents[0]]
	o := ke.Objects[0].Object
	v := valOf(o)
	if t == "D" {
		v = "none"
	}
	return Ev{t, o.GetName(), v, o.GetResourceVersion()}
}

func specEvs(v interface{}) []Ev {
	out := []Ev{}
	for _, x := range v.([]interface{}) {
		m := x.(map[string]interface{})
		out = append(out, Ev{T: fmt.Sprint(m["t"]), O: fmt.Sprint(m["o"]), V: fmt.Sprint(m["v"])})
	}
	return out
}

type world struct {
	eventTypes []string
	inf        *kem.VerifInformer
	s          *gate.Sched
	ch         []Ev
	deliv      []Ev
	handler    *gate.Proc
	readers    map[string]*gate.Proc
	reads      map[string][]kemtypes.ObjectAndFilterResult
	enabler    *gate.Proc
	procs      []*gate.Proc
	pending    []Ev // watch events not yet handed to the handler
	cluster    map[string]string
	seq        int
	filter     string
	proj       string
	lastRV     map[string]string

	// observations for the oracle
	fired      []Ev     // in fire order (buffered or handed to the callback)
	firedAfter []bool   // fired after the successful Synchronization reader's copy
	firedDeliv []bool   // reached the consumer
	lostCause  []string // cause label observed for a dropped event
	syncDone   bool
	syncCopied bool // the (last) Synchronization reader has copied the cache
	syncView   map[string]string
	syncOK     bool
	earlyEvent bool
	cbSeq      []int // indices into fired, in the order the callback was invoked
	bufIdx     []int // indices into fired of the events currently in the real buffer
}

var filters = map[string]string{
	"object": `{"p": .data.p}`,
	"nested": `.data | {p: .p}`,
	"none":   "",
	"string": `.data.p`,
	"array":  `[.data.p]`,
	"number": `.data.p | ltrimstr("p") | tonumber`,
	"bool":   `.data.p == "p1"`,
	"const":  `.data.missing`,
	// an object with several keys, nested maps and an array: its checksum must not depend on map iteration order
	"wide": `{"p": .data.p, "k": "c", "n": .metadata.name, "z": [1, 2], "m": {"a": .data.p, "b": 1, "c": {"x": 1, "y": 2}}}`,
	// no jq: the projection is a Go function of the binding (FilterFunc, used by Go hooks)
	"func": "",
}

func newWorld(eventTypes []string, filter, proj string, ms *metric_storage.MetricStorage) *world {
	w := &world{eventTypes: eventTypes, filter: filter, proj: proj, lastRV: map[string]string{}, s: gate.New(), readers: map[string]*gate.Proc{}, reads: map[string][]kemtypes.ObjectAndFilterResult{}, cluster: map[string]string{}}
	cfg := &kem.MonitorConfig{}
	cfg.Metadata.MonitorId = "m1"
	cfg.Metadata.DebugName = "verif"
	cfg.Metadata.MetricLabels = map[string]string{"hook": "h", "binding": "b", "queue": "q", "kind": "ConfigMap"}
	cfg.Metadata.LogLabels = map[string]string{}
	cfg.Kind = "ConfigMap"
	cfg.ApiVersion = "v1"
	cfg.JqFilter = filters[filter]
	if filter == "func" {
		cfg.FilterFunc = func(u *unstructured.Unstructured) (interface{}, error) {
			p, _, _ := unstructured.NestedString(u.Object, "data", "p")
			return map[string]interface{}{"p": p, "k": "c", "n": u.GetName()}, nil
		}
	}
	cfg.KeepFullObjectsInMemory = true
	cfg.Logger = log.NewNop()
	var ets []kemtypes.WatchEventType
	for _, t := range eventTypes {
		ets = append(ets, map[string]kemtypes.WatchEventType{"A": kemtypes.WatchEventAdded, "M": kemtypes.WatchEventModified, "D": kemtypes.WatchEventDeleted}[t])
	}
	cfg.EventTypes = ets
	w.inf = kem.VerifNewInformer(cfg, ms, func(ke kemtypes.KubeEvent) {
		// the event channel has capacity 1: the send blocks until the scheduler says there is room
		e := evOf(ke)
		idx := w.matchFired(e)
		w.cbSeq = append(w.cbSeq, idx)
		w.s.Hook("cb.put")
		w.ch = append(w.ch, e)
		if !w.syncOK {
			w.earlyEvent = true
		}
	})
	verifhook.Set(func(point string, args ...interface{}) {
		if strings.HasPrefix(point, "ri.") && len(args) > 0 && w.inf.Is(args[0]) {
			w.s.Hook(point)
		}
	})
	return w
}

// matchFired finds the oldest fired, not yet delivered/handed event equal to e that is not yet in cbSeq.
func (w *world) matchFired(e Ev) int {
	used := map[int]bool{}
	for _, i := range w.cbSeq {
		used[i] = true
	}
	for i, f := range w.fired {
		if f == e && !used[i] {
			return i
		}
	}
	return -1
}

func (w *world) realState() (cache map[string]string, buf []Ev, enabled bool) {
	objs, rb, en := w.inf.StateUnlocked()
	cache = map[string]string{}
	for _, o := range objs {
		cache[o.Object.GetName()] = valOf(o.Object)
	}
	for _, ke := range rb {
		buf = append(buf, evOf(ke))
	}
	return cache, buf, en
}

// noteBuffer is called after every step: it tracks which fired events sit in the real buffer and records why an
// event left it without being replayed.
func (w *world) noteBuffer(actor string, before, after []Ev, enabledBefore bool) {
	if len(after) == len(before)+1 && (len(before) == 0 || reflect.DeepEqual(after[:len(before)], before)) {
		// appended by the handler
		idx := len(w.fired) - 1
		w.bufIdx = append(w.bufIdx, idx)
		if enabledBefore {
			w.lostCause[idx] = "stale-flag-append"
		}
		return
	}
	if len(after) == 0 && len(before) > 0 {
		if strings.HasPrefix(actor, "reader:") {
			r := strings.TrimPrefix(actor, "reader:")
			for _, idx := range w.bufIdx {
				if r == "sync" {
					if w.firedAfter[idx] {
						w.lostCause[idx] = "reset-after-late-append"
					}
				} else {
					w.lostCause[idx] = "second-reader-reset"
				}
			}
		}
		w.bufIdx = nil
	}
}

func (w *world) step(st State, prev State) (string, error) {
	a := st["act"].([]interface{})
	op := fmt.Sprint(a[0])
	cacheB, bufB, enB := w.realState()
	_ = cacheB
	actor := ""
	expectGate := func(p *gate.Proc, want ...string) error {
		g := w.s.Step(p)
		for _, x := range want {
			if g == x {
				return nil
			}
		}
		return fmt.Errorf("%s arrived at %s, expected one of %v", p.Name, g, want)
	}
	var err error
	switch op {
	case "Change":
		o, v := fmt.Sprint(a[1]), fmt.Sprint(a[2])
		t := "M"
		if v == "none" {
			t = "D"
		} else if w.cluster[o] == "" {
			t = "A"
		}
		if v == "none" {
			delete(w.cluster, o)
		} else {
			w.cluster[o] = v
		}
		w.seq++
		w.lastRV[o] = fmt.Sprint(w.seq)
		w.pending = append(w.pending, Ev{t, o, v, fmt.Sprint(w.seq)})
	case "Resync":
		o := fmt.Sprint(a[1])
		// a resync re-delivers the very same object (same resourceVersion)
		w.pending = append(w.pending, Ev{"M", o, w.cluster[o], w.lastRV[o]})
	case "HW_UpdateCache":
		e := w.pending[0]
		w.pending = w.pending[1:]
		outcome := fmt.Sprint(a[4])
		var last string
		if e.T == "D" {
			// client-go hands the last known state of the object to OnDelete
			c, _, _ := w.realState()
			last = c[e.O]
		}
		w.handler = w.s.Spawn("handler", func() {
			switch e.T {
			case "A":
				w.inf.OnAdd(mkObj(e.O, e.V, e.RV))
			case "M":
				w.inf.OnUpdate(mkObj(e.O, e.V, e.RV))
			case "D":
				w.inf.OnDelete(mkObj(e.O, last, e.RV))
			}
		})
		w.procs = append(w.procs, w.handler)
		actor = "handler"
		g := w.s.Step(w.handler)
		switch outcome {
		case "skip":
			if g != "done" {
				// the real code decided to fire although the projection did not change
				return "C08/fired-unchanged/" + w.filter, fmt.Errorf("handler went on to %s for %v although the projection is unchanged", g, e)
			}
		case "fire", "filtered":
			if g != "ri.afterCache" {
				return "C08/suppressed-change/" + w.filter, fmt.Errorf("handler returned (%s) for %v although the projection changed", g, e)
			}
			if outcome == "fire" {
				w.fired = append(w.fired, e)
				w.firedAfter = append(w.firedAfter, w.syncCopied)
				w.firedDeliv = append(w.firedDeliv, false)
				w.lostCause = append(w.lostCause, "")
			}
		}
	case "HW_NoFire":
		// the watch-event type is not listed in executeHookOnEvent: the handler returns after the cache update
		actor = "handler"
		if err = expectGate(w.handler, "done"); err != nil {
			return "C08/fired-although-type-not-listed/" + w.filter, fmt.Errorf("the event type of the change is not in executeHookOnEvent %v, yet the handler went on to deliver it: %v", w.eventTypes, err)
		}
	case "HW_Decide":
		actor = "handler"
		if en, _ := a[1].(bool); en {
			err = expectGate(w.handler, "ri.afterFlag")
		} else {
			err = expectGate(w.handler, "done")
		}
	case "HW_ReadFlag":
		actor = "handler"
		err = expectGate(w.handler, "ri.afterFlag")
	case "HW_Append":
		actor = "handler"
		err = expectGate(w.handler, "done")
	case "HW_Put":
		actor = "handler"
		if w.handler.At == "ri.afterFlag" {
			if err = expectGate(w.handler, "cb.put"); err != nil {
				break
			}
		}
		err = expectGate(w.handler, "done")
	case "SYNC_Start", "OtherRead":
		r := "sync"
		if op == "OtherRead" {
			r = fmt.Sprint(a[1])
		} else {
			w.syncCopied = false
		}
		rr := r
		w.readers[r] = w.s.Spawn("reader:"+r, func() {
			if rr == "sync" {
				// as taskHandleHookRun does for a Synchronization: what was saved so far is dropped, then the hook run reads
				// its snapshots; every other reader only reads
				w.inf.DropSavedEvents()
				w.s.Hook("rd.afterDrop")
			}
			w.reads[rr] = w.inf.CachedObjects()
		})
		w.procs = append(w.procs, w.readers[r])
	case "GC_Drop":
		r := fmt.Sprint(a[1])
		actor = "reader:" + r
		err = expectGate(w.readers[r], "rd.afterDrop")
	case "GC_CopyReset", "GC_CopyOnly":
		r := fmt.Sprint(a[1])
		actor = "reader:" + r
		err = expectGate(w.readers[r], "done")
		if r == "sync" {
			w.syncCopied = true
		}
	case "GC_Copy":
		r := fmt.Sprint(a[1])
		actor = "reader:" + r
		err = expectGate(w.readers[r], "ri.afterCopy")
		if r == "sync" {
			w.syncCopied = true
		}
	case "GC_Reset":
		r := fmt.Sprint(a[1])
		actor = "reader:" + r
		err = expectGate(w.readers[r], "done")
	case "SYNC_HookRuns":
	case "SYNC_HookDone":
		if ok, _ := a[1].(bool); ok {
			w.syncOK = true
			w.syncView = map[string]string{}
			for _, o := range w.reads["sync"] {
				w.syncView[o.Object.GetName()] = valOf(o.Object)
			}
		} else {
			// a failed run: the events fired so far stay "before" only if a later successful run copies after them
			for i := range w.firedAfter {
				w.firedAfter[i] = false
			}
			w.syncCopied = false
		}
	case "EN_Begin":
		w.enabler = w.s.Spawn("enabler", func() { w.inf.EnableKubeEventCb() })
		w.procs = append(w.procs, w.enabler)
		actor = "enabler"
		if len(bufB) == 0 {
			err = expectGate(w.enabler, "done")
		} else {
			err = expectGate(w.enabler, "cb.put")
		}
	case "EN_Put":
		actor = "enabler"
		err = expectGate(w.enabler, "cb.put", "done")
	case "Consume":
		if len(w.ch) == 0 {
			return "DIV/consume-empty", fmt.Errorf("nothing in the real channel")
		}
		e := w.ch[0]
		w.ch = w.ch[1:]
		w.deliv = append(w.deliv, e)
		// mark the oldest undelivered callback invocation
		for k, idx := range w.cbSeq {
			if idx >= 0 && !w.firedDeliv[idx] && w.fired[idx] == e {
				w.firedDeliv[idx] = true
				w.cbSeq[k] = -2
				break
			}
		}
	default:
		return "DIV/unknown-action", fmt.Errorf("unknown action %s", op)
	}
	if err != nil {
		return "DIV/steer/" + op, err
	}
	_, bufA, _ := w.realState()
	w.noteBuffer(actor, bufB, bufA, enB)
	return "", nil
}

// probeBlocked: while the unlock replays its buffer (it owns eventBufLock), the specification says that the
// handler's buffer section and every reader are blocked. Release them anyway and see that they do not move.
func (w *world) probeBlocked(st State) string {
	if fmt.Sprint(st["epc"]) != "replay" {
		return ""
	}
	hpc := fmt.Sprint(st["hpc"])
	if (hpc == "decide" || hpc == "append") && w.handler != nil && !w.handler.InFlight && !w.handler.Done {
		if g := w.s.Probe(w.handler, 2*time.Millisecond); g != "BLOCKED" {
			return fmt.Sprintf("the handler went on to %s while enableKubeEventCb was replaying its buffer", g)
		}
	}
	for r, pc := range st["rpc"].(map[string]interface{}) {
		p := w.readers[r]
		if fmt.Sprint(pc) == "want" && r == "sync" && p != nil && !p.InFlight && !p.Done {
			if g := w.s.Probe(p, 2*time.Millisecond); g != "BLOCKED" {
				return fmt.Sprintf("reader %s went on to %s while enableKubeEventCb was replaying its buffer", r, g)
			}
		}
	}
	return ""
}

// finishFree drives every process to its end (consuming the channel whenever something is in it) and hands the
// remaining watch events to the handler one after the other.
func (w *world) finishFree() {
	consume := func() {
		for len(w.ch) > 0 {
			e := w.ch[0]
			w.ch = w.ch[1:]
			w.deliv = append(w.deliv, e)
			for k, idx := range w.cbSeq {
				if idx >= 0 && !w.firedDeliv[idx] && w.fired[idx] == e {
					w.firedDeliv[idx] = true
					w.cbSeq[k] = -2
					break
				}
			}
		}
	}
	old := w.s.Timeout
	w.s.Timeout = 20 * time.Millisecond
	defer func() { w.s.Timeout = old }()
	for round := 0; round < 200; round++ {
		progress := false
		for _, p := range w.procs {
			if p.Done {
				continue
			}
			g := w.s.Step(p)
			if g != "UNSTEERABLE" {
				progress = true
			}
			consume()
		}
		alive := false
		for _, p := range w.procs {
			if !p.Done {
				alive = true
			}
		}
		if !alive {
			if len(w.pending) == 0 {
				break
			}
			e := w.pending[0]
			w.pending = w.pending[1:]
			last := ""
			if e.T == "D" {
				c, _, _ := w.realState()
				last = c[e.O]
			}
			nFired := 0
			_, bufB, _ := w.realState()
			cbB := len(w.cbSeq)
			h := w.s.Spawn("handler", func() {
				switch e.T {
				case "A":
					w.inf.OnAdd(mkObj(e.O, e.V, e.RV))
				case "M":
					w.inf.OnUpdate(mkObj(e.O, e.V, e.RV))
				case "D":
					w.inf.OnDelete(mkObj(e.O, last, e.RV))
				}
			})
			w.procs = append(w.procs, h)
			// whether it fires is observed afterwards (buffer grew or callback called)
			w.fired = append(w.fired, e)
			w.firedAfter = append(w.firedAfter, true)
			w.firedDeliv = append(w.firedDeliv, false)
			w.lostCause = append(w.lostCause, "")
			for k := 0; k < 10 && !h.Done; k++ {
				w.s.Step(h)
				consume()
			}
			_, bufA, _ := w.realState()
			if len(bufA) == len(bufB) && len(w.cbSeq) == cbB {
				// did not fire: forget it
				w.fired = w.fired[:len(w.fired)-1]
				w.firedAfter = w.firedAfter[:len(w.firedAfter)-1]
				w.firedDeliv = w.firedDeliv[:len(w.firedDeliv)-1]
				w.lostCause = w.lostCause[:len(w.lostCause)-1]
			} else if len(bufA) > len(bufB) {
				w.bufIdx = append(w.bufIdx, len(w.fired)-1)
			}
			_ = nFired
			progress = true
		}
		if !progress {
			break
		}
	}
	consume()
}

func (w *world) compare(st State) (string, string) {
	cache, buf, enabled := w.realState()
	wantCache := map[string]string{}
	for o, v := range st["cache"].(map[string]interface{}) {
		if fmt.Sprint(v) != "none" {
			wantCache[o] = fmt.Sprint(v)
		}
	}
	if !reflect.DeepEqual(cache, wantCache) {
		return "cache", fmt.Sprintf("cache %v, spec %v", cache, wantCache)
	}
	if want, _ := st["enabled"].(bool); want != enabled {
		return "enabled", fmt.Sprintf("eventCbEnabled %v, spec %v", enabled, want)
	}
	wantBuf := specEvs(st["buf"])
	epc := fmt.Sprint(st["epc"])
	if epc == "idle" && !(len(buf) == 0 && len(wantBuf) == 0) && !reflect.DeepEqual(strip(buf), wantBuf) {
		return "buffer", fmt.Sprintf("buffer %v, spec %v", buf, wantBuf)
	}
	wantCh := specEvs(st["ch"])
	if !(len(w.ch) == 0 && len(wantCh) == 0) && !reflect.DeepEqual(strip(w.ch), wantCh) {
		return "channel", fmt.Sprintf("channel %v, spec %v", w.ch, wantCh)
	}
	wantD := specEvs(st["delivered"])
	if !(len(w.deliv) == 0 && len(wantD) == 0) && !reflect.DeepEqual(strip(w.deliv), wantD) {
		return "delivered", fmt.Sprintf("delivered %v, spec %v", w.deliv, wantD)
	}
	return "", ""
}

func strip(evs []Ev) []Ev {
	out := make([]Ev, 0, len(evs))
	for _, e := range evs {
		out = append(out, Ev{T: e.T, O: e.O, V: e.V})
	}
	return out
}

func specQuiet(st State) bool {
	if len(st["watchQ"].([]interface{})) != 0 || fmt.Sprint(st["hpc"]) != "idle" || len(st["ch"].([]interface{})) != 0 ||
		fmt.Sprint(st["syncSt"]) != "done" || fmt.Sprint(st["epc"]) != "idle" {
		return false
	}
	for _, v := range st["rpc"].(map[string]interface{}) {
		if s := fmt.Sprint(v); s != "idle" && s != "done" {
			return false
		}
	}
	return true
}

// oracle evaluates the property on the real execution (only meaningful at quiescence).
func (w *world) oracle(eventTypes []string, quiet bool) (sigs []string, details []string) {
	add := func(s, d string) { sigs = append(sigs, s); details = append(details, d) }
	if w.earlyEvent {
		add("C01/early-event", "an Event was handed to the callback before the Synchronization succeeded")
	}
	// per-object order of delivery = order of the changes
	pos := map[string]int{}
	for _, e := range w.deliv {
		// find e in fired at or after pos[e.O]
		found := -1
		for i := pos[e.O]; i < len(w.fired); i++ {
			if w.fired[i] == e {
				found = i
				break
			}
		}
		if found < 0 {
			add("C01/order", fmt.Sprintf("delivered %v out of order or twice; fired %v delivered %v", e, w.fired, w.deliv))
			break
		}
		pos[e.O] = found + 1
	}
	if !quiet {
		return
	}
	_, buf, enabled := w.realState()
	if enabled && len(buf) > 0 {
		for _, idx := range w.bufIdx {
			if w.lostCause[idx] == "" {
				w.lostCause[idx] = "stranded"
			}
		}
	}
	lost := false
	for i, f := range w.fired {
		if w.firedAfter[i] && !w.firedDeliv[i] {
			lost = true
			c := w.lostCause[i]
			if c == "" {
				c = "unexplained"
			}
			add("C01/loss/"+c, fmt.Sprintf("change %v happened after the Synchronization snapshot was taken and never reached the consumer (fired %v, delivered %v, Synchronization view %v)", f, w.fired, w.deliv, w.syncView))
		}
	}
	if !lost && len(eventTypes) == 3 {
		pr := func(v string) string {
			switch w.proj {
			case "whole":
				return v
			case "const":
				return "c"
			}
			return v[:2]
		}
		m := map[string]string{}
		for k, v := range w.syncView {
			m[k] = pr(v)
		}
		for _, e := range w.deliv {
			if e.T == "D" {
				delete(m, e.O)
			} else {
				m[e.O] = pr(e.V)
			}
		}
		want := map[string]string{}
		for k, v := range w.cluster {
			want[k] = pr(v)
		}
		if !reflect.DeepEqual(m, want) {
			add("C01/reconstruct", fmt.Sprintf("Synchronization view %v + delivered %v gives %v, the cluster holds %v", w.syncView, w.deliv, m, want))
		}
	}
	return
}

func replayCase(n int, c Case, ms *metric_storage.MetricStorage) Result {
	eventTypes, steps := c.EventTypes, c.Steps
	if c.Filter == "" {
		c.Filter, c.Proj = "object", "p"
	}
	res := Result{Case: n, OK: true}
	w := newWorld(eventTypes, c.Filter, c.Proj, ms)
	defer func() {
		verifhook.Set(nil)
		w.s.Abandon(w.procs...)
	}()
	diverged := false
	forcedQuiet := false
	for i := 1; i < len(steps); i++ {
		res.Steps = i
		sig, err := w.step(steps[i], steps[i-1])
		if err != nil {
			res.OK = false
			res.Sig, res.Detail, res.BadStep = sig, fmt.Sprintf("%v (action %v)", err, steps[i]["act"]), i
			diverged = true
			break
		}
		if esc := w.probeBlocked(steps[i]); esc != "" {
			// a goroutine went ahead although the unlock holds eventBufLock across its replay: the mutual exclusion
			// the protocol relies on is gone. Let everything run to the end and judge what the hook would have seen.
			w.finishFree()
			res.OK = false
			res.Sig, res.Detail, res.BadStep = "DIV/lock-not-held", esc, i
			diverged = true
			forcedQuiet = true
			break
		}
		if what, d := w.compare(steps[i]); what != "" {
			res.OK = false
			res.Sig, res.Detail, res.BadStep = "DIV/state/"+what+"/"+fmt.Sprint(steps[i]["act"].([]interface{})[0]), d, i
			if what == "cache" {
				res.Sig = "C08/cache-not-updated/" + c.Filter
			}
			if what == "buffer" && fmt.Sprint(steps[i]["act"].([]interface{})[0]) == "HW_NoFire" {
				res.Sig = "C08/fired-although-type-not-listed/" + c.Filter
				res.Detail = fmt.Sprintf("the event type of the change is not in executeHookOnEvent %v, yet an event was recorded for the hook: %s", c.EventTypes, d)
			}
			diverged = true
			break
		}
	}
	res.Fired = len(w.fired)
	quiet := (!diverged && specQuiet(steps[len(steps)-1])) || forcedQuiet
	res.Quiet = quiet
	sigs, details := w.oracle(eventTypes, quiet)
	if len(sigs) > 0 {
		// property failures take precedence over a divergence note
		if !diverged || !strings.HasPrefix(res.Sig, "C0") {
			res.OK = false
			res.Sig, res.Detail = sigs[0], details[0]
		}
		sort.Strings(sigs)
		res.Lost = sigs
	}
	return res
}

type Case struct {
	Filter     string   `json:"filter"` // catalogue name of the jqFilter
	Proj       string   `json:"proj"`   // the spec's ProjMode: p | whole | const
	EventTypes []string `json:"eventTypes"`
	Steps      []State  `json:"steps"`
}

func main() {
	os.Setenv("QUEUE_ACTIONS_METRICS", "no")
	fs := flag.NewFlagSet("ki", flag.ExitOnError)
	in := fs.String("in", "", "")
	out := fs.String("out", "", "")
	runs := fs.Int("n", 50, "")
	seed := fs.Int64("seed", 1, "")
	if len(os.Args) < 2 || (os.Args[1] != "replay" && os.Args[1] != "stress") {
		fmt.Fprintln(os.Stderr, "usage: ki replay -in f -out f | ki stress -out f -n N -seed S")
		os.Exit(2)
	}
	fs.Parse(os.Args[2:])
	if os.Args[1] == "stress" {
		log.SetDefault(log.NewNop())
		if err := cmdStress(*out, *runs, *seed); err != nil {
			fmt.Fprintln(os.Stderr, "ki stress:", err)
			os.Exit(2)
		}
		return
	}
	f, err := os.Open(*in)
	if err != nil {
		fmt.Fprintln(os.Stderr, err)
		os.Exit(2)
	}
	var cases []Case
	sc := bufio.NewScanner(f)
	sc.Buffer(make([]byte, 1<<20), 1<<28)
	for sc.Scan() {
		var c Case
		if err := json.Unmarshal(sc.Bytes(), &c); err != nil {
			fmt.Fprintln(os.Stderr, err)
			os.Exit(2)
		}
		cases = append(cases, c)
	}
	if !supervise.IsChild() {
		err := supervise.Run(len(cases), *out, 30*time.Second, func(idx int, why string) interface{} {
			return Result{Case: idx, OK: false, Sig: "C01/crash", Detail: why}
		})
		if err != nil {
			fmt.Fprintln(os.Stderr, "ki:", err)
			os.Exit(2)
		}
		return
	}
	ms := metric_storage.NewMetricStorage(context.Background(), "verif_", true, log.NewNop())
	of, err := os.OpenFile(*out, os.O_APPEND|os.O_WRONLY|os.O_CREATE, 0o644)
	if err != nil {
		fmt.Fprintln(os.Stderr, err)
		os.Exit(2)
	}
	defer of.Close()
	for n := supervise.Skip(); n < len(cases); n++ {
		r := replayCase(n, cases[n], ms)
		b, _ := json.Marshal(r)
		of.Write(append(b, '\n'))
	}
}
