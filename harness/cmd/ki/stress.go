//go:build verif

package main

import (
	"bufio"
	"context"
	"encoding/json"
	"fmt"
	"math/rand"
	"os"
	"sync"
	"time"

	"github.com/deckhouse/deckhouse/pkg/log"
	metav1 "k8s.io/apimachinery/pkg/apis/meta/v1"
	"k8s.io/apimachinery/pkg/apis/meta/v1/unstructured"
	"k8s.io/apimachinery/pkg/runtime/schema"

	"github.com/flant/kube-client/fake"
	kem "github.com/flant/shell-operator/pkg/kube_events_manager"
	kemtypes "github.com/flant/shell-operator/pkg/kube_events_manager/types"
	metricstorage "github.com/flant/shell-operator/pkg/metric_storage"

	"verifharness/internal/fakewatch"
)

// cmdStress records free-running executions of the real KubeEventsManager (client-go informers on the fake cluster,
// monitor callback, capacity-1 channel) with a consumer that is stalled or slow: one record per mutation (before it
// is issued) and one per event received, in real-time order. TLC validates the file against KubeDelivery.tla.
func cmdStress(out string, runs int, seed int64) error {
	of, err := os.Create(out)
	if err != nil {
		return err
	}
	defer of.Close()
	w := bufio.NewWriter(of)
	defer w.Flush()
	var mu sync.Mutex
	emit := func(m map[string]interface{}) {
		mu.Lock()
		b, _ := json.Marshal(m)
		w.Write(append(b, '\n'))
		mu.Unlock()
	}
	kem.DefaultSyncTime = 50 * time.Microsecond
	ms := metricstorage.NewMetricStorage(context.Background(), "verif_", true, log.NewNop())
	gvr := schema.GroupVersionResource{Group: "", Version: "v1", Resource: "configmaps"}
	rng := rand.New(rand.NewSource(seed))
	for run := 0; run < runs; run++ {
		emit(map[string]interface{}{"e": "reset", "run": run})
		kem.DefaultFactoryStore.Reset()
		fc := fake.NewFakeCluster(fake.ClusterVersionV121)
		wt, err := fakewatch.Track(fc)
		if err != nil {
			return err
		}
		ctx, cancel := context.WithCancel(context.Background())
		mgr := kem.NewKubeEventsManager(ctx, fc.Client, log.NewNop())
		mgr.WithMetricStorage(ms)
		cfg := &kem.MonitorConfig{}
		cfg.Metadata.MonitorId = "mon"
		cfg.Metadata.DebugName = "verif"
		cfg.Metadata.LogLabels = map[string]string{}
		cfg.Metadata.MetricLabels = map[string]string{"hook": "h", "binding": "b", "queue": "q", "kind": "ConfigMap"}
		cfg.Kind, cfg.ApiVersion = "ConfigMap", "v1"
		cfg.KeepFullObjectsInMemory = true
		cfg.Logger = log.NewNop()
		cfg.WithEventTypes(nil)
		cfg.WithNamespaceSelector(&kemtypes.NamespaceSelector{NameSelector: &kemtypes.NameSelector{MatchNames: []string{"d"}}})
		if err := mgr.AddMonitor(cfg); err != nil {
			cancel()
			return err
		}
		mgr.StartMonitor("mon")
		if err := wt.Wait("configmaps", "d", 1, 5*time.Second); err != nil {
			cancel()
			return err
		}
		mgr.GetMonitor("mon").Snapshot() // the Synchronization run's snapshot
		mgr.GetMonitor("mon").EnableKubeEventCb()
		total := 10 + rng.Intn(50) // the fake watcher buffers at most 100 events
		stall := rng.Intn(3)       // 0: consumer reads at once, 1: stalled until all mutations are issued, 2: slow
		received := make(chan struct{}, 1000)
		crng := rand.New(rand.NewSource(rng.Int63()))
		startConsume := make(chan struct{})
		go func() {
			<-startConsume
			for {
				select {
				case ev := <-mgr.Ch():
					o := ev.Objects[0].Object
					v, _, _ := unstructured.NestedString(o.Object, "data", "v")
					if ev.WatchEvents[0] == kemtypes.WatchEventDeleted {
						v = "none"
					}
					emit(map[string]interface{}{"e": "dlv", "o": o.GetName(), "v": v, "t": string(ev.WatchEvents[0])})
					received <- struct{}{}
					if stall == 2 {
						time.Sleep(time.Duration(crng.Intn(300)) * time.Microsecond)
					}
				case <-ctx.Done():
					return
				}
			}
		}()
		if stall != 1 {
			close(startConsume)
		}
		exists := map[string]bool{}
		cl := fc.Client.Dynamic().Resource(gvr).Namespace("d")
		for n := 1; n <= total; n++ {
			name := fmt.Sprintf("o%d", 1+rng.Intn(3))
			v := fmt.Sprint(n)
			obj := &unstructured.Unstructured{Object: map[string]interface{}{"apiVersion": "v1", "kind": "ConfigMap",
				"metadata": map[string]interface{}{"name": name, "namespace": "d"}, "data": map[string]interface{}{"v": v}}}
			switch {
			case !exists[name]:
				emit(map[string]interface{}{"e": "mut", "o": name, "v": v})
				_, err = cl.Create(ctx, obj, metav1.CreateOptions{})
				exists[name] = true
			case rng.Intn(6) == 0:
				emit(map[string]interface{}{"e": "mut", "o": name, "v": "none"})
				err = cl.Delete(ctx, name, metav1.DeleteOptions{})
				exists[name] = false
			default:
				emit(map[string]interface{}{"e": "mut", "o": name, "v": v})
				_, err = cl.Update(ctx, obj, metav1.UpdateOptions{})
			}
			if err != nil {
				cancel()
				return err
			}
			if rng.Intn(4) == 0 {
				time.Sleep(time.Duration(rng.Intn(200)) * time.Microsecond)
			}
		}
		if stall == 1 {
			close(startConsume)
		}
		// wait for the events (each mutation is one event)
		deadline := time.After(3 * time.Second)
		got := 0
	wait:
		for got < total {
			select {
			case <-received:
				got++
			case <-deadline:
				break wait
			}
		}
		time.Sleep(2 * time.Millisecond) // anything delivered twice would show up now
		emit(map[string]interface{}{"e": "end", "run": run, "mutations": total, "received": got})
		cancel()
		time.Sleep(time.Millisecond)
	}
	return nil
}
