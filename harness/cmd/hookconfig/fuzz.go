//go:build verif

package main

import (
	"encoding/base64"
	"encoding/json"
	"fmt"
	"math/rand"
	"strings"
)

// Byte-level exploration. Not decided by the specification: rendered documents of the model domain are corrupted
// (truncate, flip, delete, splice, duplicate keys, nasty tokens) and the loader must return, without panic, either
// an error or a configuration that can be projected.

const fuzzBatch = 50

var nasty = []string{"\t", "\x00", "&a ", "*a", "<<: *a\n", "!!binary ", "!!float ", "? ", "|\n", ">-\n", "{", "}", "[", "]", ": ", "- ",
	"\"", "'", "\\", "#", "%YAML 1.1\n---\n", "---\n", "...\n", "1e999", "-0", "0x1F", "0o17", ".inf", ".nan", "~", "null", "\xff\xfe",
	" ", "9223372036854775808", "-9223372036854775809", "1.7976931348623157e309", "!!null ''", "!!map", "&x [*x]", "\r\n", "\n\n",
	"*/0 ", "@every 0s", "@every -1s", "TZ=Nowhere ", "? - ", "0-0/0"}

func corrupt(rnd *rand.Rand, data []byte, other []byte, doc map[string]interface{}, isJSON bool) ([]byte, string) {
	d := append([]byte{}, data...)
	if len(d) == 0 {
		return d, "empty"
	}
	switch rnd.Intn(8) {
	case 0:
		return d[:rnd.Intn(len(d))], "truncate"
	case 1:
		n := 1 + rnd.Intn(3)
		for i := 0; i < n; i++ {
			d[rnd.Intn(len(d))] = byte(rnd.Intn(256))
		}
		return d, "flip"
	case 2:
		n := 1 + rnd.Intn(3)
		for i := 0; i < n; i++ {
			d[rnd.Intn(len(d))] ^= 1 << uint(rnd.Intn(8))
		}
		return d, "bitflip"
	case 3:
		a := rnd.Intn(len(d))
		b := a + rnd.Intn(len(d)-a)
		return append(d[:a], d[b:]...), "delete"
	case 4:
		if len(other) == 0 {
			return d, "none"
		}
		a := rnd.Intn(len(other))
		b := a + rnd.Intn(len(other)-a)
		p := rnd.Intn(len(d))
		out := append([]byte{}, d[:p]...)
		out = append(out, other[a:b]...)
		return append(out, d[p:]...), "splice"
	case 5:
		// duplicate key
		if isJSON {
			ks := []string{}
			for k := range doc {
				ks = append(ks, k)
			}
			if len(ks) == 0 {
				return d, "none"
			}
			k := ks[rnd.Intn(len(ks))]
			v, _ := json.Marshal(doc[k])
			kk, _ := json.Marshal(k)
			i := strings.Index(string(d), "{")
			ins := string(kk) + ":" + string(v) + ","
			return []byte(string(d[:i+1]) + ins + string(d[i+1:])), "dupkey"
		}
		lines := strings.SplitAfter(string(d), "\n")
		i := rnd.Intn(len(lines))
		j := rnd.Intn(len(lines))
		out := append([]string{}, lines[:j]...)
		out = append(out, lines[i])
		out = append(out, lines[j:]...)
		return []byte(strings.Join(out, "")), "dupkey"
	case 6:
		p := rnd.Intn(len(d))
		t := nasty[rnd.Intn(len(nasty))]
		out := append([]byte{}, d[:p]...)
		out = append(out, t...)
		return append(out, d[p:]...), "token"
	default:
		// overwrite a stretch with a nasty token
		p := rnd.Intn(len(d))
		t := nasty[rnd.Intn(len(nasty))]
		out := append([]byte{}, d[:p]...)
		out = append(out, t...)
		if p+len(t) < len(d) {
			out = append(out, d[p+len(t):]...)
		}
		return out, "overwrite"
	}
}

func fuzzBatchRun(batch int, cases []Case, seed int64, total int) Result {
	res := Result{Case: batch, OK: true, Outcome: map[string]int{}}
	rnd := rand.New(rand.NewSource(seed*7919 + int64(batch)*104729 + 17))
	render := func(c Case) (map[string]interface{}, []byte, bool) {
		var raw interface{}
		json.Unmarshal(c.Doc, &raw)
		doc, _ := decodeMarkers(raw).(map[string]interface{})
		if rnd.Intn(2) == 0 {
			return doc, renderJSON(doc, rnd.Intn(2) == 0), true
		}
		return doc, renderYAML(doc, &yamlStyle{plain: rnd.Intn(2) == 0, flowSeq: rnd.Intn(2) == 0}), false
	}
	n := fuzzBatch
	if (batch+1)*fuzzBatch > total {
		n = total - batch*fuzzBatch
	}
	for i := 0; i < n; i++ {
		doc, data, isJSON := render(cases[rnd.Intn(len(cases))])
		_, other, _ := render(cases[rnd.Intn(len(cases))])
		rounds := 1 + rnd.Intn(2)
		kinds := []string{}
		for r := 0; r < rounds; r++ {
			var k string
			data, k = corrupt(rnd, data, other, doc, isJSON)
			kinds = append(kinds, k)
		}
		res.Runs++
		r := load(batch, data)
		switch {
		case r.panic != "":
			res.Outcome["panic"]++
			if res.OK {
				res.OK = false
				res.Sig = "C10/panic/" + panicSig(r.stack)
				res.Detail = fmt.Sprintf("LoadAndValidate panicked on corrupted input (%s): %s\n%s", strings.Join(kinds, "+"), r.panic, short(r.stack, 1500))
				res.Input = base64.StdEncoding.EncodeToString(data)
				res.YAML = string(data)
			}
		case r.err != nil:
			res.Outcome["error"]++
		default:
			if _, problem := project(r.cfg); problem != "" {
				res.Outcome["broken-config"]++
				if res.OK {
					res.OK = false
					res.Sig = "C10/bytes/broken-config"
					res.Detail = problem
					res.Input = base64.StdEncoding.EncodeToString(data)
					res.YAML = string(data)
				}
			} else {
				res.Outcome["config"]++
			}
		}
		for _, k := range kinds {
			res.Outcome["mut:"+k]++
		}
	}
	return res
}
